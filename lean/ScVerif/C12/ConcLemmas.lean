import ScVerif.C12.Conc
import ScVerif.C12.RegistryLemmas
/-! The invariant of concurrent `Get`s and its preservation by every atomic step (helper file). -/
namespace ScVerif.C12

/-- Invariant of every configuration reachable from `Conf.start reg0 _ _ names`. -/
structure Inv (cfg : Cfg) (reg0 : Reg) (names : Nat → Name) (c : Conf) : Prop where
  name_eq : ∀ t, (c.th t).name = names t
  mono : ∀ k x, reg0.get k = some x → c.st.reg.get k = some x
  notif_reg : ∀ t cl, (c.th t).pc = .notify cl → c.st.reg.get (names t) = some cl
  notif_new : ∀ t cl, (c.th t).pc = .notify cl → reg0.get (names t) = none
  notif_nolog : ∀ t cl, (c.th t).pc = .notify cl → ∀ e ∈ c.st.log, e.name ≠ names t
  notif_uniq : ∀ t t' cl cl', (c.th t).pc = .notify cl → (c.th t').pc = .notify cl' →
    names t = names t' → t = t'
  log_shape : ∀ e ∈ c.st.log, e.auto = true ∧ e.old = none ∧ reg0.get e.name = none ∧
    c.st.reg.get e.name = e.new ∧ e.new.isSome = true
  log_nodup : (c.st.log.map (·.name)).Nodup
  done_reg : ∀ t cl src, (c.th t).pc = .done (.got cl src) → src ≠ .fallback →
    c.st.reg.get (names t) = some cl
  done_fb : ∀ t cl, (c.th t).pc = .done (.got cl .fallback) → ∃ k, supplies cfg.fallback (names t) k = some cl
  done_nf : ∀ t, (c.th t).pc = .done .notFound → ∃ k, supplies cfg.factory (names t) k = none
  done_kind : ∀ t r, (c.th t).pc = .done r → r = .notFound ∨ ∃ cl src, r = .got cl src
  fresh : ∀ n, reg0.get n = none → c.st.reg.get n ≠ none →
    (∃ t cl, (c.th t).pc = .notify cl ∧ names t = n) ∨ (∃ e ∈ c.st.log, e.name = n)

theorem inv_start (cfg : Cfg) (reg0 : Reg) (k1 k2 : Nat) (names : Nat → Name) :
    Inv cfg reg0 names (Conf.start reg0 k1 k2 names) := by
  constructor <;> simp [Conf.start]

theorem setPc_self (c : Conf) (t : Nat) (pc : PC) : ((c.setPc t pc).th t) = ⟨(c.th t).name, pc⟩ := by
  simp [Conf.setPc]

theorem setPc_other (c : Conf) (t i : Nat) (pc : PC) (h : i ≠ t) : ((c.setPc t pc).th i) = c.th i := by
  simp [Conf.setPc, h]

theorem setPc_st (c : Conf) (t : Nat) (pc : PC) : (c.setPc t pc).st = c.st := rfl

/-- Preservation when a step only changes thread `t`'s program counter to something that is neither
`notify` nor a `done` with obligations, leaving registry and log alone. -/
theorem inv_setPc_plain {cfg : Cfg} {reg0 : Reg} {names : Nat → Name} {c : Conf}
    (h : Inv cfg reg0 names c) (t : Nat) (st' : St) (pc : PC)
    (hreg : st'.reg = c.st.reg) (hlog : st'.log = c.st.log)
    (hnot : ∀ cl, (c.th t).pc ≠ .notify cl)
    (hpc1 : ∀ cl, pc ≠ .notify cl)
    (hpc2 : ∀ cl src, pc = .done (.got cl src) → src ≠ .fallback → c.st.reg.get (names t) = some cl)
    (hpc3 : ∀ cl, pc = .done (.got cl .fallback) → ∃ k, supplies cfg.fallback (names t) k = some cl)
    (hpc4 : pc = .done .notFound → ∃ k, supplies cfg.factory (names t) k = none)
    (hpc5 : ∀ r, pc = .done r → r = .notFound ∨ ∃ cl src, r = .got cl src) :
    Inv cfg reg0 names (({ c with st := st' } : Conf).setPc t pc) := by
  have hth : ∀ i, ((({ c with st := st' } : Conf).setPc t pc).th i) =
      if i = t then ⟨(c.th t).name, pc⟩ else c.th i := by
    intro i; simp [Conf.setPc]
  have hst : ((({ c with st := st' } : Conf).setPc t pc).st) = st' := rfl
  constructor
  · intro i; rw [hth]; split
    · next e => subst e; exact h.name_eq i
    · exact h.name_eq i
  · intro k x hk; rw [hst, hreg]; exact h.mono k x hk
  · intro i cl hi; rw [hth] at hi; rw [hst, hreg]
    split at hi
    · exact absurd hi (hpc1 cl)
    · exact h.notif_reg i cl hi
  · intro i cl hi; rw [hth] at hi
    split at hi
    · exact absurd hi (hpc1 cl)
    · exact h.notif_new i cl hi
  · intro i cl hi; rw [hth] at hi; rw [hst, hlog]
    split at hi
    · exact absurd hi (hpc1 cl)
    · exact h.notif_nolog i cl hi
  · intro i j cl cl' hi hj; rw [hth] at hi hj
    split at hi
    · exact absurd hi (hpc1 cl)
    · split at hj
      · exact absurd hj (hpc1 cl')
      · exact h.notif_uniq i j cl cl' hi hj
  · intro e he; rw [hst, hlog] at he; rw [hst, hreg]; exact h.log_shape e he
  · rw [hst, hlog]; exact h.log_nodup
  · intro i cl src hi hs; rw [hth] at hi; rw [hst, hreg]
    split at hi
    · next e => subst e; exact hpc2 cl src hi hs
    · exact h.done_reg i cl src hi hs
  · intro i cl hi; rw [hth] at hi
    split at hi
    · next e => subst e; exact hpc3 cl hi
    · exact h.done_fb i cl hi
  · intro i hi; rw [hth] at hi
    split at hi
    · next e => subst e; exact hpc4 hi
    · exact h.done_nf i hi
  · intro i r hi; rw [hth] at hi
    split at hi
    · exact hpc5 r hi
    · exact h.done_kind i r hi
  · intro n hn hr; rw [hst, hreg] at hr
    rcases h.fresh n hn hr with ⟨i, cl, hi, hin⟩ | ⟨e, he, hen⟩
    · left; refine ⟨i, cl, ?_, hin⟩
      rw [hth]; split
      · next e => subst e; exact absurd hi (hnot cl)
      · exact hi
    · right; exact ⟨e, by rw [hst, hlog]; exact he, hen⟩

theorem supplies_of_invoke {f : Option Factory} {n : Name} {k : Nat} :
    (invoke f n k).1 = supplies f n k := by
  rw [invoke_eq]

/-- The `insert` step when the name is still absent. -/
theorem inv_insert {cfg : Cfg} {reg0 : Reg} {names : Nat → Name} {c : Conf}
    (h : Inv cfg reg0 names c) (t : Nat) (cl : Client) (hpc : (c.th t).pc = .insert cl)
    (hnone : c.st.reg.get (names t) = none) :
    Inv cfg reg0 names
      (({ c with st := { c.st with reg := c.st.reg.set (names t) cl } } : Conf).setPc t (.notify cl)) := by
  have hth : ∀ i, ((({ c with st := { c.st with reg := c.st.reg.set (names t) cl } } : Conf).setPc t
      (.notify cl)).th i) = if i = t then ⟨(c.th t).name, .notify cl⟩ else c.th i := by
    intro i; simp [Conf.setPc]
  have hreg : ∀ k, k ≠ names t → (c.st.reg.set (names t) cl).get k = c.st.reg.get k := by
    intro k hk; rw [Reg.get_set]; simp [hk]
  have hregt : (c.st.reg.set (names t) cl).get (names t) = some cl := by rw [Reg.get_set]; simp
  have hsome : ∀ k x, c.st.reg.get k = some x → (c.st.reg.set (names t) cl).get k = some x := by
    intro k x hk
    have : k ≠ names t := by intro e; rw [e, hnone] at hk; cases hk
    rw [hreg k this]; exact hk
  constructor
  · intro i; rw [hth]; split
    · next e => subst e; exact h.name_eq i
    · exact h.name_eq i
  · intro k x hk; exact hsome k x (h.mono k x hk)
  · intro i c' hi; rw [hth] at hi
    split at hi
    · next e => subst e; simp at hi; subst hi; exact hregt
    · exact hsome _ _ (h.notif_reg i c' hi)
  · intro i c' hi; rw [hth] at hi
    split at hi
    · next e =>
      subst e
      cases hr : reg0.get (names i) with
      | none => rfl
      | some x => have := h.mono _ _ hr; rw [hnone] at this; cases this
    · exact h.notif_new i c' hi
  · intro i c' hi; rw [hth] at hi
    split at hi
    · next e =>
      subst e
      intro e he hen
      have := (h.log_shape e he).2.2.2
      rw [hen, hnone] at this
      rw [← this.1] at this; simp at this
    · exact h.notif_nolog i c' hi
  · intro i j c1 c2 hi hj hn; rw [hth] at hi hj
    split at hi
    · next ei =>
      split at hj
      · next ej => rw [ei, ej]
      · have := h.notif_reg j c2 hj; rw [← hn, ei, hnone] at this; cases this
    · split at hj
      · next ej => have := h.notif_reg i c1 hi; rw [hn, ej, hnone] at this; cases this
      · exact h.notif_uniq i j c1 c2 hi hj hn
  · intro e he
    obtain ⟨a, b, c0, d, f⟩ := h.log_shape e he
    refine ⟨a, b, c0, ?_, f⟩
    cases hnew : e.new with
    | none => rw [hnew] at f; cases f
    | some x => rw [hnew] at d; exact hsome _ _ d
  · exact h.log_nodup
  · intro i c' src hi hs; rw [hth] at hi
    split at hi
    · simp at hi
    · exact hsome _ _ (h.done_reg i c' src hi hs)
  · intro i c' hi; rw [hth] at hi
    split at hi
    · simp at hi
    · exact h.done_fb i c' hi
  · intro i hi; rw [hth] at hi
    split at hi
    · simp at hi
    · exact h.done_nf i hi
  · intro i r hi; rw [hth] at hi
    split at hi
    · simp at hi
    · exact h.done_kind i r hi
  · intro n hn hr
    by_cases hnt : n = names t
    · left; exact ⟨t, cl, by rw [hth]; simp, hnt.symm⟩
    · have hr' : c.st.reg.get n ≠ none := by
        have := hreg n hnt
        intro e; apply hr
        show (c.st.reg.set (names t) cl).get n = none
        rw [this]; exact e
      rcases h.fresh n hn hr' with ⟨i, c', hi, hin⟩ | ⟨e, he, hen⟩
      · left; refine ⟨i, c', ?_, hin⟩
        rw [hth]; split
        · next e => subst e; rw [hpc] at hi; cases hi
        · exact hi
      · right; exact ⟨e, he, hen⟩

/-- The `notify` step. -/
theorem inv_notify {cfg : Cfg} {reg0 : Reg} {names : Nat → Name} {c : Conf}
    (h : Inv cfg reg0 names c) (t : Nat) (cl : Client) (hpc : (c.th t).pc = .notify cl) :
    Inv cfg reg0 names
      (({ c with st := { c.st with log := c.st.log ++ [⟨names t, none, some cl, true⟩] } } : Conf).setPc t
        (.done (.got cl .factory))) := by
  have hth : ∀ i, ((({ c with st := { c.st with log := c.st.log ++ [⟨names t, none, some cl, true⟩] } } :
      Conf).setPc t (.done (.got cl .factory))).th i) =
      if i = t then ⟨(c.th t).name, .done (.got cl .factory)⟩ else c.th i := by
    intro i; simp [Conf.setPc]
  have hreg0 : reg0.get (names t) = none := h.notif_new t cl hpc
  have hregt := h.notif_reg t cl hpc
  have hnolog := h.notif_nolog t cl hpc
  constructor
  · intro i; rw [hth]; split
    · next e => subst e; exact h.name_eq i
    · exact h.name_eq i
  · exact h.mono
  · intro i c' hi; rw [hth] at hi
    split at hi
    · simp at hi
    · exact h.notif_reg i c' hi
  · intro i c' hi; rw [hth] at hi
    split at hi
    · simp at hi
    · exact h.notif_new i c' hi
  · intro i c' hi; rw [hth] at hi
    split at hi
    · simp at hi
    · next hne =>
      intro e he
      change e ∈ c.st.log ++ [_] at he
      simp only [List.mem_append, List.mem_singleton] at he
      rcases he with he | he
      · exact h.notif_nolog i c' hi e he
      · subst he
        intro hn
        exact hne (h.notif_uniq i t c' cl hi hpc hn.symm)
  · intro i j c1 c2 hi hj hn; rw [hth] at hi hj
    split at hi
    · simp at hi
    · split at hj
      · simp at hj
      · exact h.notif_uniq i j c1 c2 hi hj hn
  · intro e he
    change e ∈ c.st.log ++ [_] at he
    simp only [List.mem_append, List.mem_singleton] at he
    rcases he with he | he
    · exact h.log_shape e he
    · subst he; exact ⟨rfl, rfl, hreg0, hregt, rfl⟩
  · show ((c.st.log ++ [(⟨names t, none, some cl, true⟩ : Change)]).map (·.name)).Nodup
    simp only [List.map_append, List.map_cons, List.map_nil]
    rw [List.nodup_append]
    refine ⟨h.log_nodup, by simp, ?_⟩
    intro a ha b hb
    simp only [List.mem_singleton] at hb
    subst hb
    simp only [List.mem_map] at ha
    obtain ⟨e, he, hea⟩ := ha
    intro hab
    exact hnolog e he (by rw [hea, hab])
  · intro i c' src hi hs; rw [hth] at hi
    split at hi
    · next e => subst e; simp at hi; rw [← hi.1]; exact hregt
    · exact h.done_reg i c' src hi hs
  · intro i c' hi; rw [hth] at hi
    split at hi
    · simp at hi
    · exact h.done_fb i c' hi
  · intro i hi; rw [hth] at hi
    split at hi
    · simp at hi
    · exact h.done_nf i hi
  · intro i r hi; rw [hth] at hi
    split at hi
    · simp at hi; right; exact ⟨cl, .factory, hi.symm⟩
    · exact h.done_kind i r hi
  · intro n hn hr
    rcases h.fresh n hn hr with ⟨i, c', hi, hin⟩ | ⟨e, he, hen⟩
    · by_cases hit : i = t
      · right; subst hit
        exact ⟨⟨names i, none, some cl, true⟩, by
          show _ ∈ c.st.log ++ [_]
          simp, hin⟩
      · left; exact ⟨i, c', by rw [hth]; simp [hit]; exact hi, hin⟩
    · right; exact ⟨e, by
        show e ∈ c.st.log ++ [_]
        simp [he], hen⟩

/-- Every atomic step preserves the invariant. -/
theorem inv_cstep {cfg : Cfg} {reg0 : Reg} {names : Nat → Name} {c : Conf}
    (h : Inv cfg reg0 names c) (t : Nat) : Inv cfg reg0 names (cstep cfg c t) := by
  have hname := h.name_eq t
  unfold cstep
  simp only [hname]
  cases hpc : (c.th t).pc with
  | lookup =>
    simp only
    cases hg : c.st.reg.get (names t) with
    | none =>
      exact inv_setPc_plain (c := c) h t c.st .fallback rfl rfl (by simp [hpc]) (by simp) (by simp) (by simp)
        (by simp) (by simp)
    | some x =>
      exact inv_setPc_plain (c := c) h t c.st _ rfl rfl (by simp [hpc]) (by simp)
        (by intro cl src e _; simp at e; rw [← e.1]; exact hg) (by simp) (by simp)
        (by intro r e; simp at e; right; exact ⟨x, .registered, e.symm⟩)
  | fallback =>
    simp only
    have key : ∀ st' : St, st'.reg = c.st.reg → st'.log = c.st.log →
        Inv cfg reg0 names
          (match (invoke cfg.fallback (names t) c.st.nfb).1 with
           | some cl => (({ c with st := st' } : Conf)).setPc t (.done (.got cl .fallback))
           | none => (({ c with st := st' } : Conf)).setPc t .factory) := by
      intro st' h1 h2
      cases hi : (invoke cfg.fallback (names t) c.st.nfb).1 with
      | none =>
        exact inv_setPc_plain h t st' .factory h1 h2 (by simp [hpc]) (by simp) (by simp) (by simp) (by simp) (by simp)
      | some x =>
        exact inv_setPc_plain h t st' _ h1 h2 (by simp [hpc]) (by simp) (by intro cl src e hs; simp at e; exact absurd e.2.symm hs)
          (by intro cl e; simp at e; subst e; exact ⟨c.st.nfb, by rw [← supplies_of_invoke]; exact hi⟩) (by simp)
          (by intro r e; simp at e; right; exact ⟨x, .fallback, e.symm⟩)
    by_cases hc : (invoke cfg.fallback (names t) c.st.nfb).2 = true
    · simp only [hc, if_true]; exact key _ rfl rfl
    · simp only [hc]; exact key c.st rfl rfl
  | factory =>
    simp only
    have key : ∀ st' : St, st'.reg = c.st.reg → st'.log = c.st.log →
        Inv cfg reg0 names
          (match (invoke cfg.factory (names t) c.st.nfac).1 with
           | some cl => (({ c with st := st' } : Conf)).setPc t (.insert cl)
           | none => (({ c with st := st' } : Conf)).setPc t (.done .notFound)) := by
      intro st' h1 h2
      cases hi : (invoke cfg.factory (names t) c.st.nfac).1 with
      | none =>
        exact inv_setPc_plain h t st' _ h1 h2 (by simp [hpc]) (by simp) (by simp) (by simp)
          (by intro _; exact ⟨c.st.nfac, by rw [← supplies_of_invoke]; exact hi⟩) (by simp)
      | some x =>
        exact inv_setPc_plain h t st' _ h1 h2 (by simp [hpc]) (by simp) (by simp) (by simp) (by simp) (by simp)
    by_cases hc : (invoke cfg.factory (names t) c.st.nfac).2 = true
    · simp only [hc, if_true]; exact key _ rfl rfl
    · simp only [hc]; exact key c.st rfl rfl
  | insert cl =>
    simp only
    cases hg : c.st.reg.get (names t) with
    | none => exact inv_insert h t cl hpc hg
    | some x =>
      exact inv_setPc_plain (c := c) h t c.st _ rfl rfl (by simp [hpc]) (by simp)
        (by intro cl src e _; simp at e; rw [← e.1]; exact hg) (by simp) (by simp)
        (by intro r e; simp at e; right; exact ⟨x, .registered, e.symm⟩)
  | notify cl => exact inv_notify h t cl hpc
  | done r => exact h

theorem inv_crun {cfg : Cfg} {reg0 : Reg} {names : Nat → Name} {c : Conf}
    (h : Inv cfg reg0 names c) (sched : List Nat) : Inv cfg reg0 names (crun cfg c sched) := by
  induction sched generalizing c with
  | nil => exact h
  | cons t ts ih => exact ih (inv_cstep h t)

end ScVerif.C12

namespace ScVerif.C12

/-- Number of atomic steps a thread still has to take at most. -/
def PC.rank : PC → Nat
  | .lookup => 5
  | .fallback => 4
  | .factory => 3
  | .insert _ => 2
  | .notify _ => 1
  | .done _ => 0

theorem cstep_other (cfg : Cfg) (c : Conf) (t i : Nat) (h : i ≠ t) : (cstep cfg c t).th i = c.th i := by
  unfold cstep
  simp only
  split
  · split <;> simp [Conf.setPc, h]
  · split <;> split <;> simp [Conf.setPc, h]
  · split <;> split <;> simp [Conf.setPc, h]
  · split <;> simp [Conf.setPc, h]
  · simp [Conf.setPc, h]
  · rfl

theorem cstep_rank_self (cfg : Cfg) (c : Conf) (t : Nat) :
    ((cstep cfg c t).th t).pc.rank ≤ (c.th t).pc.rank - 1 := by
  unfold cstep
  simp only
  split
  · next h => rw [h]; split <;> simp [Conf.setPc, PC.rank]
  · next h => rw [h]; split <;> split <;> simp [Conf.setPc, PC.rank]
  · next h => rw [h]; split <;> split <;> simp [Conf.setPc, PC.rank]
  · next h => rw [h]; split <;> simp [Conf.setPc, PC.rank]
  · next h => rw [h]; simp [Conf.setPc, PC.rank]
  · next h => rw [h]; simp [PC.rank]

theorem crun_rank (cfg : Cfg) (c : Conf) (sched : List Nat) (t : Nat) :
    ((crun cfg c sched).th t).pc.rank ≤ (c.th t).pc.rank - sched.count t := by
  induction sched generalizing c with
  | nil => simp [crun]
  | cons u us ih =>
    simp only [crun]
    have := ih (cstep cfg c u)
    by_cases hu : u = t
    · subst hu
      have h1 := cstep_rank_self cfg c u
      simp only [List.count_cons_self]
      omega
    · have h1 : (cstep cfg c u).th t = c.th t := cstep_other cfg c u t (fun e => hu e.symm)
      rw [h1] at this
      simp only [List.count_cons, beq_iff_eq, hu, if_false, Nat.add_zero]
      exact this

end ScVerif.C12
