import ScVerif.C12.Naming
/-! Lemmas about the generators' naming functions (helper file: no property theorems here). -/
namespace ScVerif.C12

theorem endsPb_append_pb (s : Str) : endsPb (s ++ ['p', 'b']) = true := by
  simp [endsPb]

theorem endsPb_withPb (s : Str) : endsPb (withPb s) = true := by
  unfold withPb
  split
  · assumption
  · exact endsPb_append_pb s

theorem withPb_of_endsPb (s : Str) (h : endsPb s = true) : withPb s = s := by
  simp [withPb, h]

theorem not_mem_dropUnderscores (s : Str) : '_' ∉ dropUnderscores s := by
  simp [dropUnderscores]

theorem dropUnderscores_of_not_mem (s : Str) (h : '_' ∉ s) : dropUnderscores s = s := by
  unfold dropUnderscores
  rw [List.filter_eq_self]
  intro c hc
  simp only [bne_iff_ne, ne_eq]
  intro hcu; subst hcu; exact h hc

theorem not_mem_withPb (s : Str) (h : '_' ∉ s) : '_' ∉ withPb s := by
  unfold withPb
  split
  · exact h
  · simp [h]

theorem traits_not_endsPb : endsPb "traits".toList = false := by decide

/-- What `trimPrefixIgnoreCase` cuts off is nothing, or a prefix that equals `pre` up to letter case. -/
theorem trimPrefixIgnoreCase_suffix (s pre : Str) :
    ∃ cut, s = cut ++ trimPrefixIgnoreCase s pre ∧ (cut = [] ∨ lowerS cut = lowerS pre) := by
  unfold trimPrefixIgnoreCase
  split
  · next h =>
    refine ⟨s.take pre.length, (List.take_append_drop _ _).symm, Or.inr ?_⟩
    have hp : lowerS pre <+: lowerS s := List.isPrefixOf_iff_prefix.mp h
    have := List.prefix_iff_eq_take.mp hp
    simp only [lowerS, List.length_map] at this ⊢
    rw [this, List.map_take]
  · exact ⟨[], rfl, Or.inl rfl⟩

/-- A name that starts with an upper-case letter (or any character `toUpper` leaves alone) is kept. -/
theorem capFirst_of_upper (c : Char) (cs : Str) (h : c.toUpper = c) : capFirst (c :: cs) = c :: cs := by
  simp [capFirst, h]

theorem capFirst_append (s t : Str) (h : s ≠ []) : capFirst (s ++ t) = capFirst s ++ t := by
  cases s with
  | nil => exact absurd rfl h
  | cons c cs => simp [capFirst]

end ScVerif.C12
