import ScVerif.C12.Props
import ScVerif.C12.Served
/-! Lemmas about `Served.lean` (helper file: no property theorems here). -/
namespace ScVerif.C12

theorem reqName_replace (d : String) (w : Msg) (nm : String) (hn : nameOf w = some nm) :
    reqName (replaceEmptyName d w) = servedName d nm := by
  have h := (C12_default_name d w).2.2.1 nm hn
  simp [reqName, servedName, h]

theorem filledFrom_replace (d : String) (w : Msg) (nm : String) (hn : nameOf w = some nm) :
    FilledFrom w (replaceEmptyName d w) (servedName d nm) := by
  obtain ⟨h1, h2, h3, _⟩ := C12_default_name d w
  exact ⟨h1, fun i hi hi' hne => h2 i hi hi' hne, h3 nm hn⟩

theorem replace_named (d : String) (m : Msg) (nm : String) (hn : nameOf m = some nm) (hne : nm ≠ "") :
    replaceEmptyName d m = m := by
  unfold nameOf at hn
  unfold replaceEmptyName
  cases hf : findName m with
  | none => rfl
  | some f =>
    obtain ⟨fname, isS, v⟩ := f
    rw [hf] at hn
    cases isS <;> cases v <;> simp_all

theorem setName_setName (d d' : String) (m : Msg) : setName d (setName d' m) = setName d m := by
  induction m with
  | nil => rfl
  | cons g gs ih =>
    simp only [setName]
    split
    · next hg => simp [setName, hg]
    · next hg => simp [setName, hg, ih]

theorem replace_chain (d₁ d₂ : String) (m : Msg) (h : d₁ ≠ "") :
    replaceEmptyName d₂ (replaceEmptyName d₁ m) = replaceEmptyName d₁ m := by
  unfold replaceEmptyName
  cases hf : findName m with
  | none => simp [hf]
  | some f =>
    obtain ⟨fname, isS, v⟩ := f
    cases isS with
    | false => simp [hf]
    | true =>
      cases v with
      | other k => simp [hf]
      | str s =>
        by_cases hs : s = ""
        · subst hs
          have h1 := findName_setName d₁ m _ hf
          simp [h1, h]
        · simp [hf, hs]

theorem replace_idem (d : String) (m : Msg) :
    replaceEmptyName d (replaceEmptyName d m) = replaceEmptyName d m := by
  by_cases h : d = ""
  · subst h
    unfold replaceEmptyName
    cases hf : findName m with
    | none => simp [hf]
    | some f =>
      obtain ⟨fname, isS, v⟩ := f
      cases isS with
      | false => simp [hf]
      | true =>
        cases v with
        | other k => simp [hf]
        | str s =>
          by_cases hs : s = ""
          · subst hs
            have h1 := findName_setName "" m _ hf
            simp [h1, setName_setName]
          · simp [hf, hs]
  · exact replace_chain d d m h

theorem mergeField_zero (f : Field) :
    mergeField { f with val := f.val.zero } f = some f := by
  obtain ⟨n, s, v⟩ := f
  cases v with
  | str b => by_cases hb : b = "" <;> simp [mergeField, FVal.zero, hb]
  | other b => simp [mergeField, FVal.zero]

theorem mergeMsg_zero (w : Msg) : mergeMsg w.zero w = some w := by
  induction w with
  | nil => rfl
  | cons f fs ih =>
    have hz : Msg.zero (f :: fs) = { f with val := f.val.zero } :: Msg.zero fs := by
      simp [Msg.zero]
    rw [hz]
    simp only [mergeMsg, mergeField_zero, ih]
    rfl

end ScVerif.C12
