/-!
# C12 — the router registry (`/repo/pkg/router/router.go`)

Executable model that follows the Go code of `router.Add / Remove / Has / Get`, plus an independent
specification in which the registry is a total function `Name → Option Client`.

Modelling decisions
* a client is an opaque identity (`Nat`); `nil` clients are outside the model (the generated
  `XxxRouter.Add` panics on them before `router.Add` is reached);
* `registry map[string]any` is an association list with *first-match* lookup; `set` pushes in front and
  deletes older bindings, `erase` deletes all bindings — these are the map primitives of Go;
* a `Factory` (`func(string) (any, error)`) is a function of the name and of the number of earlier
  calls to it (so it may return a fresh client on every call, as a real factory does), returning the
  pair `(child, err)`; `invoke` is the Go helper of the same name;
* `onChange` is modelled by the log of the `Change` values it was called with, in call order.
-/
namespace ScVerif.C12

abbrev Name := String
abbrev Client := Nat

/-- The two results of a `Factory` call: `child` (`none` = Go `nil`) and whether `err != nil`. -/
structure FRes where
  child : Option Client
  err : Bool
deriving DecidableEq, Repr

/-- A configured fallback/factory; the `Nat` is the number of earlier calls of this function. -/
abbrev Factory := Name → Nat → FRes

/-- Go `invoke`: `exists = child != nil && err == nil`; a nil `Factory` gives `(nil, false)`.
Returns the child only when it `exists`, and whether the function was called at all. -/
def invoke (f : Option Factory) (n : Name) (k : Nat) : Option Client × Bool :=
  match f with
  | none => (none, false)
  | some g =>
    let r := g n k
    (if r.err then none else r.child, true)

/-- `router.Change`. -/
structure Change where
  name : Name
  old : Option Client
  new : Option Client
  auto : Bool
deriving DecidableEq, Repr

structure Cfg where
  fallback : Option Factory
  factory : Option Factory

abbrev Reg := List (Name × Client)

def Reg.get (r : Reg) (n : Name) : Option Client :=
  match r with
  | [] => none
  | (m, c) :: rest => if m = n then some c else Reg.get rest n

def Reg.erase (r : Reg) (n : Name) : Reg := r.filter (fun p => p.1 ≠ n)

def Reg.set (r : Reg) (n : Name) (c : Client) : Reg := (n, c) :: Reg.erase r n

/-- The state of one router: registry, `onChange` log (call order), number of fallback and factory
calls made so far. -/
structure St where
  reg : Reg
  log : List Change
  nfb : Nat
  nfac : Nat
deriving DecidableEq, Repr

def St.init : St := ⟨[], [], 0, 0⟩

inductive Op where
  | add (n : Name) (c : Client)
  | remove (n : Name)
  | has (n : Name)
  | get (n : Name)
deriving DecidableEq, Repr

/-- How a successful `Get` found its client. -/
inductive Src where
  | registered | fallback | factory
deriving DecidableEq, Repr

inductive Res where
  | prev (c : Option Client)      -- result of Add / Remove
  | bool (b : Bool)               -- result of Has
  | got (c : Client) (src : Src)  -- Get: (child, nil)
  | notFound                      -- Get: (nil, status NotFound)
deriving DecidableEq, Repr

/-- `router.Add`. -/
def add (s : St) (n : Name) (c : Client) : St × Res :=
  let old := s.reg.get n
  ({ s with reg := s.reg.set n c, log := s.log ++ [⟨n, old, some c, false⟩] }, .prev old)

/-- `router.Remove`: nothing happens (and nothing is reported) when the name is absent. -/
def remove (s : St) (n : Name) : St × Res :=
  match s.reg.get n with
  | none => (s, .prev none)
  | some old => ({ s with reg := s.reg.erase n, log := s.log ++ [⟨n, some old, none, false⟩] }, .prev (some old))

/-- `router.Has`. -/
def has (s : St) (n : Name) : St × Res := (s, .bool (s.reg.get n).isSome)

/-- `router.Get` executed without interference, phase by phase as in the Go code:
registry read ▸ fallback ▸ factory ▸ locked re-check / insert ▸ `onChange(Auto)`. -/
def get (cfg : Cfg) (s : St) (n : Name) : St × Res :=
  match s.reg.get n with
  | some c => (s, .got c .registered)
  | none =>
    let (fb, fbCalled) := invoke cfg.fallback n s.nfb
    let s := if fbCalled then { s with nfb := s.nfb + 1 } else s
    match fb with
    | some c => (s, .got c .fallback)
    | none =>
      let (fc, facCalled) := invoke cfg.factory n s.nfac
      let s := if facCalled then { s with nfac := s.nfac + 1 } else s
      match fc with
      | none => (s, .notFound)
      | some c =>
        -- r.mu.Lock(); check again
        match s.reg.get n with
        | some c2 => (s, .got c2 .registered)
        | none => ({ s with reg := s.reg.set n c, log := s.log ++ [⟨n, none, some c, true⟩] }, .got c .factory)

def step (cfg : Cfg) (s : St) : Op → St × Res
  | .add n c => add s n c
  | .remove n => remove s n
  | .has n => has s n
  | .get n => get cfg s n

/-- Run a history; results in order. -/
def run (cfg : Cfg) (s : St) : List Op → St × List Res
  | [] => (s, [])
  | op :: ops =>
    let (s1, r) := step cfg s op
    let (s2, rs) := run cfg s1 ops
    (s2, r :: rs)

/-! ## Specification: the registry is a map (a total function) -/

abbrev SMap := Name → Option Client

def SMap.upd (m : SMap) (n : Name) (v : Option Client) : SMap := fun k => if k = n then v else m k

structure SSt where
  m : SMap
  log : List Change
  nfb : Nat
  nfac : Nat

/-- What `f` supplies for `n` on its `k`-th call (`none`: not configured, nil child, or error). -/
def supplies (f : Option Factory) (n : Name) (k : Nat) : Option Client :=
  match f with
  | none => none
  | some g => if (g n k).err then none else (g n k).child

def called (f : Option Factory) : Nat := if f.isSome then 1 else 0

/-- The specification of one operation: plain map semantics and the documented resolution order. -/
def sstep (cfg : Cfg) (s : SSt) : Op → SSt × Res
  | .add n c => ({ s with m := s.m.upd n (some c), log := s.log ++ [⟨n, s.m n, some c, false⟩] }, .prev (s.m n))
  | .remove n =>
    if (s.m n).isSome then
      ({ s with m := s.m.upd n none, log := s.log ++ [⟨n, s.m n, none, false⟩] }, .prev (s.m n))
    else (s, .prev none)
  | .has n => (s, .bool (s.m n).isSome)
  | .get n =>
    match s.m n with
    | some c => (s, .got c .registered)
    | none =>
      match supplies cfg.fallback n s.nfb with
      | some c => ({ s with nfb := s.nfb + 1 }, .got c .fallback)
      | none =>
        let s := { s with nfb := s.nfb + called cfg.fallback }
        match supplies cfg.factory n s.nfac with
        | some c =>
          ({ s with m := s.m.upd n (some c), nfac := s.nfac + 1, log := s.log ++ [⟨n, none, some c, true⟩] },
            .got c .factory)
        | none => ({ s with nfac := s.nfac + called cfg.factory }, .notFound)

def srun (cfg : Cfg) (s : SSt) : List Op → SSt × List Res
  | [] => (s, [])
  | op :: ops =>
    let (s1, r) := sstep cfg s op
    let (s2, rs) := srun cfg s1 ops
    (s2, r :: rs)

/-- Abstraction of a model state. -/
def St.abs (s : St) : SSt := ⟨s.reg.get, s.log, s.nfb, s.nfac⟩

/-- Replaying a change log over a map: what a listener that only sees `onChange` reconstructs. -/
def replay (m : SMap) : List Change → SMap
  | [] => m
  | c :: cs => replay (m.upd c.name c.new) cs

/-- Every reported change starts from the value the map really had (`Old` is exact). -/
def OldExact (m : SMap) : List Change → Prop
  | [] => True
  | c :: cs => c.old = m c.name ∧ OldExact (m.upd c.name c.new) cs

end ScVerif.C12
