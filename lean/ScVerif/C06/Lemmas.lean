import ScVerif.C05.MaskLemmas
import ScVerif.C06.Get
/-
Lemmas for C06: the nested-mask filter of the code agrees with the path-set projection on
prefix-free clean masks; path-wise characterisation of the projection; `validPath` against an
inductive description of well-formed paths.
-/
namespace ScVerif.C06
open ScVerif.C05

/-- Mask built from already clean paths. -/
abbrev maskOf (ps : List Path) : Mask := Mask.insertAll .nil ps

theorem find_maskOf (k : Name) (ps : List Path) :
    (maskOf ps).find k = if (tails k ps).isEmpty then none else some (maskOf (tails k ps)) := by
  simp [maskOf, Mask.find_insertAll, Mask.find]

theorem contains_nil_iff (ts : List Path) : ts.contains [] = true ↔ [] ∈ ts := by
  simp

mutual
  theorem safeFields_eq_project : ∀ (fs : Fields) (ps : List Path), PrefixFree ps →
      safeFields (maskOf ps) fs = project ps fs
    | .nil, _, _ => by simp [safeFields, project]
    | .cons k v rest, ps, hp => by
      have ihr := safeFields_eq_project rest ps hp
      have ihv := safeVal_eq_projectVal v (tails k ps) (prefixFree_tails hp)
      rw [safeFields, project, find_maskOf]
      cases hts : tails k ps with
      | nil => simp [ihr]
      | cons t ts =>
        simp only [List.isEmpty_cons, Bool.false_eq_true, if_false]
        rw [← hts]
        by_cases hn : [] ∈ tails k ps
        · have hall := prefixFree_all_nil hp hn
          have he : (maskOf (tails k ps)).isEmpty = true := (Mask.insertAll_nil_isEmpty _).mpr hall
          simp [he, hn, ihr]
        · have he : (maskOf (tails k ps)).isEmpty = false := by
            cases hh : (maskOf (tails k ps)).isEmpty with
            | false => rfl
            | true =>
              have hall := (Mask.insertAll_nil_isEmpty _).mp hh
              rw [hts] at hall hn
              exact absurd (by rw [hall t (List.mem_cons_self ..)]; exact List.mem_cons_self ..) hn
          simp [he, hn, ihr, ihv]
  theorem safeVal_eq_projectVal : ∀ (v : Val) (ts : List Path), PrefixFree ts →
      safeVal (maskOf ts) v = projectVal ts v
    | .sc _, _, _ => by simp [safeVal, projectVal]
    | .scs _, _, _ => by simp [safeVal, projectVal]
    | .map _, _, _ => by simp [safeVal, projectVal]
    | .msg fs, ts, hp => by simp [safeVal, projectVal, safeFields_eq_project fs ts hp]
    | .msgs xs, ts, hp => by simp [safeVal, projectVal, safeMsgs_eq_projectMsgs xs ts hp]
  theorem safeMsgs_eq_projectMsgs : ∀ (xs : Msgs) (ts : List Path), PrefixFree ts →
      safeMsgs (maskOf ts) xs = projectMsgs ts xs
    | .nil, _, _ => by simp [safeMsgs, projectMsgs]
    | .cons m rest, ts, hp => by
      simp [safeMsgs, projectMsgs, safeFields_eq_project m ts hp, safeMsgs_eq_projectMsgs rest ts hp]
end

/-! ## The projection, path by path -/

theorem get_project (k : Name) (ps : List Path) : ∀ fs : Fields,
    (project ps fs).get k =
      if (tails k ps).isEmpty then none
      else if (tails k ps).contains [] then fs.get k
      else (fs.get k).map (projectVal (tails k ps))
  | .nil => by simp [project, Fields.get]
  | .cons k' v rest => by
    have ih := get_project k ps rest
    rw [project]
    by_cases h1 : tails k' ps = []
    · by_cases h : k' = k
      · subst h; simp [h1] at ih ⊢; exact ih
      · simp [h1, Fields.get, h] at ih ⊢; exact ih
    · by_cases h2 : [] ∈ tails k' ps
      · by_cases h : k' = k
        · subst h; simp [h1, h2, Fields.get]
        · simp [h1, h2, Fields.get, h] at ih ⊢; exact ih
      · by_cases h : k' = k
        · subst h; simp [h1, h2, Fields.get]
        · simp [h1, h2, Fields.get, h] at ih ⊢; exact ih

/-- `q` is a prefix of some path of `ps`-continuations: membership pushed through `tails`. -/
theorem exists_prefix_tails {k : Name} {p : Path} {ps : List Path} :
    (∃ q ∈ ps, q <+: (k :: p) ∧ q ≠ []) ↔ (∃ t ∈ tails k ps, t <+: p) := by
  constructor
  · rintro ⟨q, hq, hpre, hne⟩
    cases q with
    | nil => exact absurd rfl hne
    | cons a t =>
      have := List.cons_prefix_cons.mp hpre
      obtain ⟨ha, ht⟩ := this
      subst ha
      exact ⟨t, mem_tails.mpr hq, ht⟩
  · rintro ⟨t, ht, hpre⟩
    exact ⟨k :: t, mem_tails.mp ht, List.cons_prefix_cons.mpr ⟨rfl, hpre⟩, by simp⟩

/-- Selected paths survive unchanged: if some path of the mask is a prefix of `p`, the projection
has at `p` exactly what the message has. -/
theorem getPath_project_selected : ∀ (p : Path) (ps : List Path) (fs : Fields),
    (∃ q ∈ ps, q ≠ [] ∧ q <+: p) → (project ps fs).getPath p = fs.getPath p
  | [], _, _, h => by
    obtain ⟨q, _, hne, hpre⟩ := h
    exact absurd (List.prefix_nil.mp hpre) hne
  | [k], ps, fs, h => by
    obtain ⟨q, hq, hne, hpre⟩ := h
    have hq' : q = [k] := by
      cases q with
      | nil => exact absurd rfl hne
      | cons a t =>
        obtain ⟨ha, ht⟩ := List.cons_prefix_cons.mp hpre
        subst ha; rw [List.prefix_nil.mp ht]
    subst hq'
    have hm : [] ∈ tails k ps := mem_tails.mpr hq
    have h1 : (tails k ps).isEmpty = false := by
      cases hh : tails k ps with
      | nil => rw [hh] at hm; exact absurd hm (List.not_mem_nil)
      | cons _ _ => rfl
    simp [Fields.getPath, get_project, h1, hm]
  | k :: k' :: rest, ps, fs, h => by
    obtain ⟨q, hq, hne, hpre⟩ := h
    obtain ⟨t, ht, htpre⟩ := exists_prefix_tails.mp ⟨q, hq, hpre, hne⟩
    have h1 : (tails k ps).isEmpty = false := by
      cases hh : tails k ps with
      | nil => rw [hh] at ht; exact absurd ht (List.not_mem_nil)
      | cons _ _ => rfl
    simp only [Fields.getPath, get_project, h1, Bool.false_eq_true, if_false]
    by_cases h2 : (tails k ps).contains []
    · have h2' : [] ∈ tails k ps := (contains_nil_iff _).mp h2
      simp [h2']
    · simp only [h2, Bool.false_eq_true, if_false]
      have ht0 : t ≠ [] := by
        intro h0; subst h0; exact h2 ((contains_nil_iff _).mpr ht)
      cases hg : fs.get k with
      | none => simp
      | some v =>
        cases v with
        | msg sub =>
          simp only [Option.map_some, projectVal]
          exact getPath_project_selected (k' :: rest) (tails k ps) sub ⟨t, ht, ht0, htpre⟩
        | sc _ => simp [projectVal]
        | scs _ => simp [projectVal]
        | msgs _ => simp [projectVal]
        | map _ => simp [projectVal]

/-- Unselected paths are absent: if no path of the mask is prefix-related to `p`, the projection
has nothing at `p`. -/
theorem getPath_project_unselected : ∀ (p : Path) (ps : List Path) (fs : Fields),
    p ≠ [] → (∀ q ∈ ps, q ≠ [] → ¬ q <+: p ∧ ¬ p <+: q) → (project ps fs).getPath p = none
  | [], _, _, h, _ => absurd rfl h
  | [k], ps, fs, _, h => by
    have h1 : (tails k ps).isEmpty = true := by
      cases hh : tails k ps with
      | nil => rfl
      | cons t ts =>
        have : (k :: t) ∈ ps := mem_tails.mp (by rw [hh]; exact List.mem_cons_self ..)
        exact absurd (List.cons_prefix_cons.mpr ⟨rfl, List.nil_prefix⟩) (h _ this (by simp)).2
    simp [Fields.getPath, get_project, h1]
  | k :: k' :: rest, ps, fs, _, h => by
    simp only [Fields.getPath, get_project]
    by_cases h1 : (tails k ps).isEmpty
    · simp [h1]
    · have hn : ¬ [] ∈ tails k ps := by
        intro hm
        exact (h [k] (mem_tails.mp hm) (by simp)).1 (List.cons_prefix_cons.mpr ⟨rfl, List.nil_prefix⟩)
      have h2 : (tails k ps).contains [] = false := by
        cases hc : (tails k ps).contains [] with
        | false => rfl
        | true => exact absurd ((contains_nil_iff _).mp hc) hn
      simp only [h1, h2, Bool.false_eq_true, if_false]
      cases hg : fs.get k with
      | none => simp
      | some v =>
        cases v with
        | msg sub =>
          simp only [Option.map_some, projectVal]
          apply getPath_project_unselected (k' :: rest) (tails k ps) sub (by simp)
          intro t ht ht0
          have := h (k :: t) (mem_tails.mp ht) (by simp)
          exact ⟨fun hp => this.1 (List.cons_prefix_cons.mpr ⟨rfl, hp⟩),
                 fun hp => this.2 (List.cons_prefix_cons.mpr ⟨rfl, hp⟩)⟩
        | sc _ => simp [projectVal]
        | scs _ => simp [projectVal]
        | msgs _ => simp [projectVal]
        | map _ => simp [projectVal]

/-! ## Validation -/

/-- Well-formed paths of message type `ty`, described independently of `numValidPaths`: a known
field, optionally followed — only below a *singular message* field — by a well-formed path of that
field's type. -/
inductive GoodPath (S : Schema) : Nat → Path → Prop where
  | last {ty : Nat} {seg : Name} {fd : FieldDesc} : S.field ty seg = some fd → GoodPath S ty [seg]
  | step {ty t : Nat} {seg : Name} {fd : FieldDesc} {rest : Path} :
      S.field ty seg = some fd → fd.kind = .message t → GoodPath S t rest → GoodPath S ty (seg :: rest)

theorem validStep_none (S : Schema) : ∀ p : Path, validStep S none p = true → p = []
  | [], _ => rfl
  | _ :: _, h => by simp [validStep] at h

theorem goodPath_ne_nil {S : Schema} {ty : Nat} {p : Path} (h : GoodPath S ty p) : p ≠ [] := by
  cases h <;> simp

theorem validStep_iff (S : Schema) : ∀ (p : Path) (ty : Nat), p ≠ [] →
    (validStep S (some ty) p = true ↔ GoodPath S ty p)
  | [], _, h => absurd rfl h
  | seg :: rest, ty, _ => by
    cases hf : S.field ty seg with
    | none =>
      simp only [validStep, hf, Bool.false_eq_true, false_iff]
      intro hg
      cases hg with
      | last h => rw [hf] at h; cases h
      | step h _ _ => rw [hf] at h; cases h
    | some fd =>
      by_cases hr : rest = []
      · subst hr
        have : validStep S (some ty) [seg] = true := by
          simp only [validStep, hf]; cases fd.kind <;> simp [validStep]
        exact ⟨fun _ => .last hf, fun _ => this⟩
      · cases hk : fd.kind with
        | message t =>
          simp only [validStep, hf, hk]
          rw [validStep_iff S rest t hr]
          constructor
          · intro hg; exact .step hf hk hg
          · intro hg
            cases hg with
            | last h => exact absurd rfl hr
            | step h hk' hg' =>
              rw [hf] at h; cases h
              rw [hk] at hk'; cases hk'
              exact hg'
        | scalar | repScalar | repMessage _ | map =>
          simp only [validStep, hf, hk]
          constructor
          · intro hv; exact absurd (validStep_none S rest hv) hr
          · intro hg
            cases hg with
            | last h => exact absurd rfl hr
            | step h hk' _ => rw [hf] at h; cases h; rw [hk] at hk'; cases hk'

theorem validPath_iff (S : Schema) (ty : Nat) (p : Path) : validPath S ty p = true ↔ GoodPath S ty p := by
  cases p with
  | nil =>
    simp only [validPath, Bool.false_eq_true, false_iff]
    intro h; exact goodPath_ne_nil h rfl
  | cons seg rest => simpa [validPath] using validStep_iff S (seg :: rest) ty (by simp)

/-- No declared field has the empty name (true of every protobuf descriptor). -/
def NoEmptyName (S : Schema) : Prop := ∀ ty : Nat, ∀ fd ∈ S.fields ty, fd.name ≠ ""

theorem project_nil_paths : ∀ fs : Fields, project [] fs = .nil
  | .nil => by simp [project]
  | .cons k v rest => by simp [project, tails, project_nil_paths rest]

theorem goodPath_segments {S : Schema} (hS : NoEmptyName S) :
    ∀ {ty : Nat} {p : Path}, GoodPath S ty p → "" ∉ p := by
  intro ty p h
  induction h with
  | @last ty seg fd hf =>
    have hm := List.mem_of_find?_eq_some hf
    have hn := List.find?_some hf
    simp only [decide_eq_true_eq] at hn
    intro hmem
    simp only [List.mem_singleton] at hmem
    exact hS ty fd hm (by rw [hn]; exact hmem.symm)
  | @step ty t seg fd rest hf _ _ ih =>
    have hm := List.mem_of_find?_eq_some hf
    have hn := List.find?_some hf
    simp only [decide_eq_true_eq] at hn
    intro hmem
    rcases List.mem_cons.mp hmem with h | h
    · exact hS ty fd hm (by rw [hn]; exact h.symm)
    · exact ih h

/-! ## Dropping nested paths does not change the projection -/

mutual
  theorem project_minimal : ∀ (fs : Fields) (ps : List Path), NonNil ps →
      project (minimal ps) fs = project ps fs
    | .nil, _, _ => by simp [project]
    | .cons k v rest, ps, hn => by
      have ihr := project_minimal rest ps hn
      rw [project, project, tails_minimal k ps hn, ihr]
      by_cases h1 : tails k ps = []
      · simp [h1, minimal]
      · have h1' : minimal (tails k ps) ≠ [] := fun e => h1 ((minimal_eq_nil_iff _).mp e)
        by_cases h2 : [] ∈ tails k ps
        · have h2' := (nil_mem_minimal_iff _).mpr h2
          simp [h1, h1', h2, h2']
        · have h2' : ¬ [] ∈ minimal (tails k ps) := fun e => h2 ((nil_mem_minimal_iff _).mp e)
          have hnt : NonNil (tails k ps) := fun t ht e => h2 (e ▸ ht)
          simp [h1, h1', h2, h2', projectVal_minimal v (tails k ps) hnt]
  theorem projectVal_minimal : ∀ (v : Val) (ts : List Path), NonNil ts →
      projectVal (minimal ts) v = projectVal ts v
    | .sc _, _, _ => by simp [projectVal]
    | .scs _, _, _ => by simp [projectVal]
    | .map _, _, _ => by simp [projectVal]
    | .msg fs, ts, h => by simp [projectVal, project_minimal fs ts h]
    | .msgs xs, ts, h => by simp [projectVal, projectMsgs_minimal xs ts h]
  theorem projectMsgs_minimal : ∀ (xs : Msgs) (ts : List Path), NonNil ts →
      projectMsgs (minimal ts) xs = projectMsgs ts xs
    | .nil, _, _ => by simp [projectMsgs]
    | .cons m rest, ts, h => by
      simp [projectMsgs, project_minimal m ts h, projectMsgs_minimal rest ts h]
end

end ScVerif.C06
