import ScVerif.C06.Sched
/-! When do the changes a subscriber receives chain from what it was seeded with?  When no writer is
parked as the subscription opens and every later write publishes before the next one stores
(`Write.steps`: the two halves of a write are adjacent).  `Sched.lean` shows the general case. -/
namespace ScVerif.C06
open ScVerif.C05

/-- What a reader holds per id. -/
abbrev Held := String → Option Fields

def Held.set (h : Held) (id : String) (v : Option Fields) : Held := fun i => if i = id then v else h i

/-- The changes form a chain from `held`: each reports as old value what is held for its id (absent:
`none`), and what it reports as new is held afterwards. -/
def chains : Held → List CollectionChange → Prop
  | _, [] => True
  | h, c :: rest => c.oldValue = h c.id ∧ chains (h.set c.id c.newValue) rest

/-- The body stored under an id. -/
def bodyOf (st : Store) : Held := fun id => (lookup st id).map (·.body)

/-- A write whose two halves are not separated: the writer publishes before anybody else stores. -/
inductive Write where
  | add (id : String) (m : Fields)
  | update (id : String) (m : Fields)
  | delete (id : String)
deriving DecidableEq, Repr

def Write.steps : Write → List Step
  | .add id m => [.add id m, .publish 0]
  | .update id m => [.update id m, .publish 0]
  | .delete id => [.delete id]

theorem lookup_nil (i : String) : lookup [] i = none := rfl

theorem lookup_cons (x : Item) (st : Store) (i : String) :
    lookup (x :: st) i = if x.id = i then some x else lookup st i := by
  unfold lookup
  by_cases h : x.id = i <;> simp [h]

theorem lookup_append_new (e : Item) (i : String) : ∀ st : Store, lookup st e.id = none →
    lookup (st ++ [e]) i = if i = e.id then some e else lookup st i
  | [], _ => by
    simp only [List.nil_append, lookup_cons, lookup_nil]
    by_cases hi : i = e.id
    · simp [hi]
    · simp [hi, Ne.symm hi]
  | x :: st, h => by
    rw [lookup_cons] at h
    by_cases hx : x.id = e.id
    · simp [hx] at h
    · simp only [hx, if_false] at h
      have ih := lookup_append_new e i st h
      simp only [List.cons_append, lookup_cons, ih]
      by_cases hxi : x.id = i
      · have : ¬ i = e.id := fun h' => hx (hxi.trans h')
        simp [hxi, this]
      · simp [hxi]

theorem lookup_map_set (id : String) (e' : Item) (he : e'.id = id) (i : String) : ∀ st : Store,
    lookup (st.map (fun x => if x.id == id then e' else x)) i
      = if i = id then (lookup st id).map (fun _ => e') else lookup st i
  | [] => by simp [lookup_nil]
  | x :: st => by
    have ih := lookup_map_set id e' he i st
    rw [List.map_cons, lookup_cons, ih, lookup_cons, lookup_cons]
    by_cases hx : x.id = id
    · by_cases hi : i = id
      · subst hi; simp [hx, he]
      · have h1 : ¬ id = i := fun h' => hi h'.symm
        simp [hx, hi, h1, he]
    · by_cases hi : i = id
      · subst hi; simp [hx]
      · by_cases hxi : x.id = i
        · simp [hi, hxi]
        · simp [hx, hi, hxi]

theorem lookup_filter_ne (id i : String) : ∀ st : Store,
    lookup (st.filter (fun x => x.id != id)) i = if i = id then none else lookup st i
  | [] => by simp [lookup_nil]
  | x :: st => by
    have ih := lookup_filter_ne id i st
    by_cases hx : x.id = id
    · have hf : (x :: st).filter (fun x => x.id != id) = st.filter (fun x => x.id != id) := by
        simp [hx]
      rw [hf, ih, lookup_cons]
      by_cases hi : i = id
      · simp [hi]
      · have h2 : ¬ x.id = i := fun h' => hi (h'.symm.trans hx)
        simp [hi, h2]
    · have hf : (x :: st).filter (fun x => x.id != id) = x :: st.filter (fun x => x.id != id) := by
        simp [hx]
      rw [hf, lookup_cons, ih, lookup_cons]
      by_cases hi : i = id
      · subst hi; simp [hx]
      · simp [hi]

/-- One undivided write from a world without parked writers: no parked writer afterwards, and what it
publishes (nothing if it is refused) reports the stored body as old value and stores its new value. -/
theorem write_chain (w : World) (hp : w.pending = []) (a : Write) :
    (run w a.steps).1.pending = []
      ∧ chains (bodyOf w.store) (run w a.steps).2
      ∧ ∀ rest, chains (bodyOf (run w a.steps).1.store) rest → chains (bodyOf w.store) ((run w a.steps).2 ++ rest) := by
  cases a with
  | add id m =>
    cases hl : lookup w.store id with
    | some e => simp [Write.steps, run, step, hl, hp, chains]
    | none =>
      have hb : bodyOf (w.store ++ [⟨id, m, w.clock + w.tick⟩]) = (bodyOf w.store).set id (some m) := by
        funext i
        simp only [bodyOf, Held.set, lookup_append_new ⟨id, m, w.clock + w.tick⟩ i w.store hl]
        by_cases hi : i = id <;> simp [hi]
      have ho : bodyOf w.store id = none := by simp [bodyOf, hl]
      simp [Write.steps, run, step, hl, hp, chains, hb, ho]
  | update id m =>
    cases hl : lookup w.store id with
    | none => simp [Write.steps, run, step, hl, hp, chains]
    | some e =>
      have hb : bodyOf (w.store.map (fun x => if x.id == id then ⟨id, m, w.clock + w.tick⟩ else x))
          = (bodyOf w.store).set id (some m) := by
        funext i
        simp only [bodyOf, Held.set, lookup_map_set id ⟨id, m, w.clock + w.tick⟩ rfl i w.store]
        by_cases hi : i = id <;> simp [hi, hl]
      have ho : bodyOf w.store id = some e.body := by simp [bodyOf, hl]
      have hb2 : bodyOf (w.store.map (fun x => if x.id = id then ⟨id, m, w.clock + w.tick⟩ else x))
          = (bodyOf w.store).set id (some m) := by simpa using hb
      simp [Write.steps, run, step, hl, hp, chains, hb2, ho]
  | delete id =>
    cases hl : lookup w.store id with
    | none => simp [Write.steps, run, step, hl, hp, chains]
    | some e =>
      have hb : bodyOf (w.store.filter (fun x => x.id != id)) = (bodyOf w.store).set id none := by
        funext i
        simp only [bodyOf, Held.set, lookup_filter_ne id i w.store]
        by_cases hi : i = id <;> simp [hi]
      have ho : bodyOf w.store id = some e.body := by simp [bodyOf, hl]
      simp [Write.steps, run, step, hl, hp, chains, hb, ho]

theorem writes_chain : ∀ (ws : List Write) (w : World), w.pending = [] →
    chains (bodyOf w.store) (run w (ws.flatMap Write.steps)).2
  | [], w, _ => by simp [run, chains]
  | a :: ws, w, hp => by
    obtain ⟨h1, _, h3⟩ := write_chain w hp a
    have ih := writes_chain ws (run w a.steps).1 h1
    simp only [List.flatMap_cons, run_append]
    exact h3 _ ih

end ScVerif.C06
