import ScVerif.C06.Sched
import ScVerif.C06.PropsColl
/-! Lemmas that carry a property of messages through `pullStream` (seeds and events, any equivalence). -/
namespace ScVerif.C06
open ScVerif.C05

/-- The property of a delivered value: it is the projection of a message satisfying `P`. -/
abbrev ProjOf (P : Fields → Prop) (mask : Option (List Path)) : Fields → Prop :=
  fun v => ∃ u, P u ∧ v = projectMask mask u

theorem projectChange_all (P : Fields → Prop) (mask : Option (List Path)) (c : CollectionChange)
    (hc : c.All P) : (projectChange mask c).All (ProjOf P mask) := by
  constructor
  · intro v hv
    simp only [projectChange] at hv
    cases hn : c.newValue with
    | none => rw [hn] at hv; cases hv
    | some u =>
      rw [hn] at hv
      simp only [projectOpt, Option.some.injEq] at hv
      exact ⟨u, hc.1 u hn, hv.symm⟩
  · intro v hv
    simp only [projectChange] at hv
    cases ho : c.oldValue with
    | none => rw [ho] at hv; cases hv
    | some u =>
      rw [ho] at hv
      simp only [projectOpt, Option.some.injEq] at hv
      exact ⟨u, hc.2 u ho, hv.symm⟩

theorem seedSpec_all (P : Fields → Prop) : ∀ l : List Item, (∀ e ∈ l, P e.body) → ∀ c ∈ seedSpec l, c.All P
  | [], _, c, hc => by cases hc
  | e :: rest, h, c, hc => by
    simp only [seedSpec, List.mem_cons] at hc
    rcases hc with rfl | hc
    · refine ⟨fun v hv => ?_, fun v hv => (by cases hv)⟩
      cases hv
      exact h e (List.mem_cons_self ..)
    · exact seedSpec_all P rest (fun x hx => h x (List.mem_cons_of_mem _ hx)) c hc

theorem pullEvent_all (P : Fields → Prop) (incl : Option Pred) (mask : Option (List Path)) (eq : Equiv)
    (h : Proper mask) (c d : CollectionChange) (hc : c.All P)
    (hd : pullEvent incl mask eq c = some (some d)) : d.All (ProjOf P mask) := by
  rw [pullEvent_eq incl mask eq c h] at hd
  cases hi : c.includeP incl with
  | none => simp [hi] at hd
  | some c' =>
    have hc' := includeP_all P incl c c' hi hc
    simp only [hi, Option.some.injEq] at hd
    cases eq with
    | none =>
      simp only [Option.some.injEq] at hd
      subst hd
      exact projectChange_all P mask c' hc'
    | some cmp =>
      simp only at hd
      split at hd
      · cases hd
      · simp only [Option.some.injEq] at hd
        subst hd
        exact projectChange_all P mask c' hc'

theorem pullEvents_cons_inv (incl : Option Pred) (mask : Option (List Path)) (eq : Equiv)
    (c : CollectionChange) (rest ds : List CollectionChange)
    (hd : pullEvents incl mask eq (c :: rest) = some ds) :
    ∃ o ds', pullEvent incl mask eq c = some o ∧ pullEvents incl mask eq rest = some ds'
      ∧ ds = (match o with | none => ds' | some d => d :: ds') := by
  unfold pullEvents at hd
  cases h1 : pullEvent incl mask eq c with
  | none => simp [h1] at hd
  | some o =>
    cases h2 : pullEvents incl mask eq rest with
    | none => rw [h1, h2] at hd; cases o <;> simp at hd
    | some ds' =>
      rw [h1, h2] at hd
      refine ⟨o, ds', rfl, rfl, ?_⟩
      cases o <;> simp at hd <;> simp [hd]

theorem pullEvents_all (P : Fields → Prop) (incl : Option Pred) (mask : Option (List Path)) (eq : Equiv)
    (h : Proper mask) : ∀ (evs ds : List CollectionChange), (∀ c ∈ evs, c.All P) →
      pullEvents incl mask eq evs = some ds → ∀ d ∈ ds, d.All (ProjOf P mask)
  | [], ds, _, hd, d, hm => by
    simp only [pullEvents, Option.some.injEq] at hd
    subst hd
    cases hm
  | c :: rest, ds, hev, hd, d, hm => by
    obtain ⟨o, ds', h1, h2, rfl⟩ := pullEvents_cons_inv incl mask eq c rest ds hd
    have ih := pullEvents_all P incl mask eq h rest ds'
      (fun x hx => hev x (List.mem_cons_of_mem _ hx)) h2
    cases o with
    | none => exact ih d hm
    | some d0 =>
      rcases List.mem_cons.mp hm with rfl | hm
      · exact pullEvent_all P incl mask eq h c _ (hev c (List.mem_cons_self ..)) h1
      · exact ih d hm

theorem pullStream_all (P : Fields → Prop) (I : Nat → Pred) (rr : ReadRequest) (eq : Equiv) (st : Store)
    (evs : List CollectionChange) (h : Proper rr.readMask) (hst : ∀ e ∈ st, P e.body)
    (hev : ∀ c ∈ evs, c.All P) (ds : List CollectionChange) (hd : pullStream I rr eq st evs = some ds) :
    ∀ d ∈ ds, d.All (ProjOf P rr.readMask) := by
  unfold pullStream at hd
  rw [C06_pull_seeds I rr st h] at hd
  cases hb : pullEvents (rr.incl.map I) rr.responseFilter eq evs with
  | none => rw [hb] at hd; cases hd
  | some b =>
    rw [hb] at hd
    simp only [Option.some.injEq] at hd
    subst hd
    rw [responseFilter_eq] at hb
    intro d hm
    rcases List.mem_append.mp hm with hm | hm
    · split at hm
      · cases hm
      · obtain ⟨c, hc, rfl⟩ := List.mem_map.mp hm
        apply projectChange_all
        apply seedSpec_all P _ _ c hc
        intro e he
        rw [(sortById_perm _).mem_iff] at he
        exact hst e (List.mem_filter.mp he).1
    · exact pullEvents_all P _ _ eq h evs b hev hb d hm

end ScVerif.C06
