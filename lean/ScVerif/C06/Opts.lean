import ScVerif.C06.Get
/-
Model of the read-option plumbing of `pkg/resource/opt.go` and `pkg/masks/get.go`:

* `resource.ReadOption` values (`WithReadMask`, `WithReadPaths`, `WithUpdatesOnly`, `WithBackpressure`,
  `WithInclude`, `EmptyReadOption`) and `ComputeReadConfig`, which applies them IN ORDER to a zero
  `ReadRequest` — so a later read-mask option replaces an earlier one and `WithReadMask(nil)` RESETS
  the mask (openclosepb `GetPositions` relies on it: `append(opts, WithReadMask(nil))`);
* `WithReadPaths(m, paths...)` = `fieldmaskpb.New(m, paths...)`, which panics (when the option is
  built) if a path is not valid for `m`, and yields a non-nil mask without paths for zero paths;
* `ReadRequest.ResponseFilter` / `FilterClone` = `masks.NewResponseFilter(masks.WithFieldMask(rr.ReadMask))`,
  where — unlike `resource.WithReadMask` — `masks.WithFieldMask(nil)` is the EMPTY option.

Independent specification: `lastMask`, the mask of the right-most mask option (recursion from the
right, no state).
-/
namespace ScVerif.C06
open ScVerif.C05

/-- One `resource.ReadOption`.  Include predicates are opaque (named by a number). -/
inductive ReadOpt where
  | readMask (m : Option (List Path))      -- WithReadMask(mask); `none` is Go's nil mask
  | readPaths (ps : List Path)             -- WithReadPaths(msg, paths...)
  | updatesOnly (b : Bool)
  | backpressure (b : Bool)
  | incl (f : Option Nat)                  -- WithInclude(f); `none` is a nil func
  | empty                                  -- EmptyReadOption{}
deriving DecidableEq, Repr

/-- `resource.ReadRequest`. -/
structure ReadRequest where
  readMask : Option (List Path) := none
  updatesOnly : Bool := false
  backpressure : Bool := false
  incl : Option Nat := none
deriving DecidableEq, Repr

/-- `opt.apply(rr)`. -/
def ReadOpt.apply : ReadOpt → ReadRequest → ReadRequest
  | .readMask m, rr => { rr with readMask := m }
  | .readPaths ps, rr => { rr with readMask := some ps }
  | .updatesOnly b, rr => { rr with updatesOnly := b }
  | .backpressure b, rr => { rr with backpressure := b }
  | .incl f, rr => { rr with incl := f }
  | .empty, rr => rr

/-- Building the option does not panic: `fieldmaskpb.New` accepts the paths of a `WithReadPaths`. -/
def ReadOpt.builds (S : Schema) (ty : Nat) : ReadOpt → Bool
  | .readPaths ps => isValid S ty ps
  | _ => true

/-- The loop of `ComputeReadConfig` from an arbitrary request. -/
def applyAll (rr : ReadRequest) (opts : List ReadOpt) : ReadRequest :=
  opts.foldl (fun rr o => o.apply rr) rr

/-- Building the option list, then `ComputeReadConfig(opts...)`; `none` is the panic of a
`WithReadPaths` with a path that is not part of the message. -/
def computeReadConfig (S : Schema) (ty : Nat) (opts : List ReadOpt) : Out ReadRequest :=
  if opts.all (ReadOpt.builds S ty) then some (applyAll {} opts) else none

/-- `masks.NewResponseFilter(opts...)` where every option is a `masks.WithFieldMask(fm)` (or
`WithFieldMaskPaths`, a non-nil mask): a nil mask is the empty option, it configures nothing. -/
def newResponseFilter (opts : List (Option (List Path))) : Option (List Path) :=
  opts.foldl (fun fields o => match o with | none => fields | some ps => some ps) none

/-- `rr.ResponseFilter()`. -/
def ReadRequest.responseFilter (rr : ReadRequest) : Option (List Path) := newResponseFilter [rr.readMask]

/-- `rr.FilterClone(m)`. -/
def ReadRequest.filterClone (rr : ReadRequest) (fs : Fields) : Out Fields :=
  C06.filterClone rr.responseFilter fs

/-- A read (Get / one List item / one Pull value) with an option list: build, configure, project. -/
def readWith (S : Schema) (ty : Nat) (opts : List ReadOpt) (fs : Fields) : Out Fields :=
  match computeReadConfig S ty opts with
  | none => none
  | some rr => rr.filterClone fs

/-! ## Specification -/

/-- The mask an option carries, if it is a read-mask option. -/
def ReadOpt.mask? : ReadOpt → Option (Option (List Path))
  | .readMask m => some m
  | .readPaths ps => some (some ps)
  | _ => none

/-- The mask of the right-most read-mask option (`none`: the list has none). -/
def lastMask : List ReadOpt → Option (Option (List Path))
  | [] => none
  | o :: rest =>
    match lastMask rest with
    | some m => some m
    | none => o.mask?

/-- The effective read mask of an option list: the last one given, nil (everything) if none. -/
def effectiveMask (opts : List ReadOpt) : Option (List Path) := (lastMask opts).getD none

/-! ## Lemmas -/

theorem applyAll_readMask : ∀ (opts : List ReadOpt) (rr : ReadRequest),
    (applyAll rr opts).readMask = (lastMask opts).getD rr.readMask
  | [], rr => by simp [applyAll, lastMask]
  | o :: rest, rr => by
    have ih := applyAll_readMask rest (o.apply rr)
    simp only [applyAll, List.foldl_cons] at ih ⊢
    rw [ih, lastMask]
    cases h : lastMask rest with
    | some m => simp
    | none => cases o <;> simp [ReadOpt.apply, ReadOpt.mask?]

theorem lastMask_append_mask (pre post : List ReadOpt) (o : ReadOpt) (m : Option (List Path))
    (ho : o.mask? = some m) (hpost : ∀ x ∈ post, x.mask? = none) :
    lastMask (pre ++ o :: post) = some m := by
  have hp : lastMask post = none := by
    induction post with
    | nil => rfl
    | cons x xs ih =>
      have hx := hpost x (List.mem_cons_self ..)
      have := ih (fun y hy => hpost y (List.mem_cons_of_mem _ hy))
      simp [lastMask, this, hx]
  induction pre with
  | nil => simp [lastMask, hp, ho]
  | cons x xs ih => simp [lastMask, ih]

theorem lastMask_no_mask (opts : List ReadOpt) (h : ∀ x ∈ opts, x.mask? = none) : lastMask opts = none := by
  induction opts with
  | nil => rfl
  | cons x xs ih =>
    simp [lastMask, ih (fun y hy => h y (List.mem_cons_of_mem _ hy)), h x (List.mem_cons_self ..)]

/-- Options other than the read-mask ones leave the mask alone; the mask options leave the rest alone. -/
theorem applyAll_flags_of_masks : ∀ (opts : List ReadOpt) (rr : ReadRequest),
    (∀ x ∈ opts, x.mask? ≠ none ∨ x = .empty) →
    (applyAll rr opts).updatesOnly = rr.updatesOnly ∧ (applyAll rr opts).backpressure = rr.backpressure
      ∧ (applyAll rr opts).incl = rr.incl
  | [], rr, _ => by simp [applyAll]
  | o :: rest, rr, h => by
    have ih := applyAll_flags_of_masks rest (o.apply rr) (fun y hy => h y (List.mem_cons_of_mem _ hy))
    simp only [applyAll, List.foldl_cons] at ih ⊢
    rw [ih.1, ih.2.1, ih.2.2]
    have ho := h o (List.mem_cons_self ..)
    cases o <;> simp_all [ReadOpt.apply, ReadOpt.mask?]

theorem newResponseFilter_single (m : Option (List Path)) : newResponseFilter [m] = m := by
  cases m <;> simp [newResponseFilter]

theorem newResponseFilter_snoc (opts : List (Option (List Path))) (o : Option (List Path)) :
    newResponseFilter (opts ++ [o]) = match o with | none => newResponseFilter opts | some ps => some ps := by
  simp only [newResponseFilter, List.foldl_append, List.foldl_cons, List.foldl_nil]

/-! ## Where a path may continue -/

/-- `Leads S ty pre t`: the segments `pre` lead from message type `ty` to message type `t`, every one
of them naming a SINGULAR message field (the only kind of field a mask path may continue through). -/
inductive Leads (S : Schema) : Nat → Path → Nat → Prop where
  | here {ty : Nat} : Leads S ty [] ty
  | step {ty t u : Nat} {seg : Name} {fd : FieldDesc} {rest : Path} :
      S.field ty seg = some fd → fd.kind = .message t → Leads S t rest u → Leads S ty (seg :: rest) u

theorem validStep_leads {S : Schema} {ty t : Nat} {pre : Path} (h : Leads S ty pre t) (rest : Path) :
    validStep S (some ty) (pre ++ rest) = validStep S (some t) rest := by
  induction h with
  | here => rfl
  | step hf hk _ ih => simp only [List.cons_append, validStep, hf, hk, ih]

theorem validPath_leads {S : Schema} {ty t : Nat} {pre : Path} (h : Leads S ty pre t) (seg : Name) (rest : Path) :
    validPath S ty (pre ++ seg :: rest) = validStep S (some t) (seg :: rest) := by
  rw [← validStep_leads h]
  unfold validPath
  split
  · next heq => cases pre <;> simp at heq
  · rfl

end ScVerif.C06
