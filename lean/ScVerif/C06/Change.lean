import ScVerif.C06.Get
/-
Model of `pkg/resource/change.go`: `(*ValueChange).filter` and `(*CollectionChange).filter`, which
`Value.Pull`, `Collection.Pull` and `Collection.PullID` apply to every change before it is handed to
a subscriber: the response filter projects the value / the new AND the old value (an absent value —
Go's nil message — stays absent: `FilterClone(nil) = nil`), everything else is copied.
-/
namespace ScVerif.C06
open ScVerif.C05

/-- `types.ChangeType`. -/
inductive ChangeType where
  | unspecified | add | update | remove | replace
deriving DecidableEq, Repr

/-- `resource.ValueChange` (times are opaque instants). -/
structure ValueChange where
  value : Option Fields
  changeTime : Int
  seedValue : Bool
  lastSeedValue : Bool
deriving DecidableEq, Repr

/-- `resource.CollectionChange`. -/
structure CollectionChange where
  id : String
  changeTime : Int
  changeType : ChangeType
  oldValue : Option Fields
  newValue : Option Fields
  seedValue : Bool
  lastSeedValue : Bool
deriving DecidableEq, Repr

/-- `filter.FilterClone(msg)` for a possibly nil message (`none` inside: nil stays nil; the outer
`Out` is the panic channel of `filterClone`). -/
def filterCloneOpt (mask : Option (List Path)) : Option Fields → Out (Option Fields)
  | none => some none
  | some fs => (filterClone mask fs).map some

/-- `(*ValueChange).filter(filter)`. -/
def ValueChange.filter (mask : Option (List Path)) (v : ValueChange) : Out ValueChange :=
  (filterCloneOpt mask v.value).map fun nv => { v with value := nv }

/-- `(*CollectionChange).filter(filter)`. -/
def CollectionChange.filter (mask : Option (List Path)) (c : CollectionChange) : Out CollectionChange :=
  match filterCloneOpt mask c.newValue, filterCloneOpt mask c.oldValue with
  | some nn, some no => some { c with newValue := nn, oldValue := no }
  | _, _ => none

/-- Specification of a delivered value: absent stays absent, present is projected. -/
def projectOpt (mask : Option (List Path)) : Option Fields → Option Fields
  | none => none
  | some fs => some (projectMask mask fs)

end ScVerif.C06
