import ScVerif.C06.Get
/-
"Never mutates" for COMPOSED responses.  Trait-level readers build a fresh container message whose
message-valued fields POINT AT stored messages (`dst.States[i] = position`, `dst.Preset = preset`)
and then project it.  On immutable trees there is nothing to mutate, so this file adds the one level
of sharing that matters: a heap of stored messages (by address) and containers whose fields are
either owned values or references into the heap.

* `filterInPlace`  — `ResponseFilter.Filter(container)`: `filterMessage` recurses INTO the referenced
  messages, i.e. it writes to the heap whenever the mask continues below a reference field;
* `cloneC`         — `proto.Clone(container)`: a deep copy, every field owned;
* `filterCloneH`   — `ResponseFilter.FilterClone(container)` = clone, then filter the clone in place.
-/
namespace ScVerif.C06
open ScVerif.C05

/-- Stored messages by address. -/
abbrev Heap := List Fields

def Heap.read (h : Heap) (a : Nat) : Fields := h.getD a .nil

/-- A field of a container. -/
inductive HVal where
  | own (v : Val)            -- built for this response, nobody else holds it
  | ref (a : Nat)            -- singular message field: the stored message at address `a`
  | refs (as : List Nat)     -- repeated message field: its elements are the stored messages at `as`
deriving DecidableEq, Repr

abbrev Container := List (Name × HVal)

def readAll (h : Heap) : List Nat → Msgs
  | [] => .nil
  | a :: as => .cons (h.read a) (readAll h as)

/-- What a reader of the container sees. -/
def HVal.resolve (h : Heap) : HVal → Val
  | .own v => v
  | .ref a => .msg (h.read a)
  | .refs as => .msgs (readAll h as)

def resolve (h : Heap) : Container → Fields
  | [] => .nil
  | (k, v) :: rest => .cons k (v.resolve h) (resolve h rest)

/-- `filterMessage(list.Get(i).Message(), sub)` for every element: each write goes to the heap. -/
def writeAll (sub : Mask) (h : Heap) : List Nat → Heap
  | [] => h
  | a :: as => writeAll sub (h.set a (safeFields sub (h.read a))) as

/-- Body of `filterMessage(container, mask)` for a non-empty mask, threading the heap. -/
def filterInPlaceFields (mask : Mask) : Heap → Container → Container × Heap
  | h, [] => ([], h)
  | h, (k, v) :: rest =>
    match mask.find k with
    | none => filterInPlaceFields mask h rest              -- msg.Clear(fd): only the container's slot
    | some sub =>
      if sub.isEmpty then
        let r := filterInPlaceFields mask h rest
        ((k, v) :: r.1, r.2)
      else
        match v with
        | .own w =>
          let r := filterInPlaceFields mask h rest
          ((k, .own (safeVal sub w)) :: r.1, r.2)
        | .ref a =>
          let r := filterInPlaceFields mask (h.set a (safeFields sub (h.read a))) rest
          ((k, .ref a) :: r.1, r.2)
        | .refs as =>
          let r := filterInPlaceFields mask (writeAll sub h as) rest
          ((k, .refs as) :: r.1, r.2)

/-- `ResponseFilter.Filter(container)`. -/
def filterInPlace : Option (List Path) → Heap → Container → Container × Heap
  | none, h, c => (c, h)
  | some [], h, _ => ([], h)                               -- proto.Reset(container)
  | some ps, h, c =>
    if (nestedMask ps).isEmpty then (c, h) else filterInPlaceFields (nestedMask ps) h c

/-- `proto.Clone(container)`: a deep copy. -/
def cloneC (h : Heap) : Container → Container
  | [] => []
  | (k, v) :: rest => (k, .own (v.resolve h)) :: cloneC h rest

/-- `ResponseFilter.FilterClone(container)` (for a non-nil mask; a nil mask returns the container itself). -/
def filterCloneH (mask : Option (List Path)) (h : Heap) (c : Container) : Container × Heap :=
  match mask with
  | none => (c, h)
  | some ps => filterInPlace (some ps) h (cloneC h c)

/-- Every field of the container is owned. -/
def AllOwn : Container → Prop
  | [] => True
  | (_, .own _) :: rest => AllOwn rest
  | _ => False

/-- The mask does not continue below a reference field of the container. -/
def FlatOnRefs (mask : Mask) : Container → Prop
  | [] => True
  | (_, .own _) :: rest => FlatOnRefs mask rest
  | (k, _) :: rest => (∀ sub, mask.find k = some sub → sub.isEmpty = true) ∧ FlatOnRefs mask rest

/-! ## Lemmas -/

theorem allOwn_cloneC (h : Heap) : ∀ c : Container, AllOwn (cloneC h c)
  | [] => trivial
  | (_, _) :: rest => by simp only [cloneC, AllOwn]; exact allOwn_cloneC h rest

theorem resolve_cloneC (h h' : Heap) : ∀ c : Container, resolve h' (cloneC h c) = resolve h c
  | [] => rfl
  | (k, v) :: rest => by simp [cloneC, resolve, HVal.resolve, resolve_cloneC h h' rest]

theorem filterInPlaceFields_own (mask : Mask) (h : Heap) : ∀ c : Container, AllOwn c →
    (filterInPlaceFields mask h c).2 = h ∧
    resolve h (filterInPlaceFields mask h c).1 = safeFields mask (resolve h c)
  | [], _ => by simp [filterInPlaceFields, resolve, safeFields]
  | (k, .own w) :: rest, ho => by
    have ih := filterInPlaceFields_own mask h rest ho
    simp only [filterInPlaceFields, resolve, HVal.resolve, safeFields]
    cases hf : mask.find k with
    | none => simpa using ih
    | some sub =>
      cases hs : sub.isEmpty with
      | true => simp [hs, resolve, HVal.resolve, ih.1, ih.2]
      | false => simp [hs, resolve, HVal.resolve, ih.1, ih.2]
  | (_, .ref _) :: _, ho => by simp [AllOwn] at ho
  | (_, .refs _) :: _, ho => by simp [AllOwn] at ho

theorem filterInPlaceFields_flat (mask : Mask) (h : Heap) : ∀ c : Container, FlatOnRefs mask c →
    (filterInPlaceFields mask h c).2 = h
  | [], _ => by simp [filterInPlaceFields]
  | (k, .own w) :: rest, hf => by
    have ih := filterInPlaceFields_flat mask h rest hf
    simp only [filterInPlaceFields]
    cases hm : mask.find k with
    | none => simpa using ih
    | some sub => cases hs : sub.isEmpty <;> simp [hs, ih]
  | (k, .ref a) :: rest, hf => by
    have ih := filterInPlaceFields_flat mask h rest hf.2
    simp only [filterInPlaceFields]
    cases hm : mask.find k with
    | none => simpa using ih
    | some sub => simp [hf.1 sub hm, ih]
  | (k, .refs as) :: rest, hf => by
    have ih := filterInPlaceFields_flat mask h rest hf.2
    simp only [filterInPlaceFields]
    cases hm : mask.find k with
    | none => simpa using ih
    | some sub => simp [hf.1 sub hm, ih]

end ScVerif.C06
