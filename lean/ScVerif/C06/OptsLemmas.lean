import ScVerif.C06.Lemmas
import ScVerif.C06.Opts
/-
`GoodPath` (the inductive description of well-formed paths used by the validation theorems) in terms
of `Leads`: a path is well-formed iff it STOPS at a field reached through singular message fields.
-/
namespace ScVerif.C06
open ScVerif.C05

theorem goodPath_iff_leads (S : Schema) (ty : Nat) (p : Path) :
    GoodPath S ty p ↔ ∃ pre seg t fd, p = pre ++ [seg] ∧ Leads S ty pre t ∧ S.field t seg = some fd := by
  constructor
  · intro h
    induction h with
    | @last ty seg fd hf => exact ⟨[], seg, ty, fd, rfl, .here, hf⟩
    | @step ty t seg fd rest hf hk _ ih =>
      obtain ⟨pre, s, u, fd', rfl, hl, hf'⟩ := ih
      exact ⟨seg :: pre, s, u, fd', rfl, .step hf hk hl, hf'⟩
  · rintro ⟨pre, seg, t, fd, rfl, hl, hf⟩
    induction hl with
    | here => exact .last hf
    | step hf' hk _ ih => exact .step hf' hk (ih hf)

end ScVerif.C06
