import ScVerif.C06.Change
import ScVerif.C06.Props
/-!
# C06 — what a subscription delivers under a read mask

Model: `ScVerif/C06/Change.lean` (`ValueChange.filter`, `CollectionChange.filter` of
pkg/resource/change.go, applied by Value.Pull / Collection.Pull / Collection.PullID to every change).
All theorems quantify over every change (seed, ADD, UPDATE, REMOVE, REPLACE; present or absent old
and new values), every message and every mask.
-/
namespace ScVerif.C06
open ScVerif.C05

/-- **C06_delivered_value.**  What a subscriber is handed for one value slot of a change: an absent
value (Go's nil message: the new value of a REMOVE, the old value of an ADD) stays absent, a present
one is replaced by its projection. -/
theorem C06_delivered_value (mask : Option (List Path)) (x : Option Fields)
    (h : ∀ ps, mask = some ps → NonNil ps ∧ Clean ps) :
    filterCloneOpt mask x = some (projectOpt mask x) := by
  cases x with
  | none => rfl
  | some fs => simp [filterCloneOpt, projectOpt, C06_projection mask fs h]

/-- **C06_value_change_filter.**  A value change delivered under a read mask carries exactly the
projection of the value (absent stays absent); time and seed flags are those of the change. -/
theorem C06_value_change_filter (mask : Option (List Path)) (v : ValueChange)
    (h : ∀ ps, mask = some ps → NonNil ps ∧ Clean ps) :
    v.filter mask = some { v with value := projectOpt mask v.value } := by
  simp [ValueChange.filter, C06_delivered_value mask _ h]

/-- **C06_collection_change_filter.**  A collection change delivered under a read mask carries the
projection of BOTH its new and its old value (so also the old value of an UPDATE or a REMOVE);
id, change type, time and seed flags are untouched — a read mask never changes which events a
subscriber sees. -/
theorem C06_collection_change_filter (mask : Option (List Path)) (c : CollectionChange)
    (h : ∀ ps, mask = some ps → NonNil ps ∧ Clean ps) :
    c.filter mask = some { c with newValue := projectOpt mask c.newValue, oldValue := projectOpt mask c.oldValue } := by
  simp [CollectionChange.filter, C06_delivered_value mask _ h]

/-- **C06_change_filter_no_panic.**  Filtering a change never panics, for any mask at all. -/
theorem C06_change_filter_no_panic (mask : Option (List Path)) (v : ValueChange) (c : CollectionChange) :
    v.filter mask ≠ none ∧ c.filter mask ≠ none := by
  have hv : ∀ x, filterCloneOpt mask x ≠ none := by
    intro x
    cases x with
    | none => simp [filterCloneOpt]
    | some fs =>
      have := C06_no_panic mask fs
      cases hf : filterClone mask fs with
      | none => exact absurd hf this
      | some r => simp [filterCloneOpt, hf]
  constructor
  · have := hv v.value
    cases hf : filterCloneOpt mask v.value with
    | none => exact absurd hf this
    | some r => simp [ValueChange.filter, hf]
  · have h1 := hv c.newValue
    have h2 := hv c.oldValue
    cases hf1 : filterCloneOpt mask c.newValue with
    | none => exact absurd hf1 h1
    | some r1 =>
      cases hf2 : filterCloneOpt mask c.oldValue with
      | none => exact absurd hf2 h2
      | some r2 => simp [CollectionChange.filter, hf1, hf2]

/-- **C06_change_filter_nil_mask.**  Without a mask the change is delivered as it is. -/
theorem C06_change_filter_nil_mask (v : ValueChange) (c : CollectionChange) :
    v.filter none = some v ∧ c.filter none = some c := by
  constructor
  · cases hv : v.value <;> simp [ValueChange.filter, filterCloneOpt, filterClone, filter, hv] <;>
      (cases v; simp_all)
  · cases hn : c.newValue <;> cases ho : c.oldValue <;>
      simp [CollectionChange.filter, filterCloneOpt, filterClone, filter, hn, ho] <;> (cases c; simp_all)

/-! ## Non-vacuity -/

/-- a REMOVE: the old value is projected, the absent new value stays absent -/
example : (CollectionChange.filter (some [["f", "c"]])
      ⟨"x", 7, .remove, some exMsg, none, false, false⟩)
    = some ⟨"x", 7, .remove, some (.cons "f" (.msg (.cons "c" (.sc "i1") .nil)) .nil), none, false, false⟩ := by decide

end ScVerif.C06
