import ScVerif.C06.ValuePull
/-
Model of a trait-level adapter: `(*Model).pullWasteRecordsWrapper` of `pkg/trait/wastepb/model.go`, the
body of `ModelServer.PullWasteRecords`.  Unless `updates_only`, it first replays history under the
model's lock — the last 50 records EXCEPT the very last one (`i := len-50; if i < 0 {i = 0}; for ; i <
len-1; i++`), each through `masks.NewResponseFilter(masks.WithFieldMask(request.ReadMask)).FilterClone` —
and then forwards `Model.PullWasteRecords(ctx, WithReadMask(mask), WithUpdatesOnly(updatesOnly))`, i.e.
`lastWasteRecord.Pull` (`ValuePull.lean`), whose seed is normally that last record.  `AddWasteRecord`
publishes a record (`lastWasteRecord.Set`) BEFORE it appends it to the history, so the value the
subscription is seeded with (`cur`) need not be the last historical record: the model takes the
history and the current value as independent inputs.  What is modelled is the `new_value` of every
change sent, in order (a subscriber that keeps up: the value has no backpressure).
-/
namespace ScVerif.C06
open ScVerif.C05

/-- The records the replay sends: the last 50, without the very last. -/
def wasteWindow (hist : List Fields) : List Fields := (hist.drop (hist.length - 50)).dropLast

/-- `filter.FilterClone` of each record, in order. -/
def filterAll (mask : Option (List Path)) : List Fields → Out (List Fields)
  | [] => some []
  | r :: rest =>
    match filterClone mask r, filterAll mask rest with
    | some a, some b => some (a :: b)
    | _, _ => none

/-- `ModelServer.PullWasteRecords(read_mask, updates_only)` on a model whose history is `hist` and whose
`lastWasteRecord` holds `cur`, while the records `evs` are published: the `new_value`s sent. -/
def wastePull (mask : Option (List Path)) (updatesOnly : Bool) (hist : List Fields) (cur : Option Fields)
    (evs : List Fields) : Out (List (Option Fields)) :=
  match (if updatesOnly then some [] else filterAll (newResponseFilter [mask]) (wasteWindow hist)),
      valuePull ⟨mask, updatesOnly, false, none⟩ none (cur.map (fun v => (v, 0)))
        (evs.map (fun v => ⟨some v, 0, false, false⟩)) with
  | some a, some b => some (a.map some ++ b.map (·.value))
  | _, _ => none

end ScVerif.C06
