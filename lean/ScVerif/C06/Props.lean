import ScVerif.C06.Lemmas
/-!
# C06 — reads return exactly the read-mask projection and never mutate

Model: `ScVerif/C06/Get.lean` (`ResponseFilter.Validate / Filter / FilterClone` and `filterMessage`
of pkg/masks/get.go after the fixes a72a629 (no panic) and 40c1599 (`nestedMask`: paths nested inside
another path of the mask are dropped), over fmutils' `NestedMaskFromPaths` and
`fieldmaskpb.IsValid` from `ScVerif/C05/Lib.lean`).  Specification: `project`, the projection of a
message tree onto a *set of paths*, defined without nested masks and characterised path by path
(`C06_project_selected`, `C06_project_unselected`).

All theorems quantify over every message tree, every mask and (where it occurs) every schema.
"Never mutates" has no counterpart on immutable trees; it is evaluated on the real code by the
monitor (deep copy before / after every read) and is C07's subject in the heap model.
-/
namespace ScVerif.C06
open ScVerif.C05

/-- **Full strength (C06_no_panic).** No mask and no message make a read panic.  (Before a72a629
the read called `fmutils.Filter`, which panics on a mask continuing through a populated map or
repeated scalar; the check's monitor showed it with `repeated_int32.x` / `map_string_string.a`.) -/
theorem C06_no_panic (mask : Option (List Path)) (fs : Fields) : filterClone mask fs ≠ none := by
  unfold filterClone
  match mask with
  | none => simp [filter]
  | some [] => simp [filter]
  | some (_ :: _) => simp [filter]

/-- **C06_projection (full strength).**  For every message and every mask whose paths are non-empty
and have no empty segment — in particular every mask that `Validate` accepts
(`C06_valid_masks_are_proper`), parent+child paths, duplicates and overlaps included — the read
returns exactly the projection onto the mask's path set; the nil mask returns the message, the
empty mask the empty message.  (Before 40c1599 this failed for `{f, f.c}`, which returned only
`f.c`; see `C06_projection_legacy_fails`.) -/
theorem C06_projection (mask : Option (List Path)) (fs : Fields)
    (h : ∀ ps, mask = some ps → NonNil ps ∧ Clean ps) :
    filterClone mask fs = some (projectMask mask fs) := by
  unfold filterClone
  match mask, h with
  | none, _ => simp [filter, projectMask]
  | some [], _ => simp [filter, projectMask, project_nil_paths]
  | some (p :: ps), h =>
    obtain ⟨hn, hc⟩ := h _ rfl
    have hc' := clean_minimal hc
    have hmne : minimal (p :: ps) ≠ [] := fun e => by
      have := (minimal_eq_nil_iff _).mp e; cases this
    have hne : (nestedMask (p :: ps)).isEmpty = false := by
      unfold nestedMask
      rw [Mask.fromPaths_eq hc']
      cases hh : (Mask.insertAll .nil (minimal (p :: ps))).isEmpty with
      | false => rfl
      | true =>
        cases hm : minimal (p :: ps) with
        | nil => exact absurd hm hmne
        | cons q qs =>
          have hq : q ∈ minimal (p :: ps) := by rw [hm]; exact List.mem_cons_self ..
          have := (Mask.insertAll_nil_isEmpty _).mp hh q hq
          exact absurd this (nonNil_minimal hn q hq)
    simp only [filter, safeMsg, hne, projectMask, Bool.false_eq_true, if_false]
    unfold nestedMask
    rw [Mask.fromPaths_eq hc']
    exact congrArg some ((safeFields_eq_project fs _ (prefixFree_minimal _)).trans (project_minimal fs _ hn))

/-- **C06_projection_legacy_fails.**  The code before 40c1599 built the nested mask from the raw
paths: with the mask `{f, f.c}` (the same path set as `{f}`) it returned only `f.c`, where the
projection keeps `f.d`. -/
theorem C06_projection_legacy_fails :
    ∃ (ps : List Path) (fs : Fields), NonNil ps ∧ Clean ps ∧
      safeMsg (Mask.fromPaths ps) fs ≠ project ps fs :=
  ⟨[["f"], ["f", "c"]],
   .cons "f" (.msg (.cons "c" (.sc "i1") (.cons "d" (.sc "i2") .nil))) .nil,
   by decide, by decide, by decide⟩

/-- **C06_project_selected.**  The specification, path by path: whatever lies at or below a path
named by the mask is in the projection unchanged. -/
theorem C06_project_selected (ps : List Path) (fs : Fields) (p : Path)
    (h : ∃ q ∈ ps, q ≠ [] ∧ q <+: p) : (project ps fs).getPath p = fs.getPath p :=
  getPath_project_selected p ps fs h

/-- **C06_project_unselected.**  …and a path that is neither below nor above any path of the mask
is absent from the projection. -/
theorem C06_project_unselected (ps : List Path) (fs : Fields) (p : Path) (hp : p ≠ [])
    (h : ∀ q ∈ ps, q ≠ [] → ¬ q <+: p ∧ ¬ p <+: q) : (project ps fs).getPath p = none :=
  getPath_project_unselected p ps fs hp h

/-- **C06_read_selected.**  Consequence on the code's side: a read returns at every selected path
exactly the stored value, and nothing at a path unrelated to every mask path. -/
theorem C06_read_selected (ps : List Path) (fs r : Fields) (p : Path)
    (hps : NonNil ps ∧ Clean ps) (hr : filterClone (some ps) fs = some r) :
    ((∃ q ∈ ps, q <+: p) → r.getPath p = fs.getPath p) ∧
    (p ≠ [] → (∀ q ∈ ps, ¬ q <+: p ∧ ¬ p <+: q) → r.getPath p = none) := by
  have := C06_projection (some ps) fs (fun ps' e => by cases e; exact hps)
  rw [hr] at this
  cases this
  constructor
  · rintro ⟨q, hq, hpre⟩
    exact getPath_project_selected p ps fs ⟨q, hq, hps.1 q hq, hpre⟩
  · intro hp h
    exact getPath_project_unselected p ps fs hp (fun q hq _ => h q hq)

/-- **C06_validate.**  `Validate` accepts a non-nil mask iff every path is well-formed for the
message type: each segment names a field and only singular message fields are continued through —
so an unknown segment, and a continuation through a scalar, map or repeated field, are rejected
(`InvalidArgument`); the nil mask is accepted. -/
theorem C06_validate (S : Schema) (ty : Nat) (mask : Option (List Path)) :
    validate S ty mask = true ↔ ∀ ps, mask = some ps → ∀ p ∈ ps, GoodPath S ty p := by
  cases mask with
  | none => simp [validate]
  | some ps =>
    simp only [validate, isValid, List.all_eq_true, Option.some.injEq, forall_eq']
    constructor
    · intro h p hp; exact (validPath_iff S ty p).mp (h p hp)
    · intro h p hp; exact (validPath_iff S ty p).mpr (h p hp)

/-- **C06_valid_masks_are_proper.**  The side conditions `NonNil` and `Clean` of
`C06_projection` hold for every mask that `Validate` accepts. -/
theorem C06_valid_masks_are_proper (S : Schema) (hS : NoEmptyName S) (ty : Nat) (ps : List Path)
    (h : validate S ty (some ps) = true) : NonNil ps ∧ Clean ps := by
  have hg := (C06_validate S ty (some ps)).mp h ps rfl
  exact ⟨fun p hp => goodPath_ne_nil (hg p hp), fun p hp => goodPath_segments hS (hg p hp)⟩

/-- **C06_projection_valid.**  Every validated read mask yields exactly the projection. -/
theorem C06_projection_valid (S : Schema) (hS : NoEmptyName S) (ty : Nat) (ps : List Path) (fs : Fields)
    (hv : validate S ty (some ps) = true) :
    filterClone (some ps) fs = some (project ps fs) :=
  C06_projection (some ps) fs (fun ps' e => by cases e; exact C06_valid_masks_are_proper S hS ty ps hv)

/-- **C06_read_below_message_field.**  No message-typed field is a leaf for a read mask, whatever its
type (a `google.protobuf.Timestamp` is a message with the fields `seconds` and `nanos` like any
other): the mask `{k.c}` returns `k.c` as stored and nothing at a sibling `k.d`. -/
theorem C06_read_below_message_field (k c d : Name) (fs r : Fields)
    (hk : k ≠ "") (hc : c ≠ "") (hcd : c ≠ d)
    (hr : filterClone (some [[k, c]]) fs = some r) :
    r.getPath [k, c] = fs.getPath [k, c] ∧ r.getPath [k, d] = none := by
  have hps : NonNil [[k, c]] ∧ Clean [[k, c]] := by
    constructor
    · intro p hp; simp at hp; subst hp; simp
    · intro p hp; simp at hp; subst hp
      intro hs; simp at hs
      rcases hs with rfl | rfl
      · exact hk rfl
      · exact hc rfl
  have h := C06_read_selected [[k, c]] fs r
  constructor
  · exact (h [k, c] hps hr).1 ⟨[k, c], by simp, List.prefix_refl _⟩
  · refine (h [k, d] hps hr).2 (by simp) ?_
    intro q hq
    simp at hq; subst hq
    constructor
    · intro hp
      have := List.IsPrefix.eq_of_length hp (by simp)
      simp at this; exact hcd this
    · intro hp
      have := List.IsPrefix.eq_of_length hp (by simp)
      simp at this; exact hcd this.symm

/-! ## Non-vacuity -/

/-- A small schema: type 0 = {f : message 1, g : scalar, r : repeated scalar, m : map}, type 1 = {c, d}. -/
def exSchema : Schema :=
  [[⟨"f", .message 1, 0⟩, ⟨"g", .scalar, 0⟩, ⟨"r", .repScalar, 0⟩, ⟨"m", .map, 0⟩],
   [⟨"c", .scalar, 0⟩, ⟨"d", .scalar, 0⟩]]

def exMsg : Fields :=
  .cons "f" (.msg (.cons "c" (.sc "i1") (.cons "d" (.sc "i2") .nil)))
    (.cons "g" (.sc "i3") (.cons "r" (.scs ["i1"]) .nil))

/-- The hypotheses of `C06_projection` / `C06_projection_valid` are satisfiable, by parent+child masks too. -/
example : NonNil [["f", "c"], ["g"], ["f"]] ∧ Clean [["f", "c"], ["g"], ["f"]] := by
  decide
example : filterClone (some [["f", "c"], ["f"]]) exMsg
    = some (.cons "f" (.msg (.cons "c" (.sc "i1") (.cons "d" (.sc "i2") .nil))) .nil) := by decide
example : validate exSchema 0 (some [["f", "c"], ["g"]]) = true := by decide
example : filterClone (some [["f", "c"], ["g"]]) exMsg
    = some (.cons "f" (.msg (.cons "c" (.sc "i1") .nil)) (.cons "g" (.sc "i3") .nil)) := by decide
/-- Masks of the kinds the property names are rejected… -/
example : validate exSchema 0 (some [["r", "x"]]) = false ∧ validate exSchema 0 (some [["m", "a"]]) = false
    ∧ validate exSchema 0 (some [["g", "x"]]) = false ∧ validate exSchema 0 (some [["nope"]]) = false := by decide
/-- …and reading with them does not panic (the field is selected whole). -/
example : filterClone (some [["r", "x"]]) exMsg = some (.cons "r" (.scs ["i1"]) .nil) := by decide

/-- A message with a well-known-type field: type 0 = {t : message 1, n : scalar}, type 1 is
`google.protobuf.Timestamp` = {seconds, nanos}. -/
def wkSchema : Schema :=
  [[⟨"t", .message 1, 0⟩, ⟨"n", .scalar, 0⟩], [⟨"seconds", .scalar, 0⟩, ⟨"nanos", .scalar, 0⟩]]
def wkMsg : Fields :=
  .cons "t" (.msg (.cons "seconds" (.sc "i1790724832") (.cons "nanos" (.sc "i5") .nil))) (.cons "n" (.sc "i3") .nil)
/-- A path INTO the Timestamp is a valid read mask and selects just that field of it: the nanos are
not returned (a filter that keeps the Timestamp whole differs from the projection). -/
example : validate wkSchema 0 (some [["t", "seconds"]]) = true := by decide
example : filterClone (some [["t", "seconds"]]) wkMsg
    = some (.cons "t" (.msg (.cons "seconds" (.sc "i1790724832") .nil)) .nil) := by decide
example : (project [["t", "seconds"]] wkMsg).getPath ["t", "nanos"] = none := by decide
example : (project [["t", "seconds"]] wkMsg).getPath ["t", "seconds"] = wkMsg.getPath ["t", "seconds"] := by decide

end ScVerif.C06
