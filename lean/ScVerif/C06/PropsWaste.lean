import ScVerif.C06.WasteLemmas
/-!
# C06 — a trait-level adapter inside the model: wastepb `ModelServer.PullWasteRecords`

Model: `ScVerif/C06/Waste.lean` (`pullWasteRecordsWrapper`: the replay of history through
`ResponseFilter.FilterClone` under the model's lock, then `lastWasteRecord.Pull` with the read mask).

All theorems quantify over every history (any length: shorter and longer than the 50 records replayed),
every current value of `lastWasteRecord` — in particular one that is NOT the last historical record: an
`AddWasteRecord` that has published its record but not appended it yet —, every sequence of records
published while the stream is open, `updates_only` on and off, and every read mask satisfying `Proper`
(implied by `Validate`; the no-panic theorem: every mask).
-/
namespace ScVerif.C06
open ScVerif.C05

/-- **C06_waste_pull_commutes.**  Everything the masked stream sends — every replayed historical record,
the seed of the subscription, every record added afterwards — is, value by value, the projection of what
the unmasked stream sends, in whatever state of an `AddWasteRecord` the stream was opened. -/
theorem C06_waste_pull_commutes (mask : Option (List Path)) (updatesOnly : Bool) (hist : List Fields)
    (cur : Option Fields) (evs : List Fields) (h : Proper mask) :
    wastePull mask updatesOnly hist cur evs
      = (wastePull none updatesOnly hist cur evs).map (List.map (projectOpt mask)) := by
  rw [wastePull_eq mask updatesOnly hist cur evs h, wastePull_eq none updatesOnly hist cur evs proper_none]
  simp only [Option.map_some, List.map_append, List.map_map, Function.comp_def, projectOpt_nil_mask,
    projectMask_none]
  rfl

/-- **C06_waste_pull_values.**  With `updates_only` off on a model whose `lastWasteRecord` holds `c`: the
stream sends the projections of the replayed window, then of `c`, then of every record published. -/
theorem C06_waste_pull_values (mask : Option (List Path)) (hist : List Fields) (c : Fields) (evs : List Fields)
    (h : Proper mask) :
    wastePull mask false hist (some c) evs
      = some ((wasteWindow hist ++ c :: evs).map (fun r => some (projectMask mask r))) := by
  rw [wastePull_eq mask false hist (some c) evs h]
  simp [rawValueStream, projectOpt, List.map_map, Function.comp_def]

/-- **C06_waste_pull_updates_only.**  With `updates_only` nothing is replayed and there is no seed. -/
theorem C06_waste_pull_updates_only (mask : Option (List Path)) (hist : List Fields) (cur : Option Fields)
    (evs : List Fields) (h : Proper mask) :
    wastePull mask true hist cur evs = some (evs.map (fun r => some (projectMask mask r))) := by
  rw [wastePull_eq mask true hist cur evs h]
  simp [rawValueStream, projectOpt, List.map_map, Function.comp_def]

/-- **C06_waste_window.**  The replay followed by the last historical record is exactly the last 50
records of the history (all of it when there are fewer). -/
theorem C06_waste_window (hist : List Fields) (hne : hist ≠ []) :
    wasteWindow hist ++ [hist.getLast hne] = hist.drop (hist.length - 50) := by
  have hlen : hist.length - 50 < hist.length := by
    have : 0 < hist.length := List.length_pos_iff.mpr hne
    omega
  have hd : hist.drop (hist.length - 50) ≠ [] := by
    intro e
    have := congrArg List.length e
    simp only [List.length_drop, List.length_nil] at this
    omega
  unfold wasteWindow
  have hl : (hist.drop (hist.length - 50)).getLast hd = hist.getLast hne := List.getLast_drop hd
  rw [← hl]
  exact List.dropLast_concat_getLast hd

/-- **C06_waste_pull_no_panic.**  No mask, history or state makes the stream panic. -/
theorem C06_waste_pull_no_panic (mask : Option (List Path)) (updatesOnly : Bool) (hist : List Fields)
    (cur : Option Fields) (evs : List Fields) : wastePull mask updatesOnly hist cur evs ≠ none := by
  have hf : ∀ (m : Option (List Path)) (l : List Fields), filterAll m l ≠ none := by
    intro m l
    induction l with
    | nil => simp [filterAll]
    | cons r rest ih =>
      simp only [filterAll]
      cases h1 : filterClone m r with
      | none => exact absurd h1 (C06_no_panic m r)
      | some a =>
        cases h2 : filterAll m rest with
        | none => exact absurd h2 ih
        | some b => simp
  have hv := C06_value_pull_no_panic ⟨mask, updatesOnly, false, none⟩ none (cur.map (fun v => (v, 0)))
    (evs.map (fun v => ⟨some v, 0, false, false⟩))
  unfold wastePull
  cases h2 : valuePull ⟨mask, updatesOnly, false, none⟩ none (cur.map (fun v => (v, 0)))
      (evs.map (fun v => ⟨some v, 0, false, false⟩)) with
  | none => exact absurd h2 hv
  | some b =>
    cases updatesOnly with
    | true => simp
    | false =>
      cases h1 : filterAll (newResponseFilter [mask]) (wasteWindow hist) with
      | none => exact absurd h1 (hf _ _)
      | some a => simp

/-! ## Non-vacuity -/

/-- an `AddWasteRecord` between its `Set` and its append: the history ends with `b`, the value holds `c`;
under the mask `{g}` the stream sends `a`, then `c` (the seed), then the record added next, all projected —
the last historical record `b` is sent by nobody (modelled as the code behaves) -/
example : wastePull (some [["g"]]) false
      [.cons "g" (.sc "i1") (.cons "h" (.sc "i7") .nil), .cons "g" (.sc "i2") .nil] (some (.cons "g" (.sc "i3") (.cons "h" (.sc "i8") .nil)))
      [.cons "h" (.sc "i9") .nil]
    = some [some (.cons "g" (.sc "i1") .nil), some (.cons "g" (.sc "i3") .nil), some .nil] := by
  decide

example : (wasteWindow (List.replicate 120 Fields.nil)).length = 49 ∧ wasteWindow [Fields.nil] = [] ∧ wasteWindow [] = [] := by
  decide

end ScVerif.C06
