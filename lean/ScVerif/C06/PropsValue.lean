import ScVerif.C06.ValueLemmas
/-!
# C06 — what `Value.Pull` delivers under a read mask

Model: `ScVerif/C06/ValuePull.lean` (the seed value and the event loop of `(*Value).Pull`, with the
resource's equivalence).  All theorems quantify over every request, every current value (or none),
every sequence of published changes, every mask (`Proper`: the side condition of `C06_projection`)
and every equivalence (an arbitrary function).
-/
namespace ScVerif.C06
open ScVerif.C05

/-- **C06_value_pull_projection.**  Without an equivalence, everything a masked `Value.Pull`
subscriber is sent — the seed value (flagged seed and last seed, with the value's change time; none
under `UpdatesOnly` or for a nil value) and every published change — is the projection of what the
unmasked subscription is sent, with the same times and flags. -/
theorem C06_value_pull_projection (rr : ReadRequest) (cur : Option (Fields × Int)) (evs : List ValueChange)
    (h : Proper rr.readMask) :
    valuePull rr none cur evs = some ((rawValueStream rr cur evs).map (projectValueChange rr.readMask)) := by
  unfold valuePull rawValueStream
  rw [responseFilter_eq]
  cases hc : (if rr.updatesOnly then none else cur) with
  | none => simp [valueEvents_eq _ none h]
  | some vt =>
    obtain ⟨v, t⟩ := vt
    simp [C06_value_change_filter _ _ h, valueEvents_eq _ none h, projectValueChange]

/-- **C06_value_pull_dedup.**  With an equivalence: the seed is always sent; every change is
projected FIRST and then compared with the value most recently sent as the receiver saw it (so
changes that differ only outside the mask are duplicates for a masked subscriber). -/
theorem C06_value_pull_dedup (rr : ReadRequest) (cmp : Option Fields → Option Fields → Bool)
    (cur : Option (Fields × Int)) (evs : List ValueChange) (h : Proper rr.readMask) :
    valuePull rr (some cmp) cur evs = some (
      match (if rr.updatesOnly then none else cur) with
      | none => dedupSpec cmp none (evs.map (projectValueChange rr.readMask))
      | some (v, t) =>
        ⟨some (projectMask rr.readMask v), t, true, true⟩
          :: dedupSpec cmp (some (projectMask rr.readMask v)) (evs.map (projectValueChange rr.readMask))) := by
  unfold valuePull
  rw [responseFilter_eq]
  cases hc : (if rr.updatesOnly then none else cur) with
  | none => simp [valueEvents_eq _ (some cmp) h]
  | some vt =>
    obtain ⟨v, t⟩ := vt
    simp [C06_value_change_filter _ _ h, valueEvents_eq _ (some cmp) h, projectOpt]

/-- **C06_value_pull_members.**  Whatever the equivalence, every value a masked subscriber is sent is
the projection of a value the resource held (the seed or a published change), with its time and
flags, in the order of publication. -/
theorem C06_value_pull_members (rr : ReadRequest) (eq : Equiv) (cur : Option (Fields × Int))
    (evs : List ValueChange) (h : Proper rr.readMask) :
    ∃ out, valuePull rr eq cur evs = some out ∧
      out.Sublist ((rawValueStream rr cur evs).map (projectValueChange rr.readMask)) := by
  cases eq with
  | none => exact ⟨_, C06_value_pull_projection rr cur evs h, List.Sublist.refl _⟩
  | some cmp =>
    refine ⟨_, C06_value_pull_dedup rr cmp cur evs h, ?_⟩
    unfold rawValueStream
    cases hc : (if rr.updatesOnly then none else cur) with
    | none => exact dedupSpec_sublist cmp _ _
    | some vt =>
      obtain ⟨v, t⟩ := vt
      simp only [List.map_cons, projectValueChange, projectOpt]
      exact (dedupSpec_sublist cmp _ _).cons_cons _

/-- **C06_value_pull_no_panic.**  No mask (valid or not), value, change sequence or equivalence makes
`Value.Pull` panic in the filter. -/
theorem C06_value_pull_no_panic (rr : ReadRequest) (eq : Equiv) (cur : Option (Fields × Int))
    (evs : List ValueChange) : valuePull rr eq cur evs ≠ none := by
  have hev : ∀ (evs : List ValueChange) (last : Option Fields),
      valueEvents rr.responseFilter eq last evs ≠ none := by
    intro evs
    induction evs with
    | nil => intro last; simp [valueEvents]
    | cons e rest ih =>
      intro last
      unfold valueEvents
      have h1 := (C06_change_filter_no_panic rr.responseFilter e ⟨"", 0, .add, none, none, false, false⟩).1
      cases hf : e.filter rr.responseFilter with
      | none => exact absurd hf h1
      | some d =>
        cases eq with
        | none =>
          simp only []
          cases hr : valueEvents rr.responseFilter none d.value rest with
          | none => exact absurd hr (ih _)
          | some r => simp
        | some cmp =>
          simp only []
          split
          · exact ih _
          · cases hr : valueEvents rr.responseFilter (some cmp) d.value rest with
            | none => exact absurd hr (ih _)
            | some r => simp
  unfold valuePull
  cases hc : (if rr.updatesOnly then none else cur) with
  | none => exact hev _ _
  | some vt =>
    obtain ⟨v, t⟩ := vt
    simp only []
    have h1 := (C06_change_filter_no_panic rr.responseFilter ⟨some v, t, true, true⟩
      ⟨"", 0, .add, none, none, false, false⟩).1
    cases hf : ValueChange.filter rr.responseFilter ⟨some v, t, true, true⟩ with
    | none => exact absurd hf h1
    | some s =>
      cases hr : valueEvents rr.responseFilter eq s.value evs with
      | none => exact absurd hr (hev _ _)
      | some r => simp [hr]

/-! ## Non-vacuity -/

/-- under the mask `{g}` and `WithNoDuplicates`, a change of `f` only is a duplicate; a change of `g` is sent -/
example : valuePull ⟨some [["g"]], false, false, none⟩ (some (fun a b => a == b)) (some (exMsg, 1))
      [⟨some (.cons "g" (.sc "i3") .nil), 2, false, false⟩, ⟨some (.cons "g" (.sc "i4") .nil), 3, false, false⟩]
    = some [⟨some (.cons "g" (.sc "i3") .nil), 1, true, true⟩, ⟨some (.cons "g" (.sc "i4") .nil), 3, false, false⟩] := by
  decide

end ScVerif.C06
