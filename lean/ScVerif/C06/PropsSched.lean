import ScVerif.C06.Sched
import ScVerif.C06.SchedLemmas
import ScVerif.C06.PropsColl
import ScVerif.C06.VSched
import ScVerif.C06.SchedChain
import ScVerif.C06.PropsValue
/-!
# C06 — masked subscriptions under EVERY interleaving of writers' commits and publications

Model: `ScVerif/C06/Sched.lean` (`Collection.Update/Add` = store under the lock, then `bus.Send`
after the lock was released; `Delete` = both under the lock; a subscription opens at an arbitrary
point of the schedule, finds the store of that moment and receives everything published later —
also the changes of writers that stored before it opened, in whatever order they get to `bus.Send`).

All theorems quantify over every initial world (store, clock, writers already parked), every
schedule before and after the subscription opens, every include callback, every read mask satisfying
`Proper` (implied by `Validate`), every id.
-/
namespace ScVerif.C06
open ScVerif.C05

/-- **C06_sched_pull_commutes.**  Whatever writers did before the subscription opened and do
afterwards — stored but not yet published, published in another order than stored, deleted in
between —, everything the masked `Pull` is sent is, change by change, the projection of what the same
subscription without its mask is sent: the new AND the old value of every change are projections of
that change's own values, never of anything the subscriber was sent before. -/
theorem C06_sched_pull_commutes (I : Nat → Pred) (rr : ReadRequest) (w0 : World) (pre post : List Step)
    (h : Proper rr.readMask) :
    session I rr none w0 pre post
      = (session I { rr with readMask := none } none w0 pre post).map (List.map (projectChange rr.readMask)) :=
  C06_pull_stream_commutes I rr _ _ h

/-- **C06_sched_pullid_commutes.**  The same for every `PullID` stream. -/
theorem C06_sched_pullid_commutes (I : Nat → Pred) (rr : ReadRequest) (w0 : World) (pre post : List Step)
    (id : String) (h : Proper rr.readMask) :
    sessionID I rr none w0 pre post id
      = (sessionID I { rr with readMask := none } none w0 pre post id).map
          (List.map (projectValueChange rr.readMask)) :=
  C06_pullid_commutes I rr _ _ id h

/-- **C06_sched_delivered_values_were_stored.**  Under every schedule, include callback and collection
equivalence: each value a masked subscriber is handed — seed, new value, old value — is the projection
of a message that the collection held or a writer wrote (`P` is any property of messages that holds of
everything in the initial world and of every message written by the schedule; take `P u := u ∈ …`). -/
theorem C06_sched_delivered_values_were_stored (P : Fields → Prop) (I : Nat → Pred) (rr : ReadRequest)
    (eq : Equiv) (w0 : World) (pre post : List Step) (h : Proper rr.readMask) (hw : w0.All P)
    (hs : ∀ s ∈ pre ++ post, ∀ m, s.msg? = some m → P m)
    (ds : List CollectionChange) (hd : session I rr eq w0 pre post = some ds) :
    ∀ d ∈ ds, d.All (fun v => ∃ u, P u ∧ v = projectMask rr.readMask u) := by
  have h1 := run_all P pre w0 hw (fun s hs' => hs s (List.mem_append_left _ hs'))
  have h2 := run_all P post (run w0 pre).1 h1.1 (fun s hs' => hs s (List.mem_append_right _ hs'))
  exact pullStream_all P I rr eq _ _ h h1.1.1 h2.2 ds hd

/-- **C06_sched_changes_need_not_chain.**  Why the old value must be projected from the change itself:
a subscription that opens while a writer is parked between its commit and its publication is seeded
with the value the writer stored (`v2`) and is then sent that writer's change `UPDATE old = v1,
new = v2` — the old value of a change is NOT what the subscriber was sent last for that id, and under
the mask `{f}` its projection differs from the projection sent last. -/
theorem C06_sched_changes_need_not_chain :
    ∃ (w0 : World) (pre post : List Step) (seed chg : CollectionChange),
      session (fun _ => fun _ _ => true) ⟨some [["f"]], false, true, none⟩ none w0 pre post = some [seed, chg]
        ∧ seed.id = chg.id ∧ chg.changeType = .update ∧ chg.newValue = seed.newValue
        ∧ chg.oldValue ≠ seed.newValue :=
  ⟨{ store := [⟨"x", exMsg, 0⟩] }, [.update "x" (.cons "f" (.msg (.cons "c" (.sc "i2") .nil)) .nil)], [.publish 0],
    ⟨"x", 1, .add, none, some (.cons "f" (.msg (.cons "c" (.sc "i2") .nil)) .nil), true, true⟩,
    ⟨"x", 2, .update, some (.cons "f" (.msg (.cons "c" (.sc "i1") (.cons "d" (.sc "i2") .nil))) .nil),
      some (.cons "f" (.msg (.cons "c" (.sc "i2") .nil)) .nil), false, false⟩,
    by decide, by decide, by decide, by decide, by decide⟩

/-- **C06_sched_quiet_changes_chain.**  …and when they do chain: if no writer is parked when the
subscription opens (after any schedule `pre`) and every later write publishes before the next write
stores (`Write.steps`; refused writes included), then every published change reports as its old
value exactly what the subscriber holds for that id — the stored body it was seeded with, or the new
value of the previous change of that id, nothing for an id it does not hold.  (Only then would taking
the old value from what was sent before be right; `C06_sched_changes_need_not_chain` is the rest.) -/
theorem C06_sched_quiet_changes_chain (w0 : World) (pre : List Step) (ws : List Write)
    (hq : (run w0 pre).1.pending = []) :
    chains (bodyOf (run w0 pre).1.store) (run (run w0 pre).1 (ws.flatMap Write.steps)).2 :=
  writes_chain ws _ hq

/-- **C06_sched_value_pull_commutes.**  `Value.Pull` under every interleaving of `Set` halves
(values stored but not yet published when the subscription opens, publications overtaking each
other): the masked stream is, value by value, the projection of the unmasked one. -/
theorem C06_sched_value_pull_commutes (rr : ReadRequest) (w0 : VWorld) (pre post : List VStep) (h : Proper rr.readMask) :
    vsession rr none w0 pre post
      = (vsession { rr with readMask := none } none w0 pre post).map (List.map (projectValueChange rr.readMask)) := by
  have h0 : Proper (none : Option (List Path)) := fun _ e => by cases e
  unfold vsession
  rw [C06_value_pull_projection rr _ _ h, C06_value_pull_projection { rr with readMask := none } _ _ h0]
  simp only [Option.map_some, List.map_map]
  congr 1
  have : (projectValueChange rr.readMask ∘ projectValueChange none) = projectValueChange rr.readMask := by
    funext c; simp [projectValueChange_nil_mask]
  rw [this]
  rfl

/-- **C06_sched_value_pending_write_not_sent_twice.**  A masked `Value.Pull` that opens while the
only writer is parked between its commit and its publication, on a value with an equivalence that
relates every message to itself (`WithNoDuplicates`): it is seeded with the projection of what that
writer stored, and the writer's change, published afterwards, is recognised as a duplicate of what
was SENT — the subscriber is not handed the same projection twice. -/
theorem C06_sched_value_pending_write_not_sent_twice (rr : ReadRequest) (cmp : Option Fields → Option Fields → Bool) (w : VWorld) (m : Fields) (t : Int)
    (h : Proper rr.readMask) (hrefl : ∀ x, cmp x x = true) (hu : rr.updatesOnly = false)
    (hv : w.value = some m) (hp : w.pending = [(m, t)]) :
    vsession rr (some cmp) w [] [.publish 0]
      = some [⟨some (projectMask rr.readMask m), w.changeTime, true, true⟩] := by
  unfold vsession
  rw [C06_value_pull_dedup rr cmp _ _ h]
  simp [vrun, vstep, hp, VWorld.cur, hv, hu, dedupSpec, projectValueChange, projectOpt, hrefl]

/-! ## Non-vacuity -/

/-- two writers whose publications overtake each other: the subscriber (opened while both are parked)
is seeded with the last stored value and is then sent `v2 → v3` before `v1 → v2` -/
example : session (fun _ => fun _ _ => true) {} none { store := [⟨"x", .cons "g" (.sc "i1") .nil, 0⟩] }
      [.update "x" (.cons "g" (.sc "i2") .nil), .update "x" (.cons "g" (.sc "i3") .nil)] [.publish 1, .publish 0]
    = some [⟨"x", 2, .add, none, some (.cons "g" (.sc "i3") .nil), true, true⟩,
        ⟨"x", 3, .update, some (.cons "g" (.sc "i2") .nil), some (.cons "g" (.sc "i3") .nil), false, false⟩,
        ⟨"x", 4, .update, some (.cons "g" (.sc "i1") .nil), some (.cons "g" (.sc "i2") .nil), false, false⟩] := by
  decide

/-- an item deleted while its update is still unpublished: not among the seeds, the UPDATE arrives anyway -/
example : session (fun _ => fun _ _ => true) {} none { store := [⟨"x", .cons "g" (.sc "i1") .nil, 0⟩] }
      [.update "x" (.cons "g" (.sc "i2") .nil), .delete "x"] [.publish 0]
    = some [⟨"x", 3, .update, some (.cons "g" (.sc "i1") .nil), some (.cons "g" (.sc "i2") .nil), false, false⟩] := by
  decide

/-- the hypothesis of `C06_sched_quiet_changes_chain` is reachable with a non-trivial chain: add, update,
delete, add again — four changes, each old value = what was held -/
example : (run {} []).1.pending = []
    ∧ (run {} ([Write.add "x" exMsg, .update "x" .nil, .delete "x", .add "x" exMsg].flatMap Write.steps)).2.length = 4 := by
  decide

/-- the hypotheses of `C06_sched_value_pending_write_not_sent_twice` are reachable: one `Set` parked -/
example : (vrun {} [.set exMsg 5]).1.value = some exMsg ∧ (vrun {} [.set exMsg 5]).1.pending = [(exMsg, 5)] := by
  decide

end ScVerif.C06
