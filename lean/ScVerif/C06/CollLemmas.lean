import ScVerif.C06.Coll
import ScVerif.C06.PropsChange
/-! Lemmas about the collection read model (`Coll.lean`) that rest on the projection theorems. -/
namespace ScVerif.C06
open ScVerif.C05

theorem filterBodies_eq (mask : Option (List Path)) (h : ∀ ps, mask = some ps → NonNil ps ∧ Clean ps) :
    ∀ l : List Item, filterBodies mask l = some (l.map (fun e => projectMask mask e.body))
  | [] => rfl
  | e :: rest => by
    simp [filterBodies, C06_projection mask e.body h, filterBodies_eq mask h rest]

theorem filterBodies_ne_none (mask : Option (List Path)) : ∀ l : List Item, filterBodies mask l ≠ none
  | [] => by simp [filterBodies]
  | e :: rest => by
    have h1 := C06_no_panic mask e.body
    have h2 := filterBodies_ne_none mask rest
    unfold filterBodies
    cases hf : filterClone mask e.body with
    | none => exact absurd hf h1
    | some m =>
      cases hr : filterBodies mask rest with
      | none => exact absurd hr h2
      | some ms => simp

theorem seedsFrom_eq (mask : Option (List Path)) (h : ∀ ps, mask = some ps → NonNil ps ∧ Clean ps) :
    ∀ l : List Item, seedsFrom mask l = some ((seedSpec l).map (projectChange mask))
  | [] => rfl
  | e :: rest => by
    simp [seedsFrom, seedSpec, C06_collection_change_filter mask _ h, seedsFrom_eq mask h rest, projectChange]

abbrev Proper (mask : Option (List Path)) : Prop := ∀ ps, mask = some ps → NonNil ps ∧ Clean ps

theorem seedsFrom_ne_none (mask : Option (List Path)) : ∀ l : List Item, seedsFrom mask l ≠ none
  | [] => by simp [seedsFrom]
  | e :: rest => by
    have h2 := seedsFrom_ne_none mask rest
    unfold seedsFrom
    have h1 := (C06_change_filter_no_panic mask ⟨none, 0, false, false⟩
      ⟨e.id, e.changeTime, .add, none, some e.body, true, rest.isEmpty⟩).2
    cases hf : CollectionChange.filter mask ⟨e.id, e.changeTime, .add, none, some e.body, true, rest.isEmpty⟩ with
    | none => exact absurd hf h1
    | some m =>
      cases hr : seedsFrom mask rest with
      | none => exact absurd hr h2
      | some ms => simp

theorem pullEvent_ne_none (incl : Option Pred) (mask : Option (List Path)) (eq : Equiv) (c : CollectionChange) :
    pullEvent incl mask eq c ≠ none := by
  unfold pullEvent
  cases hi : c.includeP incl with
  | none => simp
  | some c' =>
    have h1 := (C06_change_filter_no_panic mask ⟨none, 0, false, false⟩ c').2
    cases hf : c'.filter mask with
    | none => exact absurd hf h1
    | some d =>
      cases eq with
      | none => simp [hf]
      | some cmp =>
        by_cases hc : cmp d.oldValue d.newValue = true <;> simp [hf, hc]

theorem pullEvents_ne_none (incl : Option Pred) (mask : Option (List Path)) (eq : Equiv) :
    ∀ evs : List CollectionChange, pullEvents incl mask eq evs ≠ none
  | [] => by simp [pullEvents]
  | c :: rest => by
    have h1 := pullEvent_ne_none incl mask eq c
    have h2 := pullEvents_ne_none incl mask eq rest
    unfold pullEvents
    cases hf : pullEvent incl mask eq c with
    | none => exact absurd hf h1
    | some o =>
      cases hr : pullEvents incl mask eq rest with
      | none => exact absurd hr h2
      | some ds => cases o <;> simp

/-- The full characterisation of one event, for any equivalence. -/
theorem pullEvent_eq (incl : Option Pred) (mask : Option (List Path)) (eq : Equiv) (c : CollectionChange)
    (h : Proper mask) :
    pullEvent incl mask eq c = some (match c.includeP incl with
      | none => none
      | some c' =>
        match eq with
        | some cmp =>
          if cmp (projectOpt mask c'.oldValue) (projectOpt mask c'.newValue) then none
          else some (projectChange mask c')
        | none => some (projectChange mask c')) := by
  unfold pullEvent
  cases hi : c.includeP incl with
  | none => rfl
  | some c' =>
    simp only [C06_collection_change_filter mask c' h]
    cases eq with
    | none => rfl
    | some cmp => simp only [projectChange]; split <;> rfl

theorem pullEvents_eq (incl : Option Pred) (mask : Option (List Path)) (h : Proper mask) :
    ∀ evs : List CollectionChange,
      pullEvents incl mask none evs = some ((evs.filterMap (·.includeP incl)).map (projectChange mask))
  | [] => rfl
  | c :: rest => by
    unfold pullEvents
    rw [pullEvent_eq incl mask none c h, pullEvents_eq incl mask h rest]
    cases hi : c.includeP incl <;> simp [hi]

theorem projectOpt_nil_mask (x : Option Fields) : projectOpt none x = x := by
  cases x <;> rfl

theorem projectChange_nil_mask (c : CollectionChange) : projectChange none c = c := by
  cases c; simp [projectChange, projectOpt_nil_mask]

theorem projectValueChange_nil_mask (v : ValueChange) : projectValueChange none v = v := by
  cases v; simp [projectValueChange, projectOpt_nil_mask]

theorem pullIDLoop_project (mask : Option (List Path)) (id : String) :
    ∀ cs : List CollectionChange,
      pullIDLoop id (cs.map (projectChange mask)) = (pullIDLoop id cs).map (projectValueChange mask)
  | [] => rfl
  | c :: rest => by
    have ih := pullIDLoop_project mask id rest
    simp only [List.map_cons, pullIDLoop, projectChange]
    by_cases h1 : c.id = id
    · by_cases h2 : c.changeType = .remove
      · simp [h1, h2]
      · cases hn : c.newValue with
        | none => simp [h1, h2, projectOpt]
        | some v => simp [h1, h2, projectOpt, projectValueChange, ← ih]
    · simp [h1, ← ih]

theorem pullIDLoop_seeds_absent (mask : Option (List Path)) (id : String) :
    ∀ l : List Item, (∀ x ∈ l, x.id ≠ id) →
      pullIDLoop id ((seedSpec l).map (projectChange mask)) = []
  | [], _ => rfl
  | x :: rest, h => by
    have hx := h x (List.mem_cons_self ..)
    simp only [seedSpec, List.map_cons, pullIDLoop, projectChange]
    simp [hx, pullIDLoop_seeds_absent mask id rest (fun y hy => h y (List.mem_cons_of_mem _ hy))]

theorem pullIDLoop_seeds_present (mask : Option (List Path)) (e : Item) :
    ∀ l : List Item, (l.map (·.id)).Nodup → e ∈ l →
      pullIDLoop e.id ((seedSpec l).map (projectChange mask))
        = [⟨some (projectMask mask e.body), e.changeTime, true, true⟩]
  | [], _, he => by cases he
  | x :: rest, hn, he => by
    simp only [List.map_cons, List.nodup_cons, List.mem_map, not_exists, not_and] at hn
    rcases List.mem_cons.mp he with rfl | he'
    · have hrest : ∀ y ∈ rest, y.id ≠ e.id := fun y hy e' => hn.1 y hy e'
      simp only [seedSpec, List.map_cons, pullIDLoop, projectChange]
      simp [pullIDLoop_seeds_absent mask e.id rest hrest, projectOpt]
    · have hx : x.id ≠ e.id := fun e' => hn.1 e he' e'.symm
      simp only [seedSpec, List.map_cons, pullIDLoop, projectChange]
      simp [hx, pullIDLoop_seeds_present mask e rest hn.2 he']

end ScVerif.C06
