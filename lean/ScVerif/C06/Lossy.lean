import ScVerif.C06.SchedLemmas
/-
Model of the lossy stage of a subscription without backpressure (`pkg/resource/backpressure.go`):
`mergeChanges` and the goroutine of `mergeCollectionExcess`, which sits between the bus and the loop
of `Collection.Pull` (`ch = mergeCollectionExcess(ch)` in `onUpdate`).  While the Pull loop is busy
handing a change to its receiver, newly published changes are queued, at most one per id: a change
for an id that is already queued is merged into the queued one (ADD+UPDATE = ADD, UPDATE+UPDATE keeps
the first old value, ADD+REMOVE cancel, …) and moves to the back of the queue.

Which of the two `select` cases fires — take the next published change, or hand the front of the
queue to the Pull loop — is the schedule (`List Bool`, `true` = hand over); every theorem quantifies
over all of them.
-/
namespace ScVerif.C06
open ScVerif.C05

/-- `mergeChanges(a, b)`; `none`: `send = false` (the two changes cancel). -/
def mergeChanges (a b : CollectionChange) : Option CollectionChange :=
  let b := { b with lastSeedValue := a.lastSeedValue || b.lastSeedValue }
  match a.changeType with
  | .add =>
    match b.changeType with
    | .add => some b
    | .update => some { b with changeType := .add, oldValue := none }
    | .replace => some { b with changeType := .add, oldValue := none }
    | .remove => none
    | .unspecified => some b
  | .update =>
    some { b with oldValue := a.oldValue, changeType := if b.changeType = .add then .replace else b.changeType }
  | .replace =>
    some { b with oldValue := a.oldValue,
                  changeType := if b.changeType = .add ∨ b.changeType = .update then .replace else b.changeType }
  | .remove =>
    some { b with oldValue := a.oldValue, changeType := if b.changeType = .remove then .remove else .replace }
  | .unspecified => some b

/-- A newly published change meets the queue (`messages` + `queue`, front first): merged into the
queued change of the same id, which leaves its place and goes to the back (or disappears), else
appended. -/
def enqueue : List CollectionChange → CollectionChange → List CollectionChange
  | [], c => [c]
  | old :: q, c =>
    if old.id = c.id then
      match mergeChanges old c with
      | none => q
      | some n => q ++ [n]
    else old :: enqueue q c

/-- The goroutine of `mergeCollectionExcess` under a schedule: `q` the queue, `evs` what the bus still
has to deliver; `true` hands the front of the queue to the Pull loop (not possible when the queue is
empty: the goroutine then only receives), `false` takes the next published change.  When the schedule
is used up everything left is taken and then handed over. -/
def lossy : List Bool → List CollectionChange → List CollectionChange → List CollectionChange
  | [], q, evs => evs.foldl enqueue q
  | true :: s, [], evs => lossy s [] evs
  | true :: s, c :: q, evs => c :: lossy s q evs
  | false :: s, q, [] => lossy s q []
  | false :: s, q, e :: evs => lossy s (enqueue q e) evs

/-- `Collection.Pull(WithBackpressure(false), opts…)`: the Pull loop runs over what the lossy stage
hands it. -/
def pullLossy (I : Nat → Pred) (rr : ReadRequest) (eq : Equiv) (st : Store) (sched : List Bool)
    (evs : List CollectionChange) : Out (List CollectionChange) :=
  pullStream I rr eq st (lossy sched [] evs)

/-! ## Lemmas -/

theorem mergeChanges_all (P : Fields → Prop) (a b n : CollectionChange) (ha : a.All P) (hb : b.All P)
    (h : mergeChanges a b = some n) : n.All P := by
  unfold mergeChanges at h
  cases hk : a.changeType <;> simp only [hk] at h
  · cases h; exact hb
  · cases hk2 : b.changeType <;> simp only [hk2] at h
    · cases h; exact hb
    · cases h; exact hb
    · cases h; exact ⟨hb.1, fun v hv => (by cases hv)⟩
    · cases h
    · cases h; exact ⟨hb.1, fun v hv => (by cases hv)⟩
  · cases h; exact ⟨hb.1, ha.2⟩
  · cases h; exact ⟨hb.1, ha.2⟩
  · cases h; exact ⟨hb.1, ha.2⟩

theorem enqueue_all (P : Fields → Prop) : ∀ (q : List CollectionChange) (c : CollectionChange),
    (∀ x ∈ q, x.All P) → c.All P → ∀ x ∈ enqueue q c, x.All P
  | [], c, _, hc, x, hx => by
    simp only [enqueue, List.mem_singleton] at hx; subst hx; exact hc
  | old :: q, c, hq, hc, x, hx => by
    have hold := hq old (List.mem_cons_self ..)
    have hq' : ∀ y ∈ q, y.All P := fun y hy => hq y (List.mem_cons_of_mem _ hy)
    unfold enqueue at hx
    split at hx
    · cases hm : mergeChanges old c with
      | none => rw [hm] at hx; exact hq' x hx
      | some n =>
        rw [hm] at hx
        rcases List.mem_append.mp hx with hx | hx
        · exact hq' x hx
        · simp only [List.mem_singleton] at hx; subst hx
          exact mergeChanges_all P old c _ hold hc hm
    · rcases List.mem_cons.mp hx with rfl | hx
      · exact hold
      · exact enqueue_all P q c hq' hc x hx

theorem foldl_enqueue_all (P : Fields → Prop) : ∀ (evs q : List CollectionChange),
    (∀ x ∈ q, x.All P) → (∀ c ∈ evs, c.All P) → ∀ x ∈ evs.foldl enqueue q, x.All P
  | [], q, hq, _, x, hx => hq x hx
  | e :: evs, q, hq, he, x, hx => by
    simp only [List.foldl_cons] at hx
    exact foldl_enqueue_all P evs (enqueue q e)
      (enqueue_all P q e hq (he e (List.mem_cons_self ..)))
      (fun c hc => he c (List.mem_cons_of_mem _ hc)) x hx

theorem lossy_all (P : Fields → Prop) : ∀ (s : List Bool) (q evs : List CollectionChange),
    (∀ x ∈ q, x.All P) → (∀ c ∈ evs, c.All P) → ∀ x ∈ lossy s q evs, x.All P
  | [], q, evs, hq, he, x, hx => foldl_enqueue_all P evs q hq he x (by simpa [lossy] using hx)
  | true :: s, [], evs, hq, he, x, hx => lossy_all P s [] evs hq he x (by simpa [lossy] using hx)
  | true :: s, c :: q, evs, hq, he, x, hx => by
    simp only [lossy, List.mem_cons] at hx
    rcases hx with rfl | hx
    · exact hq _ (List.mem_cons_self ..)
    · exact lossy_all P s q evs (fun y hy => hq y (List.mem_cons_of_mem _ hy)) he x hx
  | false :: s, q, [], hq, he, x, hx => lossy_all P s q [] hq he x (by simpa [lossy] using hx)
  | false :: s, q, e :: evs, hq, he, x, hx =>
    lossy_all P s (enqueue q e) evs (enqueue_all P q e hq (he e (List.mem_cons_self ..)))
      (fun c hc => he c (List.mem_cons_of_mem _ hc)) x (by simpa [lossy] using hx)

/-- Merging looks at ids, kinds and flags only: it commutes with the projection of both values. -/
theorem mergeChanges_project (mask : Option (List Path)) (a b : CollectionChange) :
    mergeChanges (projectChange mask a) (projectChange mask b) = (mergeChanges a b).map (projectChange mask) := by
  unfold mergeChanges
  cases ha : a.changeType <;> cases hb : b.changeType <;> simp [projectChange, ha, hb, projectOpt]

theorem enqueue_project (mask : Option (List Path)) : ∀ (q : List CollectionChange) (c : CollectionChange),
    enqueue (q.map (projectChange mask)) (projectChange mask c) = (enqueue q c).map (projectChange mask)
  | [], c => rfl
  | old :: q, c => by
    simp only [List.map_cons, enqueue]
    have hid : (projectChange mask old).id = old.id ∧ (projectChange mask c).id = c.id := ⟨rfl, rfl⟩
    rw [hid.1, hid.2, mergeChanges_project]
    split
    · cases mergeChanges old c <;> simp
    · simp [enqueue_project mask q c]

theorem foldl_enqueue_project (mask : Option (List Path)) : ∀ (evs q : List CollectionChange),
    (evs.map (projectChange mask)).foldl enqueue (q.map (projectChange mask))
      = (evs.foldl enqueue q).map (projectChange mask)
  | [], q => rfl
  | e :: evs, q => by
    simp only [List.map_cons, List.foldl_cons, enqueue_project]
    exact foldl_enqueue_project mask evs (enqueue q e)

theorem lossy_project (mask : Option (List Path)) : ∀ (s : List Bool) (q evs : List CollectionChange),
    lossy s (q.map (projectChange mask)) (evs.map (projectChange mask)) = (lossy s q evs).map (projectChange mask)
  | [], q, evs => by simp [lossy, foldl_enqueue_project]
  | true :: s, [], evs => by simpa [lossy] using lossy_project mask s [] evs
  | true :: s, c :: q, evs => by simpa [lossy] using lossy_project mask s q evs
  | false :: s, q, [] => by simpa [lossy] using lossy_project mask s q []
  | false :: s, q, e :: evs => by
    simp only [List.map_cons, lossy, enqueue_project]
    exact lossy_project mask s (enqueue q e) evs

/-- The same goroutine with every hand-over attempt recorded (`none`: the queue was empty, nothing can
be handed over) — what the driver prints, so that the harness knows when a receive would block. -/
def lossyT : List Bool → List CollectionChange → List CollectionChange → List (Option CollectionChange)
  | [], q, evs => (evs.foldl enqueue q).map some
  | true :: s, [], evs => none :: lossyT s [] evs
  | true :: s, c :: q, evs => some c :: lossyT s q evs
  | false :: s, q, [] => lossyT s q []
  | false :: s, q, e :: evs => lossyT s (enqueue q e) evs

theorem lossyT_eq : ∀ (s : List Bool) (q evs : List CollectionChange),
    (lossyT s q evs).filterMap id = lossy s q evs
  | [], q, evs => by simp [lossyT, lossy, List.filterMap_map]
  | true :: s, [], evs => by simpa [lossyT, lossy] using lossyT_eq s [] evs
  | true :: s, c :: q, evs => by simpa [lossyT, lossy] using lossyT_eq s q evs
  | false :: s, q, [] => by simpa [lossyT, lossy] using lossyT_eq s q []
  | false :: s, q, e :: evs => by simpa [lossyT, lossy] using lossyT_eq s (enqueue q e) evs

/-! ## The queue is a map: at most one change per id -/

theorem mergeChanges_id (a b n : CollectionChange) (h : mergeChanges a b = some n) : n.id = b.id := by
  unfold mergeChanges at h
  cases hk : a.changeType <;> simp only [hk] at h
  · cases h; rfl
  · cases hk2 : b.changeType <;> simp only [hk2] at h <;> first | (cases h; rfl) | cases h
  · cases h; rfl
  · cases h; rfl
  · cases h; rfl

theorem enqueue_ids_subset : ∀ (q : List CollectionChange) (c x : CollectionChange),
    x ∈ enqueue q c → x.id = c.id ∨ ∃ y ∈ q, y.id = x.id
  | [], c, x, hx => by
    simp only [enqueue, List.mem_singleton] at hx; subst hx; exact Or.inl rfl
  | old :: q, c, x, hx => by
    unfold enqueue at hx
    split at hx
    · cases hm : mergeChanges old c with
      | none => rw [hm] at hx; exact Or.inr ⟨x, List.mem_cons_of_mem _ hx, rfl⟩
      | some n =>
        rw [hm] at hx
        rcases List.mem_append.mp hx with hx | hx
        · exact Or.inr ⟨x, List.mem_cons_of_mem _ hx, rfl⟩
        · simp only [List.mem_singleton] at hx; subst hx
          exact Or.inl (mergeChanges_id old c _ hm)
    · rcases List.mem_cons.mp hx with rfl | hx
      · exact Or.inr ⟨x, List.mem_cons_self .., rfl⟩
      · rcases enqueue_ids_subset q c x hx with h | ⟨y, hy, hyx⟩
        · exact Or.inl h
        · exact Or.inr ⟨y, List.mem_cons_of_mem _ hy, hyx⟩

/-- `messages` is a map: at most one queued change per id. -/
def OnePerId (q : List CollectionChange) : Prop := q.Pairwise (fun a b => a.id ≠ b.id)

theorem enqueue_onePerId : ∀ (q : List CollectionChange) (c : CollectionChange),
    OnePerId q → OnePerId (enqueue q c)
  | [], c, _ => by simp [enqueue, OnePerId]
  | old :: q, c, h => by
    unfold OnePerId at h ⊢
    rw [List.pairwise_cons] at h
    unfold enqueue
    split
    · rename_i hid
      cases hm : mergeChanges old c with
      | none => exact h.2
      | some n =>
        simp only
        rw [List.pairwise_append]
        refine ⟨h.2, by simp, ?_⟩
        intro a ha b hb
        simp only [List.mem_singleton] at hb; subst hb
        rw [mergeChanges_id old c _ hm, ← hid]
        exact fun e => h.1 a ha e.symm
    · rename_i hid
      rw [List.pairwise_cons]
      refine ⟨?_, enqueue_onePerId q c h.2⟩
      intro x hx
      rcases enqueue_ids_subset q c x hx with hxc | ⟨y, hy, hyx⟩
      · rw [hxc]; exact hid
      · rw [← hyx]; exact h.1 y hy

/-- The queue of the lossy stage holds at most one change per id at every moment: for every schedule,
what is still queued when the schedule stops is one-per-id (so is every intermediate queue). -/
theorem lossy_queue_onePerId : ∀ (evs q : List CollectionChange), OnePerId q → OnePerId (evs.foldl enqueue q)
  | [], _, h => h
  | e :: evs, q, h => lossy_queue_onePerId evs (enqueue q e) (enqueue_onePerId q e h)

end ScVerif.C06
