import ScVerif.C06.CollLemmas
import ScVerif.C06.PropsOpts
/-!
# C06 — collection reads that combine a read mask with an include callback; PullID

Model: `ScVerif/C06/Coll.lean` (`ReadRequest.Exclude`, `Collection.itemSlice / List`, the seed loop
and the event loop of `Collection.Pull` with `CollectionChange.include`, `Collection.PullID`).
Specification: the include callback is a predicate on the STORED item (`selected`), the read mask
only selects fields of what was kept (`projectMask`, `projectChange`).

All theorems quantify over every store (any iteration order), every include callback (an arbitrary
function), every read mask / option list, every sequence of raw events and every id.  `Proper mask`
is the side condition of `C06_projection` (implied by `Validate`).
-/
namespace ScVerif.C06
open ScVerif.C05

/-- **C06_list_include (full strength).**  `List` with a read mask and an include callback returns,
sorted by id, the projection of exactly those stored items the callback accepts WHEN GIVEN THE STORED
MESSAGE: the mask has no say in which items are returned. -/
theorem C06_list_include (I : Nat → Pred) (rr : ReadRequest) (st : Store) (h : Proper rr.readMask) :
    listWith I rr st
      = some ((sortById (selected (rr.incl.map I) st)).map (fun e => projectMask rr.readMask e.body)) := by
  unfold listWith
  rw [responseFilter_eq, itemSlice_eq_selected, filterBodies_eq _ h]

/-- **C06_list_mask_commutes.**  Hence a masked `List` is, item by item, the projection of the
unmasked `List` with the same other options (the statement the monitor evaluates on the code). -/
theorem C06_list_mask_commutes (I : Nat → Pred) (rr : ReadRequest) (st : Store) (h : Proper rr.readMask) :
    listWith I rr st
      = (listWith I { rr with readMask := none } st).map (List.map (projectMask rr.readMask)) := by
  rw [C06_list_include I rr st h,
    C06_list_include I { rr with readMask := none } st (fun _ e => by cases e)]
  simp [projectMask, Function.comp_def]

/-- **C06_list_sorted_selection.**  What is projected is a sorted arrangement of exactly the accepted
stored items (so: independent of the map's iteration order when ids are unique). -/
theorem C06_list_sorted_selection (I : Nat → Pred) (rr : ReadRequest) (st : Store) (h : Proper rr.readMask) :
    ∃ sel : List Item, listWith I rr st = some (sel.map (fun e => projectMask rr.readMask e.body))
      ∧ SortedById sel
      ∧ ∀ e, e ∈ sel ↔ e ∈ st ∧ (∀ n, rr.incl = some n → I n e.id e.body = true) := by
  refine ⟨_, C06_list_include I rr st h, sortById_sorted _, fun e => ?_⟩
  rw [(sortById_perm _).mem_iff]
  unfold selected
  cases rr.incl <;> simp

/-- **C06_options_last_of_each_kind.**  `ComputeReadConfig` for every option list: each field of the
request is what the right-most option of its kind says (the zero value if there is none) — the last
`WithInclude` is the callback (a nil func after a callback switches it off), likewise `UpdatesOnly`,
`Backpressure` and the read mask; options of one kind never disturb another. -/
theorem C06_options_last_of_each_kind (S : Schema) (ty : Nat) (opts : List ReadOpt) (rr : ReadRequest)
    (h : computeReadConfig S ty opts = some rr) :
    rr.readMask = effectiveMask opts ∧ rr.incl = effectiveIncl opts
      ∧ rr.updatesOnly = effectiveUpdatesOnly opts ∧ rr.backpressure = effectiveBackpressure opts := by
  unfold computeReadConfig at h
  split at h
  · cases h
    exact ⟨by rw [applyAll_readMask]; rfl, by rw [applyAll_incl]; rfl,
      by rw [applyAll_updatesOnly]; rfl, by rw [applyAll_backpressure]; rfl⟩
  · cases h

/-- **C06_list_with_options.**  `List` from an option list: the stored items the LAST include callback
accepts (judged on the stored message), in id order, projected onto the mask of the LAST read-mask
option. -/
theorem C06_list_with_options (I : Nat → Pred) (S : Schema) (ty : Nat) (opts : List ReadOpt) (st : Store)
    (hb : opts.all (ReadOpt.builds S ty) = true) (h : Proper (effectiveMask opts)) :
    collList I S ty opts st
      = some ((sortById (selected ((effectiveIncl opts).map I) st)).map
          (fun e => projectMask (effectiveMask opts) e.body)) := by
  unfold collList computeReadConfig
  simp only [hb, if_true]
  have hm : (applyAll {} opts).readMask = effectiveMask opts := by rw [applyAll_readMask]; rfl
  have hi : (applyAll {} opts).incl = effectiveIncl opts := by rw [applyAll_incl]; rfl
  rw [C06_list_include I _ st (by rw [hm]; exact h), hm, hi]

/-- **C06_pull_seeds.**  The seed values of `Pull`: nothing with `UpdatesOnly`; otherwise one ADD per
accepted stored item (accepted on the STORED message), in id order, carrying the item's change time,
the seed flag, the last-seed flag on the final one only, and the PROJECTION of the item. -/
theorem C06_pull_seeds (I : Nat → Pred) (rr : ReadRequest) (st : Store) (h : Proper rr.readMask) :
    pullSeeds I rr st = some (if rr.updatesOnly then []
      else (seedSpec (sortById (selected (rr.incl.map I) st))).map (projectChange rr.readMask)) := by
  unfold pullSeeds
  split
  · rfl
  · rw [responseFilter_eq, itemSlice_eq_selected, seedsFrom_eq _ h]

/-- **C06_pull_event.**  One published change, for ANY include callback, mask and equivalence:
`include` decides on the stored old / new values whether and as what (UPDATE, ADD on entering, REMOVE
on leaving) it is forwarded; the forwarded change carries the projections of both values; a collection
equivalence, if configured, is asked about the projected values. -/
theorem C06_pull_event (incl : Option Pred) (mask : Option (List Path)) (eq : Equiv) (c : CollectionChange)
    (h : Proper mask) :
    pullEvent incl mask eq c = some (match c.includeP incl with
      | none => none
      | some c' =>
        match eq with
        | some cmp =>
          if cmp (projectOpt mask c'.oldValue) (projectOpt mask c'.newValue) then none
          else some (projectChange mask c')
        | none => some (projectChange mask c')) :=
  pullEvent_eq incl mask eq c h

/-- **C06_include_sees_stored.**  What `include` forwards, spelled out: nothing iff neither the old
nor the new STORED value is accepted (an absent value never is); the change itself when both are;
an ADD without old value when only the new one is; a REMOVE without new value when only the old one is. -/
theorem C06_include_sees_stored (f : Pred) (c : CollectionChange) :
    c.includeP (some f) =
      match includedOpt f c.id c.oldValue, includedOpt f c.id c.newValue with
      | false, false => none
      | true, true => some c
      | false, true => some ⟨c.id, c.changeTime, .add, none, c.newValue, c.seedValue, false⟩
      | true, false => some ⟨c.id, c.changeTime, .remove, c.oldValue, none, false, false⟩ := by
  simp only [CollectionChange.includeP]
  cases h1 : includedOpt f c.id c.oldValue <;> cases h2 : includedOpt f c.id c.newValue <;> simp

/-- **C06_pull_stream_commutes.**  Without a collection equivalence, everything a masked `Pull`
subscriber is sent — seeds and events, under any include callback — is, change by change, the
projection of what the same subscription without the mask is sent: same ids, kinds, times and flags,
both values projected. -/
theorem C06_pull_stream_commutes (I : Nat → Pred) (rr : ReadRequest) (st : Store)
    (evs : List CollectionChange) (h : Proper rr.readMask) :
    pullStream I rr none st evs
      = (pullStream I { rr with readMask := none } none st evs).map (List.map (projectChange rr.readMask)) := by
  have h0 : Proper (none : Option (List Path)) := fun _ e => by cases e
  unfold pullStream
  rw [C06_pull_seeds I rr st h, C06_pull_seeds I { rr with readMask := none } st h0,
    responseFilter_eq, responseFilter_eq, pullEvents_eq _ _ h, pullEvents_eq _ _ h0]
  simp only [Option.map_some, List.map_append, List.map_map]
  have : (projectChange rr.readMask ∘ projectChange none) = projectChange rr.readMask := by
    funext c; simp [projectChange_nil_mask]
  split <;> simp [this]

/-- **C06_pullid_commutes.**  …and so is every value `PullID` delivers for any id: the seed value and
each update are the projections of what the unmasked `PullID` delivers, with the same times and flags. -/
theorem C06_pullid_commutes (I : Nat → Pred) (rr : ReadRequest) (st : Store)
    (evs : List CollectionChange) (id : String) (h : Proper rr.readMask) :
    pullID I rr none st evs id
      = (pullID I { rr with readMask := none } none st evs id).map (List.map (projectValueChange rr.readMask)) := by
  unfold pullID
  rw [C06_pull_stream_commutes I rr st evs h]
  cases pullStream I { rr with readMask := none } none st evs with
  | none => rfl
  | some cs => simp [pullIDLoop_project]

/-- **C06_pullid_seed.**  The first value of a `PullID` subscription on an item that is stored (and
accepted): exactly one seed value — the PROJECTION of the stored item, its change time, flagged as
seed and as last seed, wherever the item sorts among the collection's items. -/
theorem C06_pullid_seed (I : Nat → Pred) (rr : ReadRequest) (eq : Equiv) (st : Store) (e : Item)
    (h : Proper rr.readMask) (hu : UniqueIds st) (he : e ∈ st)
    (hinc : ∀ n, rr.incl = some n → I n e.id e.body = true) (hupd : rr.updatesOnly = false) :
    pullID I rr eq st [] e.id
      = some [⟨some (projectMask rr.readMask e.body), e.changeTime, true, true⟩] := by
  unfold pullID pullStream
  rw [C06_pull_seeds I rr st h]
  simp only [hupd, pullEvents, List.append_nil, Option.map_some, Bool.false_eq_true, if_false]
  congr 1
  apply pullIDLoop_seeds_present
  · have hp : ((sortById (selected (rr.incl.map I) st)).map (·.id)).Perm ((selected (rr.incl.map I) st).map (·.id)) :=
      (sortById_perm _).map _
    rw [hp.nodup_iff]
    exact List.Nodup.sublist (List.Sublist.map _ List.filter_sublist) hu
  · rw [(sortById_perm _).mem_iff]
    unfold selected
    cases hi : rr.incl with
    | none => simp [he]
    | some n => simp [he, hinc n hi]

/-- **C06_pullid_no_seed.**  No seed value when the id is not stored, is not accepted by the callback
(judged on the stored item), or the subscription is `UpdatesOnly`. -/
theorem C06_pullid_no_seed (I : Nat → Pred) (rr : ReadRequest) (eq : Equiv) (st : Store) (id : String)
    (h : Proper rr.readMask)
    (hno : rr.updatesOnly = true ∨ ∀ e ∈ st, e.id = id → ∃ n, rr.incl = some n ∧ I n e.id e.body = false) :
    pullID I rr eq st [] id = some [] := by
  unfold pullID pullStream
  rw [C06_pull_seeds I rr st h]
  simp only [pullEvents, List.append_nil, Option.map_some]
  congr 1
  rcases hno with hu | hno
  · simp [hu, pullIDLoop]
  · split
    · rfl
    · apply pullIDLoop_seeds_absent
      intro x hx hid
      rw [(sortById_perm _).mem_iff] at hx
      unfold selected at hx
      obtain ⟨n, hn, hf⟩ := hno x (List.mem_filter.mp hx).1 hid
      have := (List.mem_filter.mp hx).2
      simp [hn, hf] at this

/-- **C06_collection_reads_no_panic.**  No store, option, callback, mask (valid or not), event
sequence or equivalence makes `List`, `Pull` or `PullID` panic in the filter. -/
theorem C06_collection_reads_no_panic (I : Nat → Pred) (rr : ReadRequest) (eq : Equiv) (st : Store)
    (evs : List CollectionChange) (id : String) :
    listWith I rr st ≠ none ∧ pullStream I rr eq st evs ≠ none ∧ pullID I rr eq st evs id ≠ none := by
  have hs : pullStream I rr eq st evs ≠ none := by
    unfold pullStream pullSeeds
    have h2 := pullEvents_ne_none (rr.incl.map I) rr.responseFilter eq evs
    have h1 := seedsFrom_ne_none rr.responseFilter (sortById (itemSlice (rr.incl.map I) st))
    cases hb : pullEvents (rr.incl.map I) rr.responseFilter eq evs with
    | none => exact absurd hb h2
    | some b =>
      cases ha : seedsFrom rr.responseFilter (sortById (itemSlice (rr.incl.map I) st)) with
      | none => exact absurd ha h1
      | some a => by_cases hu : rr.updatesOnly = true <;> simp [hu]
  refine ⟨filterBodies_ne_none _ _, hs, ?_⟩
  unfold pullID
  cases hp : pullStream I rr eq st evs with
  | none => exact absurd hp hs
  | some cs => simp

/-- **C06_include_on_projection_differs.**  Handing the callback the projection instead of the stored
message (what looks like a defensive copy) is a different function: with the mask `{f}` a callback that
looks at `g` loses the item. -/
theorem C06_include_on_projection_differs :
    ∃ (f : Pred) (mask : Option (List Path)) (st : Store),
      selectedOnProjection (some f) mask st ≠ selected (some f) st :=
  ⟨fun _ m => m.has "g", some [["f"]], [⟨"x", exMsg, 0⟩], by decide⟩

/-! ## Non-vacuity -/

/-- a callback, then a nil func: no callback; two masks and two callbacks: the last of each -/
example : effectiveIncl [.incl (some 4), .readMask none, .incl none] = none := by decide
example : computeReadConfig exSchema 0 [.incl (some 4), .readMask (some [["g"]]), .updatesOnly true, .incl (some 2), .readMask (some [["f"]])]
    = some ⟨some [["f"]], true, false, some 2⟩ := by decide

def exStore : Store :=
  [⟨"y", exMsg, 2⟩, ⟨"x", .cons "g" (.sc "i9") .nil, 1⟩, ⟨"w", .cons "f" (.msg (.cons "c" (.sc "i5") .nil)) .nil, 3⟩]

/-- mask `{f.c}` with a callback that looks at `g` (which the mask does not select): the two items
with a `g` are returned, in id order, projected (one of them to the empty message). -/
example : listWith (fun _ => fun _ m => m.has "g") ⟨some [["f", "c"]], false, false, some 0⟩ exStore
    = some [.nil, .cons "f" (.msg (.cons "c" (.sc "i1") .nil)) .nil] := by decide
example : UniqueIds exStore := by unfold UniqueIds; decide
/-- PullID on "x" (which sorts in the middle): one seed value, projected, flagged last. -/
example : pullID (fun _ => fun _ _ => true) ⟨some [["g"]], false, false, none⟩ none exStore [] "x"
    = some [⟨some (.cons "g" (.sc "i9") .nil), 1, true, true⟩] := by decide
/-- an UPDATE that leaves the include set (judged on the stored new value) is forwarded as a REMOVE
carrying the projection of the old value -/
example : pullEvent (some (fun _ m => m.has "g")) (some [["f", "c"]]) none
      ⟨"y", 5, .update, some exMsg, some (.cons "r" (.scs ["i1"]) .nil), false, false⟩
    = some (some ⟨"y", 5, .remove, some (.cons "f" (.msg (.cons "c" (.sc "i1") .nil)) .nil), none, false, false⟩) := by
  decide

end ScVerif.C06
