import ScVerif.C06.ValuePull
/-
The write/subscribe interleavings of a `resource.Value` (`pkg/resource/value.go`): `Value.set` stores
the new value and its change time under the lock (`GetAndUpdate`), releases the lock and then
publishes (`r.bus.Send`); a `Value.Pull` that opens in between is seeded with the stored value and is
then sent that writer's change.  Same shape as `Sched.lean` for collections.
-/
namespace ScVerif.C06
open ScVerif.C05

/-- `r.value`, `r.changeTime`, and the writers parked before `r.bus.Send` (value and the time their
clock shows: with an injected clock both readings of one `Set` are the same instant). -/
structure VWorld where
  value : Option Fields := none
  changeTime : Int := 0
  pending : List (Fields × Int) := []
deriving Repr

inductive VStep where
  | set (m : Fields) (t : Int)   -- Value.Set(m) up to bus.Send, the clock showing t
  | publish (k : Nat)            -- bus.Send of the k-th parked writer
deriving DecidableEq, Repr

def vstep (w : VWorld) : VStep → VWorld × List ValueChange
  | .set m t => ({ value := some m, changeTime := t, pending := w.pending ++ [(m, t)] }, [])
  | .publish k =>
    match w.pending[k]? with
    | none => (w, [])
    | some (m, t) => ({ w with pending := w.pending.eraseIdx k }, [⟨some m, t, false, false⟩])

def vrun : VWorld → List VStep → VWorld × List ValueChange
  | w, [] => (w, [])
  | w, s :: rest => ((vrun (vstep w s).1 rest).1, (vstep w s).2 ++ (vrun (vstep w s).1 rest).2)

/-- What `onUpdate` reads. -/
def VWorld.cur (w : VWorld) : Option (Fields × Int) := w.value.map (fun v => (v, w.changeTime))

/-- A `Value.Pull(opts…)` that opens after `pre` and stays open during `post`. -/
def vsession (rr : ReadRequest) (eq : Equiv) (w0 : VWorld) (pre post : List VStep) : Out (List ValueChange) :=
  valuePull rr eq (vrun w0 pre).1.cur (vrun (vrun w0 pre).1 post).2

end ScVerif.C06
