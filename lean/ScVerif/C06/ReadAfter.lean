import ScVerif.C06.SchedChain
import ScVerif.C06.VSched
import ScVerif.C06.CollLemmas
/-
Reads that come AFTER writes: `Value.Get` (`req.FilterClone(r.value)` under the read lock) and
`Collection.Get` (`readConfig.FilterClone(entry.body)` of the entry found under the read lock; the
include callback has no say, an absent id is `(nil, false)`) at any point of a schedule of write
halves (`Sched.lean`, `VSched.lean`).  Both read what is stored at that moment — also the value of a
writer that has not published yet — and compute the projection from it: nothing a read made earlier,
and nothing the clock showed, goes in.

The specification of "what is stored" is a plain register / a plain map from ids to messages
(`heldAfter`, `heldRun`) that knows nothing of clocks, change times, parked writers or publications.
-/
namespace ScVerif.C06
open ScVerif.C05

/-! ## resource.Value -/

/-- `Value.Get(opts…)` after the steps; the inner `none`: the value holds Go's nil message. -/
def vgetAfter (rr : ReadRequest) (w0 : VWorld) (steps : List VStep) : Out (Option Fields) :=
  match (vrun w0 steps).1.value with
  | none => some none
  | some v => (rr.filterClone v).map some

/-- Specification: a register. `Set` overwrites it, a publication does not touch it. -/
def heldAfter (v : Option Fields) : List VStep → Option Fields
  | [] => v
  | .set m _ :: rest => heldAfter (some m) rest
  | .publish _ :: rest => heldAfter v rest

/-- A schedule with its time stamps forgotten. -/
def VStep.untimed : VStep → VStep
  | .set m _ => .set m 0
  | .publish k => .publish k

theorem vstep_value (w : VWorld) (s : VStep) : (vstep w s).1.value = heldAfter w.value [s] := by
  cases s with
  | set m t => rfl
  | publish k =>
    simp only [vstep, heldAfter]
    split <;> rfl

theorem vrun_value : ∀ (steps : List VStep) (w : VWorld), (vrun w steps).1.value = heldAfter w.value steps
  | [], _ => rfl
  | s :: rest, w => by
    have h := vrun_value rest (vstep w s).1
    rw [vstep_value] at h
    simp only [vrun, h]
    cases s <;> rfl

theorem heldAfter_untimed : ∀ (steps : List VStep) (v : Option Fields),
    heldAfter v (steps.map VStep.untimed) = heldAfter v steps
  | [], _ => rfl
  | .set m t :: rest, v => by simp only [List.map_cons, VStep.untimed, heldAfter, heldAfter_untimed rest]
  | .publish k :: rest, v => by simp only [List.map_cons, VStep.untimed, heldAfter, heldAfter_untimed rest]

theorem vgetAfter_eq (rr : ReadRequest) (w0 : VWorld) (steps : List VStep) :
    vgetAfter rr w0 steps = match heldAfter w0.value steps with
      | none => some none
      | some v => (rr.filterClone v).map some := by
  unfold vgetAfter
  rw [vrun_value]

/-! ## resource.Collection -/

/-- `Collection.Get(id, opts…)` after the steps; the inner `none`: `(nil, false)`, no such id. -/
def getAfter (rr : ReadRequest) (w0 : World) (steps : List Step) (id : String) : Out (Option Fields) :=
  match lookup (run w0 steps).1.store id with
  | none => some none
  | some e => (rr.filterClone e.body).map some

/-- Specification: a map from ids to messages.  `Add` needs the id absent, `Update` present (else the
write is refused and nothing changes), `Delete` removes, a publication does not touch it. -/
def heldStep (h : Held) : Step → Held
  | .add id m => if (h id).isNone then h.set id (some m) else h
  | .update id m => if (h id).isSome then h.set id (some m) else h
  | .publish _ => h
  | .delete id => h.set id none

def heldRun (h : Held) : List Step → Held
  | [] => h
  | s :: rest => heldRun (heldStep h s) rest

theorem step_bodyOf (w : World) (s : Step) : bodyOf (step w s).1.store = heldStep (bodyOf w.store) s := by
  cases s with
  | add id m =>
    cases hl : lookup w.store id with
    | some e => simp [step, hl, heldStep, bodyOf]
    | none =>
      have hb : bodyOf (w.store ++ [⟨id, m, w.clock + w.tick⟩]) = (bodyOf w.store).set id (some m) := by
        funext i
        simp only [bodyOf, Held.set, lookup_append_new ⟨id, m, w.clock + w.tick⟩ i w.store hl]
        by_cases hi : i = id <;> simp [hi]
      have ho : bodyOf w.store id = none := by simp [bodyOf, hl]
      simp [step, hl, heldStep, hb, ho]
  | update id m =>
    cases hl : lookup w.store id with
    | none => simp [step, hl, heldStep, bodyOf]
    | some e =>
      have hb : bodyOf (w.store.map (fun x => if x.id == id then ⟨id, m, w.clock + w.tick⟩ else x))
          = (bodyOf w.store).set id (some m) := by
        funext i
        simp only [bodyOf, Held.set, lookup_map_set id ⟨id, m, w.clock + w.tick⟩ rfl i w.store]
        by_cases hi : i = id <;> simp [hi, hl]
      have ho : bodyOf w.store id = some e.body := by simp [bodyOf, hl]
      simp only [step, hl, heldStep, hb, ho, Option.isSome_some, if_true]
  | publish k =>
    simp only [step, heldStep]
    split <;> rfl
  | delete id =>
    cases hl : lookup w.store id with
    | none =>
      have : (bodyOf w.store).set id none = bodyOf w.store := by
        funext i
        by_cases hi : i = id
        · subst hi; simp [Held.set, bodyOf, hl]
        · simp [Held.set, hi]
      simp [step, hl, heldStep, this]
    | some e =>
      have hb : bodyOf (w.store.filter (fun x => x.id != id)) = (bodyOf w.store).set id none := by
        funext i
        simp only [bodyOf, Held.set, lookup_filter_ne id i w.store]
        by_cases hi : i = id <;> simp [hi]
      simp only [step, hl, heldStep, hb]

theorem run_bodyOf : ∀ (steps : List Step) (w : World), bodyOf (run w steps).1.store = heldRun (bodyOf w.store) steps
  | [], _ => rfl
  | s :: rest, w => by
    simp only [run, heldRun, run_bodyOf rest (step w s).1, step_bodyOf]

theorem getAfter_eq (rr : ReadRequest) (w0 : World) (steps : List Step) (id : String) :
    getAfter rr w0 steps id = match heldRun (bodyOf w0.store) steps id with
      | none => some none
      | some b => (rr.filterClone b).map some := by
  have h := congrFun (run_bodyOf steps w0) id
  unfold getAfter
  simp only [bodyOf] at h
  cases hl : lookup (run w0 steps).1.store id with
  | none => rw [hl] at h; simp only [Option.map_none] at h; rw [← h]
  | some e => rw [hl] at h; simp only [Option.map_some] at h; rw [← h]

/-- `rr.FilterClone` of a proper mask is the projection. -/
theorem rr_filterClone (rr : ReadRequest) (h : Proper rr.readMask) (fs : Fields) :
    rr.filterClone fs = some (projectMask rr.readMask fs) := by
  unfold ReadRequest.filterClone
  rw [responseFilter_eq]
  exact C06_projection rr.readMask fs h

end ScVerif.C06
