import ScVerif.C06.Heap
import ScVerif.C06.Props
/-!
# C06 — "never mutates" for composed responses (one level of sharing)

Model: `ScVerif/C06/Heap.lean`.  A trait-level reader (openclosepb `GetPositions` / `PullPositions`,
the List RPCs) builds a fresh container whose message fields are the STORED messages and projects
it.  `FilterClone` deep-copies first; `Filter` works in place and follows the references.

All theorems quantify over every mask, every heap of stored messages and every container.
-/
namespace ScVerif.C06
open ScVerif.C05

/-- **C06_composed_clone_pure (full strength).**  Projecting a composed response with
`FilterClone` never writes to a stored message, whatever the mask (nested below the shared fields,
through repeated fields, invalid …) and however the container shares stored messages. -/
theorem C06_composed_clone_pure (mask : Option (List Path)) (h : Heap) (c : Container) :
    (filterCloneH mask h c).2 = h := by
  unfold filterCloneH
  match mask with
  | none => rfl
  | some [] => simp [filterInPlace]
  | some (p :: ps) =>
    simp only [filterInPlace]
    split
    · rfl
    · exact (filterInPlaceFields_own _ h _ (allOwn_cloneC h c)).1

/-- **C06_composed_clone_value.**  …and what it returns is exactly the tree-level read of what the
container shows (`filterClone` of `Get.lean`, hence the projection by `C06_projection`). -/
theorem C06_composed_clone_value (ps : List Path) (h : Heap) (c : Container) :
    some (resolve (filterCloneH (some ps) h c).2 (filterCloneH (some ps) h c).1)
      = filterClone (some ps) (resolve h c) := by
  rw [C06_composed_clone_pure]
  unfold filterCloneH
  match ps with
  | [] => simp [filterInPlace, filterClone, filter, resolve]
  | p :: ps =>
    simp only [filterInPlace, filterClone, filter, safeMsg]
    split
    · simp [resolve_cloneC]
    · rw [(filterInPlaceFields_own _ h _ (allOwn_cloneC h c)).2, resolve_cloneC]

/-- **C06_composed_projection.**  A composed read through `FilterClone` is the projection of what
the unmasked container shows, and the store is untouched — the statement the harness's
`composed-read-semantics` monitor evaluates on the real readers. -/
theorem C06_composed_projection (ps : List Path) (h : Heap) (c : Container)
    (hps : NonNil ps ∧ Clean ps) :
    resolve h (filterCloneH (some ps) h c).1 = project ps (resolve h c) ∧ (filterCloneH (some ps) h c).2 = h := by
  have hv := C06_composed_clone_value ps h c
  rw [C06_composed_clone_pure] at hv
  rw [C06_projection (some ps) _ (fun _ e => by cases e; exact hps)] at hv
  exact ⟨by simpa [projectMask] using hv, C06_composed_clone_pure _ h c⟩

/-- **C06_composed_inplace_fails.**  The in-place `Filter` on a shallow-fresh container is NOT
pure: a mask that continues below a shared field (`states.open_percent`) clears fields of the stored
message (openclosepb `PullPositions` before 6769c0c; `GetPositions` before c820953). -/
theorem C06_composed_inplace_fails :
    ∃ (mask : Option (List Path)) (h : Heap) (c : Container), (filterInPlace mask h c).2 ≠ h :=
  ⟨some [["states", "open_percent"]],
   [.cons "open_percent" (.sc "f1") (.cons "direction" (.sc "e1") .nil)],
   [("states", .refs [0])], by decide⟩

/-- **C06_composed_inplace_partial.**  The in-place `Filter` leaves the store alone when the mask
does not continue below a reference field (top-level masks: why the defect stayed latent). -/
theorem C06_composed_inplace_partial (mask : Option (List Path)) (h : Heap) (c : Container)
    (hflat : ∀ ps, mask = some ps → FlatOnRefs (nestedMask ps) c) :
    (filterInPlace mask h c).2 = h := by
  match mask, hflat with
  | none, _ => rfl
  | some [], _ => rfl
  | some (p :: ps), hflat =>
    simp only [filterInPlace]
    split
    · rfl
    · exact filterInPlaceFields_flat _ h c (hflat _ rfl)

/-! ## Non-vacuity -/

def exHeap : Heap :=
  [.cons "open_percent" (.sc "f1") (.cons "direction" (.sc "e1") .nil),
   .cons "name" (.sc "s1") (.cons "title" (.sc "s2") .nil)]
def exContainer : Container := [("states", .refs [0]), ("preset", .ref 1)]

/-- a nested mask through both kinds of reference: the clone is projected, the store untouched -/
example : resolve exHeap (filterCloneH (some [["states", "open_percent"], ["preset", "name"]]) exHeap exContainer).1
    = .cons "states" (.msgs (.cons (.cons "open_percent" (.sc "f1") .nil) .nil))
        (.cons "preset" (.msg (.cons "name" (.sc "s1") .nil)) .nil) := by decide
example : (filterInPlace (some [["preset", "name"]]) exHeap exContainer).2 ≠ exHeap := by decide
/-- the hypothesis of the partial theorem is satisfiable by a non-trivial mask -/
example : FlatOnRefs (nestedMask [["states"]]) exContainer := by
  simp only [FlatOnRefs, exContainer]; decide

end ScVerif.C06
