import ScVerif.C06.ValuePull
import ScVerif.C06.CollLemmas
/-! Lemmas about the `Value.Pull` model (`ValuePull.lean`). -/
namespace ScVerif.C06
open ScVerif.C05

theorem valueEvents_eq (mask : Option (List Path)) (eq : Equiv) (h : Proper mask) :
    ∀ (evs : List ValueChange) (last : Option Fields),
      valueEvents mask eq last evs = some (match eq with
        | none => evs.map (projectValueChange mask)
        | some cmp => dedupSpec cmp last (evs.map (projectValueChange mask)))
  | [], last => by cases eq <;> rfl
  | e :: rest, last => by
    unfold valueEvents
    rw [C06_value_change_filter mask e h]
    cases eq with
    | none =>
      simp only [valueEvents_eq mask none h rest, Option.map_some, List.map_cons, projectValueChange]
    | some cmp =>
      simp only [List.map_cons, dedupSpec, projectValueChange]
      split
      · rw [valueEvents_eq mask (some cmp) h rest last]
      · rw [valueEvents_eq mask (some cmp) h rest]; rfl

theorem dedupSpec_sublist (cmp : Option Fields → Option Fields → Bool) :
    ∀ (l : List ValueChange) (last : Option Fields), (dedupSpec cmp last l).Sublist l
  | [], _ => List.Sublist.slnil
  | d :: rest, last => by
    unfold dedupSpec
    split
    · exact (dedupSpec_sublist cmp rest last).cons _
    · exact (dedupSpec_sublist cmp rest _).cons_cons _

end ScVerif.C06
