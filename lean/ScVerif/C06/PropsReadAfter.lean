import ScVerif.C06.ReadAfter
import ScVerif.C06.Props
/-!
# C06 — reads that come after writes show what is stored THEN, whatever the clock showed

Model: `ScVerif/C06/ReadAfter.lean` (`Value.Get` / `Collection.Get` at any point of a schedule of write
halves of `VSched.lean` / `Sched.lean`).  The specifications are a plain register and a plain map from
ids to messages that know nothing of change times, clocks, parked writers or publications.

All theorems quantify over every initial world (stored messages, clock reading, clock step — also a
clock that stands still —, writers already parked), every schedule (writes stored but not published,
publications in any order, refused writes, deletes), every time stamp of every `Set` (equal ones
included: `WithWriteTime`), every read mask satisfying `Proper` (implied by `Validate`), every id.
-/
namespace ScVerif.C06
open ScVerif.C05

/-- **C06_value_get_after_writes.**  A masked `Value.Get` after any schedule of `Set` halves returns the
projection of the message written LAST (the initial value if nothing was written) — also when that
writer has not published yet, and whatever time stamps the writes carried. -/
theorem C06_value_get_after_writes (rr : ReadRequest) (w0 : VWorld) (steps : List VStep)
    (h : Proper rr.readMask) :
    vgetAfter rr w0 steps = some ((heldAfter w0.value steps).map (projectMask rr.readMask)) := by
  rw [vgetAfter_eq]
  cases heldAfter w0.value steps with
  | none => rfl
  | some v => simp [rr_filterClone rr h]

/-- **C06_value_get_ignores_times.**  Two schedules that differ only in the time stamps of their writes
(and two values that differ only in their change time and parked writers) answer every `Value.Get`
alike: for every mask, proper or not. -/
theorem C06_value_get_ignores_times (rr : ReadRequest) (w0 w1 : VWorld) (s0 s1 : List VStep)
    (hv : w0.value = w1.value) (hs : s0.map VStep.untimed = s1.map VStep.untimed) :
    vgetAfter rr w0 s0 = vgetAfter rr w1 s1 := by
  rw [vgetAfter_eq, vgetAfter_eq, ← heldAfter_untimed s0, ← heldAfter_untimed s1, hv, hs]

/-- **C06_change_time_is_not_a_version.**  Why a read may not be answered from a projection remembered
under (mask, change time): two writes with the same time stamp leave the value with the change time it
had after the first one, yet the masked `Get` must answer differently. -/
theorem C06_change_time_is_not_a_version :
    ∃ (rr : ReadRequest) (m1 m2 : Fields) (t : Int),
      (vrun {} [.set m1 t]).1.changeTime = (vrun {} [.set m1 t, .publish 0, .set m2 t]).1.changeTime
        ∧ vgetAfter rr {} [.set m1 t] ≠ vgetAfter rr {} [.set m1 t, .publish 0, .set m2 t] :=
  ⟨⟨some [["g"]], false, false, none⟩, .cons "g" (.sc "i1") .nil, .cons "g" (.sc "i2") .nil, 7, by decide⟩

/-- **C06_collection_get_after_writes.**  A masked `Collection.Get(id)` after any schedule of write halves
(Add / Update stored but not published, publications in any order, refused writes, Delete) returns the
projection of what a plain map holds for the id after the same writes — `(nil, false)` exactly when the
map holds nothing —, for every clock (also one that stands still, so that every item carries the same
change time). -/
theorem C06_collection_get_after_writes (rr : ReadRequest) (w0 : World) (steps : List Step) (id : String)
    (h : Proper rr.readMask) :
    getAfter rr w0 steps id
      = some ((heldRun (bodyOf w0.store) steps id).map (projectMask rr.readMask)) := by
  rw [getAfter_eq]
  cases heldRun (bodyOf w0.store) steps id with
  | none => rfl
  | some v => simp [rr_filterClone rr h]

/-- **C06_collection_get_ignores_the_clock.**  Two collections that hold the same messages under the same
ids answer every `Get` after the same writes alike, whatever their clocks show, however far they step
(`tick`), whatever change times their items carry and whichever writers are parked: for every mask. -/
theorem C06_collection_get_ignores_the_clock (rr : ReadRequest) (w0 w1 : World) (steps : List Step) (id : String)
    (hb : bodyOf w0.store = bodyOf w1.store) :
    getAfter rr w0 steps id = getAfter rr w1 steps id := by
  rw [getAfter_eq, getAfter_eq, hb]

/-! ## Non-vacuity -/

/-- a frozen clock: both items and the change carry time 0, the masked Get shows the second write -/
example : getAfter ⟨some [["g"]], false, false, none⟩ { tick := 0 }
      [.add "x" (.cons "g" (.sc "i1") (.cons "h" (.sc "i9") .nil)), .publish 0, .update "x" (.cons "g" (.sc "i2") .nil)] "x"
    = some (some (.cons "g" (.sc "i2") .nil)) := by
  decide

example : (run { tick := 0 } [.add "x" .nil, .publish 0, .update "x" .nil, .publish 0]).2.map (·.changeTime) = [0, 0] := by
  decide

/-- an absent id, a deleted id -/
example : getAfter {} {} [.add "x" .nil, .delete "x"] "x" = some none ∧ getAfter {} {} [] "q" = some none := by
  decide

/-- two different worlds (clock, tick, item times) with the same bodies -/
example : bodyOf ({ store := [⟨"x", .nil, 5⟩], clock := 9, tick := 0 } : World).store
    = bodyOf ({ store := [⟨"x", .nil, 1⟩] } : World).store := by
  funext i; simp [bodyOf, lookup_cons, lookup_nil]

/-- the register with a parked writer: the Get already shows its value -/
example : vgetAfter {} { value := some .nil } [.set (.cons "g" (.sc "i1") .nil) 3]
    = some (some (.cons "g" (.sc "i1") .nil)) := by
  decide

end ScVerif.C06
