import ScVerif.C05.Lib
/-
Model of `pkg/masks/get.go` (`ResponseFilter.Validate / Filter / FilterClone`) and, independently of
fmutils' nested masks, the specification `project`: the projection of a message onto a *set of
paths* (a field survives whole if some path names it, partially if paths only continue below it,
not at all otherwise).
-/
namespace ScVerif.C06
open ScVerif.C05

/-- `ResponseFilter.Validate(msg)`: `true` is `nil`, `false` is `InvalidArgument`. -/
def validate (S : Schema) (ty : Nat) : Option (List Path) → Bool
  | none => true
  | some ps => isValid S ty ps

mutual
  /-- Body of `filterMessage(msg, mask)` (pkg/masks/get.go) for a non-empty mask: like
  `fmutils.NestedMask.Filter`, but a nested mask below a map, a repeated scalar or a scalar field
  selects the whole field instead of calling `.Message()` on it. -/
  def safeFields (mask : Mask) : Fields → Fields
    | .nil => .nil
    | .cons k v rest =>
      match mask.find k with
      | none => safeFields mask rest                          -- msg.Clear(fd)
      | some sub =>
        if sub.isEmpty then .cons k v (safeFields mask rest)
        else .cons k (safeVal sub v) (safeFields mask rest)
  def safeVal (sub : Mask) : Val → Val
    | .msg fs => .msg (safeFields sub fs)
    | .msgs xs => .msgs (safeMsgs sub xs)
    | v => v                                                  -- fd.IsMap() || fd.Message() == nil
  def safeMsgs (sub : Mask) : Msgs → Msgs
    | .nil => .nil
    | .cons m rest => .cons (safeFields sub m) (safeMsgs sub rest)
end

/-- `filterMessage(msg, mask)`: an empty mask keeps everything. -/
def safeMsg (mask : Mask) (fs : Fields) : Fields :=
  if mask.isEmpty then fs else safeFields mask fs

/-- `ResponseFilter.Filter(msg)` (in place) — and `FilterClone`, whose result is the same value on a
fresh clone (`proto.Clone` is the identity on trees; aliasing is C07's subject).  The result type
keeps the possibility of a panic (`none`) visible: `C06_no_panic` proves it never happens. -/
def filter : Option (List Path) → Fields → Out Fields
  | none, fs => some fs                                   -- no mask: not modified
  | some [], _ => some .nil                               -- proto.Reset
  | some ps, fs => some (safeMsg (nestedMask ps) fs)       -- filterMessage(msg, nestedMask(paths))

def filterClone (mask : Option (List Path)) (fs : Fields) : Out Fields := filter mask fs

/-! ## Specification: projection onto a path set -/

mutual
  /-- Keep exactly what the path set `ps` selects. -/
  def project (ps : List Path) : Fields → Fields
    | .nil => .nil
    | .cons k v rest =>
      let ts := tails k ps
      if ts.isEmpty then project ps rest                  -- no path starts with k
      else if ts.contains [] then .cons k v (project ps rest)   -- some path is exactly k
      else .cons k (projectVal ts v) (project ps rest)    -- paths only continue below k
  def projectVal (ts : List Path) : Val → Val
    | .msg fs => .msg (project ts fs)
    | .msgs xs => .msgs (projectMsgs ts xs)               -- through a repeated message: each element
    | v => v
  def projectMsgs (ts : List Path) : Msgs → Msgs
    | .nil => .nil
    | .cons m rest => .cons (project ts m) (projectMsgs ts rest)
end

/-- The specification of a read with mask `mask`: nil selects everything, empty nothing. -/
def projectMask : Option (List Path) → Fields → Fields
  | none, fs => fs
  | some ps, fs => project ps fs

end ScVerif.C06
