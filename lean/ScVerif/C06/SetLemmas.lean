import ScVerif.C06.Lemmas
/-
The projection depends only on the SET of paths of the mask (order, duplicates irrelevant).
-/
namespace ScVerif.C06
open ScVerif.C05

theorem tails_mem_congr {k : Name} {ps qs : List Path} (h : ∀ p, p ∈ ps ↔ p ∈ qs) :
    ∀ t, t ∈ tails k ps ↔ t ∈ tails k qs := by
  intro t
  rw [mem_tails, mem_tails]
  exact h _

theorem isEmpty_congr {α} {xs ys : List α} (h : ∀ x, x ∈ xs ↔ x ∈ ys) : xs.isEmpty = ys.isEmpty := by
  cases xs with
  | nil =>
    cases ys with
    | nil => rfl
    | cons y ys => exact absurd ((h y).mpr (List.mem_cons_self ..)) (List.not_mem_nil)
  | cons x xs =>
    cases ys with
    | nil => exact absurd ((h x).mp (List.mem_cons_self ..)) (List.not_mem_nil)
    | cons y ys => rfl

theorem contains_nil_congr {xs ys : List Path} (h : ∀ x, x ∈ xs ↔ x ∈ ys) :
    xs.contains [] = ys.contains [] := by
  cases hx : xs.contains [] with
  | true =>
    have := (h []).mp ((contains_nil_iff _).mp hx)
    exact ((contains_nil_iff _).mpr this).symm
  | false =>
    cases hy : ys.contains [] with
    | false => rfl
    | true =>
      have := (h []).mpr ((contains_nil_iff _).mp hy)
      rw [(contains_nil_iff _).mpr this] at hx
      cases hx

mutual
  theorem project_congr : ∀ (fs : Fields) (ps qs : List Path), (∀ p, p ∈ ps ↔ p ∈ qs) →
      project ps fs = project qs fs
    | .nil, _, _, _ => by simp [project]
    | .cons k v rest, ps, qs, h => by
      have ht := tails_mem_congr (k := k) h
      rw [project, project, isEmpty_congr ht, contains_nil_congr ht, project_congr rest ps qs h,
        projectVal_congr v _ _ ht]
  theorem projectVal_congr : ∀ (v : Val) (ts us : List Path), (∀ p, p ∈ ts ↔ p ∈ us) →
      projectVal ts v = projectVal us v
    | .sc _, _, _, _ => by simp [projectVal]
    | .scs _, _, _, _ => by simp [projectVal]
    | .map _, _, _, _ => by simp [projectVal]
    | .msg fs, ts, us, h => by simp [projectVal, project_congr fs ts us h]
    | .msgs xs, ts, us, h => by simp [projectVal, projectMsgs_congr xs ts us h]
  theorem projectMsgs_congr : ∀ (xs : Msgs) (ts us : List Path), (∀ p, p ∈ ts ↔ p ∈ us) →
      projectMsgs ts xs = projectMsgs us xs
    | .nil, _, _, _ => by simp [projectMsgs]
    | .cons m rest, ts, us, h => by
      simp [projectMsgs, project_congr m ts us h, projectMsgs_congr rest ts us h]
end

end ScVerif.C06
