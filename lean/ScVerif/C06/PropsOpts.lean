import ScVerif.C06.Props
import ScVerif.C06.Opts
import ScVerif.C06.SetLemmas
import ScVerif.C06.OptsLemmas
/-!
# C06 — read-option lists and mask normalisation

Model: `ScVerif/C06/Opts.lean` (`resource.WithReadMask / WithReadPaths / …`, `ComputeReadConfig`,
`ReadRequest.ResponseFilter / FilterClone`, `masks.NewResponseFilter` with `WithFieldMask`).
Specification: `lastMask` / `effectiveMask` — the mask of the right-most read-mask option, found by
recursion from the right, without a request being threaded through.

All theorems quantify over every option list (any length, any order, any mix of options), every
message and every schema.
-/
namespace ScVerif.C06
open ScVerif.C05

/-- **C06_options_last_mask_wins.**  Whatever precedes it and whatever non-mask options follow it,
the mask of the last read-mask option is the configured read mask — in particular a
`WithReadMask(nil)` after a non-nil mask RESETS it (`m = none`). -/
theorem C06_options_last_mask_wins (S : Schema) (ty : Nat) (pre post : List ReadOpt) (o : ReadOpt)
    (m : Option (List Path)) (rr : ReadRequest)
    (ho : o.mask? = some m) (hpost : ∀ x ∈ post, x.mask? = none)
    (h : computeReadConfig S ty (pre ++ o :: post) = some rr) : rr.readMask = m := by
  unfold computeReadConfig at h
  split at h
  · cases h
    rw [applyAll_readMask, lastMask_append_mask pre post o m ho hpost]; rfl
  · cases h

/-- **C06_options_no_mask.**  Without a read-mask option the request has the nil mask, whatever
other options are given. -/
theorem C06_options_no_mask (S : Schema) (ty : Nat) (opts : List ReadOpt) (rr : ReadRequest)
    (hno : ∀ x ∈ opts, x.mask? = none) (h : computeReadConfig S ty opts = some rr) :
    rr.readMask = none := by
  unfold computeReadConfig at h
  split at h
  · cases h
    rw [applyAll_readMask, lastMask_no_mask opts hno]; rfl
  · cases h

/-- **C06_options_effective.**  The fold of `ComputeReadConfig` computes exactly the specification
`effectiveMask` for every option list. -/
theorem C06_options_effective (S : Schema) (ty : Nat) (opts : List ReadOpt) (rr : ReadRequest)
    (h : computeReadConfig S ty opts = some rr) : rr.readMask = effectiveMask opts := by
  unfold computeReadConfig at h
  split at h
  · cases h; rw [applyAll_readMask]; rfl
  · cases h

/-- **C06_options_panic_iff.**  Building and applying an option list panics exactly when some
`WithReadPaths` names a path that is not valid for the message (documented behaviour). -/
theorem C06_options_panic_iff (S : Schema) (ty : Nat) (opts : List ReadOpt) :
    computeReadConfig S ty opts = none ↔ ∃ ps, ReadOpt.readPaths ps ∈ opts ∧ isValid S ty ps = false := by
  unfold computeReadConfig
  constructor
  · intro h
    cases hall : opts.all (ReadOpt.builds S ty) with
    | true => simp [hall] at h
    | false =>
      rw [List.all_eq_false] at hall
      obtain ⟨o, ho, hb⟩ := hall
      cases o <;> simp [ReadOpt.builds] at hb
      exact ⟨_, ho, hb⟩
  · rintro ⟨ps, hmem, hv⟩
    have : opts.all (ReadOpt.builds S ty) = false := by
      rw [List.all_eq_false]
      exact ⟨_, hmem, by simp [ReadOpt.builds, hv]⟩
    simp [this]

/-- **C06_options_frame.**  Read-mask options (and the empty option) leave `UpdatesOnly`,
`Backpressure` and `Include` as they were. -/
theorem C06_options_frame (opts : List ReadOpt) (rr : ReadRequest)
    (h : ∀ x ∈ opts, x.mask? ≠ none ∨ x = .empty) :
    (applyAll rr opts).updatesOnly = rr.updatesOnly ∧ (applyAll rr opts).backpressure = rr.backpressure
      ∧ (applyAll rr opts).incl = rr.incl :=
  applyAll_flags_of_masks opts rr h

/-- **C06_read_with_options (full strength).**  A read with ANY option list that builds returns
exactly the projection of the stored message onto the mask of the last read-mask option (nil —
everything — if there is none or the last one is `WithReadMask(nil)`; no paths — nothing), provided
that mask's paths are non-empty without empty segments (true of every mask `Validate` accepts). -/
theorem C06_read_with_options (S : Schema) (ty : Nat) (opts : List ReadOpt) (fs : Fields)
    (hb : opts.all (ReadOpt.builds S ty) = true)
    (h : ∀ ps, effectiveMask opts = some ps → NonNil ps ∧ Clean ps) :
    readWith S ty opts fs = some (projectMask (effectiveMask opts) fs) := by
  unfold readWith computeReadConfig
  simp only [hb, if_true]
  unfold ReadRequest.filterClone ReadRequest.responseFilter
  rw [newResponseFilter_single, applyAll_readMask]
  exact C06_projection _ fs h

/-- **C06_nil_mask_resets.**  "nil mask means everything" for option lists: when the last
read-mask option is `WithReadMask(nil)`, the read returns the stored message whole, whatever masks
came before it. -/
theorem C06_nil_mask_resets (S : Schema) (ty : Nat) (pre post : List ReadOpt) (fs : Fields)
    (hb : (pre ++ ReadOpt.readMask none :: post).all (ReadOpt.builds S ty) = true)
    (hpost : ∀ x ∈ post, x.mask? = none) :
    readWith S ty (pre ++ ReadOpt.readMask none :: post) fs = some fs := by
  have he : effectiveMask (pre ++ ReadOpt.readMask none :: post) = none := by
    unfold effectiveMask
    rw [lastMask_append_mask pre post _ none rfl hpost]; rfl
  rw [C06_read_with_options S ty _ fs hb (fun ps e => by rw [he] at e; cases e), he]; rfl

/-- **C06_read_paths_valid.**  A `WithReadPaths` that builds always satisfies the side condition
of `C06_read_with_options`: as the last mask option it yields exactly the projection onto its paths. -/
theorem C06_read_paths_valid (S : Schema) (hS : NoEmptyName S) (ty : Nat) (pre post : List ReadOpt)
    (ps : List Path) (fs : Fields)
    (hb : (pre ++ ReadOpt.readPaths ps :: post).all (ReadOpt.builds S ty) = true)
    (hpost : ∀ x ∈ post, x.mask? = none) :
    readWith S ty (pre ++ ReadOpt.readPaths ps :: post) fs = some (project ps fs) := by
  have he : effectiveMask (pre ++ ReadOpt.readPaths ps :: post) = some ps := by
    unfold effectiveMask
    rw [lastMask_append_mask pre post _ (some ps) rfl hpost]; rfl
  have hv : isValid S ty ps = true := by
    rw [List.all_eq_true] at hb
    have := hb (.readPaths ps) (by simp)
    simpa [ReadOpt.builds] using this
  rw [C06_read_with_options S ty _ fs hb (fun ps' e => by
    rw [he] at e; cases e
    exact C06_valid_masks_are_proper S hS ty ps (by simpa [validate] using hv)), he]; rfl

/-- **C06_response_filter_options.**  `masks.NewResponseFilter` with a list of `WithFieldMask`
options: the last NON-nil mask is the filter's mask (`masks.WithFieldMask(nil)` is the empty
option there — unlike `resource.WithReadMask(nil)`). -/
theorem C06_response_filter_options (pre post : List (Option (List Path))) (ps : List Path)
    (hpost : ∀ x ∈ post, x = none) :
    newResponseFilter (pre ++ some ps :: post) = some ps := by
  unfold newResponseFilter
  rw [List.foldl_append, List.foldl_cons]
  induction post with
  | nil => rfl
  | cons x xs ih =>
    have hx : x = none := hpost x (List.mem_cons_self ..)
    subst hx
    simp only [List.foldl_cons]
    exact ih (fun y hy => hpost y (List.mem_cons_of_mem _ hy))

/-! ## Normalisation (`withoutNestedPaths`) and the path SET -/

/-- **C06_normalise_preserves.**  Dropping the paths that lie inside another path of the list —
what `withoutNestedPaths` does before fmutils builds its nested mask — never changes the
projection: for ANY path list without the empty path, `{f, f.c, f.d}` and deeper chains included. -/
theorem C06_normalise_preserves (ps : List Path) (fs : Fields) (h : NonNil ps) :
    project (minimal ps) fs = project ps fs :=
  project_minimal fs ps h

/-- **C06_project_path_set.**  The projection depends only on the SET of paths: order and
duplicates have no meaning. -/
theorem C06_project_path_set (ps qs : List Path) (fs : Fields) (h : ∀ p, p ∈ ps ↔ p ∈ qs) :
    project ps fs = project qs fs :=
  project_congr fs ps qs h

/-- **C06_read_path_set.**  …hence so does every read: two masks with the same path set (any
order, any duplicates) return the same message. -/
theorem C06_read_path_set (ps qs : List Path) (fs : Fields) (h : ∀ p, p ∈ ps ↔ p ∈ qs)
    (hps : NonNil ps ∧ Clean ps) :
    filterClone (some ps) fs = filterClone (some qs) fs := by
  have hqs : NonNil qs ∧ Clean qs :=
    ⟨fun p hp => hps.1 p ((h p).mpr hp), fun p hp => hps.2 p ((h p).mpr hp)⟩
  rw [C06_projection (some ps) fs (fun _ e => by cases e; exact hps),
      C06_projection (some qs) fs (fun _ e => by cases e; exact hqs)]
  simp only [projectMask]
  rw [project_congr fs ps qs h]

/-- **C06_read_normal_form.**  Two masks whose normal forms (nested paths dropped) have the same
path set read the same: `{f, f.c, f.d}`, `{f.d, f}` and `{f}` are one mask. -/
theorem C06_read_normal_form (ps qs : List Path) (fs : Fields)
    (h : ∀ p, p ∈ minimal ps ↔ p ∈ minimal qs)
    (hps : NonNil ps ∧ Clean ps) (hqs : NonNil qs ∧ Clean qs) :
    filterClone (some ps) fs = filterClone (some qs) fs := by
  rw [C06_projection (some ps) fs (fun _ e => by cases e; exact hps),
      C06_projection (some qs) fs (fun _ e => by cases e; exact hqs)]
  simp only [projectMask]
  rw [← project_minimal fs ps hps.1, ← project_minimal fs qs hqs.1, project_congr fs _ _ h]

/-! ## What the validating option refuses -/

/-- **C06_path_stops_below_non_message.**  For every schema: a path that reaches — through singular
message fields — a field that is NOT a singular message (a scalar, a repeated scalar, a repeated
message, a map) and then goes on is not a field mask path, WHATEVER the following segments are called
(an arbitrary name, the `key` / `value` of a map entry, a field of the repeated element or of the
map's message value, an index); so is a path whose next segment names no field.  A path that stops at
any field reached that way is one. -/
theorem C06_path_stops_below_non_message (S : Schema) (ty t : Nat) (pre : Path) (seg : Name)
    (hl : Leads S ty pre t) :
    (∀ fd next rest, S.field t seg = some fd → (∀ u, fd.kind ≠ .message u) →
        validPath S ty (pre ++ seg :: next :: rest) = false)
    ∧ (∀ rest, S.field t seg = none → validPath S ty (pre ++ seg :: rest) = false)
    ∧ (∀ fd, S.field t seg = some fd → validPath S ty (pre ++ [seg]) = true) := by
  refine ⟨fun fd next rest hf hk => ?_, fun rest hf => ?_, fun fd hf => ?_⟩
  · rw [validPath_leads hl]
    cases hkk : fd.kind with
    | message u => exact absurd hkk (hk u)
    | _ => simp only [validStep, hf, hkk]
  · rw [validPath_leads hl]; simp only [validStep, hf]
  · rw [validPath_leads hl]; simp only [validStep, hf]
    cases fd.kind <;> rfl

/-- **C06_read_paths_refuses_continuation.**  `WithReadPaths` ("panics if paths aren't part of m")
and `ResponseFilter.Validate` agree on the corrupted masks the property names: if ANY path of the
option continues below a scalar, repeated or map field — whatever the continuation is called — or
names an unknown field, then every option list containing that option panics when it is built, at
any position, whatever follows it (no read is made with the mask), and `Validate` reports the same
mask invalid. -/
theorem C06_read_paths_refuses_continuation (S : Schema) (ty t : Nat) (pre : Path) (seg : Name)
    (tail : Path) (hl : Leads S ty pre t)
    (hbad : (∃ fd next rest, tail = next :: rest ∧ S.field t seg = some fd ∧ ∀ u, fd.kind ≠ .message u)
      ∨ S.field t seg = none)
    (ps : List Path) (hp : pre ++ seg :: tail ∈ ps) :
    validate S ty (some ps) = false
    ∧ ∀ (opts : List ReadOpt) (fs : Fields), ReadOpt.readPaths ps ∈ opts →
        computeReadConfig S ty opts = none ∧ readWith S ty opts fs = none := by
  have hv : validPath S ty (pre ++ seg :: tail) = false := by
    have h := C06_path_stops_below_non_message S ty t pre seg hl
    rcases hbad with ⟨fd, next, rest, rfl, hf, hk⟩ | hf
    · exact h.1 fd next rest hf hk
    · exact h.2.1 tail hf
  have hi : isValid S ty ps = false := by
    unfold isValid
    rw [List.all_eq_false]
    exact ⟨_, hp, by simp [hv]⟩
  refine ⟨by simpa [validate] using hi, fun opts fs hm => ?_⟩
  have hc : computeReadConfig S ty opts = none := (C06_options_panic_iff S ty opts).2 ⟨ps, hm, hi⟩
  exact ⟨hc, by simp [readWith, hc]⟩

/-- **C06_validate_iff_stops_at_reachable_field.**  The complete description of what validation
(`ResponseFilter.Validate`, and hence `WithReadPaths`, which panics exactly on the rest) accepts, for
every schema and mask: every path consists of singular-message fields leading somewhere, followed by
ONE more field of the message reached — of any kind, a map, a repeated field, a scalar — and nothing
after it. -/
theorem C06_validate_iff_stops_at_reachable_field (S : Schema) (ty : Nat) (ps : List Path) :
    (validate S ty (some ps) = true ↔
      ∀ p ∈ ps, ∃ pre seg t fd, p = pre ++ [seg] ∧ Leads S ty pre t ∧ S.field t seg = some fd)
    ∧ (validate S ty (some ps) = true ↔ computeReadConfig S ty [.readPaths ps] ≠ none) := by
  refine ⟨?_, ?_⟩
  · simp only [validate, isValid, List.all_eq_true]
    constructor
    · intro h p hp
      exact (goodPath_iff_leads S ty p).1 ((validPath_iff S ty p).1 (h p hp))
    · intro h p hp
      exact (validPath_iff S ty p).2 ((goodPath_iff_leads S ty p).2 (h p hp))
  · rw [Ne, C06_options_panic_iff]
    simp only [validate, List.mem_singleton, ReadOpt.readPaths.injEq]
    constructor
    · rintro h ⟨qs, rfl, hq⟩; rw [h] at hq; cases hq
    · intro h
      cases hv : isValid S ty ps with
      | true => rfl
      | false => exact absurd ⟨ps, rfl, hv⟩ h

/-! ## Non-vacuity -/

/-- `f` leads from type 0 to type 1; the map `m` and the repeated `r` lead nowhere. -/
example : Leads exSchema 0 ["f"] 1 := .step (fd := ⟨"f", .message 1, 0⟩) (by decide) rfl .here
/-- The entry-field names of a map are refused like any other continuation, alone or after a valid path,
before or after other options. -/
example : readWith exSchema 0 [.readPaths [["m", "value"]]] exMsg = none
    ∧ readWith exSchema 0 [.readPaths [["g"], ["m", "key"]], .readMask none] exMsg = none
    ∧ readWith exSchema 0 [.readMask (some [["g"]]), .readPaths [["m", "value", "c"]]] exMsg = none
    ∧ validate exSchema 0 (some [["m", "value"]]) = false := by decide
/-- …while the map itself, and a field below the singular message, are accepted. -/
example : readWith exSchema 0 [.readPaths [["m"], ["f", "d"]]] exMsg
    = some (.cons "f" (.msg (.cons "d" (.sc "i2") .nil)) .nil) := by decide

/-- mask, then nil: everything; nil, then mask: the mask; two masks: the last. -/
example : readWith exSchema 0 [.readMask (some [["g"]]), .updatesOnly true, .readMask none, .empty] exMsg = some exMsg := by decide
example : readWith exSchema 0 [.readMask none, .readMask (some [["g"]])] exMsg = some (.cons "g" (.sc "i3") .nil) := by decide
example : readWith exSchema 0 [.readPaths [["f", "c"]], .readMask (some [["g"]])] exMsg = some (.cons "g" (.sc "i3") .nil) := by decide
/-- `WithReadPaths` with a path through a repeated field does not build (panics)… -/
example : readWith exSchema 0 [.readPaths [["r", "x"]]] exMsg = none := by decide
/-- …and with no paths selects nothing. -/
example : readWith exSchema 0 [.readPaths []] exMsg = some .nil := by decide
/-- The hypotheses of `C06_read_with_options` / `C06_nil_mask_resets` are satisfiable. -/
example : ([.readMask (some [["f"], ["f", "c"]]), .readMask none] : List ReadOpt).all (ReadOpt.builds exSchema 0) = true := by decide
/-- `{f, f.c, f.d}` is `{f}`. -/
example : minimal [["f"], ["f", "c"], ["f", "d"]] = [["f"]] := by decide
example : filterClone (some [["f", "d"], ["f"], ["f", "c"]]) exMsg = filterClone (some [["f"]]) exMsg := by decide
example : newResponseFilter [some [["g"]], none] = some [["g"]] := by decide

end ScVerif.C06
