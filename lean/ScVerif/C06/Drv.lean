import ScVerif.C05.Drv
import ScVerif.C06.Opts
import ScVerif.C06.Heap
import ScVerif.C06.Coll
import ScVerif.C06.ValuePull
import ScVerif.C06.Sched
import ScVerif.C06.VSched
import ScVerif.C06.Lossy
import ScVerif.C06.ReadAfter
import ScVerif.C06.Waste
/-! Driver handler for C06: the stateful handler shared with C05 (message-tree model; the C06
operations there are `rvalidate`, `rfilter`, `project`), extended with the read-option operations:

  rconfig <ty> <opts>          -> panic | <mask> U<0|1> B<0|1> I<n|->     (ComputeReadConfig)
  ropts <ty> <opts> <msg>      -> panic | msg          (a read with the option list: ReadRequest.FilterClone)
  ospec <opts>                 -> <mask>               (specification: the last mask option, nil if none)
  rfopts <masks> <msg>         -> panic | msg          (NewResponseFilter(WithFieldMask...).FilterClone)

`<opts>`: `_` (none) or options joined by `,`: `M<mask>` WithReadMask, `P<mask>` WithReadPaths
(`P-`: no paths), `U0|U1`, `B0|B1`, `I<n>` / `I-` WithInclude, `E` EmptyReadOption.
`<masks>`: `_` or masks joined by `,`.

  hfilter inplace|clone <mask> <own> <refs> <ref> <heap0> <heap1> ...   -> <container> | <heap0> <heap1> ...
      ResponseFilter.Filter / FilterClone on a container whose fields are the fields of the message <own>
      (owned), a repeated message field `<refs>` = `name:a+b+..` whose elements are the stored messages at
      those heap addresses and a singular message field `<ref>` = `name:a` (`-`: none); answer: what the
      returned container shows and the heap afterwards.

  cread <ty> <opts> <mode> <eq> <n> (<id> <msg> <time>)*n (<id> <time> <TYPE> <old|nil> <new|nil> <0|1> <0|1>)*
      a collection read with the option list over the store of n items (in any order) and, for the
      subscriptions, the raw changes published afterwards (id, time, kind, old, new, seed, last-seed):
      <mode> `list` -> panic | `-` | msg msg ...                       (Collection.List)
             `pull` -> panic | `-` | id|time|TYPE|old|new|S.L. ...      (Collection.Pull: seeds then events)
             `pullid=<id>` -> panic | `-` | time|msg|S.L. ...           (Collection.PullID)
      <eq>: `-` no collection equivalence, `E` WithNoDuplicates (equal old and new values are dropped);
      include callbacks `I<n>` are the closed family `namedPred`.

  vpull <ty> <opts> <eq> <cur|nil> <time> (<time> <msg|nil>)*  -> panic | `-` | time|msg|S.L. ...
      Value.Pull with the option list on a value holding <cur> (changed at <time>), then the raw
      published changes.

  csched <ty> <opts> <mode> <eq> <npre> <step>*
      the same reads (<mode> list | pull | pullid=<id>) in a schedule of write halves on an initially empty
      collection whose clock starts at 0 (Sched.lean): <step> = `a <id> <msg>` Add up to bus.Send,
      `u <id> <msg>` Update up to bus.Send, `p <k>` bus.Send of the k-th parked writer, `d <id>` Delete;
      the read happens / the subscription opens after the first <npre> steps.
      <mode> `get=<id>`: Collection.Get(id, opts) after the first <npre> steps -> panic | nil | msg (ReadAfter.lean)
  cschedz ...   the same with a clock that stands still (every item and change is stamped 0).
  vget <ty> <opts> <init|nil> <step>*   -> panic | nil | msg      Value.Get(opts) after the Set halves

  vsched <ty> <opts> <eq> <init|nil> <npre> <step>*   -> panic | `-` | time|msg|S.L. ...
      Value.Pull in a schedule of Set halves on a value holding <init> (change time 0): <step> =
      `s <msg> <time>` Set up to bus.Send, `p <k>` bus.Send of the k-th parked writer (VSched.lean).

  wpull <mask> <U0|U1> <n> <msg>*n <cur|nil> <msg>*   -> panic | `-` | msg|nil ...
      wastepb ModelServer.PullWasteRecords (Waste.lean: wastePull) on a history of n records, lastWasteRecord
      holding <cur>, then the records published: the new_value of every change sent

  lmerge <change> <change>      -> drop | id|time|TYPE|old|new|S.L.      (mergeChanges; <change> as in cread)
  lstage <sched> <change>*      -> `-` | one entry per hand-over: `_` (queue empty) or the change
      the goroutine of mergeCollectionExcess (Lossy.lean: lossyT) under the schedule <sched> of `t` (take
      the next published change) / `h` (hand the front of the queue over); `.`: the empty schedule. -/
namespace ScVerif.C06
open ScVerif.C05 ScVerif.C05.Codec

def parseOpt (s : String) : Option ReadOpt :=
  match s.toList with
  | 'M' :: rest => (parseMask (String.ofList rest)).map .readMask
  | 'P' :: rest =>
    match parseMask (String.ofList rest) with
    | some (some ps) => some (.readPaths ps)
    | _ => none
  | ['U', '0'] => some (.updatesOnly false)
  | ['U', '1'] => some (.updatesOnly true)
  | ['B', '0'] => some (.backpressure false)
  | ['B', '1'] => some (.backpressure true)
  | ['I', '-'] => some (.incl none)
  | 'I' :: rest => (String.ofList rest).toNat?.map (fun n => .incl (some n))
  | ['E'] => some .empty
  | _ => none

def parseOpts (s : String) : Option (List ReadOpt) :=
  if s = "_" then some [] else (s.splitOn ",").mapM parseOpt

def parseMasks (s : String) : Option (List (Option (List Path))) :=
  if s = "_" then some [] else (s.splitOn ",").mapM parseMask

def showMaskOpt : Option (List Path) → String
  | none => "~"
  | some ps => showPaths ps

def showRR (rr : ReadRequest) : String :=
  showMaskOpt rr.readMask ++ " U" ++ (if rr.updatesOnly then "1" else "0")
    ++ " B" ++ (if rr.backpressure then "1" else "0")
    ++ " I" ++ (match rr.incl with | none => "-" | some n => toString n)

def ownOf : Fields → Container
  | .nil => []
  | .cons k v rest => (k, .own v) :: ownOf rest

def parseRefs (s : String) : Option (List (Name × List Nat)) :=
  if s = "-" then some []
  else match s.splitOn ":" with
    | [n, as] => ((as.splitOn "+").mapM String.toNat?).map (fun as => [(n, as)])
    | _ => none

def hfilter (inplace : Bool) (mask : Option (List Path)) (own : Fields) (refs ref : List (Name × List Nat))
    (h : Heap) : String :=
  let c : Container := ownOf own ++ refs.map (fun (n, as) => (n, .refs as))
    ++ ref.filterMap (fun (n, as) => as.head?.map (fun a => (n, .ref a)))
  let r := if inplace then filterInPlace mask h c else filterCloneH mask h c
  showMsg (resolve r.2 r.1) ++ " |" ++ String.join (r.2.map (fun m => " " ++ showMsg m))

def parseChangeType : String → Option ChangeType
  | "ADD" => some .add
  | "UPDATE" => some .update
  | "REMOVE" => some .remove
  | "REPLACE" => some .replace
  | "CHANGE_TYPE_UNSPECIFIED" => some .unspecified
  | _ => none

def showChangeType : ChangeType → String
  | .add => "ADD"
  | .update => "UPDATE"
  | .remove => "REMOVE"
  | .replace => "REPLACE"
  | .unspecified => "CHANGE_TYPE_UNSPECIFIED"

def parseOptMsg (s : String) : Option (Option Fields) :=
  if s = "nil" then some none else (parseMessage s).map some

def showOptMsg : Option Fields → String
  | none => "nil"
  | some fs => showMsg fs

def showFlags (s l : Bool) : String := "S" ++ (if s then "1" else "0") ++ "L" ++ (if l then "1" else "0")

def showChange (c : CollectionChange) : String :=
  "|".intercalate [c.id, toString c.changeTime, showChangeType c.changeType, showOptMsg c.oldValue,
    showOptMsg c.newValue, showFlags c.seedValue c.lastSeedValue]

def showValueChange (v : ValueChange) : String :=
  "|".intercalate [toString v.changeTime, showOptMsg v.value, showFlags v.seedValue v.lastSeedValue]

def parseItems : Nat → List String → Option (Store × List String)
  | 0, rest => some ([], rest)
  | n + 1, id :: m :: t :: rest =>
    match parseMessage m, t.toInt?, parseItems n rest with
    | some fs, some t, some (st, rest) => some (⟨id, fs, t⟩ :: st, rest)
    | _, _, _ => none
  | _, _ => none

def parseBit : String → Option Bool
  | "0" => some false
  | "1" => some true
  | _ => none

def parseChanges : List String → Option (List CollectionChange)
  | [] => some []
  | id :: t :: ty :: o :: n :: s :: l :: rest =>
    match t.toInt?, parseChangeType ty, parseOptMsg o, parseOptMsg n, parseBit s, parseBit l, parseChanges rest with
    | some t, some ty, some o, some n, some s, some l, some cs => some (⟨id, t, ty, o, n, s, l⟩ :: cs)
    | _, _, _, _, _, _, _ => none
  | _ => none

def parseValueChanges : List String → Option (List ValueChange)
  | [] => some []
  | t :: m :: rest =>
    match t.toInt?, parseOptMsg m, parseValueChanges rest with
    | some t, some m, some vs => some (⟨m, t, false, false⟩ :: vs)
    | _, _, _ => none
  | _ => none

def showList (xs : List String) : String := if xs.isEmpty then "-" else " ".intercalate xs

def cread (S : Schema) (ty : Nat) (opts : List ReadOpt) (mode : String) (eq : Equiv) (st : Store)
    (evs : List CollectionChange) : String :=
  match computeReadConfig S ty opts with
  | none => "panic"
  | some rr =>
    if mode = "list" then
      match listWith namedPred rr st with
      | some ms => showList (ms.map showMsg)
      | none => "panic"
    else if mode = "pull" then
      match pullStream namedPred rr eq st evs with
      | some cs => showList (cs.map showChange)
      | none => "panic"
    else if mode.startsWith "pullid=" then
      match pullID namedPred rr eq st evs (mode.drop 7).toString with
      | some vs => showList (vs.map showValueChange)
      | none => "panic"
    else "!bad-op"

def parseSteps : List String → Option (List Step)
  | [] => some []
  | [_] => none
  | k :: x :: rest =>
    if k = "p" then
      match x.toNat?, parseSteps rest with
      | some n, some ss => some (.publish n :: ss)
      | _, _ => none
    else if k = "d" then (parseSteps rest).map (Step.delete x :: ·)
    else
      match rest with
      | [] => none
      | m :: rest' =>
        match parseMessage m, parseSteps rest' with
        | some fs, some ss =>
          if k = "a" then some (.add x fs :: ss) else if k = "u" then some (.update x fs :: ss) else none
        | _, _ => none

def parseVSteps : List String → Option (List VStep)
  | [] => some []
  | [_] => none
  | k :: x :: rest =>
    if k = "p" then
      match x.toNat?, parseVSteps rest with
      | some n, some ss => some (.publish n :: ss)
      | _, _ => none
    else if k = "s" then
      match rest with
      | [] => none
      | t :: rest' =>
        match parseMessage x, t.toInt?, parseVSteps rest' with
        | some fs, some t, some ss => some (.set fs t :: ss)
        | _, _, _ => none
    else none

def parseSched (s : String) : Option (List Bool) :=
  if s = "." then some []
  else s.toList.mapM (fun c => if c = 'h' then some true else if c = 't' then some false else none)

def csched (S : Schema) (ty : Nat) (opts : List ReadOpt) (mode : String) (eq : Equiv) (pre post : List Step)
    (w0 : World := {}) : String :=
  match computeReadConfig S ty opts with
  | none => "panic"
  | some rr =>
    if mode = "list" then
      match listAfter namedPred rr w0 pre with
      | some ms => showList (ms.map showMsg)
      | none => "panic"
    else if mode = "pull" then
      match session namedPred rr eq w0 pre post with
      | some cs => showList (cs.map showChange)
      | none => "panic"
    else if mode.startsWith "pullid=" then
      match sessionID namedPred rr eq w0 pre post (mode.drop 7).toString with
      | some vs => showList (vs.map showValueChange)
      | none => "panic"
    else if mode.startsWith "get=" then
      match getAfter rr w0 pre (mode.drop 4).toString with
      | some m => showOptMsg m
      | none => "panic"
    else "!bad-op"

def handleS (S : Schema) (toks : List String) : Schema × String :=
  let bad := (S, "!bad-op")
  match toks with
  | "hfilter" :: mode :: m :: own :: refs :: ref :: heap =>
    match parseMask m, parseMessage own, parseRefs refs, parseRefs ref, heap.mapM parseMessage with
    | some m, some own, some refs, some ref, some h =>
      if mode = "inplace" then (S, hfilter true m own refs ref h)
      else if mode = "clone" then (S, hfilter false m own refs ref h)
      else bad
    | _, _, _, _, _ => bad
  | "cread" :: ty :: o :: mode :: eq :: n :: rest =>
    match ty.toNat?, parseOpts o, n.toNat? with
    | some ty, some opts, some n =>
      match parseItems n rest with
      | some (st, rest) =>
        match parseChanges rest with
        | some evs =>
          if eq = "-" then (S, cread S ty opts mode none st evs)
          else if eq = "E" then (S, cread S ty opts mode (some (fun a b => a == b)) st evs)
          else bad
        | none => bad
      | none => bad
    | _, _, _ => bad
  | "csched" :: ty :: o :: mode :: eq :: n :: rest =>
    match ty.toNat?, parseOpts o, n.toNat?, parseSteps rest with
    | some ty, some opts, some n, some steps =>
      if eq = "-" then (S, csched S ty opts mode none (steps.take n) (steps.drop n))
      else if eq = "E" then (S, csched S ty opts mode (some (fun a b => a == b)) (steps.take n) (steps.drop n))
      else bad
    | _, _, _, _ => bad
  | "cschedz" :: ty :: o :: mode :: eq :: n :: rest =>
    match ty.toNat?, parseOpts o, n.toNat?, parseSteps rest with
    | some ty, some opts, some n, some steps =>
      if eq = "-" then (S, csched S ty opts mode none (steps.take n) (steps.drop n) { tick := 0 })
      else if eq = "E" then
        (S, csched S ty opts mode (some (fun a b => a == b)) (steps.take n) (steps.drop n) { tick := 0 })
      else bad
    | _, _, _, _ => bad
  | "vsched" :: ty :: o :: eq :: init :: n :: rest =>
    match ty.toNat?, parseOpts o, parseOptMsg init, n.toNat?, parseVSteps rest with
    | some ty, some opts, some init, some n, some steps =>
      match computeReadConfig S ty opts with
      | none => (S, "panic")
      | some rr =>
        let e : Option Equiv :=
          if eq = "-" then some none else if eq = "E" then some (some (fun a b => a == b)) else none
        match e with
        | none => bad
        | some e =>
          match vsession rr e { value := init } (steps.take n) (steps.drop n) with
          | some vs => (S, showList (vs.map showValueChange))
          | none => (S, "panic")
    | _, _, _, _, _ => bad
  | "vget" :: ty :: o :: init :: rest =>
    match ty.toNat?, parseOpts o, parseOptMsg init, parseVSteps rest with
    | some ty, some opts, some init, some steps =>
      match computeReadConfig S ty opts with
      | none => (S, "panic")
      | some rr =>
        match vgetAfter rr { value := init } steps with
        | some m => (S, showOptMsg m)
        | none => (S, "panic")
    | _, _, _, _ => bad
  | "wpull" :: m :: uo :: n :: rest =>
    match parseMask m, n.toNat? with
    | some mask, some n =>
      match (rest.take n).mapM parseMessage, rest.drop n with
      | some hist, cur :: evs =>
        match parseOptMsg cur, evs.mapM parseMessage with
        | some cur, some evs =>
          if uo = "U0" || uo = "U1" then
            match wastePull mask (uo == "U1") hist cur evs with
            | some vs => (S, showList (vs.map showOptMsg))
            | none => (S, "panic")
          else bad
        | _, _ => bad
      | _, _ => bad
    | _, _ => bad
  | "lmerge" :: rest =>
    match parseChanges rest with
    | some [a, b] => (S, match mergeChanges a b with | none => "drop" | some n => showChange n)
    | _ => bad
  | "lstage" :: s :: rest =>
    match parseSched s, parseChanges rest with
    | some sched, some evs =>
      (S, showList ((lossyT sched [] evs).map (fun o => match o with | none => "_" | some c => showChange c)))
    | _, _ => bad
  | "vpull" :: ty :: o :: eq :: cur :: t :: rest =>
    match ty.toNat?, parseOpts o, parseOptMsg cur, t.toInt?, parseValueChanges rest with
    | some ty, some opts, some cur, some t, some evs =>
      match computeReadConfig S ty opts with
      | none => (S, "panic")
      | some rr =>
        let e : Option Equiv :=
          if eq = "-" then some none else if eq = "E" then some (some (fun a b => a == b)) else none
        match e with
        | none => bad
        | some e =>
          match valuePull rr e (cur.map (fun v => (v, t))) evs with
          | some vs => (S, showList (vs.map showValueChange))
          | none => (S, "panic")
    | _, _, _, _, _ => bad
  | ["rconfig", ty, o] =>
    match ty.toNat?, parseOpts o with
    | some ty, some opts =>
      match computeReadConfig S ty opts with
      | some rr => (S, showRR rr)
      | none => (S, "panic")
    | _, _ => bad
  | ["ropts", ty, o, x] =>
    match ty.toNat?, parseOpts o, parseMessage x with
    | some ty, some opts, some fs => (S, showOut (readWith S ty opts fs))
    | _, _, _ => bad
  | ["ospec", o] =>
    match parseOpts o with
    | some opts => (S, showMaskOpt (effectiveMask opts))
    | none => bad
  | ["rfopts", ms, x] =>
    match parseMasks ms, parseMessage x with
    | some ms, some fs => (S, showOut (filterClone (newResponseFilter ms) fs))
    | _, _ => bad
  | _ => ScVerif.C05.handleS S toks

end ScVerif.C06
