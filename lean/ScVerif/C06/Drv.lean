import ScVerif.C05.Drv
import ScVerif.C06.Opts
import ScVerif.C06.Heap
/-! Driver handler for C06: the stateful handler shared with C05 (message-tree model; the C06
operations there are `rvalidate`, `rfilter`, `project`), extended with the read-option operations:

  rconfig <ty> <opts>          -> panic | <mask> U<0|1> B<0|1> I<n|->     (ComputeReadConfig)
  ropts <ty> <opts> <msg>      -> panic | msg          (a read with the option list: ReadRequest.FilterClone)
  ospec <opts>                 -> <mask>               (specification: the last mask option, nil if none)
  rfopts <masks> <msg>         -> panic | msg          (NewResponseFilter(WithFieldMask...).FilterClone)

`<opts>`: `_` (none) or options joined by `,`: `M<mask>` WithReadMask, `P<mask>` WithReadPaths
(`P-`: no paths), `U0|U1`, `B0|B1`, `I<n>` / `I-` WithInclude, `E` EmptyReadOption.
`<masks>`: `_` or masks joined by `,`.

  hfilter inplace|clone <mask> <own> <refs> <ref> <heap0> <heap1> ...   -> <container> | <heap0> <heap1> ...
      ResponseFilter.Filter / FilterClone on a container whose fields are the fields of the message <own>
      (owned), a repeated message field `<refs>` = `name:a+b+..` whose elements are the stored messages at
      those heap addresses and a singular message field `<ref>` = `name:a` (`-`: none); answer: what the
      returned container shows and the heap afterwards. -/
namespace ScVerif.C06
open ScVerif.C05 ScVerif.C05.Codec

def parseOpt (s : String) : Option ReadOpt :=
  match s.toList with
  | 'M' :: rest => (parseMask (String.ofList rest)).map .readMask
  | 'P' :: rest =>
    match parseMask (String.ofList rest) with
    | some (some ps) => some (.readPaths ps)
    | _ => none
  | ['U', '0'] => some (.updatesOnly false)
  | ['U', '1'] => some (.updatesOnly true)
  | ['B', '0'] => some (.backpressure false)
  | ['B', '1'] => some (.backpressure true)
  | ['I', '-'] => some (.incl none)
  | 'I' :: rest => (String.ofList rest).toNat?.map (fun n => .incl (some n))
  | ['E'] => some .empty
  | _ => none

def parseOpts (s : String) : Option (List ReadOpt) :=
  if s = "_" then some [] else (s.splitOn ",").mapM parseOpt

def parseMasks (s : String) : Option (List (Option (List Path))) :=
  if s = "_" then some [] else (s.splitOn ",").mapM parseMask

def showMaskOpt : Option (List Path) → String
  | none => "~"
  | some ps => showPaths ps

def showRR (rr : ReadRequest) : String :=
  showMaskOpt rr.readMask ++ " U" ++ (if rr.updatesOnly then "1" else "0")
    ++ " B" ++ (if rr.backpressure then "1" else "0")
    ++ " I" ++ (match rr.incl with | none => "-" | some n => toString n)

def ownOf : Fields → Container
  | .nil => []
  | .cons k v rest => (k, .own v) :: ownOf rest

def parseRefs (s : String) : Option (List (Name × List Nat)) :=
  if s = "-" then some []
  else match s.splitOn ":" with
    | [n, as] => ((as.splitOn "+").mapM String.toNat?).map (fun as => [(n, as)])
    | _ => none

def hfilter (inplace : Bool) (mask : Option (List Path)) (own : Fields) (refs ref : List (Name × List Nat))
    (h : Heap) : String :=
  let c : Container := ownOf own ++ refs.map (fun (n, as) => (n, .refs as))
    ++ ref.filterMap (fun (n, as) => as.head?.map (fun a => (n, .ref a)))
  let r := if inplace then filterInPlace mask h c else filterCloneH mask h c
  showMsg (resolve r.2 r.1) ++ " |" ++ String.join (r.2.map (fun m => " " ++ showMsg m))

def handleS (S : Schema) (toks : List String) : Schema × String :=
  let bad := (S, "!bad-op")
  match toks with
  | "hfilter" :: mode :: m :: own :: refs :: ref :: heap =>
    match parseMask m, parseMessage own, parseRefs refs, parseRefs ref, heap.mapM parseMessage with
    | some m, some own, some refs, some ref, some h =>
      if mode = "inplace" then (S, hfilter true m own refs ref h)
      else if mode = "clone" then (S, hfilter false m own refs ref h)
      else bad
    | _, _, _, _, _ => bad
  | ["rconfig", ty, o] =>
    match ty.toNat?, parseOpts o with
    | some ty, some opts =>
      match computeReadConfig S ty opts with
      | some rr => (S, showRR rr)
      | none => (S, "panic")
    | _, _ => bad
  | ["ropts", ty, o, x] =>
    match ty.toNat?, parseOpts o, parseMessage x with
    | some ty, some opts, some fs => (S, showOut (readWith S ty opts fs))
    | _, _, _ => bad
  | ["ospec", o] =>
    match parseOpts o with
    | some opts => (S, showMaskOpt (effectiveMask opts))
    | none => bad
  | ["rfopts", ms, x] =>
    match parseMasks ms, parseMessage x with
    | some ms, some fs => (S, showOut (filterClone (newResponseFilter ms) fs))
    | _, _ => bad
  | _ => ScVerif.C05.handleS S toks

end ScVerif.C06
