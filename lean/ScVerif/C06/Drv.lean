import ScVerif.Base.Line
/-! Driver handler for C06 (stub: replaced by the property's owner). -/
namespace ScVerif.C06

def handle (_toks : List String) : String := "!bad-op"

end ScVerif.C06
