import ScVerif.C05.Drv
/-! Driver handler for C06: the same stateful handler as C05 (shared message-tree model); the C06
operations are `rvalidate`, `rfilter`, `project` plus the library operations. -/
namespace ScVerif.C06

def handleS := ScVerif.C05.handleS

end ScVerif.C06
