import ScVerif.C06.Lossy
import ScVerif.C06.PropsSched
/-!
# C06 — masked subscriptions WITHOUT backpressure (the lossy stage)

Model: `ScVerif/C06/Lossy.lean` (`mergeChanges`, the goroutine of `mergeCollectionExcess` under an
arbitrary schedule of its two `select` cases, `Collection.Pull` behind it).  All theorems quantify
over every schedule of the lossy stage, every store, every sequence of published changes (or every
schedule of write halves, `Sched.lean`), every include callback, equivalence and `Proper` read mask.
-/
namespace ScVerif.C06
open ScVerif.C05

/-- **C06_lossy_pull_commutes.**  A subscription without backpressure under a read mask: whatever the
lossy stage merges or cancels (any schedule), what the masked subscriber is sent is, change by change,
the projection of what the same subscription without the mask is sent when the stage takes the same
decisions — the mask has no influence on which changes are merged. -/
theorem C06_lossy_pull_commutes (I : Nat → Pred) (rr : ReadRequest) (st : Store) (sched : List Bool)
    (evs : List CollectionChange) (h : Proper rr.readMask) :
    pullLossy I rr none st sched evs
      = (pullLossy I { rr with readMask := none } none st sched evs).map
          (List.map (projectChange rr.readMask)) :=
  C06_pull_stream_commutes I rr st _ h

/-- **C06_lossy_stage_commutes_with_projection.**  Merging looks at ids, kinds and flags only:
`mergeChanges` of two projected changes is the projection of their merge (cancelling included), and
the whole lossy stage run on projected changes hands over the projections of what it hands over on
the unprojected ones, under every schedule and from every queue.  (So the read mask could sit on
either side of the lossy stage; the code applies it behind.) -/
theorem C06_lossy_stage_commutes_with_projection (mask : Option (List Path)) :
    (∀ a b, mergeChanges (projectChange mask a) (projectChange mask b)
        = (mergeChanges a b).map (projectChange mask))
    ∧ ∀ (sched : List Bool) (q evs : List CollectionChange),
        lossy sched (q.map (projectChange mask)) (evs.map (projectChange mask))
          = (lossy sched q evs).map (projectChange mask) :=
  ⟨mergeChanges_project mask, lossy_project mask⟩

/-- **C06_lossy_delivered_values_were_stored.**  For every schedule of write halves before and after
the subscription opens, every schedule of the lossy stage, every include callback and equivalence:
each value a masked subscriber WITHOUT backpressure is handed — seed, new value, old value of a
possibly merged change — is the projection of a message the collection held or a writer wrote. -/
theorem C06_lossy_delivered_values_were_stored (P : Fields → Prop) (I : Nat → Pred) (rr : ReadRequest)
    (eq : Equiv) (w0 : World) (pre post : List Step) (sched : List Bool) (h : Proper rr.readMask)
    (hw : w0.All P) (hs : ∀ s ∈ pre ++ post, ∀ m, s.msg? = some m → P m)
    (ds : List CollectionChange)
    (hd : pullLossy I rr eq (run w0 pre).1.store sched (run (run w0 pre).1 post).2 = some ds) :
    ∀ d ∈ ds, d.All (fun v => ∃ u, P u ∧ v = projectMask rr.readMask u) := by
  have h1 := run_all P pre w0 hw (fun s hs' => hs s (List.mem_append_left _ hs'))
  have h2 := run_all P post (run w0 pre).1 h1.1 (fun s hs' => hs s (List.mem_append_right _ hs'))
  exact pullStream_all P I rr eq _ _ h h1.1.1
    (lossy_all P sched [] _ (fun x hx => by cases hx) h2.2) ds hd

/-- **C06_lossy_stalled_one_change_per_id.**  The queue of the lossy stage never holds two changes of
one id (`enqueue` keeps `OnePerId`, from any one-per-id queue, for every published change); so a
subscriber that takes nothing while any number of changes are published is afterwards handed at most
ONE, merged, change per id. -/
theorem C06_lossy_stalled_one_change_per_id (evs : List CollectionChange) :
    (∀ q c, OnePerId q → OnePerId (enqueue q c)) ∧ OnePerId (lossy [] [] evs) :=
  ⟨enqueue_onePerId, lossy_queue_onePerId evs [] List.Pairwise.nil⟩

/-- **C06_lossy_no_panic.**  No schedule, mask (valid or not), callback or equivalence makes the
subscription without backpressure panic in the filter. -/
theorem C06_lossy_no_panic (I : Nat → Pred) (rr : ReadRequest) (eq : Equiv) (st : Store) (sched : List Bool)
    (evs : List CollectionChange) : pullLossy I rr eq st sched evs ≠ none :=
  (C06_collection_reads_no_panic I rr eq st _ "").2.1

/-! ## Non-vacuity -/

/-- the Pull loop is busy while `x` is updated twice: the two UPDATEs reach the masked subscriber as
one, from the first old value to the last new value, both projected -/
example : pullLossy (fun _ => fun _ _ => true) ⟨some [["g"]], false, false, none⟩ none [] [false, false, true]
      [⟨"x", 1, .update, some (.cons "g" (.sc "i1") (.cons "r" (.scs ["i1"]) .nil)), some (.cons "g" (.sc "i2") .nil), false, false⟩,
       ⟨"x", 2, .update, some (.cons "g" (.sc "i2") .nil), some (.cons "g" (.sc "i3") (.cons "r" (.scs ["i1"]) .nil)), false, false⟩]
    = some [⟨"x", 2, .update, some (.cons "g" (.sc "i1") .nil), some (.cons "g" (.sc "i3") .nil), false, false⟩] := by
  decide

/-- an ADD and the REMOVE of the same id cancel in the queue -/
example : lossy [false, false] []
      [⟨"x", 1, .add, none, some (.cons "g" (.sc "i1") .nil), false, false⟩,
       ⟨"x", 2, .remove, some (.cons "g" (.sc "i1") .nil), none, false, false⟩] = [] := by decide

end ScVerif.C06
