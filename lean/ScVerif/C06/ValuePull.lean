import ScVerif.C06.Coll
/-
Model of `(*Value).Pull` of `pkg/resource/value.go` under a read mask: the seed value (unless
`UpdatesOnly`, or the value is nil) and every published change pass through `change.filter(filter)`;
with an equivalence (`resource.WithEquivalence / WithNoDuplicates`) a change equivalent to the value
most recently SENT — as the receiver saw it, i.e. after filtering — is dropped.
-/
namespace ScVerif.C06
open ScVerif.C05

/-- The event loop of `Value.Pull`; `last` is the value most recently sent (Go's nil: `none`). -/
def valueEvents (mask : Option (List Path)) (eq : Equiv) :
    Option Fields → List ValueChange → Out (List ValueChange)
  | _, [] => some []
  | last, e :: rest =>
    match e.filter mask with
    | none => none
    | some d =>
      match eq with
      | some cmp =>
        if cmp last d.value then valueEvents mask eq last rest
        else (valueEvents mask eq d.value rest).map (d :: ·)
      | none => (valueEvents mask eq d.value rest).map (d :: ·)

/-- `Value.Pull(ctx, opts...)`: `cur` is what `onUpdate` read (`none`: `UpdatesOnly` or a nil value). -/
def valuePull (rr : ReadRequest) (eq : Equiv) (cur : Option (Fields × Int)) (evs : List ValueChange) :
    Out (List ValueChange) :=
  match (if rr.updatesOnly then none else cur) with
  | none => valueEvents rr.responseFilter eq none evs
  | some (v, t) =>
    match ValueChange.filter rr.responseFilter ⟨some v, t, true, true⟩ with
    | none => none
    | some s => (valueEvents rr.responseFilter eq s.value evs).map (s :: ·)

/-! ## Specification: project everything, then drop what is equivalent to the last value kept -/

def dedupSpec (cmp : Option Fields → Option Fields → Bool) : Option Fields → List ValueChange → List ValueChange
  | _, [] => []
  | last, d :: rest => if cmp last d.value then dedupSpec cmp last rest else d :: dedupSpec cmp d.value rest

/-- The unfiltered stream: the seed (if any), then the events. -/
def rawValueStream (rr : ReadRequest) (cur : Option (Fields × Int)) (evs : List ValueChange) : List ValueChange :=
  match (if rr.updatesOnly then none else cur) with
  | none => evs
  | some (v, t) => ⟨some v, t, true, true⟩ :: evs

end ScVerif.C06
