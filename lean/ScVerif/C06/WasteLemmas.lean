import ScVerif.C06.Waste
import ScVerif.C06.ValueLemmas
import ScVerif.C06.PropsValue
/-! Lemmas about the wastepb adapter model (`Waste.lean`). -/
namespace ScVerif.C06
open ScVerif.C05

theorem filterAll_eq (mask : Option (List Path)) (h : Proper mask) :
    ∀ l : List Fields, filterAll mask l = some (l.map (projectMask mask))
  | [] => rfl
  | r :: rest => by
    simp only [filterAll, C06_projection mask r h, filterAll_eq mask h rest, List.map_cons]

theorem proper_none : Proper (none : Option (List Path)) := fun _ e => by cases e

theorem projectMask_none (fs : Fields) : projectMask none fs = fs := rfl

theorem wastePull_eq (mask : Option (List Path)) (updatesOnly : Bool) (hist : List Fields) (cur : Option Fields)
    (evs : List Fields) (h : Proper mask) :
    wastePull mask updatesOnly hist cur evs
      = some (((if updatesOnly then [] else wasteWindow hist).map (fun r => some (projectMask mask r)))
          ++ (rawValueStream ⟨mask, updatesOnly, false, none⟩ (cur.map (fun v => (v, 0)))
                (evs.map (fun v => ⟨some v, 0, false, false⟩))).map (fun c => projectOpt mask c.value)) := by
  unfold wastePull
  have hv := C06_value_pull_projection ⟨mask, updatesOnly, false, none⟩ (cur.map (fun v => (v, 0)))
    (evs.map (fun v => ⟨some v, 0, false, false⟩)) h
  rw [hv, newResponseFilter_single]
  cases updatesOnly with
  | true => simp [projectValueChange]
  | false => simp [filterAll_eq mask h, projectValueChange, List.map_map, Function.comp_def]

end ScVerif.C06
