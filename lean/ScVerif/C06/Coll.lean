import ScVerif.C06.Opts
import ScVerif.C06.Change
/-
Model of the COLLECTION reads of `pkg/resource/collection.go` that combine a read mask with an
include callback (`resource.WithInclude`) — `List`, the seed values and the update events of `Pull`,
and `PullID`:

* `ReadRequest.Exclude(id, m)` hands the include callback the STORED message (`itemSlice`), the read
  mask is applied afterwards, to the items that were kept (`filter.FilterClone(e.body)`);
* `Pull` seeds: the kept items sorted by id, each as an ADD change with the seed flag, the last one
  flagged `LastSeedValue`, each passed through `change.filter(filter)` (unless `UpdatesOnly`);
* `Pull` events: `change.include(readConfig.Include)` first — on the stored old / new values —, then
  `change.filter(filter)`, then the collection's equivalence (if any) on the filtered values;
* `PullID`: the `Pull` stream restricted to one id, REMOVE ends it; the single seed value of an item
  is flagged as the last one.

Include callbacks are arbitrary functions `String → Fields → Bool` in every theorem; the driver knows
a small closed family by number (`namedPred`, shared with the harness).
-/
namespace ScVerif.C06
open ScVerif.C05

/-- `resource.FilterFunc`. -/
abbrev Pred := String → Fields → Bool

/-- One entry of `c.byId`. -/
structure Item where
  id : String
  body : Fields
  changeTime : Int
deriving DecidableEq, Repr

/-- `c.byId` in the order the map iteration happens to visit it (ids are unique: `UniqueIds`). -/
abbrev Store := List Item

def UniqueIds (st : Store) : Prop := (st.map (·.id)).Nodup

/-- `rr.Exclude(id, m)` = `rr.Include != nil && !rr.Include(id, m)`. -/
def exclude (incl : Option Pred) (id : String) (m : Fields) : Bool :=
  match incl with
  | none => false
  | some f => !f id m

/-- `c.itemSlice(readConfig)`: the callback sees the stored body. -/
def itemSlice (incl : Option Pred) (st : Store) : List Item :=
  st.filter (fun e => !exclude incl e.id e.body)

/-- `sort.Slice(tmp, func(i, j) bool { return tmp[i].id < tmp[j].id })` (ids are unique, so every
sorting algorithm produces the same slice; this one is insertion sort). -/
def insertById (x : Item) : List Item → List Item
  | [] => [x]
  | y :: ys => if x.id < y.id then x :: y :: ys else y :: insertById x ys

def sortById : List Item → List Item
  | [] => []
  | x :: xs => insertById x (sortById xs)

/-- The loop `for _, e := range tmp { result = append(result, filter.FilterClone(e.body)) }`. -/
def filterBodies (mask : Option (List Path)) : List Item → Out (List Fields)
  | [] => some []
  | e :: rest =>
    match filterClone mask e.body, filterBodies mask rest with
    | some m, some ms => some (m :: ms)
    | _, _ => none

/-- `Collection.List` with a configured request (`I` interprets the named include callbacks). -/
def listWith (I : Nat → Pred) (rr : ReadRequest) (st : Store) : Out (List Fields) :=
  filterBodies rr.responseFilter (sortById (itemSlice (rr.incl.map I) st))

/-- `Collection.List(opts...)`. -/
def collList (I : Nat → Pred) (S : Schema) (ty : Nat) (opts : List ReadOpt) (st : Store) : Out (List Fields) :=
  match computeReadConfig S ty opts with
  | none => none
  | some rr => listWith I rr st

/-- The seed loop of `Collection.Pull` over the sorted current values. -/
def seedsFrom (mask : Option (List Path)) : List Item → Out (List CollectionChange)
  | [] => some []
  | e :: rest =>
    match CollectionChange.filter mask ⟨e.id, e.changeTime, .add, none, some e.body, true, rest.isEmpty⟩,
      seedsFrom mask rest with
    | some c, some cs => some (c :: cs)
    | _, _ => none

/-- `onUpdate` + the seed loop: nothing with `UpdatesOnly`. -/
def pullSeeds (I : Nat → Pred) (rr : ReadRequest) (st : Store) : Out (List CollectionChange) :=
  if rr.updatesOnly then some []
  else seedsFrom rr.responseFilter (sortById (itemSlice (rr.incl.map I) st))

/-- "an absent value is never included". -/
def includedOpt (f : Pred) (id : String) : Option Fields → Bool
  | none => false
  | some v => f id v

/-- `(*CollectionChange).include(includeFunc)`; `none`: the change is not forwarded. -/
def CollectionChange.includeP (incl : Option Pred) (c : CollectionChange) : Option CollectionChange :=
  match incl with
  | none => some c
  | some f =>
    let oldInc := includedOpt f c.id c.oldValue
    let newInc := includedOpt f c.id c.newValue
    if oldInc = newInc then (if newInc then some c else none)
    else if newInc then
      some ⟨c.id, c.changeTime, .add, none, c.newValue, c.seedValue, false⟩
    else
      some ⟨c.id, c.changeTime, .remove, c.oldValue, none, false, false⟩

/-- `c.equivalence` of the collection (`resource.WithMessageEquivalence`), if any. -/
abbrev Equiv := Option (Option Fields → Option Fields → Bool)

/-- One iteration of `for event := range emit` in `Collection.Pull`: outer `none` is a panic, inner
`none` means nothing is sent for this event. -/
def pullEvent (incl : Option Pred) (mask : Option (List Path)) (eq : Equiv) (c : CollectionChange) :
    Out (Option CollectionChange) :=
  match c.includeP incl with
  | none => some none
  | some c' =>
    match c'.filter mask with
    | none => none
    | some d =>
      match eq with
      | some cmp => if cmp d.oldValue d.newValue then some none else some (some d)
      | none => some (some d)

def pullEvents (incl : Option Pred) (mask : Option (List Path)) (eq : Equiv) :
    List CollectionChange → Out (List CollectionChange)
  | [] => some []
  | c :: rest =>
    match pullEvent incl mask eq c, pullEvents incl mask eq rest with
    | some none, some ds => some ds
    | some (some d), some ds => some (d :: ds)
    | _, _ => none

/-- Everything a `Collection.Pull` subscriber with the request `rr` is sent: the seeds of the store
it found, then the events published afterwards (`evs`: the raw changes on the bus). -/
def pullStream (I : Nat → Pred) (rr : ReadRequest) (eq : Equiv) (st : Store) (evs : List CollectionChange) :
    Out (List CollectionChange) :=
  match pullSeeds I rr st, pullEvents (rr.incl.map I) rr.responseFilter eq evs with
  | some a, some b => some (a ++ b)
  | _, _ => none

/-- The goroutine of `Collection.PullID` over the changes its `Pull` delivers. -/
def pullIDLoop (id : String) : List CollectionChange → List ValueChange
  | [] => []
  | c :: rest =>
    if c.id ≠ id then pullIDLoop id rest
    else if c.changeType = .remove then []
    else
      match c.newValue with
      | none => []                                         -- "NewValue is nil, but not a REMOVE change"
      | some v => ⟨some v, c.changeTime, c.seedValue, c.seedValue⟩ :: pullIDLoop id rest

/-- `Collection.PullID(ctx, id, opts...)`. -/
def pullID (I : Nat → Pred) (rr : ReadRequest) (eq : Equiv) (st : Store) (evs : List CollectionChange)
    (id : String) : Out (List ValueChange) :=
  (pullStream I rr eq st evs).map (pullIDLoop id)

/-! ## Specification (no response filter, no request: predicate on the stored item, then projection) -/

/-- What a subscriber is to see of a change under a mask: both values projected, the rest as it is. -/
def projectChange (mask : Option (List Path)) (c : CollectionChange) : CollectionChange :=
  { c with newValue := projectOpt mask c.newValue, oldValue := projectOpt mask c.oldValue }

def projectValueChange (mask : Option (List Path)) (v : ValueChange) : ValueChange :=
  { v with value := projectOpt mask v.value }

/-- The stored items the request selects: those the callback accepts — judged on what is STORED. -/
def selected (incl : Option Pred) (st : Store) : List Item :=
  st.filter (fun e => match incl with | none => true | some f => f e.id e.body)

/-- The seed changes for a sorted selection (unprojected). -/
def seedSpec : List Item → List CollectionChange
  | [] => []
  | e :: rest => ⟨e.id, e.changeTime, .add, none, some e.body, true, rest.isEmpty⟩ :: seedSpec rest

/-- A variant that is NOT the code: the callback is handed the projection (what C06-10-like changes
do).  Only used by `C06_include_on_projection_differs`. -/
def selectedOnProjection (incl : Option Pred) (mask : Option (List Path)) (st : Store) : List Item :=
  st.filter (fun e => match incl with | none => true | some f => f e.id (projectMask mask e.body))

/-! ## The closed family of include callbacks the driver and the harness share -/

def namedPred : Nat → Pred
  | 0 => fun _ _ => true
  | 1 => fun _ _ => false
  | 2 => fun _ m => m != .nil                               -- the message has a populated field
  | 3 => fun id m => id == "zz" || m != .nil
  | 4 => fun _ m => m.has "default_int32"
  | 5 => fun _ m => (m.getPath ["default_foreign_message", "c"]).isSome
  | 6 => fun id _ => id != "y"
  | _ => fun _ m => m.has "default_string"

/-! ## Lemmas -/

theorem itemSlice_eq_selected (incl : Option Pred) (st : Store) : itemSlice incl st = selected incl st := by
  unfold itemSlice selected
  congr 1
  funext e
  cases incl <;> simp [exclude]

theorem insertById_perm (x : Item) : ∀ l : List Item, (insertById x l).Perm (x :: l)
  | [] => List.Perm.refl _
  | y :: ys => by
    unfold insertById
    split
    · exact List.Perm.refl _
    · exact ((List.perm_cons y).mpr (insertById_perm x ys)).trans (List.Perm.swap x y ys)

theorem sortById_perm : ∀ l : List Item, (sortById l).Perm l
  | [] => List.Perm.refl _
  | x :: xs => (insertById_perm x (sortById xs)).trans ((List.perm_cons x).mpr (sortById_perm xs))

/-- Sorted by id (`≤` on strings is `¬ >`). -/
def SortedById (l : List Item) : Prop := l.Pairwise (fun a b => ¬ b.id < a.id)

theorem insertById_sorted (x : Item) : ∀ l : List Item, SortedById l → SortedById (insertById x l)
  | [], _ => by simp [insertById, SortedById]
  | y :: ys, h => by
    unfold SortedById at h ⊢
    rw [List.pairwise_cons] at h
    unfold insertById
    split
    · rename_i hxy
      rw [List.pairwise_cons]
      refine ⟨?_, List.pairwise_cons.mpr h⟩
      intro z hz
      rcases List.mem_cons.mp hz with rfl | hz
      · exact String.lt_asymm hxy
      · intro hzx
        exact h.1 z hz (String.lt_trans hzx hxy)
    · rename_i hxy
      rw [List.pairwise_cons]
      refine ⟨?_, insertById_sorted x ys h.2⟩
      intro z hz
      rcases List.mem_cons.mp ((insertById_perm x ys).subset hz) with rfl | hz
      · exact hxy
      · exact h.1 z hz

theorem sortById_sorted : ∀ l : List Item, SortedById (sortById l)
  | [] => List.Pairwise.nil
  | x :: xs => insertById_sorted x _ (sortById_sorted xs)

/-! ## The other read options of a list: the last one of each kind decides (specification by
recursion from the right, as `lastMask`) -/

def ReadOpt.incl? : ReadOpt → Option (Option Nat)
  | .incl f => some f
  | _ => none

def ReadOpt.updatesOnly? : ReadOpt → Option Bool
  | .updatesOnly b => some b
  | _ => none

def ReadOpt.backpressure? : ReadOpt → Option Bool
  | .backpressure b => some b
  | _ => none

/-- The payload of the right-most option of one kind (`sel` picks the kind). -/
def lastOf {α : Type} (sel : ReadOpt → Option α) : List ReadOpt → Option α
  | [] => none
  | o :: rest =>
    match lastOf sel rest with
    | some a => some a
    | none => sel o

/-- The include callback in effect: the last `WithInclude` (a nil func switches an earlier one off). -/
def effectiveIncl (opts : List ReadOpt) : Option Nat := (lastOf ReadOpt.incl? opts).getD none
def effectiveUpdatesOnly (opts : List ReadOpt) : Bool := (lastOf ReadOpt.updatesOnly? opts).getD false
def effectiveBackpressure (opts : List ReadOpt) : Bool := (lastOf ReadOpt.backpressure? opts).getD false

theorem applyAll_incl : ∀ (opts : List ReadOpt) (rr : ReadRequest),
    (applyAll rr opts).incl = (lastOf ReadOpt.incl? opts).getD rr.incl
  | [], rr => by simp [applyAll, lastOf]
  | o :: rest, rr => by
    have ih := applyAll_incl rest (o.apply rr)
    simp only [applyAll, List.foldl_cons] at ih ⊢
    rw [ih, lastOf]
    cases h : lastOf ReadOpt.incl? rest with
    | some m => simp
    | none => cases o <;> simp [ReadOpt.apply, ReadOpt.incl?]

theorem applyAll_updatesOnly : ∀ (opts : List ReadOpt) (rr : ReadRequest),
    (applyAll rr opts).updatesOnly = (lastOf ReadOpt.updatesOnly? opts).getD rr.updatesOnly
  | [], rr => by simp [applyAll, lastOf]
  | o :: rest, rr => by
    have ih := applyAll_updatesOnly rest (o.apply rr)
    simp only [applyAll, List.foldl_cons] at ih ⊢
    rw [ih, lastOf]
    cases h : lastOf ReadOpt.updatesOnly? rest with
    | some m => simp
    | none => cases o <;> simp [ReadOpt.apply, ReadOpt.updatesOnly?]

theorem applyAll_backpressure : ∀ (opts : List ReadOpt) (rr : ReadRequest),
    (applyAll rr opts).backpressure = (lastOf ReadOpt.backpressure? opts).getD rr.backpressure
  | [], rr => by simp [applyAll, lastOf]
  | o :: rest, rr => by
    have ih := applyAll_backpressure rest (o.apply rr)
    simp only [applyAll, List.foldl_cons] at ih ⊢
    rw [ih, lastOf]
    cases h : lastOf ReadOpt.backpressure? rest with
    | some m => simp
    | none => cases o <;> simp [ReadOpt.apply, ReadOpt.backpressure?]

theorem responseFilter_eq (rr : ReadRequest) : rr.responseFilter = rr.readMask := by
  unfold ReadRequest.responseFilter
  exact newResponseFilter_single _

end ScVerif.C06
