import ScVerif.C06.Coll
/-
Model of WHEN a collection read meets the writes of `pkg/resource/collection.go`: a write stores its
value under the lock (`c.byId[id] = &item{…}` inside `GetAndUpdate`), releases the lock and only then
publishes its change (`c.bus.Send(…)` at the end of `Collection.Update`; `Collection.Add` is an
`Update` with `WithExpectAbsent, WithCreateIfAbsent`); `Collection.Delete` removes the entry and
publishes while it still holds the lock.  Between the two halves of an `Update` anything may happen:
other writers store and publish, subscriptions open.

* a `World` is the store, the injected clock (it advances by `tick` at every reading — any step, 0 for
  a clock that stands still, so that every item and every change carry the same time —: once when the
  value is stored — the item's change time —, once when the change literal is built — the event's
  change time), and the writers that have stored but not published (`pending`, in storage order);
* a `Step` is one half of a write: `add` / `update` up to (not including) `bus.Send`, `publish k`
  the `bus.Send` of the k-th waiting writer (ANY of them: publications may overtake each other),
  `delete` both halves at once;
* a subscription that opens after the steps `pre` finds the store of that moment (`onUpdate` reads
  it and registers with the bus under the read lock) and is then handed every change published by the
  steps `post` — also the changes of writers that had stored BEFORE it opened.  So the changes a
  subscriber receives for an id do not form a chain that starts at its seed value.

What the subscriber is sent is `pullStream` / `pullID` of `Coll.lean` on that store and those changes.
-/
namespace ScVerif.C06
open ScVerif.C05

/-- A writer parked between "value stored" and `bus.Send`: the change it is going to publish. -/
structure Pending where
  id : String
  kind : ChangeType
  old : Option Fields
  new : Fields
deriving DecidableEq, Repr

structure World where
  store : Store := []
  clock : Int := 0
  pending : List Pending := []
  /-- how far the injected clock advances at every reading (the harness's: 1; a clock that stands still: 0) -/
  tick : Int := 1
deriving Repr

inductive Step where
  | add (id : String) (m : Fields)       -- Collection.Add(id, m) up to bus.Send
  | update (id : String) (m : Fields)    -- Collection.Update(id, m) up to bus.Send
  | publish (k : Nat)                    -- bus.Send of the k-th parked writer
  | delete (id : String)                 -- Collection.Delete(id): stores and publishes under the lock
deriving DecidableEq, Repr

def lookup (st : Store) (id : String) : Option Item := st.find? (fun e => e.id == id)

/-- One step: the world afterwards and what was put on the bus. -/
def step (w : World) : Step → World × List CollectionChange
  | .add id m =>
    match lookup w.store id with
    | some _ => (w, [])                                       -- ExpectAbsentPreconditionFailed
    | none =>
      ({ store := w.store ++ [⟨id, m, w.clock + w.tick⟩], clock := w.clock + w.tick,
         pending := w.pending ++ [⟨id, .add, none, m⟩], tick := w.tick }, [])
  | .update id m =>
    match lookup w.store id with
    | none => (w, [])                                         -- NotFound
    | some e =>
      ({ store := w.store.map (fun x => if x.id == id then ⟨id, m, w.clock + w.tick⟩ else x),
         clock := w.clock + w.tick, pending := w.pending ++ [⟨id, .update, some e.body, m⟩], tick := w.tick }, [])
  | .publish k =>
    match w.pending[k]? with
    | none => (w, [])
    | some p =>
      ({ w with clock := w.clock + w.tick, pending := w.pending.eraseIdx k },
        [⟨p.id, w.clock + w.tick, p.kind, p.old, some p.new, false, false⟩])
  | .delete id =>
    match lookup w.store id with
    | none => (w, [])                                         -- NotFound
    | some e =>
      ({ w with store := w.store.filter (fun x => x.id != id), clock := w.clock + w.tick },
        [⟨id, w.clock + w.tick, .remove, some e.body, none, false, false⟩])

/-- A schedule: the world at the end and everything published on the way, in order. -/
def run : World → List Step → World × List CollectionChange
  | w, [] => (w, [])
  | w, s :: rest => ((run (step w s).1 rest).1, (step w s).2 ++ (run (step w s).1 rest).2)

/-- A `Collection.Pull(opts…)` that opens after `pre` and stays open during `post`. -/
def session (I : Nat → Pred) (rr : ReadRequest) (eq : Equiv) (w0 : World) (pre post : List Step) :
    Out (List CollectionChange) :=
  pullStream I rr eq (run w0 pre).1.store (run (run w0 pre).1 post).2

/-- A `Collection.PullID(id, opts…)` likewise. -/
def sessionID (I : Nat → Pred) (rr : ReadRequest) (eq : Equiv) (w0 : World) (pre post : List Step)
    (id : String) : Out (List ValueChange) :=
  pullID I rr eq (run w0 pre).1.store (run (run w0 pre).1 post).2 id

/-- A `Collection.List(opts…)` after `pre`. -/
def listAfter (I : Nat → Pred) (rr : ReadRequest) (w0 : World) (pre : List Step) : Out (List Fields) :=
  listWith I rr (run w0 pre).1.store

/-! ## Everything a message can be said about: a predicate that holds of all messages in the world -/

def Step.msg? : Step → Option Fields
  | .add _ m => some m
  | .update _ m => some m
  | _ => none

/-- `P` holds of every message the world holds: stored bodies, and the values of unpublished changes. -/
def World.All (P : Fields → Prop) (w : World) : Prop :=
  (∀ e ∈ w.store, P e.body) ∧ (∀ p ∈ w.pending, P p.new ∧ ∀ o, p.old = some o → P o)

/-- `P` holds of both values of a change (where present). -/
def CollectionChange.All (P : Fields → Prop) (c : CollectionChange) : Prop :=
  (∀ v, c.newValue = some v → P v) ∧ (∀ v, c.oldValue = some v → P v)

theorem lookup_mem {st : Store} {id : String} {e : Item} (h : lookup st id = some e) : e ∈ st :=
  List.mem_of_find?_eq_some h

theorem step_all (P : Fields → Prop) (w : World) (s : Step) (hw : w.All P) (hs : ∀ m, s.msg? = some m → P m) :
    (step w s).1.All P ∧ ∀ c ∈ (step w s).2, c.All P := by
  cases s with
  | add id m =>
    have hm := hs m rfl
    cases hl : lookup w.store id with
    | some e => simp only [step, hl]; exact ⟨hw, by simp⟩
    | none =>
      simp only [step, hl]
      refine ⟨⟨?_, ?_⟩, by simp⟩
      · intro e he
        rcases List.mem_append.mp he with he | he
        · exact hw.1 e he
        · simp only [List.mem_singleton] at he; subst he; exact hm
      · intro p hp
        rcases List.mem_append.mp hp with hp | hp
        · exact hw.2 p hp
        · simp only [List.mem_singleton] at hp; subst hp
          exact ⟨hm, fun o ho => by cases ho⟩
  | update id m =>
    have hm := hs m rfl
    cases hl : lookup w.store id with
    | none => simp only [step, hl]; exact ⟨hw, by simp⟩
    | some e0 =>
      simp only [step, hl]
      refine ⟨⟨?_, ?_⟩, by simp⟩
      · intro e he
        simp only [List.mem_map] at he
        obtain ⟨x, hx, rfl⟩ := he
        split
        · exact hm
        · exact hw.1 x hx
      · intro p hp
        rcases List.mem_append.mp hp with hp | hp
        · exact hw.2 p hp
        · simp only [List.mem_singleton] at hp; subst hp
          refine ⟨hm, fun o ho => ?_⟩
          cases ho
          exact hw.1 e0 (lookup_mem hl)
  | publish k =>
    cases hk : w.pending[k]? with
    | none => simp only [step, hk]; exact ⟨hw, by simp⟩
    | some p =>
      simp only [step, hk]
      have hp : p ∈ w.pending := List.mem_of_getElem? hk
      refine ⟨⟨hw.1, fun q hq => hw.2 q (List.mem_of_mem_eraseIdx hq)⟩, ?_⟩
      intro c hc
      simp only [List.mem_singleton] at hc; subst hc
      refine ⟨fun v hv => ?_, fun v hv => (hw.2 p hp).2 v hv⟩
      cases hv
      exact (hw.2 p hp).1
  | delete id =>
    cases hl : lookup w.store id with
    | none => simp only [step, hl]; exact ⟨hw, by simp⟩
    | some e0 =>
      simp only [step, hl]
      refine ⟨⟨fun e he => hw.1 e (List.mem_filter.mp he).1, hw.2⟩, ?_⟩
      intro c hc
      simp only [List.mem_singleton] at hc; subst hc
      refine ⟨fun v hv => (by cases hv), fun v hv => ?_⟩
      cases hv
      exact hw.1 e0 (lookup_mem hl)

theorem run_all (P : Fields → Prop) : ∀ (steps : List Step) (w : World), w.All P →
    (∀ s ∈ steps, ∀ m, s.msg? = some m → P m) →
    (run w steps).1.All P ∧ ∀ c ∈ (run w steps).2, c.All P
  | [], w, hw, _ => ⟨hw, by simp [run]⟩
  | s :: rest, w, hw, hs => by
    have h1 := step_all P w s hw (hs s (List.mem_cons_self ..))
    have h2 := run_all P rest (step w s).1 h1.1 (fun s' hs' => hs s' (List.mem_cons_of_mem _ hs'))
    refine ⟨h2.1, ?_⟩
    intro c hc
    simp only [run, List.mem_append] at hc
    rcases hc with hc | hc
    · exact h1.2 c hc
    · exact h2.2 c hc

theorem run_append (w : World) (a b : List Step) :
    run w (a ++ b) = ((run (run w a).1 b).1, (run w a).2 ++ (run (run w a).1 b).2) := by
  induction a generalizing w with
  | nil => simp [run]
  | cons s rest ih => simp [run, ih, List.append_assoc]

/-- `include` only ever forwards values the change carried. -/
theorem includeP_all (P : Fields → Prop) (incl : Option Pred) (c c' : CollectionChange)
    (h : c.includeP incl = some c') (hc : c.All P) : c'.All P := by
  unfold CollectionChange.includeP at h
  cases incl with
  | none => cases h; exact hc
  | some f =>
    simp only at h
    split at h
    · split at h
      · cases h; exact hc
      · cases h
    · split at h
      · cases h; exact ⟨hc.1, fun v hv => by cases hv⟩
      · cases h; exact ⟨fun v hv => (by cases hv), hc.2⟩

end ScVerif.C06
