import ScVerif.C13.Script
/-
C13 — model of pkg/wrap/stream.go (`ClientServerStream`), function by function.

The two unbuffered channels `clientSend` / `serverSend` are the rendezvous of `go` (Script.lean);
what is modelled here is the state the two halves share besides the channels: `header`, the latch
`headerC`, `trailer`, `closeErr` (+ `serverSend` closed, `closed()` called) and the caller's context.

`Cfg` selects the code version: `Cfg.current` is the code in /repo now (after the two `fix:`
commits); `Cfg.legacy` is the code before them, kept so that the two defects stay stated as theorems
(`C13_legacy_*` in Props.lean).
-/
namespace ScVerif.C13

structure Cfg where
  /-- `Close` calls `SendHeader(nil)` first (fix fa93faa) -/
  flushOnClose : Bool
  /-- `SetHeader` returns an error once `headerC` is closed (fix f637124) -/
  rejectLate : Bool
  deriving DecidableEq, Repr

def Cfg.current : Cfg := ⟨true, true⟩
def Cfg.legacy : Cfg := ⟨false, false⟩

namespace Wrap

structure State where
  header : MD := []
  headerC : Bool := false          -- headerC closed: Header() may return
  trailer : MD := []
  closed : Option Fin := none      -- Close(err) was called: closeErr = err, serverSend closed, ctx done
  ctxErr : Option Abort := none    -- the parent (caller's) context ended
  deriving DecidableEq, Repr

/-- `serverStream.SetHeader`: empty md is a no-op; after the latch is closed an error (current code);
otherwise `metadata.Join`. The legacy code joined unconditionally. -/
def setHeader (c : Cfg) (w : State) (md : MD) : State × Bool :=
  if c.rejectLate then
    if md.isEmpty then (w, false)
    else if w.headerC then (w, true)
    else ({ w with header := w.header ++ md }, false)
  else ({ w with header := w.header ++ md }, false)

/-- `serverStream.SendHeader`: error if the latch is closed, else join and close the latch. -/
def sendHeader (w : State) (md : MD) : State × Bool :=
  if w.headerC then (w, true)
  else ({ w with header := w.header ++ md, headerC := true }, false)

def setTrailer (w : State) (md : MD) : State := { w with trailer := w.trailer ++ md }

/-- `sendHeaderIfNeeded` = `SendHeader(nil)` with the error ignored; first thing `SendMsg` does. -/
def sendHeaderIfNeeded (w : State) : State := (sendHeader w []).1

/-- `ClientServerStream.Close(err)`: (current code: flush the header latch,) record closeErr, close
serverSend, cancel the stream context. -/
def close (c : Cfg) (w : State) (err : Fin) : State :=
  let w := if c.flushOnClose then sendHeaderIfNeeded w else w
  { w with closed := some err }

def abort (w : State) (a : Abort) : State := { w with ctxErr := some a }

/-- `clientStream.Header()`: `select { <-ctx.Done(): (headerC closed ? header : nil) ; <-headerC: header }`.
The stream context is done when Close was called or the caller's context ended. -/
def header (w : State) : Option MD :=
  if w.headerC then some w.header
  else if w.closed.isSome || w.ctxErr.isSome then some []
  else none

def trailer (w : State) : MD := w.trailer

/-- What the client sees of an error value (`status.FromError`): nil/io.EOF = OK, a status error its
code and message, any other error Unknown (2) with its text. -/
def canon : Fin → Ev
  | .ok => .fin 0 ""
  | .status c m => .fin c m
  | .plain m => .fin 2 m

/-- `clientStream.RecvMsg` when the handler is not sending: if serverSend is closed, `closeErrLocked()`
(both select branches agree); else if the context is done, `ctx.Err()`; else it blocks. -/
def terminal (w : State) : Option Ev :=
  match w.closed with
  | some err => some (canon err)
  | none =>
    match w.ctxErr with
    | some a => some (.aborted a)
    | none => none

def impl (c : Cfg) : Impl State where
  setHeader := setHeader c
  sendHeader := sendHeader
  setTrailer := setTrailer
  preSend := sendHeaderIfNeeded
  close := close c
  abort := abort
  header := header
  trailer := trailer
  terminal := terminal

end Wrap
end ScVerif.C13
