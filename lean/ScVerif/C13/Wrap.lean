import ScVerif.C13.Script
/-
C13 — model of pkg/wrap/stream.go (`ClientServerStream`), function by function.

The two unbuffered channels `clientSend` / `serverSend` are the rendezvous of `go` (Script.lean);
what is modelled here is the state the two halves share besides the channels: `header`, the latch
`headerC`, `trailer`, `closeErr` (+ `serverSend` closed, `closed()` called) and the caller's context.

`Cfg` selects the code version: `Cfg.current` is the code in /repo now (after the two `fix:`
commits); `Cfg.legacy` is the code before them, kept so that the two defects stay stated as theorems
(`C13_legacy_*` in Props.lean).
-/
namespace ScVerif.C13

structure Cfg where
  /-- `Close` calls `SendHeader(nil)` first (fix fa93faa) -/
  flushOnClose : Bool
  /-- `SetHeader` returns an error once `headerC` is closed (fix f637124) -/
  rejectLate : Bool
  /-- `SendMsg` hands over `proto.Clone(m)` instead of the sender's object (fix be22473) -/
  snapshotOnSend : Bool
  /-- the handler's SendMsg / RecvMsg return the context's status once the context has ended, not
  io.EOF (fix 3d4f9fa) -/
  srvCtxErr : Bool
  /-- `startStream` gives the handler a context without the caller's outgoing metadata (fix 8cf1112) -/
  clearOutgoing : Bool
  /-- the client's `RecvMsg` of a call without server streaming (NewStream) waits for the handler's return
  after the single response and gives the handler's error instead of the response (fix 14df317) -/
  holdResponse : Bool
  /-- `SendHeader` fails once the call's context has ended, so neither a late SendHeader / SendMsg nor the
  flush in `Close` makes header metadata visible that was only staged when the client aborted (fix 1e9d1bd) -/
  sendFailsAfterEnd : Bool
  deriving DecidableEq, Repr

def Cfg.current : Cfg := ⟨true, true, true, true, true, true, true⟩
def Cfg.legacy : Cfg := ⟨false, false, false, false, false, false, false⟩

/-- Message objects live in a heap: `cells` maps a reference to the payload stored there (newest
binding first), `next` is the next fresh reference. -/
structure Heap where
  next : Nat := 0
  cells : List (Nat × Nat) := []
  deriving DecidableEq, Repr

def Heap.get (h : Heap) (r : Nat) : Nat := (h.cells.lookup r).getD 0
def Heap.set (h : Heap) (r v : Nat) : Heap := { h with cells := (r, v) :: h.cells }
/-- `new(T)` / `proto.Clone`: a fresh object holding `v`. -/
def Heap.alloc (h : Heap) (v : Nat) : Heap × Nat := ({ next := h.next + 1, cells := (h.next, v) :: h.cells }, h.next)

namespace Wrap

structure State where
  header : MD := []
  headerC : Bool := false          -- headerC closed: Header() may return
  trailer : MD := []
  closed : Option Fin := none      -- Close(err) was called: closeErr = err, serverSend closed, ctx done
  ctxErr : Option Abort := none    -- the parent (caller's) context ended
  heap : Heap := {}                -- the message objects of both sides
  cOwn : List Nat := []            -- objects the client code holds (its requests, its response values)
  sOwn : List Nat := []            -- objects the handler holds
  cObj : Option Nat := none        -- the one request object of a client that reuses it
  sObj : Option Nat := none        -- the one response object of a handler that reuses it
  deriving DecidableEq, Repr

/-- `serverStream.SetHeader`: empty md is a no-op; after the latch is closed an error (current code);
otherwise `metadata.Join`. The legacy code joined unconditionally. -/
def setHeader (c : Cfg) (w : State) (md : MD) : State × Bool :=
  if c.rejectLate then
    if md.isEmpty then (w, false)
    else if w.headerC then (w, true)
    else ({ w with header := w.header ++ md }, false)
  else ({ w with header := w.header ++ md }, false)

/-- `serverStream.SendHeader` (current code): error if the call's context has ended (nothing can be sent
any more: what is only staged never reaches the client; checked first, before the lock: 0ba2ade), error if
the latch is closed, else join and close the latch.  (`ctx.Err()` of the stream context: non-nil after the caller's context ended; the handler does
not call SendHeader after `Close`, which is the only other way that context ends.) -/
def sendHeader (w : State) (md : MD) : State × Bool :=
  if w.ctxErr.isSome then (w, true)
  else if w.headerC then (w, true)
  else ({ w with header := w.header ++ md, headerC := true }, false)

/-- `SendHeader` before 1e9d1bd: the context was not looked at. -/
def sendHeaderOld (w : State) (md : MD) : State × Bool :=
  if w.headerC then (w, true)
  else ({ w with header := w.header ++ md, headerC := true }, false)

def sendHeaderC (c : Cfg) (w : State) (md : MD) : State × Bool :=
  if c.sendFailsAfterEnd then sendHeader w md else sendHeaderOld w md

def setTrailer (w : State) (md : MD) : State := { w with trailer := w.trailer ++ md }

/-- `sendHeaderIfNeeded` = `SendHeader(nil)` with the error ignored; first thing `SendMsg` does. -/
def sendHeaderIfNeeded (w : State) : State := (sendHeader w []).1

def sendHeaderIfNeededC (c : Cfg) (w : State) : State := (sendHeaderC c w []).1

/-- `ClientServerStream.Close(err)`: (current code: flush the header latch,) record closeErr, close
serverSend, cancel the stream context. -/
def close (c : Cfg) (w : State) (err : Fin) : State :=
  let w := if c.flushOnClose then sendHeaderIfNeededC c w else w
  { w with closed := some err }

@[simp] theorem sendHeaderC_current (w : State) (md : MD) : sendHeaderC Cfg.current w md = sendHeader w md := rfl
@[simp] theorem sendHeaderIfNeededC_current (w : State) : sendHeaderIfNeededC Cfg.current w = sendHeaderIfNeeded w := rfl

def abort (w : State) (a : Abort) : State := { w with ctxErr := some a }

/-- `clientStream.Header()`: `select { <-ctx.Done(): (headerC closed ? header : nil) ; <-headerC: header }`.
The stream context is done when Close was called or the caller's context ended. -/
def header (w : State) : Option MD :=
  if w.headerC then some w.header
  else if w.closed.isSome || w.ctxErr.isSome then some []
  else none

def trailer (w : State) : MD := w.trailer

/-- What the client sees of an error value (`status.FromError`): nil/io.EOF = OK, a status error its
code and message, any other error Unknown (2) with its text. -/
def canon : Fin → Ev
  | .ok => .fin 0 ""
  | .status c m => .fin c m
  | .plain m => .fin 2 m

/-- `clientStream.RecvMsg` when the handler is not sending: if serverSend is closed, `closeErrLocked()`
(both select branches agree); else if the context is done, `ctx.Err()`; else it blocks. -/
def terminal (w : State) : Option Ev :=
  match w.closed with
  | some err => some (canon err)
  | none =>
    match w.ctxErr with
    | some a => some (.aborted a)
    | none => none

/-! ### Messages across the boundary (`SendMsg` … `RecvMsg`, `snapshot`, `permissiveProtoMerge`) -/

def own (w : State) : Dir → List Nat
  | .c2s => w.cOwn
  | .s2c => w.sOwn

/-- The side that receives what `d` sends. -/
def flipDir : Dir → Dir
  | .c2s => .s2c
  | .s2c => .c2s

def addOwn (w : State) (d : Dir) (r : Nat) : State :=
  match d with
  | .c2s => { w with cOwn := r :: w.cOwn }
  | .s2c => { w with sOwn := r :: w.sOwn }

/-- The one message object of a sender that reuses it. -/
def obj (w : State) : Dir → Option Nat
  | .c2s => w.cObj
  | .s2c => w.sObj

def setObj (w : State) (d : Dir) (r : Nat) : State :=
  match d with
  | .c2s => { w with cObj := some r }
  | .s2c => { w with sObj := some r }

/-- Side `d` creates a message object holding `v` (`new(T)` / `&T{...}`). -/
def newObj (w : State) (d : Dir) (v : Nat) : State × Nat :=
  (addOwn { w with heap := (w.heap.alloc v).1 } d w.heap.next, w.heap.next)

/-- A clone held by neither side (`proto.Clone` inside `snapshot`). -/
def allocFree (w : State) (v : Nat) : State × Nat :=
  ({ w with heap := (w.heap.alloc v).1 }, w.heap.next)

/-- The owner of `r` writes `v` into its object. -/
def poke (w : State) (r v : Nat) : State := { w with heap := w.heap.set r v }

/-- The sending side gets hold of the object it is going to send and writes payload `m` into it: a new
object, or — when it reuses its message — the one object it always sends. -/
def senderObj (w : State) (d : Dir) (reuse : Bool) (m : Nat) : State × Nat :=
  if reuse then
    match obj w d with
    | some r => (poke w r m, r)
    | none => (setObj (newObj w d m).1 d (newObj w d m).2, (newObj w d m).2)
  else newObj w d m

/-- `SendMsg(r)` up to its return: what goes over the channel is `snapshot(r)` = a fresh clone held by
nobody (current code) or `r` itself (legacy). -/
def sendMsg (c : Cfg) (w : State) (r : Nat) : State × Nat :=
  if c.snapshotOnSend then allocFree w (w.heap.get r) else (w, r)

/-- `RecvMsg(dst)`: the receiver's own new object gets the content of what came over the channel
(`permissiveProtoMerge`); the receiver holds only its own object afterwards. The result is the
payload it reads from its object. -/
def recvMsg (w : State) (d : Dir) (handed : Nat) : State × Nat :=
  ((newObj w (flipDir d) (w.heap.get handed)).1, w.heap.get handed)

/-- The payload a reusing sender writes into its object right after SendMsg returned. -/
def poison : Nat := 99

/-- One message across the boundary, in the order things happen in the Go code: the sender fills its
object, `SendMsg` returns after the channel hand-over, a reusing sender overwrites its object at once,
and only then the receiver merges what it was handed into its own object. -/
def xfer (c : Cfg) (w : State) (dir : Dir) (m : Nat) (reuse : Bool) : State × Nat :=
  let a := senderObj w dir reuse m
  let b := sendMsg c a.1 a.2
  let w3 := if reuse then poke b.1 a.2 poison else b.1
  recvMsg w3 dir b.2

def impl (c : Cfg) : Impl State where
  setHeader := setHeader c
  sendHeader := sendHeaderC c
  setTrailer := setTrailer
  preSend := sendHeaderIfNeededC c
  xfer := xfer c
  close := close c
  abort := abort
  header := header
  trailer := trailer
  terminal := terminal

end Wrap
end ScVerif.C13
