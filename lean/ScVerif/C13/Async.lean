import ScVerif.C13.Lemmas
/-
C13 — cancellation / deadline at ARBITRARY positions (not only where the handler is blocked waiting).

Until the client's abort the call runs under the rendezvous discipline (`go`); `stateAt` gives the
machine state at that point.  From then on the handler unwinds on its own (`unwind`: every blocking
call of the handler also waits on the call's context, so it either completes with the client's help or
returns the context's error, which the handler returns in turn) while the client goes on with
`RecvMsg` / `Header()` / `Trailer()`; how far the handler has got when the client looks is not
determined, so the result is the LIST of all possible client transcripts (`after`, `asyncRuns`).
-/
namespace ScVerif.C13

/-- The status a handler's SendMsg / RecvMsg return once the call's context has ended (gRPC, and the
wrapper since 3d4f9fa). -/
def cancelFin : Abort → Fin
  | .cancel => .status 1 "context canceled"
  | .deadline => .status 4 "context deadline exceeded"

/-- What a handler that returns the error its failing SendMsg / RecvMsg gave it returns under the
wrapper: the context's status (current code) or io.EOF, i.e. a clean end (legacy). -/
def Wrap.opErr (c : Cfg) (a : Abort) : Fin := if c.srvCtxErr then cancelFin a else .ok

/-- The machine state after the client ops `cs` (none = the scripts left the rendezvous discipline).
Same case analysis as `go`, without the transcript. -/
def stateAt {σ : Type} (I : Impl σ) (fin : Fin) (reuse : Bool) : σ → Bool → Srv → List COp → Option (σ × Bool × Srv)
  -- the client's last op before the abort is done: the handler is wherever that op left it (what it does
  -- next on its own, `unwind` follows)
  | s, cc, srv, [] => some (s, cc, srv)
  -- client ops that do not need the handler leave it where it is
  | s, false, .running ops, .closeSend :: cs => stateAt I fin reuse s true (.running ops) cs
  | s, cc, .running (.setHeader md :: ss), .header :: cs =>
      match I.header s with
      | some _ => stateAt I fin reuse s cc (.running (.setHeader md :: ss)) cs
      | none => stateAt I fin reuse (I.setHeader s md).1 cc (.running ss) (.header :: cs)
  | s, cc, .running (.sendHeader md :: ss), .header :: cs =>
      match I.header s with
      | some _ => stateAt I fin reuse s cc (.running (.sendHeader md :: ss)) cs
      | none => stateAt I fin reuse (I.sendHeader s md).1 cc (.running ss) (.header :: cs)
  | s, cc, .running (.setTrailer md :: ss), .header :: cs =>
      match I.header s with
      | some _ => stateAt I fin reuse s cc (.running (.setTrailer md :: ss)) cs
      | none => stateAt I fin reuse (I.setTrailer s md) cc (.running ss) (.header :: cs)
  | s, cc, .running (.setHeader md :: ss), cs => stateAt I fin reuse (I.setHeader s md).1 cc (.running ss) cs
  | s, cc, .running (.sendHeader md :: ss), cs => stateAt I fin reuse (I.sendHeader s md).1 cc (.running ss) cs
  | s, cc, .running (.setTrailer md :: ss), cs => stateAt I fin reuse (I.setTrailer s md) cc (.running ss) cs
  | s, cc, .running [], cs => stateAt I fin reuse (I.close s fin) cc .done cs
  | s, cc, .running (.send m :: ss), .recv :: cs =>
      stateAt I fin reuse (I.xfer (I.preSend s) .s2c m reuse).1 cc (.running ss) cs
  | s, cc, .running (.send m :: ss), .header :: cs =>
      match I.header (I.preSend s) with
      | some _ => stateAt I fin reuse (I.preSend s) cc (.running (.send m :: ss)) cs
      | none => none
  | _, _, .running (.send _ :: _), _ :: _ => none
  | s, true, .running (.recv :: ss), cs => stateAt I fin reuse s true (.running ss) cs
  | s, false, .running (.recv :: ss), .send m :: cs =>
      stateAt I fin reuse (I.xfer s .c2s m reuse).1 false (.running ss) cs
  | s, false, .running (.recv :: ss), .header :: cs =>
      match I.header s with
      | some _ => stateAt I fin reuse s false (.running (.recv :: ss)) cs
      | none => none
  | _, false, .running (.recv :: _), _ :: _ => none
  | s, cc, .running (.wait :: ss), .header :: cs =>
      match I.header s with
      | some _ => stateAt I fin reuse s cc (.running (.wait :: ss)) cs
      | none => none
  | _, _, .running (.wait :: _), _ :: _ => none
  | s, cc, .done, .recv :: cs =>
      match I.terminal s with
      | some _ => stateAt I fin reuse s cc .done cs
      | none => none
  | s, cc, .done, .header :: cs =>
      match I.header s with
      | some _ => stateAt I fin reuse s cc .done cs
      | none => none
  | s, cc, .done, .trailer :: cs => stateAt I fin reuse s cc .done cs
  | s, false, .done, .closeSend :: cs => stateAt I fin reuse s true .done cs
  | _, _, .done, _ :: _ => none
  | _, _, .aborted, _ :: _ => none
termination_by _ _ srv cs => srv.size + cs.length
decreasing_by all_goals (simp only [Srv.size, List.length_cons]; omega)

/-- The states the handler passes through while it unwinds after the abort without the client taking
part: at a `send` it is blocked in SendMsg (header latch flushed) until the client takes the message
(that continuation is followed by `after`) or SendMsg returns the context's error and the handler
returns it (`opErr`); a `recv` / `wait` returns the context's error likewise (after a half-close a
`recv` may also still see io.EOF and go on). -/
def unwind {σ : Type} (I : Impl σ) (fin opErr : Fin) (cc : Bool) : σ → List SOp → List (σ × Srv)
  | s, [] => [(s, .running []), (I.close s fin, .done)]
  | s, .setHeader md :: ss => (s, .running (.setHeader md :: ss)) :: unwind I fin opErr cc (I.setHeader s md).1 ss
  | s, .sendHeader md :: ss => (s, .running (.sendHeader md :: ss)) :: unwind I fin opErr cc (I.sendHeader s md).1 ss
  | s, .setTrailer md :: ss => (s, .running (.setTrailer md :: ss)) :: unwind I fin opErr cc (I.setTrailer s md) ss
  | s, .send m :: ss => [(I.preSend s, .running (.send m :: ss)), (I.close (I.preSend s) opErr, .done)]
  | s, .recv :: ss =>
      (s, .running (.recv :: ss)) :: (I.close s opErr, .done) :: (if cc then unwind I fin opErr cc s ss else [])
  | s, .wait :: ss => [(s, .running (.wait :: ss)), (I.close s opErr, .done)]

/-- How far the handler may have got ON ITS OWN by the time the abort strikes (the client's last op before
the abort is done, the handler runs on concurrently): any number of its local ops, up to its next blocking
call — a `send` (latch flushed or not yet), a `recv` (passed with io.EOF after a half-close), a `wait` —
or its return.  These ops ran on a LIVE context (a SendHeader / flush among them did send the header). -/
def advance {σ : Type} (I : Impl σ) (fin : Fin) (cc : Bool) : σ → List SOp → List (σ × Srv)
  | s, [] => [(s, .running []), (I.close s fin, .done)]
  | s, .setHeader md :: ss => (s, .running (.setHeader md :: ss)) :: advance I fin cc (I.setHeader s md).1 ss
  | s, .sendHeader md :: ss => (s, .running (.sendHeader md :: ss)) :: advance I fin cc (I.sendHeader s md).1 ss
  | s, .setTrailer md :: ss => (s, .running (.setTrailer md :: ss)) :: advance I fin cc (I.setTrailer s md) ss
  | s, .send m :: ss => [(s, .running (.send m :: ss)), (I.preSend s, .running (.send m :: ss))]
  | s, .recv :: ss => (s, .running (.recv :: ss)) :: (if cc then advance I fin cc s ss else [])
  | s, .wait :: ss => [(s, .running (.wait :: ss))]

def advanced {σ : Type} (I : Impl σ) (fin : Fin) (cc : Bool) (s : σ) : Srv → List (σ × Srv)
  | .running ops => advance I fin cc s ops
  | srv => [(s, srv)]

def futures {σ : Type} (I : Impl σ) (fin opErr : Fin) (cc : Bool) (s : σ) : Srv → List (σ × Srv)
  | .running ops => unwind I fin opErr cc s ops
  | srv => [(s, srv)]

/-- What one client op can observe when the handler is in state `f`: the event, the handler state
afterwards, and whether the client has now seen the end of the call (no further RecvMsg). -/
def observe {σ : Type} (I : Impl σ) (a : Abort) (reuse : Bool) (term : Bool) (op : COp) (f : σ × Srv) :
    List (Ev × (σ × Srv) × Bool) :=
  match op with
  | .recv =>
    if term then [] else
    match f.2 with
    | .running (.send m :: ss) =>
        -- both select cases are ready: the message is delivered, or the context case wins (its probe of
        -- serverSend takes the pending message and drops it) and RecvMsg reports the context's error
        [(.msg (I.xfer f.1 .s2c m reuse).2, ((I.xfer f.1 .s2c m reuse).1, .running ss), false),
         (.aborted a, (f.1, .running ss), true)]
    | .done =>
        -- serverSend closed: the close error; or RecvMsg looked just before Close: the context's error
        match I.terminal f.1 with
        | some e => [(e, f, true), (.aborted a, f, true)]
        | none => [(.aborted a, f, true)]
    | _ => [(.aborted a, f, true)]
  | .header => [(.hdr ((I.header f.1).getD []), f, term)]
  | .trailer => [(.trl (I.trailer f.1), f, term)]
  | _ => []

/-- All possible client transcripts of the ops after the abort. -/
def after {σ : Type} (I : Impl σ) (fin opErr : Fin) (a : Abort) (reuse cc : Bool) :
    Bool → σ → Srv → List COp → List (List Ev)
  | _, _, _, [] => [[]]
  | term, s, srv, op :: cs =>
    match (futures I fin opErr cc s srv).flatMap (observe I a reuse term op) with
    | [] => [[.stuck]]
    | obs => obs.flatMap fun o => (after I fin opErr a reuse cc o.2.2 o.2.1.1 o.2.1.2 cs).map (o.1 :: ·)

/-- Split a client script at its first cancel / deadline. -/
def splitAbort : List COp → List COp × Option (Abort × List COp)
  | [] => ([], none)
  | .abort a :: cs => ([], some (a, cs))
  | op :: cs => (op :: (splitAbort cs).1, (splitAbort cs).2)

/-- All possible client transcripts of a call whose client script may abort anywhere. -/
def asyncRuns {σ : Type} (I : Impl σ) (fin : Fin) (opErr : Abort → Fin) (reuse : Bool) (s0 : σ) (ss : List SOp)
    (cs : List COp) : List (List Ev) :=
  match splitAbort cs with
  | (pre, none) => [(go I fin reuse s0 false (.running ss) pre).client]
  | (pre, some (a, post)) =>
    match stateAt I fin reuse s0 false (.running ss) pre with
    | none => [(go I fin reuse s0 false (.running ss) pre).client]
    | some (s, cc, srv) =>
      ((advanced I fin cc s srv).flatMap fun p =>
          after I fin (opErr a) a reuse cc false (I.abort p.1 a) p.2 post).map fun evs =>
        (go I fin reuse s0 false (.running ss) pre).client ++ .did a :: evs

def Wrap.asyncRuns (c : Cfg) (shape : Shape) (ss : List SOp) (fin : Fin) (cs : List COp) (reuse : Bool) :
    List (List Ev) :=
  ScVerif.C13.asyncRuns (Wrap.impl c) fin (Wrap.opErr c) reuse {} ss (clientOps shape cs)

end ScVerif.C13
