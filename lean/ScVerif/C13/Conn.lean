import ScVerif.C13.Wrap
import ScVerif.C13.GrpcRef
/-
C13 — model of pkg/wrap/wrap.go: `ServerToClient` (method tables), `Invoke`, `NewStream` (lookup,
unary-as-stream adapter, shape check), `startStream` (metadata cloning), and the two `run` functions
compared by the property: `Wrap.run` (the wrapper) and `GrpcRef.run` (a real connection).
-/
namespace ScVerif.C13

structure StreamDesc where
  name : String
  serverStreams : Bool
  clientStreams : Bool
  deriving DecidableEq, Repr

structure ServiceDesc where
  serviceName : String
  methods : List String
  streams : List StreamDesc
  deriving DecidableEq, Repr

/-- internal/testproto/test_grpc.pb.go `TestApi_ServiceDesc`. -/
def testApi : ServiceDesc :=
  { serviceName := "sc.go.test.TestApi"
    methods := ["Unary"]
    streams := [⟨"ServerStream", true, false⟩, ⟨"ClientStream", false, true⟩, ⟨"BidiStream", true, true⟩] }

def fullName (svc m : String) : String := "/" ++ svc ++ "/" ++ m

inductive Open where
  | ok
  | unimplemented   -- ErrMethodNotFound
  | internal        -- ErrMethodShape
  | ctxEnded (a : Abort)  -- the caller's context had already ended: Canceled / DeadlineExceeded
  deriving DecidableEq, Repr

namespace Conn

/-- `w.methods[method]` -/
def findMethod (d : ServiceDesc) (method : String) : Option String :=
  d.methods.find? (fun m => fullName d.serviceName m == method)

/-- `w.streams[method]` -/
def findStream (d : ServiceDesc) (method : String) : Option StreamDesc :=
  d.streams.find? (fun s => fullName d.serviceName s.name == method)

/-- `adaptUnaryToStream`: a unary method as a stream description with both flags false. -/
def adaptUnaryToStream (m : String) : StreamDesc := ⟨m, false, false⟩

/-- `wrapper.NewStream` up to the point where the handler goroutine is started. `ctx` = why the
caller's context has already ended, if it has (checked first, as gRPC does). -/
def newStream (d : ServiceDesc) (ctx : Option Abort) (method : String) (clientStreams serverStreams : Bool) : Open :=
  match ctx with
  | some a => .ctxEnded a
  | none =>
  let matched : Option StreamDesc :=
    match findStream d method with
    | some s => some s
    | none => (findMethod d method).map adaptUnaryToStream
  match matched with
  | none => .unimplemented
  | some s =>
    if s.serverStreams != serverStreams || s.clientStreams != clientStreams then .internal else .ok

/-- `wrapper.Invoke` up to the point where the handler goroutine is started. -/
def invoke (d : ServiceDesc) (ctx : Option Abort) (method : String) : Open :=
  match ctx with
  | some a => .ctxEnded a
  | none =>
    match findMethod d method with
    | some _ => .ok
    | none => .unimplemented

end Conn

/-- The call shapes of the property; `unaryS` is the unary method driven through `NewStream`. -/
inductive Shape where
  | unary | unaryS | sstream | cstream | bidi
  deriving DecidableEq, Repr

def Shape.method : Shape → String
  | .unary | .unaryS => "Unary"
  | .sstream => "ServerStream"
  | .cstream => "ClientStream"
  | .bidi => "BidiStream"

def Shape.clientStreams : Shape → Bool
  | .cstream | .bidi => true
  | _ => false

def Shape.serverStreams : Shape → Bool
  | .sstream | .bidi => true
  | _ => false

/-- The request message of a unary call: the first `send` of the client script. -/
def firstSend : List COp → Nat
  | [] => 0
  | .send m :: _ => m
  | _ :: cs => firstSend cs

/-- What `Invoke` does with the stream: SendMsg(args), CloseSend, RecvMsg(reply), then the
grpc.Header and grpc.Trailer call options (`collectMetadata`). -/
def invokeScript (m : Nat) : List COp := [.send m, .closeSend, .recv, .header, .trailer]

/-- The first cancel / deadline of a client script. -/
def firstAbort : List COp → Option Abort
  | [] => none
  | .abort a :: _ => some a
  | _ :: cs => firstAbort cs

/-- `Invoke` whose caller's context ends while it is blocked in `RecvMsg(reply)` (the handler has taken the
request and is parked): RecvMsg returns the context's error, then `collectMetadata` fills the grpc.Header
call option from `Header()` — after the abort.  (The grpc.Trailer option after an abort is the recorded
finding `trailer-after-abort`; these calls are made without it.) -/
def invokeAbortScript (m : Nat) (a : Abort) : List COp := [.send m, .closeSend, .abort a, .recv, .header]

/-- What `Invoke` does with the stream, given the request and whether the caller's context ends. -/
def invokeOps (cs : List COp) : List COp :=
  match firstAbort cs with
  | none => invokeScript (firstSend cs)
  | some a => invokeAbortScript (firstSend cs) a

/-- The client ops actually executed for a call shape. -/
def clientOps (shape : Shape) (cs : List COp) : List COp :=
  match shape with
  | .unary => invokeOps cs
  | _ => cs

/-- `cloneMD`: a fresh map with fresh value slices, same content. -/
def cloneMD (md : MD) : MD := md.map (fun kv => (kv.1, kv.2))

def openErrT (o : Open) : Transcript :=
  match o with
  | .unimplemented => ⟨[.fin 12 "method not found"], []⟩
  | .internal => ⟨[.fin 13 "method stream shape mismatch"], []⟩
  | .ctxEnded a => ⟨[.aborted a], []⟩
  | .ok => endT

/-! ### The single response of a method without server streaming

The client is given the response only together with an OK status: if the handler goes on to return an
error after it sent its response, the `RecvMsg` that would have delivered the response returns that
error instead.  Both runs are the streaming run `go` (the response meets the client's `RecvMsg` at the
rendezvous) with the client transcript rewritten accordingly (`hold`): under the rendezvous discipline
the handler runs on to its return before the client's next op anyway, so only the RESULT of that
`RecvMsg` differs, not its position. -/

def holdEv (st : Ev) : Ev → Ev
  | .msg _ => st
  | e => e

/-- `st` = the terminal event the handler's return value gives. -/
def hold (single : Bool) (fin : Fin) (st : Ev) (t : Transcript) : Transcript :=
  if single && fin != .ok then { t with client := t.client.map (holdEv st) } else t

namespace Wrap

/-- Which shapes hold the response back until the status is known.
* unary (Invoke, and through NewStream by `adaptUnaryToStream`): the generated handler returns
  `(nil, err)`, so no response is sent at all when the method returns an error;
* client streaming: `clientStream.RecvMsg` with `singleResponse` set by `NewStream` (`awaitStatus`). -/
def holds (c : Cfg) : Shape → Bool
  | .unary | .unaryS => true
  | .cstream => c.holdResponse
  | .sstream | .bidi => false

/-- Opening a call of the given shape on the wrapped TestApi server (live context: the scripts place
cancel / deadline themselves). -/
def «open» (shape : Shape) : Open :=
  match shape with
  | .unary => Conn.invoke testApi none (fullName testApi.serviceName shape.method)
  | _ => Conn.newStream testApi none (fullName testApi.serviceName shape.method) shape.clientStreams shape.serverStreams

/-- One scripted call through `wrap.ServerToClient`: lookup and shape check, `startStream` (the
handler sees a clone of the outgoing metadata), then the joint run over a fresh ClientServerStream. -/
def runCfg (c : Cfg) (shape : Shape) (out : MD) (ss : List SOp) (fin : Fin) (cs : List COp)
    (reuse : Bool := false) : Transcript :=
  match «open» shape with
  | .ok => sev (.incoming (cloneMD out))
      (hold (holds c shape) fin (canon fin) (go (impl c) fin reuse {} false (.running ss) (clientOps shape cs)))
  | o => openErrT o

def run (shape : Shape) (out : MD) (ss : List SOp) (fin : Fin) (cs : List COp) (reuse : Bool := false) :
    Transcript := runCfg Cfg.current shape out ss fin cs reuse

end Wrap

namespace GrpcRef

/-- grpc-go's client: "special handling for non-server-stream rpcs" — after the response `RecvMsg` reads
on to the status and returns it when it is not OK. -/
def holds : Shape → Bool
  | .sstream | .bidi => false
  | _ => true

/-- The status as the client reads it from the trailers frame. -/
def statusEv (fin : Fin) : Ev := .fin (wireStatus fin).1 (wireStatus fin).2

/-- The same scripted call over a real gRPC connection to the same server. -/
def run (shape : Shape) (out : MD) (ss : List SOp) (fin : Fin) (cs : List COp) (reuse : Bool := false) :
    Transcript :=
  sev (.incoming out)
    (hold (holds shape) fin (statusEv fin) (go impl fin reuse {} false (.running ss) (clientOps shape cs)))

end GrpcRef
end ScVerif.C13
