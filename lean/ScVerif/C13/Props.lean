import ScVerif.C13.Order
/-!
# C13 — the in-process wrapper is indistinguishable from a real gRPC connection

Property theorems only. `Wrap.run` is the model of `wrap.ServerToClient` (pkg/wrap/{wrap,stream}.go
as it is in /repo now), `GrpcRef.run` the reference semantics of a real gRPC connection; both take
the call shape, the client's outgoing metadata, the handler script with its return value, and the
client script, and give the client transcript plus the handler's view.
-/
namespace ScVerif.C13

/-- **Transcript equality.** For every call shape, every outgoing metadata, every handler script and
return value and every client script, the wrapper yields exactly the transcript of a real gRPC
connection: send results, messages in order, terminal code and message (plain errors as Unknown,
cancellation / deadline as such), header and trailer metadata, and the handler's own view (request
metadata, received messages, results of SetHeader / SendHeader).

The hypothesis of the property ("every send meets a ready receiver") is built into both runs: they
are joint runs under the rendezvous discipline (`go`), which stop with `stuck` where a script leaves
it; the equality therefore needs no side condition (it covers the partial transcript up to such a
point as well). `C13_wf_completes` says which scripts run to completion. -/
theorem C13_transcript_eq (shape : Shape) (out : MD) (ss : List SOp) (fin : Fin) (cs : List COp) :
    Wrap.run shape out ss fin cs = GrpcRef.run shape out ss fin cs := by
  have hopen : Wrap.open shape = .ok := by cases shape <;> decide
  have hclone : cloneMD out = out := by
    unfold cloneMD
    induction out with
    | nil => rfl
    | cons kv t ih => simp [List.map]
  unfold Wrap.run Wrap.runCfg GrpcRef.run
  simp only [hopen, hclone]
  exact congrArg _ (go_eq fin {} false (.running ss) (clientOps shape cs) {} rel_init)

/-- The statement of the design document, with the hypothesis spelled out. -/
theorem C13_transcript_eq_wf (shape : Shape) (out : MD) (ss : List SOp) (fin : Fin) (cs : List COp)
    (_h : WFScripts shape ss fin cs = true) :
    Wrap.run shape out ss fin cs = GrpcRef.run shape out ss fin cs :=
  C13_transcript_eq shape out ss fin cs

/-- The hypothesis is inhabited: a bidirectional call with headers, a trailer and an error status. -/
example : WFScripts .bidi [.setHeader [("a", "1")], .recv, .send 1, .setTrailer [("b", "2")]] (.status 5 "e0")
    [.send 1, .header, .recv, .recv, .header, .trailer] = true := by
  simp [WFScripts, conforms, clientOps, sync]

/-- **Every call that satisfies the hypothesis completes, and no goroutine is left.** If the scripts fit
the method's shape and satisfy the synchronisation skeleton `sync` (written without reference to
either transport), the wrapped call never leaves the rendezvous discipline (`stuck` does not occur:
no client op blocks forever, `Header()` included) and the handler goroutine — the only goroutine the
wrapper spawns — has returned or was released by the cancellation when the client script ends
(`left` does not occur). By `C13_transcript_eq` the same holds for the reference. -/
theorem C13_no_goroutine_left (shape : Shape) (out : MD) (ss : List SOp) (fin : Fin) (cs : List COp)
    (h : WFScripts shape ss fin cs = true) :
    Ev.stuck ∉ (Wrap.run shape out ss fin cs).client ∧ SEv.left ∉ (Wrap.run shape out ss fin cs).server := by
  have hopen : Wrap.open shape = .ok := by cases shape <;> decide
  have hs : sync false false false (.running ss) (clientOps shape cs) = true := by
    simp only [WFScripts, Bool.and_eq_true] at h
    exact h.2
  have hc := go_complete Cfg.current fin false false false (.running ss) (clientOps shape cs) {} hs
    (by intro hh; cases hh)
  have hc' : (Wrap.run shape out ss fin cs).complete = true := by
    unfold Wrap.run Wrap.runCfg
    simp only [hopen]
    rw [complete_sev _ _ (by simp)]
    exact hc
  simpa [Transcript.complete] using hc'

/-- Outside the hypothesis a goroutine really can be left: a handler whose message is never received
stays blocked in SendMsg (the model says so; gRPC would buffer the message). -/
example : SEv.left ∈ (Wrap.run .sstream [] [.recv, .send 1] .ok [.send 0, .closeSend]).server := by
  have hopen : Wrap.open .sstream = .ok := by decide
  simp only [Wrap.run, Wrap.runCfg, hopen, clientOps]
  simp [go, sev, cev, leftT]

/-- **Messages in order.** In every run (complete or not) the messages the client received are a prefix
of the messages the handler script sends, and the messages the handler received are a prefix of the
messages the client script sends: nothing is lost in the middle, duplicated or reordered. -/
theorem C13_messages_in_order (shape : Shape) (out : MD) (ss : List SOp) (fin : Fin) (cs : List COp) :
    (Wrap.run shape out ss fin cs).clientMsgs <+: ss.filterMap SOp.send? ∧
    (Wrap.run shape out ss fin cs).serverMsgs <+: (clientOps shape cs).filterMap COp.send? := by
  have hopen : Wrap.open shape = .ok := by cases shape <;> decide
  have h := go_msgs Cfg.current fin {} false (.running ss) (clientOps shape cs)
  unfold Wrap.run Wrap.runCfg
  simp only [hopen]
  simpa [Transcript.clientMsgs, Transcript.serverMsgs, sev, Srv.ops, List.filterMap_cons, SEv.got?] using h

/-- **Unknown method.** A method name that is neither a unary method nor a stream of the service gives
Unimplemented, from `NewStream` and from `Invoke`, for any service description. -/
theorem C13_unknown_method (d : ServiceDesc) (method : String) (cs ss : Bool)
    (hm : Conn.findMethod d method = none) (hs : Conn.findStream d method = none) :
    Conn.newStream d none method cs ss = .unimplemented ∧ Conn.invoke d none method = .unimplemented := by
  simp [Conn.newStream, Conn.invoke, hm, hs]

/-- **Shape mismatch.** A known stream opened with a stream description whose flags differ gives
Internal; a unary method opened through `NewStream` with any streaming flag set gives Internal. -/
theorem C13_shape_mismatch (d : ServiceDesc) (method : String) (cs ss : Bool) :
    (∀ s, Conn.findStream d method = some s → (s.serverStreams ≠ ss ∨ s.clientStreams ≠ cs) →
      Conn.newStream d none method cs ss = .internal) ∧
    (∀ m, Conn.findStream d method = none → Conn.findMethod d method = some m → (ss = true ∨ cs = true) →
      Conn.newStream d none method cs ss = .internal) := by
  constructor
  · intro s hs hne
    simp only [Conn.newStream, hs]
    rcases hne with h | h
    · cases hx : s.serverStreams <;> cases ss <;> simp_all
    · cases hx : s.clientStreams <;> cases cs <;> cases hy : s.serverStreams <;> cases ss <;> simp_all
  · intro m hs hm hne
    simp only [Conn.newStream, hs, hm, Option.map, Conn.adaptUnaryToStream]
    rcases hne with h | h <;> subst h <;> simp

/-- **Matching shape opens** (the converse: no false Internal). -/
theorem C13_matching_opens (d : ServiceDesc) (method : String) (s : StreamDesc)
    (hs : Conn.findStream d method = some s) :
    Conn.newStream d none method s.clientStreams s.serverStreams = .ok := by
  simp [Conn.newStream, hs]

/-- **Ended context.** A call opened on a context that was already cancelled or had already expired
fails as such (Canceled / DeadlineExceeded, as over gRPC), whatever the method, and no handler runs. -/
theorem C13_ended_context (d : ServiceDesc) (a : Abort) (method : String) (cs ss : Bool) :
    Conn.newStream d (some a) method cs ss = .ctxEnded a ∧ Conn.invoke d (some a) method = .ctxEnded a := by
  simp [Conn.newStream, Conn.invoke]

/-- The four methods of TestApi (and the unary method through NewStream) open under their own shape. -/
theorem C13_testapi_opens (shape : Shape) : Wrap.open shape = .ok := by
  cases shape <;> decide

/-- **The two repaired defects, stated on the legacy model** (the code before fix fa93faa / f637124):
header metadata staged with SetHeader is lost when the handler returns before any message … -/
theorem C13_legacy_staged_header_lost :
    ∃ shape out ss fin cs, WFScripts shape ss fin cs = true ∧
      Wrap.runCfg Cfg.legacy shape out ss fin cs ≠ GrpcRef.run shape out ss fin cs := by
  refine ⟨.unary, [], [.recv, .setHeader [("a", "1")]], .status 5 "e0", invokeScript 1, ?_, ?_⟩
  · simp [WFScripts, conforms, clientOps, sync, invokeScript, firstSend, singleRequest, singleResponse,
      sendOnlyLast, SOp.isRecv, SOp.isSend]
  · simp only [Wrap.runCfg, GrpcRef.run, C13_testapi_opens, clientOps, invokeScript, firstSend, cloneMD,
      List.map]
    simp only [go, Wrap.impl, GrpcRef.impl, Wrap.setHeader, Cfg.legacy, sevIf, Wrap.close, Wrap.terminal,
      Wrap.header, Wrap.trailer, Wrap.canon, cev, sev, endT, GrpcRef.setHeader, GrpcRef.headerWritten,
      GrpcRef.writeStatus, GrpcRef.header, GrpcRef.terminal, GrpcRef.trailer, GrpcRef.wireStatus]
    simp

/-- … and SetHeader after the headers were sent is accepted and changes what the client reads. -/
theorem C13_legacy_late_setheader_visible :
    ∃ shape out ss fin cs, WFScripts shape ss fin cs = true ∧
      Wrap.runCfg Cfg.legacy shape out ss fin cs ≠ GrpcRef.run shape out ss fin cs := by
  refine ⟨.bidi, [], [.sendHeader [("a", "1")], .recv, .setHeader [("b", "1")], .send 1], .ok,
    [.header, .send 1, .recv, .header, .recv, .header, .trailer], ?_, ?_⟩
  · simp [WFScripts, conforms, clientOps, sync]
  · simp only [Wrap.runCfg, GrpcRef.run, C13_testapi_opens, clientOps, cloneMD, List.map]
    simp only [go, Wrap.impl, GrpcRef.impl, Wrap.setHeader, Wrap.sendHeader, Wrap.sendHeaderIfNeeded,
      Cfg.legacy, sevIf, Wrap.close, Wrap.terminal, Wrap.header, Wrap.trailer, Wrap.canon, cev, sev, endT,
      GrpcRef.setHeader, GrpcRef.sendHeader, GrpcRef.beforeData, GrpcRef.headerWritten,
      GrpcRef.writeStatus, GrpcRef.header, GrpcRef.terminal, GrpcRef.trailer, GrpcRef.wireStatus]
    simp

end ScVerif.C13
