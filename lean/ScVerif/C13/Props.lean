import ScVerif.C13.HoldLemmas
import ScVerif.C13.AsyncLemmas
/-!
# C13 — the in-process wrapper is indistinguishable from a real gRPC connection

Property theorems only. `Wrap.run` is the model of `wrap.ServerToClient` (pkg/wrap/{wrap,stream}.go
as it is in /repo now), `GrpcRef.run` the reference semantics of a real gRPC connection; both take
the call shape, the client's outgoing metadata, the handler script with its return value, and the
client script, and give the client transcript plus the handler's view.
-/
namespace ScVerif.C13

/-- **Transcript equality.** For every call shape, every outgoing metadata, every handler script and
return value and every client script, the wrapper yields exactly the transcript of a real gRPC
connection: send results, messages in order, terminal code and message (plain errors as Unknown,
cancellation / deadline as such), header and trailer metadata, and the handler's own view (request
metadata, received messages, results of SetHeader / SendHeader).

The hypothesis of the property ("every send meets a ready receiver") is built into both runs: they
are joint runs under the rendezvous discipline (`go`), which stop with `stuck` where a script leaves
it; the equality therefore needs no side condition (it covers the partial transcript up to such a
point as well). `C13_no_goroutine_left` says which scripts run to completion. `reuse` = both sides reuse one message
object for all their sends and overwrite it as soon as SendMsg has returned: unobservable, as over
gRPC, which has serialised the message by then. -/
theorem C13_transcript_eq (shape : Shape) (out : MD) (ss : List SOp) (fin : Fin) (cs : List COp)
    (reuse : Bool) :
    Wrap.run shape out ss fin cs reuse = GrpcRef.run shape out ss fin cs reuse := by
  have hopen : Wrap.open shape = .ok := by cases shape <;> decide
  have hclone : cloneMD out = out := by
    unfold cloneMD
    induction out with
    | nil => rfl
    | cons kv t ih => simp [List.map]
  unfold Wrap.run Wrap.runCfg GrpcRef.run
  simp only [hopen, hclone, holds_current, canon_eq_statusEv]
  exact congrArg _ (congrArg _ (go_eq fin reuse {} false (.running ss) (clientOps shape cs) {} rel_init Wrap.heapInv_init))

/-- The statement of the design document, with the hypothesis spelled out. -/
theorem C13_transcript_eq_wf (shape : Shape) (out : MD) (ss : List SOp) (fin : Fin) (cs : List COp)
    (reuse : Bool) (_h : WFScripts shape ss fin cs = true) :
    Wrap.run shape out ss fin cs reuse = GrpcRef.run shape out ss fin cs reuse :=
  C13_transcript_eq shape out ss fin cs reuse

/-- The hypothesis is inhabited: a bidirectional call with headers, a trailer and an error status. -/
example : WFScripts .bidi [.setHeader [("a", "1")], .recv, .send 1, .setTrailer [("b", "2")]] (.status 5 "e0")
    [.send 1, .header, .recv, .recv, .header, .trailer] = true := by
  simp [WFScripts, conforms, clientOps, sync]

/-- **Every call that satisfies the hypothesis completes, and no goroutine is left.** If the scripts fit
the method's shape and satisfy the synchronisation skeleton `sync` (written without reference to
either transport), the wrapped call never leaves the rendezvous discipline (`stuck` does not occur:
no client op blocks forever, `Header()` included) and the handler goroutine — the only goroutine the
wrapper spawns — has returned or was released by the cancellation when the client script ends
(`left` does not occur). By `C13_transcript_eq` the same holds for the reference. -/
theorem C13_no_goroutine_left (shape : Shape) (out : MD) (ss : List SOp) (fin : Fin) (cs : List COp)
    (reuse : Bool) (h : WFScripts shape ss fin cs = true) :
    Ev.stuck ∉ (Wrap.run shape out ss fin cs reuse).client ∧
    SEv.left ∉ (Wrap.run shape out ss fin cs reuse).server := by
  have hopen : Wrap.open shape = .ok := by cases shape <;> decide
  have hs : sync shape.statusRead false false (.running ss) (clientOps shape cs) = true := by
    simp only [WFScripts, Bool.and_eq_true] at h
    exact h.2
  have hc := go_complete Cfg.current fin reuse shape.statusRead false false (.running ss) (clientOps shape cs) {} hs
    (by intro hh; cases hh)
  have hc' : (Wrap.run shape out ss fin cs reuse).complete = true := by
    unfold Wrap.run Wrap.runCfg
    simp only [hopen]
    rw [complete_sev _ _ (by simp), complete_hold _ _ _ (canon_ne_stuck fin)]
    exact hc
  simpa [Transcript.complete] using hc'

/-- Outside the hypothesis a goroutine really can be left: a handler whose message is never received
stays blocked in SendMsg (the model says so; gRPC would buffer the message). -/
example : SEv.left ∈ (Wrap.run .sstream [] [.recv, .send 1] .ok [.send 0, .closeSend]).server := by
  have hopen : Wrap.open .sstream = .ok := by decide
  simp only [Wrap.run, Wrap.runCfg, hopen, clientOps]
  simp [go, sev, cev, leftT, hold, Wrap.holds]

/-- **Messages in order.** In every run (complete or not) the messages the client received are a prefix
of the messages the handler script sends, and the messages the handler received are a prefix of the
messages the client script sends: nothing is lost in the middle, duplicated or reordered. -/
theorem C13_messages_in_order (shape : Shape) (out : MD) (ss : List SOp) (fin : Fin) (cs : List COp)
    (reuse : Bool) :
    (Wrap.run shape out ss fin cs reuse).clientMsgs <+: ss.filterMap SOp.send? ∧
    (Wrap.run shape out ss fin cs reuse).serverMsgs <+: (clientOps shape cs).filterMap COp.send? := by
  have h := go_msgs fin reuse {} false (.running ss) (clientOps shape cs)
  have heq := go_eq fin reuse {} false (.running ss) (clientOps shape cs) {} rel_init Wrap.heapInv_init
  have hopen : Wrap.open shape = .ok := by cases shape <;> decide
  unfold Wrap.run Wrap.runCfg
  simp only [hopen]
  rw [heq]
  constructor
  · have h1 : (sev (SEv.incoming (cloneMD out)) (hold (Wrap.holds Cfg.current shape) fin (Wrap.canon fin)
        (go GrpcRef.impl fin reuse {} false (.running ss) (clientOps shape cs)))).clientMsgs =
        (hold (Wrap.holds Cfg.current shape) fin (Wrap.canon fin)
          (go GrpcRef.impl fin reuse {} false (.running ss) (clientOps shape cs))).clientMsgs := rfl
    rw [h1]
    exact List.IsPrefix.trans (clientMsgs_hold _ fin _) (by simpa [Transcript.clientMsgs, Srv.ops] using h.1)
  · have h2 : (sev (SEv.incoming (cloneMD out)) (hold (Wrap.holds Cfg.current shape) fin (Wrap.canon fin)
        (go GrpcRef.impl fin reuse {} false (.running ss) (clientOps shape cs)))).serverMsgs =
        (go GrpcRef.impl fin reuse {} false (.running ss) (clientOps shape cs)).serverMsgs := by
      simp [Transcript.serverMsgs, sev, hold_server, List.filterMap_cons, SEv.got?]
    rw [h2]
    simpa [Transcript.serverMsgs, Srv.ops] using h.2

/-! ### Messages are copied across the boundary -/

/-- States of the wrapper's message objects reachable by any sequence of messages in either direction
(with or without object reuse), header / trailer / close / abort calls, and **arbitrary writes by either
side into objects it holds, at any time**. -/
inductive Wrap.Reach : Wrap.State → Prop
  | init : Wrap.Reach {}
  | xfer {w} (d : Dir) (m : Nat) (reuse : Bool) : Wrap.Reach w → Wrap.Reach (Wrap.xfer Cfg.current w d m reuse).1
  | pokeClient {w} (r v : Nat) : Wrap.Reach w → r ∈ w.cOwn → Wrap.Reach (Wrap.poke w r v)
  | pokeServer {w} (r v : Nat) : Wrap.Reach w → r ∈ w.sOwn → Wrap.Reach (Wrap.poke w r v)
  | setHeader {w} (md : MD) : Wrap.Reach w → Wrap.Reach (Wrap.setHeader Cfg.current w md).1
  | sendHeader {w} (md : MD) : Wrap.Reach w → Wrap.Reach (Wrap.sendHeader w md).1
  | setTrailer {w} (md : MD) : Wrap.Reach w → Wrap.Reach (Wrap.setTrailer w md)

theorem Wrap.reach_inv {w : Wrap.State} (h : Wrap.Reach w) : Wrap.HeapInv w := by
  induction h with
  | init => exact Wrap.heapInv_init
  | xfer d m reuse _ ih => exact Wrap.xfer_heapInv ih Cfg.current rfl d m reuse
  | pokeClient r v _ _ ih => exact Wrap.heapInv_poke ih r v
  | pokeServer r v _ _ ih => exact Wrap.heapInv_poke ih r v
  | setHeader md _ ih => exact Wrap.heapInv_setHeader ih _ md
  | sendHeader md _ ih => exact Wrap.heapInv_sendHeader ih md
  | setTrailer md _ ih => exact Wrap.heapInv_setTrailer ih md

/-- **Copy across the boundary.** In every reachable state no message object held by the client code is
held by the handler, and a write by either side into an object it holds leaves every object the other
side holds unchanged: neither side can alter the other's copy, whenever it writes. -/
theorem C13_copy (w : Wrap.State) (h : Wrap.Reach w) :
    (∀ r, r ∈ w.cOwn → r ∉ w.sOwn) ∧
    (∀ r v s, r ∈ w.cOwn → s ∈ w.sOwn → (Wrap.poke w r v).heap.get s = w.heap.get s) ∧
    (∀ r v s, r ∈ w.sOwn → s ∈ w.cOwn → (Wrap.poke w r v).heap.get s = w.heap.get s) := by
  have hi := Wrap.reach_inv h
  exact ⟨hi.disj, fun r v s hr hs => Wrap.poke_frame hi r v s (Or.inl ⟨hr, hs⟩),
    fun r v s hr hs => Wrap.poke_frame hi r v s (Or.inr ⟨hr, hs⟩)⟩

/-- **What travels is a snapshot.** `SendMsg` hands over an object that neither side holds and that is not
the sender's, holding the sender's payload; so the receiver reads exactly the payload the sender wrote
before `SendMsg`, whatever the sender writes into its object once `SendMsg` has returned (`reuse`). -/
theorem C13_copy_payload (w : Wrap.State) (h : Wrap.Reach w) (d : Dir) (m : Nat) (reuse : Bool) :
    (Wrap.xfer Cfg.current w d m reuse).2 = m :=
  Wrap.xfer_payload (Wrap.reach_inv h) Cfg.current rfl d m reuse

/-- The defect repaired by be22473, on the legacy model: the sender's own object travelled, and a sender
overwriting it right after `SendMsg` changed what the receiver read (99 instead of 4). -/
theorem C13_legacy_sender_alters_received :
    (Wrap.xfer Cfg.legacy {} .s2c 4 true).2 = Wrap.poison ∧ (Wrap.xfer Cfg.legacy {} .s2c 4 true).2 ≠ 4 := by
  decide

/-! ### Cancellation and deadline at arbitrary positions -/

/-- **Outcomes after the client's own abort, at any position.** Let the client script cancel (or let its
deadline pass) anywhere: before, between or after any of its ops, with a message pending, with the
handler between a send and its return, or already returned. `Wrap.asyncRuns` lists every client
transcript the wrapper can then produce (how far the handler had got on its own when the abort struck
(`advance`), and how far it has unwound when the client looks (`unwind`), are not determined). In each of them the part up to the abort is the rendezvous run, and
every later op yields only: the next message, the cancellation class (`aborted`, or the context's
status coming back from the handler), the status the handler script returns, header / trailer
metadata. -/
theorem C13_async_outcomes (shape : Shape) (ss : List SOp) (fin : Fin) (cs : List COp) (reuse : Bool)
    (pre post : List COp) (a : Abort) (h : splitAbort (clientOps shape cs) = (pre, some (a, post))) :
    ∀ t ∈ Wrap.asyncRuns Cfg.current shape ss fin cs reuse,
      t = (go (Wrap.impl Cfg.current) fin reuse {} false (.running ss) pre).client ∨
      ∃ evs, t = (go (Wrap.impl Cfg.current) fin reuse {} false (.running ss) pre).client ++ .did a :: evs ∧
        ∀ e ∈ evs, AllowedEv fin (cancelFin a) a e := by
  intro t ht
  unfold Wrap.asyncRuns asyncRuns at ht
  rw [h] at ht
  simp only at ht
  cases hst : stateAt (Wrap.impl Cfg.current) fin reuse {} false (.running ss) pre with
  | none => rw [hst] at ht; simp at ht; exact Or.inl ht
  | some r =>
    obtain ⟨s, cc, srv⟩ := r
    rw [hst] at ht
    simp only [List.mem_map, List.mem_flatMap] at ht
    obtain ⟨evs, ⟨p, hp, hevs⟩, rfl⟩ := ht
    refine Or.inr ⟨evs, rfl, ?_⟩
    have hinv := stateAt_inv Cfg.current fin (cancelFin a) reuse {} false (.running ss) pre
      (by show ({} : Wrap.State).closed = none; rfl) _ hst
    have hop : Wrap.opErr Cfg.current a = cancelFin a := by simp [Wrap.opErr, Cfg.current]
    rw [hop] at hevs
    have hadv := advanced_inv Cfg.current fin (cancelFin a) cc s srv hinv p hp
    obtain ⟨ps, psrv⟩ := p
    have hinv' : AInv fin (cancelFin a) ((Wrap.impl Cfg.current).abort ps a) psrv := by
      cases psrv <;> exact hadv
    exact after_allowed Cfg.current fin (cancelFin a) a reuse cc post false _ psrv hinv' evs hevs

/-- **Never a clean end after one's own cancel** (unless the handler itself returned OK): if the handler
script returns an error, no op after the client's abort reports io.EOF / OK. -/
theorem C13_async_no_clean_end (shape : Shape) (ss : List SOp) (fin : Fin) (cs : List COp) (reuse : Bool)
    (pre post : List COp) (a : Abort) (h : splitAbort (clientOps shape cs) = (pre, some (a, post)))
    (hfin : Wrap.canon fin ≠ .fin 0 "") :
    ∀ t ∈ Wrap.asyncRuns Cfg.current shape ss fin cs reuse, ∀ evs,
      t = (go (Wrap.impl Cfg.current) fin reuse {} false (.running ss) pre).client ++ .did a :: evs →
      Ev.fin 0 "" ∉ evs := by
  intro t ht evs hte hmem
  rcases C13_async_outcomes shape ss fin cs reuse pre post a h t ht with h1 | ⟨evs', h2, hall⟩
  · rw [h1] at hte
    have := congrArg List.length hte
    simp at this
  · rw [hte] at h2
    have : evs = evs' := by simpa using List.append_cancel_left h2
    subst this
    rcases hall _ hmem with h | ⟨m, h⟩ | h | h | ⟨m, h⟩ | ⟨m, h⟩ | h
    · cases h
    · cases h
    · exact hfin h.symm
    · cases a <;> simp [cancelFin, Wrap.canon] at h
    · cases h
    · cases h
    · cases h

/-- **After the abort the handler always returns** (no goroutine left at any abort position): every way
the handler can unwind ends with the handler returned. -/
theorem C13_async_handler_returns (c : Cfg) (fin opErr : Fin) (cc : Bool) (ops : List SOp) (w : Wrap.State) :
    ((unwind (Wrap.impl c) fin opErr cc w ops).getLast?).map (·.2) = some .done :=
  unwind_last_done (Wrap.impl c) fin opErr cc ops w

/-- The defect repaired by 3d4f9fa, on the legacy model: the handler's RecvMsg returned io.EOF after the
client's cancel, a handler returning that error closed the stream with it, and the client's RecvMsg
after its own cancel could report a clean end although the handler script returns FailedPrecondition. -/
theorem C13_legacy_cancel_reads_clean_end :
    [Ev.sent, .did .cancel, .fin 0 ""] ∈
      Wrap.asyncRuns Cfg.legacy .bidi [.recv, .recv] (.status 9 "e0") [.send 1, .abort .cancel, .recv] false := by
  simp [Wrap.asyncRuns, asyncRuns, splitAbort, clientOps, stateAt, go, after, futures, unwind, observe, advanced, advance,
    Wrap.impl, Wrap.opErr, Cfg.legacy, Wrap.terminal, Wrap.close, Wrap.abort, Wrap.canon, cev, sev, leftT,
    Wrap.xfer_closed, Wrap.xfer_ctxErr]

/-- **What `Header()` reads after the client's own abort is fixed at the abort.** Let the caller's context
have ended (cancel or deadline) with the stream in ANY state `w` — headers sent, only staged, or none — and
let the handler unwind in any way from any remaining script `ops` (further SetHeader / SendHeader /
SetTrailer calls, a SendMsg that flushes the latch, an io.EOF that lets it run on, its return and the flush
in `Close`): in every state it passes through, `Header()` gives exactly what it gave at the moment of the
abort — the header that had been SENT by then, or nothing. Metadata only staged at the abort is never
shown, as over gRPC, where the client has reset the stream (after 1e9d1bd). -/
theorem C13_header_after_abort_frozen (fin opErr : Fin) (cc : Bool) (ops : List SOp) (w : Wrap.State)
    (a : Abort) :
    ∀ f ∈ unwind (Wrap.impl Cfg.current) fin opErr cc (Wrap.abort w a) ops,
      Wrap.header f.1 = Wrap.header (Wrap.abort w a) ∧
      Wrap.header (Wrap.abort w a) = some (if w.headerC then w.header else []) := by
  intro f hf
  have he : (Wrap.abort w a).ctxErr.isSome = true := rfl
  refine ⟨(unwind_frozen fin opErr cc ops _ he f hf).header he, ?_⟩
  unfold Wrap.header Wrap.abort
  by_cases hc : w.headerC <;> simp [hc]

/-- Not vacuous, and the scripts of the hypothesis include the read: a handler stages a header and waits
for a request, the client cancels and asks for the header (before and after its terminal RecvMsg): the
call completes on both transports with an empty header. -/
example : WFScripts .bidi [.setHeader [("a", "1")], .recv] .ok [.abort .cancel, .header, .recv, .header] = true ∧
    (Wrap.run .bidi [] [.setHeader [("a", "1")], .recv] .ok [.abort .cancel, .header, .recv, .header]).client =
      [.did .cancel, .hdr [], .aborted .cancel, .hdr []] := by
  constructor
  · simp [WFScripts, conforms, clientOps, sync]
  · have hopen : Wrap.open .bidi = .ok := by decide
    simp [Wrap.run, Wrap.runCfg, hopen, clientOps, go, Wrap.impl, Wrap.setHeader, Cfg.current, sevIf,
      Wrap.abort, Wrap.header, Wrap.terminal, cev, sev, endT, hold, Wrap.holds]

/-- The defect repaired by 1e9d1bd, on the model of the code before it: the handler returns from the
client's cancel, `Close` flushes the header latch, and the client's `Header()` after its own cancel shows
metadata that was only staged when it cancelled (gRPC: none). -/
theorem C13_legacy_staged_header_visible_after_abort :
    ∃ f ∈ unwind (Wrap.impl { Cfg.current with sendFailsAfterEnd := false }) .ok (cancelFin .cancel) false
        (Wrap.abort { header := [("a", "1")] } .cancel) [.recv],
      Wrap.header f.1 = some [("a", "1")] ∧
      Wrap.header (Wrap.abort { header := [("a", "1")] } .cancel) = some [] := by
  refine ⟨(Wrap.close { Cfg.current with sendFailsAfterEnd := false } (Wrap.abort { header := [("a", "1")] } .cancel)
    (cancelFin .cancel), .done), ?_, ?_⟩
  · simp [unwind, Wrap.impl]
  · decide

/-- **Unknown method.** A method name that is neither a unary method nor a stream of the service gives
Unimplemented, from `NewStream` and from `Invoke`, for any service description. -/
theorem C13_unknown_method (d : ServiceDesc) (method : String) (cs ss : Bool)
    (hm : Conn.findMethod d method = none) (hs : Conn.findStream d method = none) :
    Conn.newStream d none method cs ss = .unimplemented ∧ Conn.invoke d none method = .unimplemented := by
  simp [Conn.newStream, Conn.invoke, hm, hs]

/-- **Shape mismatch.** A known stream opened with a stream description whose flags differ gives
Internal; a unary method opened through `NewStream` with any streaming flag set gives Internal. -/
theorem C13_shape_mismatch (d : ServiceDesc) (method : String) (cs ss : Bool) :
    (∀ s, Conn.findStream d method = some s → (s.serverStreams ≠ ss ∨ s.clientStreams ≠ cs) →
      Conn.newStream d none method cs ss = .internal) ∧
    (∀ m, Conn.findStream d method = none → Conn.findMethod d method = some m → (ss = true ∨ cs = true) →
      Conn.newStream d none method cs ss = .internal) := by
  constructor
  · intro s hs hne
    simp only [Conn.newStream, hs]
    rcases hne with h | h
    · cases hx : s.serverStreams <;> cases ss <;> simp_all
    · cases hx : s.clientStreams <;> cases cs <;> cases hy : s.serverStreams <;> cases ss <;> simp_all
  · intro m hs hm hne
    simp only [Conn.newStream, hs, hm, Option.map, Conn.adaptUnaryToStream]
    rcases hne with h | h <;> subst h <;> simp

/-- **Matching shape opens** (the converse: no false Internal). -/
theorem C13_matching_opens (d : ServiceDesc) (method : String) (s : StreamDesc)
    (hs : Conn.findStream d method = some s) :
    Conn.newStream d none method s.clientStreams s.serverStreams = .ok := by
  simp [Conn.newStream, hs]

/-- **Ended context.** A call opened on a context that was already cancelled or had already expired
fails as such (Canceled / DeadlineExceeded, as over gRPC), whatever the method, and no handler runs. -/
theorem C13_ended_context (d : ServiceDesc) (a : Abort) (method : String) (cs ss : Bool) :
    Conn.newStream d (some a) method cs ss = .ctxEnded a ∧ Conn.invoke d (some a) method = .ctxEnded a := by
  simp [Conn.newStream, Conn.invoke]

/-- The four methods of TestApi (and the unary method through NewStream) open under their own shape. -/
theorem C13_testapi_opens (shape : Shape) : Wrap.open shape = .ok := by
  cases shape <;> decide

/-- **The two repaired defects, stated on the legacy model** (the code before fix fa93faa / f637124):
header metadata staged with SetHeader is lost when the handler returns before any message … -/
theorem C13_legacy_staged_header_lost :
    ∃ shape out ss fin cs, WFScripts shape ss fin cs = true ∧
      Wrap.runCfg Cfg.legacy shape out ss fin cs ≠ GrpcRef.run shape out ss fin cs := by
  refine ⟨.unary, [], [.recv, .setHeader [("a", "1")]], .status 5 "e0", invokeScript 1, ?_, ?_⟩
  · simp [WFScripts, conforms, clientOps, sync, invokeOps, firstAbort, invokeScript, firstSend, singleRequest, singleResponse,
      sendOnlyLast, SOp.isRecv, SOp.isSend]
  · simp only [Wrap.runCfg, GrpcRef.run, C13_testapi_opens, clientOps, invokeOps, firstAbort, invokeScript, firstSend, cloneMD,
      List.map]
    simp only [go, Wrap.impl, GrpcRef.impl, Wrap.setHeader, Cfg.legacy, sevIf, Wrap.close, Wrap.terminal,
      Wrap.header, Wrap.trailer, Wrap.canon, cev, sev, endT, GrpcRef.setHeader, GrpcRef.headerWritten,
      GrpcRef.writeStatus, GrpcRef.header, GrpcRef.terminal, GrpcRef.trailer, GrpcRef.wireStatus,
      Wrap.xfer_header, Wrap.xfer_headerC, Wrap.xfer_trailer, Wrap.xfer_closed, Wrap.xfer_ctxErr]
    simp [hold, Wrap.holds, GrpcRef.holds, GrpcRef.statusEv, holdEv, GrpcRef.wireStatus]

/-- … and SetHeader after the headers were sent is accepted and changes what the client reads. -/
theorem C13_legacy_late_setheader_visible :
    ∃ shape out ss fin cs, WFScripts shape ss fin cs = true ∧
      Wrap.runCfg Cfg.legacy shape out ss fin cs ≠ GrpcRef.run shape out ss fin cs := by
  refine ⟨.bidi, [], [.sendHeader [("a", "1")], .setHeader [("b", "1")]], .ok,
    [.header, .recv, .trailer], ?_, ?_⟩
  · simp [WFScripts, conforms, clientOps, sync]
  · simp only [Wrap.runCfg, GrpcRef.run, C13_testapi_opens, clientOps, cloneMD, List.map]
    simp only [go, Wrap.impl, GrpcRef.impl, Wrap.setHeader, Wrap.sendHeader, Wrap.sendHeaderOld, Wrap.sendHeaderIfNeeded, Wrap.sendHeaderIfNeededC, Wrap.sendHeaderC,
      Cfg.legacy, sevIf, Wrap.close, Wrap.terminal, Wrap.header, Wrap.trailer, Wrap.canon, cev, sev, endT,
      GrpcRef.setHeader, GrpcRef.sendHeader, GrpcRef.beforeData, GrpcRef.headerWritten,
      GrpcRef.writeStatus, GrpcRef.header, GrpcRef.terminal, GrpcRef.trailer, GrpcRef.wireStatus,
      Wrap.xfer_header, Wrap.xfer_headerC, Wrap.xfer_trailer, Wrap.xfer_closed, Wrap.xfer_ctxErr]
    simp [hold, Wrap.holds, GrpcRef.holds, GrpcRef.statusEv, holdEv, GrpcRef.wireStatus]

end ScVerif.C13
