import ScVerif.C13.Conn
/-
C13 — what of the caller's `context.Context` crosses the boundary (`wrapper.startStream`,
pkg/wrap/wrap.go) and what a real connection carries.

A context handed to `Invoke` / `NewStream` is very often a server handler's own context (routers,
proxies, a model calling into another wrapped model): it then carries the INCOMING metadata of the
request being served, possibly OUTGOING metadata the caller attached for this call, a deadline, and
request-scoped values (peer, auth info).  A connection transmits the outgoing metadata (it becomes the
server's incoming metadata) and the deadline; nothing else.

A handler is modelled as an arbitrary FUNCTION of what it can see of its context (`Handler`): its
script and return value may depend on the request metadata, on the presence of a deadline and on the
outgoing metadata of its own context (which decides what a downstream call made with that context
transmits).
-/
namespace ScVerif.C13

/-- What the caller's context carries, as far as the wrapper or gRPC look at it. -/
structure CallerCtx where
  /-- `metadata.FromIncomingContext`: the caller is itself serving a request -/
  incoming : Option MD := none
  /-- `metadata.FromOutgoingContext`: attached with NewOutgoingContext / AppendToOutgoingContext;
  `none` = no outgoing metadata at all (the `ok = false` result) -/
  outgoing : Option MD := none
  /-- the context has a deadline -/
  deadline : Bool := false
  /-- request-scoped values of the caller's own request (peer.FromContext, application values) -/
  values : Bool := false
  deriving DecidableEq, Repr

/-- What a handler can see of its own context, as far as a connection determines it. -/
structure SrvCtx where
  /-- `metadata.FromIncomingContext(ctx)`: the request metadata -/
  incoming : MD
  /-- the content of `metadata.FromOutgoingContext(ctx)`: what a downstream call made with the
  handler's context transmits (a gRPC server's context has none) -/
  outgoing : MD
  /-- `ctx.Deadline()` reports a deadline -/
  deadline : Bool
  deriving DecidableEq, Repr

/-- A handler: its script and return value as a function of what it sees of its context. -/
abbrev Handler := SrvCtx → List SOp × Fin

/-- The handler's log starts with what it saw of its context. -/
def ctxView (sc : SrvCtx) (t : Transcript) : Transcript :=
  sev (.incoming sc.incoming)
    (sevIf sc.deadline .deadline
      (sevIf (!sc.outgoing.isEmpty) (.outgoing sc.outgoing) t))

/-- Does the client script let a deadline pass?  (Then the caller's context has one.) -/
def hasDeadlineOp : List COp → Bool
  | [] => false
  | .abort .deadline :: _ => true
  | _ :: cs => hasDeadlineOp cs

namespace Wrap

/-- `wrapper.startStream`, the context part:
```
md, _ := metadata.FromOutgoingContext(ctx)
md = cloneMD(md)
ctx = metadata.NewIncomingContext(ctx, md)      // unconditional: masks the caller's own incoming metadata
(ctx = metadata.NewOutgoingContext(ctx, nil)    // `clearOutgoing`)
ctx = grpc.NewContextWithServerTransportStream(ctx, sts)
```
The context is DERIVED from the caller's: deadline (and cancellation) are inherited; so is the caller's
outgoing metadata unless it is cleared. -/
def startStream (c : Cfg) (ctx : CallerCtx) : SrvCtx :=
  { incoming := cloneMD (ctx.outgoing.getD [])
    outgoing := if c.clearOutgoing then [] else ctx.outgoing.getD []
    deadline := ctx.deadline }

/-- One scripted call through `wrap.ServerToClient` on the caller's context `ctx` with a handler that
looks at its context. -/
def runCtxCfg (c : Cfg) (shape : Shape) (ctx : CallerCtx) (h : Handler) (cs : List COp)
    (reuse : Bool := false) : Transcript :=
  match «open» shape with
  | .ok =>
    ctxView (startStream c ctx)
      (hold (holds c shape) (h (startStream c ctx)).2 (canon (h (startStream c ctx)).2)
        (go (impl c) (h (startStream c ctx)).2 reuse {} false (.running (h (startStream c ctx)).1) (clientOps shape cs)))
  | o => openErrT o

def runCtx (shape : Shape) (ctx : CallerCtx) (h : Handler) (cs : List COp) (reuse : Bool := false) :
    Transcript := runCtxCfg Cfg.current shape ctx h cs reuse

end Wrap

namespace GrpcRef

/-- A real connection: the client's outgoing metadata arrives as the server's incoming metadata, the
deadline travels as `grpc-timeout`; the server's context is the transport's own (no outgoing metadata,
none of the caller's incoming metadata or values). -/
def serverCtx (ctx : CallerCtx) : SrvCtx :=
  { incoming := ctx.outgoing.getD []
    outgoing := []
    deadline := ctx.deadline }

def runCtx (shape : Shape) (ctx : CallerCtx) (h : Handler) (cs : List COp) (reuse : Bool := false) :
    Transcript :=
  ctxView (serverCtx ctx)
    (hold (holds shape) (h (serverCtx ctx)).2 (statusEv (h (serverCtx ctx)).2)
      (go impl (h (serverCtx ctx)).2 reuse {} false (.running (h (serverCtx ctx)).1) (clientOps shape cs)))

end GrpcRef

/-! ### The closed family of context-dependent handlers used by the driver and the harness -/

/-- A handler op of the scripted server: a plain op, or `echo` = `SetHeader(request metadata)`
(the repo's own test server echoes the request metadata into the response header). -/
inductive HOp where
  | op (o : SOp)
  | echoIn
  deriving DecidableEq, Repr

def HOp.resolve (sc : SrvCtx) : HOp → SOp
  | .op o => o
  | .echoIn => .setHeader sc.incoming

/-- The scripted handler. -/
def scripted (hs : List HOp) (fin : Fin) : Handler := fun sc => (hs.map (HOp.resolve sc), fin)

end ScVerif.C13
