import ScVerif.C13.CloseSteps
/-!
# C13 — the internal order of `ClientServerStream.Close` is unobservable

Property theorems only. `Wrap.close` (used by `Wrap.run` and all theorems of Props.lean) is ONE atomic
step; the Go function performs four writes (`closeOrder`: flush the header latch, record `closeErr`,
close `serverSend`, cancel the stream context) between which a client goroutine parked in `RecvMsg` or
`Header()` may run.  The theorems say that at EVERY intermediate point every client-side read gives what
it gave before Close started or what it gives once Close is complete — never a third value — that a
read that has given the final value keeps giving it, and that the atomic step is the result of the four.
The three `…_order_matters` theorems show that this is a property of the ORDER in the source.
-/
namespace ScVerif.C13
open Wrap

/-- **The four writes together are the atomic step**: after the last statement of `Close(err)` the three
client-side reads give exactly what they give on `Wrap.close`. -/
theorem C13_close_steps_refine (w : Wrap.State) (err : Fin) (h : w.closed = none) :
    ((lift w).run (closeOrder err)).readHeader = Wrap.header (Wrap.close Cfg.current w err) ∧
    ((lift w).run (closeOrder err)).readTrailer = Wrap.trailer (Wrap.close Cfg.current w err) ∧
    ((lift w).run (closeOrder err)).readTerminal = Wrap.terminal (Wrap.close Cfg.current w err) := by
  obtain ⟨hd, hc, tr, cl, ce, hp, co, so, cob, sob⟩ := w
  simp only at h
  subst h
  cases hc <;> cases ce <;>
    simp [lift, Fine.run, closeOrder, Fine.step, Fine.readHeader, Fine.readTrailer, Fine.readTerminal,
      Fine.closeErrLocked, Wrap.header, Wrap.trailer, Wrap.terminal, Wrap.close, Wrap.sendHeaderIfNeeded, Wrap.sendHeaderIfNeededC, Wrap.sendHeaderC,
      Wrap.sendHeader, Cfg.current]

/-- **No torn read.** Stop `Close(err)` after any number `k` of its statements (any state of the caller's
context, any header / trailer content, latch open or closed): `Header()` and the terminal `RecvMsg` of a
client running at that moment each give either what they gave before Close started (for a live call:
they block) or what they give after Close has completed; `Trailer()` does not change at all. -/
theorem C13_close_no_torn_read (w : Wrap.State) (err : Fin) (k : Nat) (h : w.closed = none) :
    (((lift w).run ((closeOrder err).take k)).readHeader = Wrap.header w ∨
     ((lift w).run ((closeOrder err).take k)).readHeader = Wrap.header (Wrap.close Cfg.current w err)) ∧
    ((lift w).run ((closeOrder err).take k)).readTrailer = Wrap.trailer (Wrap.close Cfg.current w err) ∧
    (((lift w).run ((closeOrder err).take k)).readTerminal = Wrap.terminal w ∨
     ((lift w).run ((closeOrder err).take k)).readTerminal = Wrap.terminal (Wrap.close Cfg.current w err)) := by
  obtain ⟨hd, hc, tr, cl, ce, hp, co, so, cob, sob⟩ := w
  simp only at h
  subst h
  rcases run_closeOrder_take (lift ⟨hd, hc, tr, none, ce, hp, co, so, cob, sob⟩) err k with e | e | e | e | e <;>
    rw [e] <;> cases hc <;> cases ce <;>
    simp [lift, Fine.run, closeOrder, Fine.step, Fine.readHeader, Fine.readTrailer, Fine.readTerminal,
      Fine.closeErrLocked, Wrap.header, Wrap.trailer, Wrap.terminal, Wrap.close, Wrap.sendHeaderIfNeeded, Wrap.sendHeaderIfNeededC, Wrap.sendHeaderC,
      Wrap.sendHeader, Cfg.current]

/-- **Once visible, always visible.** If after `k` statements the terminal `RecvMsg` (resp. `Header()`)
already gives its final value, it gives it after `k+1` statements too: there is one point at which each
read switches, so the four writes are indistinguishable from one atomic step at that point. -/
theorem C13_close_monotone (w : Wrap.State) (err : Fin) (k : Nat) (h : w.closed = none) :
    (((lift w).run ((closeOrder err).take k)).readTerminal = Wrap.terminal (Wrap.close Cfg.current w err) →
     ((lift w).run ((closeOrder err).take (k + 1))).readTerminal = Wrap.terminal (Wrap.close Cfg.current w err)) ∧
    (((lift w).run ((closeOrder err).take k)).readHeader = Wrap.header (Wrap.close Cfg.current w err) →
     ((lift w).run ((closeOrder err).take (k + 1))).readHeader = Wrap.header (Wrap.close Cfg.current w err)) := by
  obtain ⟨hd, hc, tr, cl, ce, hp, co, so, cob, sob⟩ := w
  simp only at h
  subst h
  match k with
  | 0 | 1 | 2 | 3 =>
    cases hc <;> cases ce <;>
      simp [lift, Fine.run, closeOrder, Fine.step, Fine.readHeader, Fine.readTerminal,
        Fine.closeErrLocked, Wrap.header, Wrap.terminal, Wrap.close, Wrap.sendHeaderIfNeeded, Wrap.sendHeaderIfNeededC, Wrap.sendHeaderC,
        Wrap.sendHeader, Cfg.current, Wrap.canon]
  | k + 4 =>
    have e1 : (closeOrder err).take (k + 4) = closeOrder err := by simp [closeOrder, List.take]
    have e2 : (closeOrder err).take (k + 4 + 1) = closeOrder err := by simp [closeOrder, List.take]
    rw [e1, e2]
    exact ⟨id, id⟩

/-- **The end of the call comes with the final header.** On a live call (the caller's context has not
ended), whenever the terminal `RecvMsg` of a client already returns during Close, `Header()` at that
moment already returns the final header (the latch is flushed BEFORE the channel is closed): headers
staged with SetHeader are never lost behind the status. -/
theorem C13_close_terminal_implies_header (w : Wrap.State) (err : Fin) (k : Nat) (h : w.closed = none)
    (hlive : w.ctxErr = none) (e : Ev)
    (ht : ((lift w).run ((closeOrder err).take k)).readTerminal = some e) :
    ((lift w).run ((closeOrder err).take k)).readHeader = Wrap.header (Wrap.close Cfg.current w err) ∧
    e = Wrap.canon err := by
  obtain ⟨hd, hc, tr, cl, ce, hp, co, so, cob, sob⟩ := w
  simp only at h hlive
  subst h hlive
  rcases run_closeOrder_take (lift ⟨hd, hc, tr, none, none, hp, co, so, cob, sob⟩) err k with e' | e' | e' | e' | e' <;>
    rw [e'] at ht ⊢ <;> cases hc <;>
    simp_all [lift, Fine.run, closeOrder, Fine.step, Fine.readHeader, Fine.readTerminal,
      Fine.closeErrLocked, Wrap.header, Wrap.close, Wrap.sendHeaderIfNeeded, Wrap.sendHeaderIfNeededC, Wrap.sendHeaderC, Wrap.sendHeader, Cfg.current]

/-- The hypotheses are inhabited and the statement is not vacuous: a live call with a staged header,
stopped after three statements, already reads its status and its header. -/
example : ((lift { header := [("a", "1")] }).run ((closeOrder (.status 9 "e0")).take 3)).readTerminal = some (.fin 9 "e0") ∧
    ((lift { header := [("a", "1")] }).run ((closeOrder (.status 9 "e0")).take 3)).readHeader = some [("a", "1")] := by
  decide

/-- **The order matters (1).** Cancelling the stream context before closing `serverSend` (seeded change
C13-4) lets a client parked in RecvMsg read `context.Canceled` — neither blocking nor the handler's
status — although nobody cancelled the call. -/
theorem C13_close_order_matters_cancel_before_chan :
    ∃ k, ((lift {}).run (([.flush, .recordErr (.status 9 "e0"), .cancelCtx, .closeChan] : List CloseStep).take k)).readTerminal
        = some (.aborted .cancel) ∧
      Wrap.terminal ({} : Wrap.State) = none ∧
      Wrap.terminal (Wrap.close Cfg.current {} (.status 9 "e0")) = some (.fin 9 "e0") :=
  ⟨3, by decide⟩

/-- **The order matters (2).** Closing `serverSend` before `closeErr` is recorded lets the client read a
clean end of stream (io.EOF) for a call whose handler returned an error. -/
theorem C13_close_order_matters_chan_before_err :
    ∃ k, ((lift {}).run (([.flush, .closeChan, .recordErr (.status 9 "e0"), .cancelCtx] : List CloseStep).take k)).readTerminal
        = some (.fin 0 "") ∧
      Wrap.terminal (Wrap.close Cfg.current {} (.status 9 "e0")) = some (.fin 9 "e0") :=
  ⟨2, by decide⟩

/-- **The order matters (3).** Flushing the header latch last (or not at all: the code before fa93faa)
lets a client that has read the status read an EMPTY header although the handler staged one. -/
theorem C13_close_order_matters_flush_last :
    ∃ k, ((lift { header := [("a", "1")] }).run
            (([.recordErr (.status 9 "e0"), .closeChan, .cancelCtx, .flush] : List CloseStep).take k)).readHeader = some [] ∧
      Wrap.header ({ header := [("a", "1")] } : Wrap.State) = none ∧
      Wrap.header (Wrap.close Cfg.current { header := [("a", "1")] } (.status 9 "e0")) = some [("a", "1")] :=
  ⟨3, by decide⟩

end ScVerif.C13
