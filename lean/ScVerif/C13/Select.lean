import ScVerif.C13.Wrap
/-
C13 — the client half's blocking calls as Go `select` statements (pkg/wrap/stream.go `clientStream.RecvMsg`,
`awaitStatus`, `SendMsg`, `Header`), case by case.

`Wrap.terminal` / `Wrap.header` (Wrap.lean) are deterministic functions of the shared state; the code is a
`select` over channels, which picks ANY ready case.  Here every ready case is followed separately and a call
yields the LIST of results it can have in a given instant of the stream (`[]` = it blocks).  Props in
PropsSelect.lean: all ready cases agree (so the deterministic functions are justified), every call returns
once the stream's context has ended — whatever the handler is doing —, and the wait for the status after the
single response (`awaitStatus`) gives way to the caller's cancellation.

What the client half sees of the channels, besides `Wrap.State`:
* `offer`: the handler is inside `SendMsg`, offering this message on `serverSend` (unbuffered: a receive
  is ready exactly then, or when `Close` has closed the channel);
* `taker`: the handler is inside `RecvMsg`, ready to take from `clientSend`.
`State.closed = some err` stands for the whole of `Close` (closeErr stored, `serverSend` closed, stream
context cancelled: the intermediate points are CloseSteps.lean); `State.ctxErr` = the caller's context ended.
-/
namespace ScVerif.C13
namespace Wrap

structure Chans where
  w : State
  offer : Option Nat := none
  taker : Bool := false
  deriving DecidableEq, Repr

/-- `<-c.ctx.Done()` is ready: the stream's context is a child of the caller's, cancelled by `Close`. -/
def ctxDone (w : State) : Bool := w.closed.isSome || w.ctxErr.isSome

/-- `c.ctx.Err()` as the caller classifies it: the caller's own cancel / deadline when that ended the context;
after `Close` alone the stream context is cancelled (the code only reaches `ctx.Err()` when `serverSend` is
not closed, i.e. not in that case). -/
def ctxErrEv (w : State) : Ev :=
  match w.ctxErr with
  | some a => .aborted a
  | none => .aborted .cancel

/-- One result of a receiving call. -/
inductive Res where
  | msg (m : Nat)     -- a message was taken from the handler's SendMsg
  | ev (e : Ev)       -- the call returned this terminal event
  | deliver           -- awaitStatus returned nil: the held response is delivered
  deriving DecidableEq, Repr

/-- `closeErrLocked()` as the caller reads it. -/
def closeErrEv (err : Fin) : Ev := canon err

/-- `clientStream.RecvMsg`, up to the point where a message has been taken:
```
select {
case <-ctx.Done():  select { case _, ok := <-serverSend: if !ok { return closeErrLocked() }; default: }; return ctx.Err()
case val, ok := <-serverSend: if !ok { return closeErrLocked() }; … val …
}
``` -/
def recvResults (c : Chans) : List Res :=
  (if ctxDone c.w then
    [match c.w.closed with
     | some err => Res.ev (closeErrEv err)        -- the probe finds serverSend closed
     | none => Res.ev (ctxErrEv c.w)]             -- (an offered message is taken by the probe and dropped)
   else []) ++
  (match c.w.closed, c.offer with
   | some err, _ => [Res.ev (closeErrEv err)]
   | none, some m => [Res.msg m]
   | none, none => [])

/-- `clientStream.awaitStatus` (the code now): after the single response was taken,
```
select {
case <-ctx.Done():  select { case _, ok := <-serverSend: if !ok { return closeErr() }; default: }; return ctx.Err()
case _, ok := <-serverSend: if !ok { return closeErr() }; return Internal "cardinality violation"
}
```
`closeErr()` = nil when the handler returned nil (the response is delivered), else the handler's error. -/
def awaitClosed (err : Fin) : Res := if err = .ok then .deliver else .ev (closeErrEv err)

def cardinality : Ev := .fin 13 "cardinality violation: expected one response, got more"

def awaitResults (c : Chans) : List Res :=
  (if ctxDone c.w then
    [match c.w.closed with
     | some err => awaitClosed err
     | none => Res.ev (ctxErrEv c.w)]
   else []) ++
  (match c.w.closed, c.offer with
   | some err, _ => [awaitClosed err]
   | none, some _ => [Res.ev cardinality]
   | none, none => [])

/-- A wait for the status that only receives from `serverSend` (no context case) — NOT the code; kept to state
why the context case is necessary. -/
def awaitPlainReceive (c : Chans) : List Res :=
  match c.w.closed, c.offer with
  | some err, _ => [awaitClosed err]
  | none, some _ => [Res.ev cardinality]
  | none, none => []

/-- `clientStream.SendMsg`: `select { case <-ctx.Done(): return closeErrLocked(); case clientSend <- snapshot(m): return nil }`
(`closeErrLocked()` is `io.EOF` when `Close` has not stored an error). -/
def sendResults (c : Chans) : List Ev :=
  (if ctxDone c.w then [Ev.sendErr] else []) ++ (if c.taker then [Ev.sent] else [])

/-- `clientStream.Header()`: `select { case <-ctx.Done(): (headerC closed ? header : nil); case <-headerC: header }`. -/
def headerResults (w : State) : List MD :=
  (if ctxDone w then [if w.headerC then w.header else []] else []) ++ (if w.headerC then [w.header] else [])

/-! ### The handler's half (`serverStream.SendMsg`, `serverStream.RecvMsg`) -/

/-- What the handler's half sees of the client: `cOffer` = the client is inside `SendMsg` offering this message on
`clientSend`; `cTaker` = the client is inside `RecvMsg`; `halfClosed` = `CloseSend` has closed `clientSend`. -/
structure SChans where
  w : State
  cOffer : Option Nat := none
  cTaker : Bool := false
  halfClosed : Bool := false
  deriving DecidableEq, Repr

inductive SRes where
  | sent                -- SendMsg returned nil
  | msg (m : Nat)       -- RecvMsg delivered a message
  | eof                 -- RecvMsg returned io.EOF: the client half-closed
  | ctxErr (a : Abort)  -- `ctxErr()`: the status of the stream context's error (Canceled / DeadlineExceeded)
  deriving DecidableEq, Repr

/-- `status.FromContextError(s.ctx.Err())`: the caller's cancel / deadline when that ended the context, Canceled
when only `Close` did. -/
def srvCtxErr (w : State) : Abort := w.ctxErr.getD .cancel

/-- `serverStream.SendMsg` after `sendHeaderIfNeeded`:
`select { case <-ctx.Done(): return ctxErr(); case serverSend <- snapshot(m): return nil }`. -/
def ssendResults (c : SChans) : List SRes :=
  (if ctxDone c.w then [SRes.ctxErr (srvCtxErr c.w)] else []) ++ (if c.cTaker then [SRes.sent] else [])

/-- `serverStream.RecvMsg`:
`select { case <-ctx.Done(): return ctxErr(); case val, ok := <-clientSend: if !ok { return io.EOF }; … val … }`. -/
def srecvResults (c : SChans) : List SRes :=
  (if ctxDone c.w then [SRes.ctxErr (srvCtxErr c.w)] else []) ++
  (if c.halfClosed then [SRes.eof]
   else match c.cOffer with
     | some m => [SRes.msg m]
     | none => [])

end Wrap
end ScVerif.C13
