import ScVerif.C13.Lemmas
/-
C13 — lemmas: every run of scripts satisfying the synchronisation skeleton `sync` completes on the
wrapper model (never stuck, no handler left blocked).
-/
namespace ScVerif.C13

theorem complete_cev (e : Ev) (t : Transcript) (h : e ≠ .stuck) : (cev e t).complete = t.complete := by
  cases e <;> simp_all [cev, Transcript.complete]

theorem complete_sev (e : SEv) (t : Transcript) (h : e ≠ .left) : (sev e t).complete = t.complete := by
  cases e <;> simp_all [sev, Transcript.complete]

theorem complete_sevIf (b : Bool) (e : SEv) (t : Transcript) (h : e ≠ .left) :
    (sevIf b e t).complete = t.complete := by
  cases b <;> simp [sevIf, complete_sev e t h]

theorem complete_endT : endT.complete = true := by
  simp [endT, Transcript.complete]

namespace Wrap

/-- `Header()` does not block. -/
def avail (w : State) : Bool := w.headerC || w.closed.isSome || w.ctxErr.isSome

theorem header_of_avail {w : State} (h : avail w = true) : ∃ md, header w = some md := by
  unfold header
  by_cases hc : w.headerC
  · exact ⟨w.header, by simp [hc]⟩
  · have : (w.closed.isSome || w.ctxErr.isSome) = true := by simpa [avail, hc] using h
    exact ⟨[], by simp [hc, this]⟩

theorem terminal_ne_stuck {w : State} {e : Ev} (h : terminal w = some e) : e ≠ .stuck := by
  unfold terminal at h
  cases hc : w.closed with
  | some f =>
    simp [hc] at h
    subst h
    cases f <;> simp [canon]
  | none =>
    cases ha : w.ctxErr with
    | some a => simp [hc, ha] at h; subst h; simp
    | none => simp [hc, ha] at h

end Wrap

/-- What the synchronisation skeleton's flags mean for the wrapper's state. -/
def Inv (hdr : Bool) : Srv → Wrap.State → Prop
  | .running _, w => hdr = true → Wrap.avail w = true
  | .done, w => w.closed.isSome = true
  | .aborted, w => w.ctxErr.isSome = true

theorem avail_setHeader (c : Cfg) (w : Wrap.State) (md : MD) :
    Wrap.avail (Wrap.setHeader c w md).1 = Wrap.avail w := by
  unfold Wrap.setHeader
  split
  · split
    · rfl
    · split <;> rfl
  · rfl

theorem avail_sendHeader (c : Cfg) (w : Wrap.State) (md : MD) : Wrap.avail (Wrap.sendHeaderC c w md).1 = true := by
  unfold Wrap.sendHeaderC Wrap.sendHeader Wrap.sendHeaderOld
  by_cases hc : w.headerC <;> by_cases he : w.ctxErr.isSome <;> cases c.sendFailsAfterEnd <;>
    simp [hc, he, Wrap.avail]

theorem avail_preSend (c : Cfg) (w : Wrap.State) : Wrap.avail (Wrap.sendHeaderIfNeededC c w) = true :=
  avail_sendHeader c w []

theorem avail_xfer (c : Cfg) (w : Wrap.State) (d : Dir) (m : Nat) (reuse : Bool) :
    Wrap.avail (Wrap.xfer c w d m reuse).1 = Wrap.avail w := by
  obtain ⟨_, f2, _, f4, f5⟩ := Wrap.xfer_fields c w d m reuse
  simp [Wrap.avail, f2, f4, f5]

theorem closed_close (c : Cfg) (w : Wrap.State) (fin : Fin) : (Wrap.close c w fin).closed.isSome = true := by
  simp [Wrap.close]

theorem go_complete (c : Cfg) (fin : Fin) (reuse : Bool) (tm hdr cc : Bool) (srv : Srv) (cs : List COp) :
    ∀ w, sync tm hdr cc srv cs = true → Inv hdr srv w →
      (go (Wrap.impl c) fin reuse w cc srv cs).complete = true := by
  fun_induction sync tm hdr cc srv cs
  all_goals intro w hs hi
  case case1 tm hdr cc md ss cs ih =>
    simp only [go, Wrap.impl]
    rw [complete_sevIf _ _ _ (by simp)]
    exact ih _ hs (fun hh => by rw [avail_setHeader]; exact hi hh)
  case case2 tm hdr cc md ss cs ih =>
    simp only [go, Wrap.impl]
    rw [complete_sevIf _ _ _ (by simp)]
    exact ih _ hs (fun _ => avail_sendHeader c w md)
  case case3 tm hdr cc md ss cs ih =>
    simp only [go, Wrap.impl]
    exact ih _ hs hi
  case case4 tm hdr cc cs ih =>
    simp only [go, Wrap.impl]
    exact ih _ hs (closed_close c w fin)
  case case5 tm hdr cc m ss cs ih =>
    simp only [go, Wrap.impl]
    rw [complete_cev _ _ (by simp)]
    exact ih _ hs (fun _ => by rw [avail_xfer]; exact avail_preSend c w)
  case case6 tm hdr cc m ss cs ih =>
    obtain ⟨md, hmd⟩ := Wrap.header_of_avail (avail_preSend c w)
    simp only [go, Wrap.impl, hmd]
    rw [complete_cev _ _ (by simp)]
    exact ih _ hs (fun _ => avail_preSend c w)
  case case7 tm hdr m ss cs ih =>
    simp only [go, Wrap.impl]
    rw [complete_cev _ _ (by simp)]
    exact ih _ hs (fun _ => avail_preSend c w)
  case case10 tm hdr ss cs ih =>
    simp only [go]
    rw [complete_sev _ _ (by simp)]
    exact ih _ hs hi
  case case11 tm hdr ss m cs ih =>
    simp only [go, Wrap.impl]
    rw [complete_cev _ _ (by simp), complete_sev _ _ (by simp)]
    exact ih _ hs (fun hh => by rw [avail_xfer]; exact hi hh)
  case case12 tm hdr ss cs ih =>
    have := ih _ hs hi
    simp only [go] at this ⊢
    rw [complete_cev _ _ (by simp)]
    exact this
  case case13 tm hdr ss cs ih =>
    simp only [Bool.and_eq_true] at hs
    obtain ⟨md, hmd⟩ := Wrap.header_of_avail (hi hs.1)
    simp only [go, Wrap.impl, hmd]
    rw [complete_cev _ _ (by simp)]
    exact ih _ hs.2 hi
  case case14 tm hdr tl a cs ih =>
    simp only [go, Wrap.impl]
    rw [complete_cev _ _ (by simp), complete_sev _ _ (by simp)]
    exact ih _ hs (by simp [Inv, Wrap.abort])
  case case17 tm hdr cc ss cs ih =>
    simp only [Bool.and_eq_true] at hs
    obtain ⟨md, hmd⟩ := Wrap.header_of_avail (hi hs.1)
    simp only [go, Wrap.impl, hmd]
    rw [complete_cev _ _ (by simp)]
    exact ih _ hs.2 hi
  case case18 tm hdr ss cs ih =>
    simp only [go]
    rw [complete_cev _ _ (by simp)]
    exact ih _ hs hi
  case case19 tm hdr cc tl a cs ih =>
    simp only [go, Wrap.impl]
    rw [complete_cev _ _ (by simp), complete_sev _ _ (by simp)]
    exact ih _ hs (by simp [Inv, Wrap.abort])
  case case22 => simp only [go]; exact complete_endT
  case case23 tm hdr cc cs ih =>
    have hc : w.closed.isSome = true := hi
    obtain ⟨f, hf⟩ := Option.isSome_iff_exists.mp hc
    have ht : Wrap.terminal w = some (Wrap.canon f) := by simp [Wrap.terminal, hf]
    simp only [go, Wrap.impl, ht]
    rw [complete_cev _ _ (Wrap.terminal_ne_stuck ht)]
    exact ih _ hs hi
  case case24 tm hdr cc cs ih =>
    have hc : w.closed.isSome = true := hi
    obtain ⟨md, hmd⟩ := Wrap.header_of_avail (w := w) (by simp [Wrap.avail, hc])
    simp only [go, Wrap.impl, hmd]
    rw [complete_cev _ _ (by simp)]
    exact ih _ hs hi
  case case25 tm hdr cc cs ih =>
    simp only [Bool.and_eq_true] at hs
    simp only [go]
    rw [complete_cev _ _ (by simp)]
    exact ih _ hs.2 hi
  case case26 tm hdr cs ih =>
    simp only [go]
    rw [complete_cev _ _ (by simp)]
    exact ih _ hs hi
  case case28 => simp only [go]; exact complete_endT
  case case29 tm hdr cc cs ih =>
    have hc : w.ctxErr.isSome = true := hi
    have ht : ∃ e, Wrap.terminal w = some e := by
      unfold Wrap.terminal
      cases w.closed with
      | some f => exact ⟨_, rfl⟩
      | none =>
        obtain ⟨a, ha⟩ := Option.isSome_iff_exists.mp hc
        exact ⟨.aborted a, by simp [ha]⟩
    obtain ⟨e, he⟩ := ht
    simp only [go, Wrap.impl, he]
    rw [complete_cev _ _ (Wrap.terminal_ne_stuck he)]
    exact ih _ hs hi
  case case30 tm hdr cc cs ih =>
    simp only [Bool.and_eq_true] at hs
    have hc : w.ctxErr.isSome = true := hi
    obtain ⟨md, hmd⟩ := Wrap.header_of_avail (w := w) (by simp [Wrap.avail, hc])
    simp only [go, Wrap.impl, hmd]
    rw [complete_cev _ _ (by simp)]
    exact ih _ hs.2 hi
  all_goals (simp at hs)

end ScVerif.C13
