import ScVerif.C13.Ctx
import ScVerif.C13.HoldLemmas
/-!
# C13 — what of the caller's context crosses the boundary

Property theorems only. `Wrap.runCtx` / `GrpcRef.runCtx` are the two runs of Props.lean generalised to
an arbitrary caller context (`CallerCtx`: incoming metadata of the request the caller is itself
serving, outgoing metadata or none at all, deadline, request-scoped values) and to handlers that are
arbitrary FUNCTIONS of what they see of their own context (`Handler = SrvCtx → script × return value`).
-/
namespace ScVerif.C13

/-- `wrapper.startStream` gives the handler exactly the context a real connection gives it: the
client's outgoing metadata as request metadata, no outgoing metadata of its own, the deadline — and
nothing else of the caller's context. -/
theorem C13_ctx_server_ctx_eq (ctx : CallerCtx) :
    Wrap.startStream Cfg.current ctx = GrpcRef.serverCtx ctx := by
  have hclone : ∀ md : MD, cloneMD md = md := by
    intro md
    unfold cloneMD
    induction md with
    | nil => rfl
    | cons kv t ih => simp [List.map]
  simp [Wrap.startStream, GrpcRef.serverCtx, Cfg.current, hclone]

/-- **Transcript equality on every caller context, for every context-dependent handler.** Whatever the
caller's context carries and however the handler's script and return value depend on what the handler
sees of its context, the wrapped call and the real gRPC call give the same client transcript and the
same handler view, for all five call shapes. -/
theorem C13_ctx_transcript_eq (shape : Shape) (ctx : CallerCtx) (h : Handler) (cs : List COp)
    (reuse : Bool) :
    Wrap.runCtx shape ctx h cs reuse = GrpcRef.runCtx shape ctx h cs reuse := by
  have hopen : Wrap.open shape = .ok := by cases shape <;> decide
  unfold Wrap.runCtx Wrap.runCtxCfg GrpcRef.runCtx
  simp only [hopen, C13_ctx_server_ctx_eq, holds_current, canon_eq_statusEv]
  exact congrArg _ (congrArg _ (go_eq _ reuse {} false (.running _) (clientOps shape cs) {} rel_init Wrap.heapInv_init))

/-- **The request metadata the handler sees is the client's outgoing metadata**, for every call shape,
caller context, handler and client script: the first entry of the handler's view is
`incoming (outgoing metadata of the caller's context, or none)`. -/
theorem C13_server_sees_outgoing_md (shape : Shape) (ctx : CallerCtx) (h : Handler) (cs : List COp)
    (reuse : Bool) :
    (Wrap.runCtx shape ctx h cs reuse).server.head? = some (.incoming (ctx.outgoing.getD [])) := by
  have hopen : Wrap.open shape = .ok := by cases shape <;> decide
  unfold Wrap.runCtx Wrap.runCtxCfg
  simp only [hopen, C13_ctx_server_ctx_eq]
  simp [ctxView, sev, GrpcRef.serverCtx]

/-- **Nothing else crosses.** Two caller contexts with the same outgoing metadata content and the same
deadline flag give the same call, whatever incoming metadata (the caller's own request), request-scoped
values, or "no outgoing metadata at all" vs "empty outgoing metadata" they differ in: the wrapped
handler never sees the metadata of the caller's own request. -/
theorem C13_ctx_noninterference (shape : Shape) (ctx ctx' : CallerCtx) (h : Handler) (cs : List COp)
    (reuse : Bool) (hout : ctx.outgoing.getD [] = ctx'.outgoing.getD []) (hdl : ctx.deadline = ctx'.deadline) :
    Wrap.runCtx shape ctx h cs reuse = Wrap.runCtx shape ctx' h cs reuse := by
  have hs : Wrap.startStream Cfg.current ctx = Wrap.startStream Cfg.current ctx' := by
    simp [Wrap.startStream, hout, hdl]
  unfold Wrap.runCtx Wrap.runCtxCfg
  rw [hs]

/-- The contexts of the theorem above really differ: a handler passing its own context on (incoming
metadata, values, no outgoing metadata) is served like a plain client. -/
example : Wrap.runCtx .unary { incoming := some [("auth", "secret")], values := true }
      (scripted [.op .recv, .echoIn, .op (.send 1)] .ok) (invokeScript 1) =
    Wrap.runCtx .unary {} (scripted [.op .recv, .echoIn, .op (.send 1)] .ok) (invokeScript 1) :=
  C13_ctx_noninterference _ _ _ _ _ _ rfl rfl

/-- `runCtx` extends `run`: a plain client context with outgoing metadata `out` and a handler that
ignores its context give the run of Props.lean. -/
theorem C13_ctx_extends_run (shape : Shape) (out : MD) (ss : List SOp) (fin : Fin) (cs : List COp)
    (reuse : Bool) :
    Wrap.runCtx shape { outgoing := some out } (fun _ => (ss, fin)) cs reuse = Wrap.run shape out ss fin cs reuse := by
  unfold Wrap.runCtx Wrap.runCtxCfg Wrap.run Wrap.runCfg
  cases Wrap.open shape <;> simp [ctxView, sevIf, Wrap.startStream, Cfg.current]

/-- **Completion and no goroutine left, on every caller context.** If the script the handler chooses for
the context it sees satisfies the property's hypothesis, the wrapped call runs to completion and the
handler goroutine is gone when the client script ends. -/
theorem C13_ctx_no_goroutine_left (shape : Shape) (ctx : CallerCtx) (h : Handler) (cs : List COp)
    (reuse : Bool)
    (hwf : WFScripts shape (h (GrpcRef.serverCtx ctx)).1 (h (GrpcRef.serverCtx ctx)).2 cs = true) :
    Ev.stuck ∉ (Wrap.runCtx shape ctx h cs reuse).client ∧
    SEv.left ∉ (Wrap.runCtx shape ctx h cs reuse).server := by
  have hopen : Wrap.open shape = .ok := by cases shape <;> decide
  have hs : sync shape.statusRead false false (.running (h (GrpcRef.serverCtx ctx)).1) (clientOps shape cs) = true := by
    simp only [WFScripts, Bool.and_eq_true] at hwf
    exact hwf.2
  have hc := go_complete Cfg.current (h (GrpcRef.serverCtx ctx)).2 reuse shape.statusRead false false
    (.running (h (GrpcRef.serverCtx ctx)).1) (clientOps shape cs) {} hs (by intro hh; cases hh)
  have hc' : (Wrap.runCtx shape ctx h cs reuse).complete = true := by
    unfold Wrap.runCtx Wrap.runCtxCfg
    simp only [hopen, C13_ctx_server_ctx_eq, ctxView]
    rw [complete_sev _ _ (by simp), complete_sevIf _ _ _ (by simp), complete_sevIf _ _ _ (by simp),
      complete_hold _ _ _ (canon_ne_stuck _)]
    exact hc
  simpa [Transcript.complete] using hc'

/-- **The single response comes only with an OK status.** For a method without server streaming (unary,
also through NewStream, and client streaming), on every caller context and for every handler: if the
handler returns an error, the client is never given a response message — also when the handler had
already sent one (`SendAndClose`, then an error): the `RecvMsg` that would have delivered it returns the
error, as over gRPC. -/
theorem C13_single_response_only_with_ok (shape : Shape) (ctx : CallerCtx) (h : Handler) (cs : List COp)
    (reuse : Bool) (hshape : shape ≠ .sstream ∧ shape ≠ .bidi)
    (herr : (h (GrpcRef.serverCtx ctx)).2 ≠ .ok) :
    (Wrap.runCtx shape ctx h cs reuse).clientMsgs = [] := by
  have hopen : Wrap.open shape = .ok := by cases shape <;> decide
  have hh : Wrap.holds Cfg.current shape = true := by
    cases shape <;> first | rfl | exact absurd rfl hshape.1 | exact absurd rfl hshape.2
  unfold Wrap.runCtx Wrap.runCtxCfg
  simp only [hopen, C13_ctx_server_ctx_eq, hh]
  have hb : ((h (GrpcRef.serverCtx ctx)).2 != Fin.ok) = true := by simpa using herr
  simp only [ctxView, sev, sevIf, hold, hb, Bool.and_self, if_true, Transcript.clientMsgs]
  split <;> split <;> simp only [filterMap_msg_holdEv]

/-- The theorem above is not vacuous: a client-streaming handler that answers and then fails; the client
reads the error twice and no message. -/
example : (Wrap.runCtx .cstream {} (fun _ => ([.recv, .recv, .send 7], .status 9 "e0"))
    [.send 1, .closeSend, .recv, .recv]).client = [.sent, .closed, .fin 9 "e0", .fin 9 "e0"] := by
  have hopen : Wrap.open .cstream = .ok := by decide
  simp only [Wrap.runCtx, Wrap.runCtxCfg, hopen, clientOps]
  simp [go, ctxView, sev, sevIf, cev, endT, hold, holdEv, Wrap.holds, Cfg.current, Wrap.impl, Wrap.terminal,
    Wrap.close, Wrap.canon, Wrap.startStream, Wrap.xfer_closed, Wrap.xfer_ctxErr, Wrap.sendHeaderIfNeeded, Wrap.sendHeaderIfNeededC, Wrap.sendHeaderC,
    Wrap.sendHeader]

/-- The defect repaired by 14df317, on the model of the code before it: the client of a client-streaming
call was given the response although the handler went on to return an error; gRPC gives the error. -/
theorem C13_legacy_response_before_error :
    ∃ ss fin cs, WFScripts .cstream ss fin cs = true ∧
      (Wrap.runCfg { Cfg.current with holdResponse := false } .cstream [] ss fin cs).client ≠
        (GrpcRef.run .cstream [] ss fin cs).client := by
  refine ⟨[.recv, .recv, .send 7], .status 9 "e0", [.send 1, .closeSend, .recv, .recv], ?_, ?_⟩
  · simp [WFScripts, conforms, clientOps, sync, singleResponseC, localAfterSend]
  · have hopen : Wrap.open .cstream = .ok := by decide
    simp only [Wrap.runCfg, GrpcRef.run, hopen, clientOps]
    simp [go, sev, cev, endT, hold, holdEv, Wrap.holds, GrpcRef.holds, GrpcRef.statusEv, GrpcRef.wireStatus,
      Cfg.current, Wrap.impl, GrpcRef.impl, Wrap.terminal, GrpcRef.terminal, GrpcRef.writeStatus, Wrap.close,
      Wrap.canon, Wrap.xfer_closed, Wrap.xfer_ctxErr, Wrap.sendHeaderIfNeeded, Wrap.sendHeaderIfNeededC, Wrap.sendHeaderC, Wrap.sendHeader,
      GrpcRef.beforeData]

/-- The defect repaired by 8cf1112, on the model of the code before it: the handler's context kept the
client's outgoing metadata (a downstream call made with it would transmit it a second hop); a real
server's context has none. -/
theorem C13_legacy_outgoing_leaks :
    ∃ shape ctx h cs,
      Wrap.runCtxCfg { Cfg.current with clearOutgoing := false } shape ctx h cs ≠ GrpcRef.runCtx shape ctx h cs := by
  refine ⟨.bidi, { outgoing := some [("u", "1")] }, fun _ => ([], .ok), [], ?_⟩
  have hopen : Wrap.open .bidi = .ok := by decide
  simp only [Wrap.runCtxCfg, GrpcRef.runCtx, hopen, clientOps]
  simp [go, ctxView, sev, sevIf, endT, Wrap.startStream, GrpcRef.serverCtx, Cfg.current, cloneMD, hold,
    Wrap.holds, GrpcRef.holds]

end ScVerif.C13
