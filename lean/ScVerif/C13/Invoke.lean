import ScVerif.C13.Select
/-
C13 — `wrapper.Invoke` (pkg/wrap/wrap.go) at the level of its blocking calls.

```
ctx, clientServerStream, ss, cs := w.startStream(ctx, method)
go func() { … handler … clientServerStream.Close(err) }()
if err := cs.SendMsg(args); err != nil {
    if ctxErr := ctx.Err(); ctxErr != nil { return status.FromContextError(ctxErr).Err() }
    return err
}
cs.CloseSend()
err := cs.RecvMsg(reply)
mdErr := collectMetadata(cs, opts)      -- cs.Header() (a select), cs.Trailer()
return err
```

The handler runs on a goroutine of its own; the caller's goroutine is only ever inside one of three `select`
statements (`clientStream.SendMsg`, `RecvMsg`, `Header`: Select.lean lists their ready cases).  `step` follows the
caller's goroutine through them one ready case at a time.  What the handler and the caller's context do in between
is NOT fixed here: the theorems (PropsInvoke.lean) quantify over the state of the stream at every step (an
arbitrary environment), constrained only by what they state (e.g. "the caller's context has ended and the handler
has not returned").

A unary method of a GENERATED wrapper (cmd/protoc-gen-wrapper) is this function: the wrapper embeds the generated
gRPC client built on the connection of `ServerToClient`, so `XxxWrapper.GetYyy(ctx, req, opts...)` is
`conn.Invoke(ctx, "/…/GetYyy", req, new(Res), opts...)`.
-/
namespace ScVerif.C13
namespace Wrap

/-- What `Invoke` hands back to its caller. -/
inductive IRes where
  /-- `SendMsg` failed: Invoke returns without running `collectMetadata` (the call options' variables are untouched) -/
  | early (e : Ev)
  /-- `RecvMsg` returned `r` (a reply, or the terminal event), then `collectMetadata` read this header and trailer -/
  | full (r : Res) (header trailer : MD)
  deriving DecidableEq, Repr

/-- Where the caller's goroutine is. -/
inductive IPc where
  | send                 -- inside `cs.SendMsg(args)`
  | recv                 -- `CloseSend` done (it never blocks); inside `cs.RecvMsg(reply)`
  | collect (r : Res)    -- `RecvMsg` returned `r`; inside `collectMetadata`: `cs.Header()`
  | done (r : IRes)      -- returned
  deriving DecidableEq, Repr

def IPc.isDone : IPc → Bool
  | .done _ => true
  | _ => false

/-- What Invoke returns when `SendMsg` failed: the caller's own cancel / deadline as such when that is why
(`ctx` here is the CALLER's context with the call's metadata, not the stream's), else what `SendMsg` returned —
`closeErrLocked()`: the handler's status, `io.EOF` (clean end) when it returned nil. -/
def sendFailed (w : State) : Ev :=
  match w.ctxErr with
  | some a => .aborted a
  | none => match w.closed with
    | some err => closeErrEv err
    | none => .fin 0 ""

/-- One ready select case of the blocking call the caller's goroutine is in; `[]` = it blocks in this instant. -/
def step (pc : IPc) (c : Chans) : List IPc :=
  match pc with
  | .send => (sendResults c).map fun e => if e = .sent then .recv else .done (.early (sendFailed c.w))
  | .recv => (recvResults c).map .collect
  | .collect r => (headerResults c.w).map fun h => .done (.full r h c.w.trailer)
  | .done _ => []

/-- All places the caller's goroutine can be after the instants `cs` of the stream (one per scheduling point;
the goroutine may also not be scheduled in an instant: `pc` itself stays possible). -/
def reach (pc : IPc) : List Chans → List IPc
  | [] => [pc]
  | c :: cs => (pc :: step pc c).flatMap (reach · cs)

/-- The same without idling: in every instant a ready case is taken if there is one (else the call stays blocked). -/
def runs (pc : IPc) : List Chans → List IPc
  | [] => [pc]
  | c :: cs => (if step pc c = [] then [pc] else step pc c).flatMap (runs · cs)

/-- Invoke with the stream FROZEN in one state (a handler parked on work of its own does nothing to the stream):
every way the call can complete, `[]` = it never returns while the state stays as it is. -/
def frozen (pc : IPc) (c : Chans) : List IRes :=
  (runs pc [c, c, c]).filterMap fun
    | .done r => some r
    | _ => none

/-- NOT the code — the design in which a unary call runs the handler on the CALLER's goroutine (a direct method
call dressed up as Invoke): the caller gets its result when the handler returns, and only then; a context that has
ended meanwhile is turned into the cancellation afterwards.  Kept to state what the goroutine of `Invoke` is for. -/
def directCall (c : Chans) : List Ev :=
  match c.w.closed with
  | some err => [match c.w.ctxErr with
                 | some a => .aborted a
                 | none => closeErrEv err]
  | none => []

/-- The environment only moves forward: the header latch stays closed, an ended context stays ended. -/
def Later (c c' : Chans) : Prop :=
  (c.w.headerC = true → c'.w.headerC = true) ∧ (ctxDone c.w = true → ctxDone c'.w = true)

/-- The handler half's own invariant as the client half sees it: a handler inside `SendMsg` has run
`sendHeaderIfNeeded` before it offers the message. -/
def OfferAfterHeader (c : Chans) : Prop := c.offer.isSome = true → c.w.headerC = true

end Wrap
end ScVerif.C13
