import ScVerif.Base.Line
import ScVerif.C13.WF
import ScVerif.C13.Async
import ScVerif.C13.Ctx
/-! Driver handler for C13: parses one request line, runs the model, prints the canonical answer.

```
wrap|grpc|legacy|wf|async|asynclegacy <shape> <out-md|~> <srv-ops> <fin> <cli-ops> <reuse 0|1> [<ctx>]
open stream|invoke <method> <clientStreams> <serverStreams> live|cancel|deadline
```
Encodings are those of harness/cmd/c13/script.go. -/
namespace ScVerif.C13
open ScVerif.Line

def parseMD? (s : String) : Option MD :=
  if s = "" || s = "-" then some []
  else (s.splitOn "+").mapM fun kv =>
    match kv.splitOn "=" with
    | [k, v] => if k = "" then none else some (k, v)
    | _ => none

def parseList? {α : Type} (f : String → Option α) (s : String) : Option (List α) :=
  if s = "" || s = "-" then some [] else (s.splitOn ",").mapM f

def parseSOp? (t : String) : Option SOp :=
  match t.toList with
  | 'H' :: r => (parseMD? (String.ofList r)).map SOp.setHeader
  | 'S' :: r => (parseMD? (String.ofList r)).map SOp.sendHeader
  | 'T' :: r => (parseMD? (String.ofList r)).map SOp.setTrailer
  | 'M' :: r => (parseNat? (String.ofList r)).map SOp.send
  | ['R'] => some .recv
  | ['W'] => some .wait
  | _ => none

/-- Handler ops of the scripted server: the plain ops, and `E` = SetHeader(request metadata). -/
def parseHOp? (t : String) : Option HOp :=
  if t = "E" then some .echoIn else (parseSOp? t).map HOp.op

/-- The caller's outgoing metadata: `~` = none at all, `-` = present and empty. -/
def parseOut? (s : String) : Option (Option MD) :=
  if s = "~" then some none else (parseMD? s).map some

def parseCtxItem? (c : CallerCtx) (t : String) : Option CallerCtx :=
  match t.toList with
  | 'I' :: r => (parseMD? (String.ofList r)).map fun md => { c with incoming := some md }
  | ['D'] => some { c with deadline := true }
  | ['P'] => some { c with values := true }
  | _ => none

/-- The caller's context besides the outgoing metadata: `-` or comma separated `I<md>` (incoming
metadata), `D` (a far deadline), `P` (peer and an application value). -/
def parseCtx? (s : String) : Option CallerCtx :=
  if s = "" || s = "-" then some {} else (s.splitOn ",").foldlM parseCtxItem? {}

def parseCOp? (t : String) : Option COp :=
  match t.toList with
  | 's' :: r => (parseNat? (String.ofList r)).map COp.send
  | ['c'] => some .closeSend
  | ['r'] => some .recv
  | ['h'] => some .header
  | ['t'] => some .trailer
  | ['x'] => some (.abort .cancel)
  | ['d'] => some (.abort .deadline)
  | _ => none

def parseFin? (t : String) : Option Fin :=
  if t = "OK" then some .ok
  else match t.toList with
    | 'P' :: r => some (.plain (String.ofList r))
    | 'E' :: r =>
      match (String.ofList r).splitOn ":" with
      | [c, m] => (parseNat? c).map (fun n => Fin.status n m)
      | _ => none
    | _ => none

def parseShape? : String → Option Shape
  | "unary" => some .unary
  | "unaryS" => some .unaryS
  | "sstream" => some .sstream
  | "cstream" => some .cstream
  | "bidi" => some .bidi
  | _ => none

/-- Stable insertion (before the first strictly greater key... of a list built from the right). -/
def insertKV (p : String × String) : MD → MD
  | [] => [p]
  | q :: r => if q.1 < p.1 then q :: insertKV p r else p :: q :: r

/-- Metadata sorted by key, the values of one key in join order (as the harness prints a map). -/
def canonMD (md : MD) : MD := md.foldr insertKV []

def showMD (md : MD) : String :=
  "{" ++ "+".intercalate ((canonMD md).map fun kv => kv.1 ++ "=" ++ kv.2) ++ "}"

def showAbort : Abort → String
  | .cancel => "X"
  | .deadline => "D"

def showEv : Ev → String
  | .sent => "ok"
  | .sendErr => "serr"
  | .closed => "cl"
  | .msg m => "m" ++ toString m
  | .fin c m => if c = 1 then "X" else if c = 4 then "D" else "F" ++ toString c ++ ":" ++ m
  | .aborted a => showAbort a
  | .hdr md => "h" ++ showMD md
  | .trl md => "t" ++ showMD md
  | .did .cancel => "x"
  | .did .deadline => "d"
  | .stuck => "stuck"

def showSEv : SEv → String
  | .incoming md => "in" ++ showMD md
  | .deadline => "dl"
  | .outgoing md => "o" ++ showMD md
  | .got m => "g" ++ toString m
  | .eof => "eof"
  | .hErr => "Herr"
  | .sErr => "Serr"
  | .abort => "abort"
  | .left => "left"

def showTranscript (t : Transcript) : String :=
  ",".intercalate (t.client.map showEv) ++ "|" ++ ",".intercalate (t.server.map showSEv)

/-- The set of possible client transcripts, `;`-separated, duplicates removed. -/
def showRuns (rs : List (List Ev)) : String :=
  ";".intercalate ((rs.map fun evs => ",".intercalate (evs.map showEv)).eraseDups)

def showOpen : Open → String
  | .ok => "ok"
  | .unimplemented => "Unimplemented"
  | .internal => "Internal"
  | .ctxEnded .cancel => "Canceled"
  | .ctxEnded .deadline => "DeadlineExceeded"

def handleCall (op sh out srv fin cli reuse ctx : String) : Option String := do
  let reuse ← parseBool? reuse
  let shape ← parseShape? sh
  let out ← parseOut? out
  let hs ← parseList? parseHOp? srv
  let fin ← parseFin? fin
  let cs ← parseList? parseCOp? cli
  let ctx0 ← parseCtx? ctx
  -- the caller's context: outgoing metadata, and a deadline if the client script waits for one
  let ctx : CallerCtx := { ctx0 with outgoing := out, deadline := ctx0.deadline || hasDeadlineOp cs }
  let h := scripted hs fin
  match op with
  | "wrap" => pure (showTranscript (Wrap.runCtx shape ctx h cs reuse))
  | "legacy" => pure (showTranscript (Wrap.runCtxCfg Cfg.legacy shape ctx h cs reuse))
  | "grpc" => pure (showTranscript (GrpcRef.runCtx shape ctx h cs reuse))
  | "wf" => pure (showBool (WFScripts shape (h (GrpcRef.serverCtx ctx)).1 fin cs))
  | "async" => pure (showRuns (Wrap.asyncRuns Cfg.current shape (h (Wrap.startStream Cfg.current ctx)).1 fin cs reuse))
  | "asynclegacy" => pure (showRuns (Wrap.asyncRuns Cfg.legacy shape (h (Wrap.startStream Cfg.legacy ctx)).1 fin cs reuse))
  | _ => none

def handleOpt (toks : List String) : Option String :=
  match toks with
  | ["open", via, method, cs, ss, pre] => do
    let cs ← parseBool? cs
    let ss ← parseBool? ss
    let ctx ← (match pre with
      | "live" => some none
      | "cancel" => some (some Abort.cancel)
      | "deadline" => some (some Abort.deadline)
      | _ => none)
    match via with
    | "stream" => pure (showOpen (Conn.newStream testApi ctx method cs ss))
    | "invoke" => pure (showOpen (Conn.invoke testApi ctx method))
    | _ => none
  | [op, sh, out, srv, fin, cli, reuse] => handleCall op sh out srv fin cli reuse "-"
  | [op, sh, out, srv, fin, cli, reuse, ctx] => handleCall op sh out srv fin cli reuse ctx
  | _ => none

def handle (toks : List String) : String := (handleOpt toks).getD "!bad-op"

end ScVerif.C13
