import ScVerif.Base.Line
import ScVerif.C13.WF
import ScVerif.C13.Async
import ScVerif.C13.Ctx
import ScVerif.C13.Errs
import ScVerif.C13.Cause
import ScVerif.C13.Select
import ScVerif.C13.Invoke
import ScVerif.C13.Unwrap
import ScVerif.C13.Opts
/-! Driver handler for C13: parses one request line, runs the model, prints the canonical answer.

```
wrap|grpc|legacy|wf|async|asynclegacy <shape> <out-md|~> <srv-ops> <fin> <cli-ops> <reuse 0|1> [<ctx>]
open stream|invoke <method> <clientStreams> <serverStreams> live|cancel|deadline
```
Encodings are those of harness/cmd/c13/script.go. -/
namespace ScVerif.C13
open ScVerif.Line

def parseMD? (s : String) : Option MD :=
  if s = "" || s = "-" then some []
  else (s.splitOn "+").mapM fun kv =>
    match kv.splitOn "=" with
    | [k, v] => if k = "" then none else some (k, v)
    | _ => none

def parseList? {α : Type} (f : String → Option α) (s : String) : Option (List α) :=
  if s = "" || s = "-" then some [] else (s.splitOn ",").mapM f

def parseSOp? (t : String) : Option SOp :=
  match t.toList with
  | 'H' :: r => (parseMD? (String.ofList r)).map SOp.setHeader
  | 'S' :: r => (parseMD? (String.ofList r)).map SOp.sendHeader
  | 'T' :: r => (parseMD? (String.ofList r)).map SOp.setTrailer
  | 'M' :: r => (parseNat? (String.ofList r)).map SOp.send
  | ['R'] => some .recv
  | ['W'] => some .wait
  | _ => none

/-- Handler ops of the scripted server: the plain ops, and `E` = SetHeader(request metadata). -/
def parseHOp? (t : String) : Option HOp :=
  if t = "E" then some .echoIn else (parseSOp? t).map HOp.op

/-- The caller's outgoing metadata: `~` = none at all, `-` = present and empty. -/
def parseOut? (s : String) : Option (Option MD) :=
  if s = "~" then some none else (parseMD? s).map some

def parseCtxItem? (c : CallerCtx) (t : String) : Option CallerCtx :=
  match t.toList with
  | 'I' :: r => (parseMD? (String.ofList r)).map fun md => { c with incoming := some md }
  | ['D'] => some { c with deadline := true }
  | ['P'] => some { c with values := true }
  -- `K<n>` / `A<n>`: the call's context (an ancestor of it) ends WITH A CAUSE when the script cancels it / lets its
  -- deadline pass.  The cause does not enter the transcript (`C13_ended_context_status_of_first_end`).
  | ['K', n] | ['A', n] => if n.isDigit then some c else none
  | _ => none

/-- The caller's context besides the outgoing metadata: `-` or comma separated `I<md>` (incoming
metadata), `D` (a far deadline), `P` (peer and an application value), `K<n>` / `A<n>` (ends with a cause). -/
def parseCtx? (s : String) : Option CallerCtx :=
  if s = "" || s = "-" then some {} else (s.splitOn ",").foldlM parseCtxItem? {}

def parseCOp? (t : String) : Option COp :=
  match t.toList with
  | 's' :: r => (parseNat? (String.ofList r)).map COp.send
  | ['c'] => some .closeSend
  | ['r'] => some .recv
  | ['h'] => some .header
  | ['t'] => some .trailer
  | ['x'] => some (.abort .cancel)
  | ['d'] => some (.abort .deadline)
  | _ => none

def parseCodeMsg? (r : List Char) : Option (Nat × String) :=
  match (String.ofList r).splitOn ":" with
  | [c, m] => (parseNat? c).map (fun n => (n, m))
  | _ => none

/-- What the handler returns, as an error VALUE (harness/cmd/c13/script.go `parseFin`): `OK`, `E<code>:<w>` a status
error, `P<w>` a plain error, `V<code>:<w>` a status error wrapped with `fmt.Errorf("w: %w")`, `U<code>:<w>` an own
error type with text `w` around a wrapped status error, `CX|CD` a context error, `KX|KD` a wrapped one, `Z` io.EOF,
`Y` a wrapped io.EOF. -/
def parseErr? (t : String) : Option (Option GoErr) :=
  if t = "OK" then some none
  else if t = "CX" then some (some (.ctx .cancel))
  else if t = "CD" then some (some (.ctx .deadline))
  else if t = "KX" then some (some (GoErr.errorf "w: " (.ctx .cancel)))
  else if t = "KD" then some (some (GoErr.errorf "w: " (.ctx .deadline)))
  else if t = "Z" then some (some .eof)
  else if t = "Y" then some (some (GoErr.errorf "w: " .eof))
  else match t.toList with
    | 'P' :: r => some (some (.plain (String.ofList r)))
    | 'E' :: r => (parseCodeMsg? r).map fun p => some (.status p.1 p.2)
    | 'V' :: r => (parseCodeMsg? r).map fun p => some (GoErr.errorf "w: " (.status p.1 p.2))
    | 'U' :: r => (parseCodeMsg? r).map fun p => some (.wrap p.2 (GoErr.errorf "w: " (.status p.1 "inner")))
    | _ => none

def parseShape? : String → Option Shape
  | "unary" => some .unary
  | "unaryS" => some .unaryS
  | "sstream" => some .sstream
  | "cstream" => some .cstream
  | "bidi" => some .bidi
  | _ => none

/-- Stable insertion (before the first strictly greater key... of a list built from the right). -/
def insertKV (p : String × String) : MD → MD
  | [] => [p]
  | q :: r => if q.1 < p.1 then q :: insertKV p r else p :: q :: r

/-- Metadata sorted by key, the values of one key in join order (as the harness prints a map). -/
def canonMD (md : MD) : MD := md.foldr insertKV []

def showMD (md : MD) : String :=
  "{" ++ "+".intercalate ((canonMD md).map fun kv => kv.1 ++ "=" ++ kv.2) ++ "}"

def showAbort : Abort → String
  | .cancel => "X"
  | .deadline => "D"

def showEv : Ev → String
  | .sent => "ok"
  | .sendErr => "serr"
  | .closed => "cl"
  | .msg m => "m" ++ toString m
  | .fin c m => if c = 1 then "X" else if c = 4 then "D" else "F" ++ toString c ++ ":" ++ m
  | .aborted a => showAbort a
  | .hdr md => "h" ++ showMD md
  | .trl md => "t" ++ showMD md
  | .did .cancel => "x"
  | .did .deadline => "d"
  | .stuck => "stuck"

def showSEv : SEv → String
  | .incoming md => "in" ++ showMD md
  | .deadline => "dl"
  | .outgoing md => "o" ++ showMD md
  | .got m => "g" ++ toString m
  | .eof => "eof"
  | .hErr => "Herr"
  | .sErr => "Serr"
  | .abort => "abort"
  | .left => "left"

def showTranscript (t : Transcript) : String :=
  ",".intercalate (t.client.map showEv) ++ "|" ++ ",".intercalate (t.server.map showSEv)

/-- The set of possible client transcripts, `;`-separated, duplicates removed. -/
def showRuns (rs : List (List Ev)) : String :=
  ";".intercalate ((rs.map fun evs => ",".intercalate (evs.map showEv)).eraseDups)

def showOpen : Open → String
  | .ok => "ok"
  | .unimplemented => "Unimplemented"
  | .internal => "Internal"
  | .ctxEnded .cancel => "Canceled"
  | .ctxEnded .deadline => "DeadlineExceeded"

/-- The cause kinds of the harness: a plain error, a status error, an error wrapping the OTHER context error. -/
def causeKind? (a : Abort) : Char → Option GoErr
  | '0' => some (.plain "operator gave up")
  | '1' => some (.status 5 "gone")
  | '2' => some (GoErr.errorf "upstream: " (.ctx (match a with | .cancel => .deadline | .deadline => .cancel)))
  | _ => none

/-- State of the caller's context when a call is opened: `live`, or `cancel` / `deadline`, optionally `+K<n>` (the
context itself ended with cause kind n) or `+A<n>` (an ancestor did; the context's own plain cancel follows). -/
def parsePre? (pre : String) : Option CtxState :=
  match pre.splitOn "+" with
  | ["live"] => some (ctxRun [])
  | [b] => (parseAbortName? b).map fun a => ctxRun [⟨a, none⟩]
  | [b, k] => do
    let a ← parseAbortName? b
    match k.toList with
    | ['K', n] => (causeKind? a n).map fun c => ctxRun [⟨a, some c⟩]
    | ['A', n] => (causeKind? a n).map fun c => ctxRun [⟨a, some c⟩, ⟨.cancel, none⟩]
    | _ => none
  | _ => none
where
  parseAbortName? : String → Option Abort
    | "cancel" => some .cancel
    | "deadline" => some .deadline
    | _ => none

/-- One end of the context chain as the harness writes it: `c` / `d` (cancel func called / deadline passed) followed
by the cause kind `0`..`2` or `-` (no cause given). -/
def parseCtxEnd? (t : String) : Option CtxEnd :=
  match t.toList with
  | [b, k] => do
    let a ← (match b with | 'c' => some Abort.cancel | 'd' => some Abort.deadline | _ => none)
    if k = '-' then pure ⟨a, none⟩ else (causeKind? a k).map fun c => ⟨a, some c⟩
  | _ => none

def showFin : Fin → String
  | .ok => "OK"
  | .status c m => codeName c ++ ":" ++ m
  | .plain m => "P:" ++ m

/-- `ctx.Err()` class and `context.Cause(ctx).Error()` of the call's context. -/
def showCtxState : CtxState → String
  | none => "live"
  | some (.cancel, c) => "X/" ++ c.text
  | some (.deadline, c) => "D/" ++ c.text

def handleCall (op sh out srv fin cli reuse ctx : String) : Option String := do
  let reuse ← parseBool? reuse
  let shape ← parseShape? sh
  let out ← parseOut? out
  let hs ← parseList? parseHOp? srv
  let err ← parseErr? fin
  let cs ← parseList? parseCOp? cli
  let ctx0 ← parseCtx? ctx
  -- the caller's context: outgoing metadata, and a deadline if the client script waits for one
  let ctx : CallerCtx := { ctx0 with outgoing := out, deadline := ctx0.deadline || hasDeadlineOp cs }
  -- what each transport makes of the handler's error value (Errs.lean)
  let finW := Wrap.handlerFin err
  let finL := Wrap.handlerFinCfg false err
  let finG := GrpcRef.handlerFin err
  let hs' := fun (sc : SrvCtx) => hs.map (HOp.resolve sc)
  match op with
  | "wrap" => pure (showTranscript (Wrap.runCtx shape ctx (scripted hs finW) cs reuse))
  | "legacy" => pure (showTranscript (Wrap.runCtxCfg Cfg.legacy shape ctx (scripted hs finL) cs reuse))
  | "grpc" => pure (showTranscript (GrpcRef.runCtx shape ctx (scripted hs finG) cs reuse))
  | "wf" => pure (showBool (WFScripts shape (hs' (GrpcRef.serverCtx ctx)) finG cs))
  | "async" => pure (showRuns (Wrap.asyncRuns Cfg.current shape (hs' (Wrap.startStream Cfg.current ctx)) finW cs reuse))
  | "asynclegacy" => pure (showRuns (Wrap.asyncRuns Cfg.legacy shape (hs' (Wrap.startStream Cfg.legacy ctx)) finL cs reuse))
  | _ => none

/-- One set-up step on a fresh `ClientServerStream` (harness/cmd/c13/selecttie.go): `H<md>` SetHeader, `S<md>`
SendHeader, `T<md>` SetTrailer, `x` / `d` the caller's context ends, `C<fin>` Close(what the handler returned). -/
def applySetup (w : Wrap.State) (t : String) : Option Wrap.State :=
  match t.toList with
  | ['x'] => some (Wrap.abort w .cancel)
  | ['d'] => some (Wrap.abort w .deadline)
  | 'H' :: r => (parseMD? (String.ofList r)).map fun md => (Wrap.setHeader Cfg.current w md).1
  | 'S' :: r => (parseMD? (String.ofList r)).map fun md => (Wrap.sendHeader w md).1
  | 'T' :: r => (parseMD? (String.ofList r)).map fun md => Wrap.setTrailer w md
  | 'C' :: r => (parseErr? (String.ofList r)).map fun e => Wrap.close Cfg.current w (Wrap.handlerFin e)
  | _ => none

def showRes : Wrap.Res → String
  | .msg m => "m" ++ toString m
  | .ev e => showEv e
  | .deliver => "deliver"

def showSRes : Wrap.SRes → String
  | .sent => "ok"
  | .msg m => "m" ++ toString m
  | .eof => "eof"
  | .ctxErr a => showAbort a

/-- What Invoke handed back: `<RecvMsg's result>/h<header option>/t<trailer option>`; `<error>` followed by two dashes instead of the
options when SendMsg failed (collectMetadata not run). -/
def showIRes : Wrap.IRes → String
  | .early e => showEv e ++ "/-/-"
  | .full r h t => showRes r ++ "/h" ++ showMD h ++ "/t" ++ showMD t

def showResults (rs : List String) : String :=
  if rs.isEmpty then "blocks" else ";".intercalate rs.eraseDups

/-- `select <recv|await|send|header|trailer> <setup ops|-> <offer n|-> <taker 0|1>`: what the client half's call can
return on a stream brought into a state by the set-up ops (every ready select case; `blocks` if none). -/
def handleSelect (call setup offer taker : String) : Option String := do
  let ops := if setup = "-" || setup = "" then [] else setup.splitOn ","
  -- `c` = the client has called CloseSend (no state of the shared record: clientSend is closed)
  let half := ops.contains "c"
  let w ← (ops.filter (· != "c")).foldlM applySetup ({} : Wrap.State)
  let offer ← (if offer = "-" then some none else (parseNat? offer).map some)
  let taker ← parseBool? taker
  -- a handler inside SendMsg has run `sendHeaderIfNeeded` before it offers the message
  let w := if offer.isSome then Wrap.sendHeaderIfNeeded w else w
  let c : Wrap.Chans := ⟨w, offer, taker⟩
  match call with
  -- the handler's half: `offer` = the client is inside SendMsg, `taker` = the client is inside RecvMsg
  | "ssend" => pure (showResults ((Wrap.ssendResults ⟨Wrap.sendHeaderIfNeeded w, none, taker, half⟩).map showSRes))
  | "srecv" => pure (showResults ((Wrap.srecvResults ⟨w, offer, taker, half⟩).map showSRes))
  | "recv" => pure (showResults ((Wrap.recvResults c).map showRes))
  | "await" => pure (showResults ((Wrap.awaitResults c).map showRes))
  | "send" => pure (showResults ((Wrap.sendResults c).map showEv))
  | "header" => pure (showResults ((Wrap.headerResults w).map fun md => "h" ++ showMD md))
  | "trailer" => pure ("t" ++ showMD (Wrap.trailer w))
  -- the whole of `wrapper.Invoke` with the stream frozen in this state (Invoke.lean): the caller's goroutine inside
  -- RecvMsg (the handler has taken the request) / at the start of SendMsg
  | "invoke" => pure (showResults ((Wrap.frozen .recv c).map showIRes))
  | "invoke0" => pure (showResults ((Wrap.frozen .send c).map showIRes))
  | _ => none

def handleOpt (toks : List String) : Option String :=
  match toks with
  | ["select", call, setup, offer, taker] => handleSelect call setup offer taker
  | ["opts", hdr, trl, opts] => do
    -- `opts <header md> <trailer md> <h<addr>|t<addr>|o,...>`: the caller's variables 0..3 after collectMetadata
    let hdr ← parseMD? hdr
    let trl ← parseMD? trl
    let os ← parseList? (fun t => match t.toList with
      | 'h' :: r => (parseNat? (String.ofList r)).map CallOpt.header
      | 't' :: r => (parseNat? (String.ofList r)).map CallOpt.trailer
      | ['o'] => some (CallOpt.other 0)
      | _ => none) opts
    let v := collectMetadata hdr trl os []
    pure (";".intercalate ([0, 1, 2, 3].map fun a => match v.lookup a with
      | some md => toString a ++ "=" ++ showMD md
      | none => toString a ++ "=nil"))
  | ["unwrap", k] => do
    let k ← parseNat? k
    match unwrapFully (stack k (.plain 0)) with
    | .plain i => pure ("plain" ++ toString i)
    | .unwrapper _ => pure "wrapper"
  | ["hctx", sh, closed, aborted] => do
    -- has the handler's context ended? (state: the handler has returned / the caller's context has ended)
    let shape ← parseShape? sh
    let closed ← parseBool? closed
    let aborted ← parseBool? aborted
    let w : Wrap.State := { closed := if closed then some .ok else none, ctxErr := if aborted then some .cancel else none }
    pure (toString (Wrap.handlerCtxDone (Wrap.handlerCtxOf false shape) w) ++ "/" ++ toString (GrpcRef.handlerCtxDone w))
  | ["ctxrun", evs] => do
    let es ← (if evs = "-" then some [] else (evs.splitOn ",").mapM parseCtxEnd?)
    let st := ctxRun es
    -- the state, and the class every report site of pkg/wrap gives for it (all sites agree: checked here too)
    let reads := [CtxSite.invokeEntry, .invokeNotTaken, .newStreamEntry, .clientRecv, .clientAwaitStatus,
      .serverSendHeader, .serverSendMsg, .serverRecvMsg].map fun site => showFin (Wrap.callerReads (Wrap.siteError site st))
    pure (showCtxState st ++ " " ++ ";".intercalate reads.eraseDups)
  | ["open", via, method, cs, ss, pre] => do
    let cs ← parseBool? cs
    let ss ← parseBool? ss
    let st ← parsePre? pre
    let ctx := ctxErr st
    let o ← (match via with
      | "stream" => some (Conn.newStream testApi ctx method cs ss)
      | "invoke" => some (Conn.invoke testApi ctx method)
      | _ => none)
    -- an ended context: the class of the status the entry check builds (`Wrap.contextStatus`) is the outcome
    match Wrap.contextStatus st with
    | some s => if codeName s.1 = showOpen o then pure (showOpen o) else pure ("!status " ++ codeName s.1)
    | none => pure (showOpen o)
  | [op, sh, out, srv, fin, cli, reuse] => handleCall op sh out srv fin cli reuse "-"
  | [op, sh, out, srv, fin, cli, reuse, ctx] => handleCall op sh out srv fin cli reuse ctx
  | _ => none

def handle (toks : List String) : String := (handleOpt toks).getD "!bad-op"

end ScVerif.C13
