import ScVerif.Base.Line
/-! Driver handler for C13 (stub: replaced by the property's owner). -/
namespace ScVerif.C13

def handle (_toks : List String) : String := "!bad-op"

end ScVerif.C13
