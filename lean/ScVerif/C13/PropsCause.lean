import ScVerif.C13.Cause
import ScVerif.C13.Select
/-!
# C13 — a call on an ended context reports cancellation / deadline expiry AS SUCH, whatever the cause

Property theorems only.  The caller's context (or any ancestor) may have been ended with a cause
(`context.WithCancelCause`, `WithTimeoutCause`, `WithDeadlineCause`): `es` is ANY sequence of ends of the
context chain, each with any cause (an error tree `GoErr` of any depth) or none.  A real connection reports
`ctx.Err()`: Canceled / DeadlineExceeded.
-/
namespace ScVerif.C13

/-- **The status of a call whose context has ended is the one a real connection reports**, for every history
of the context chain and every cause. -/
theorem C13_ended_context_status_eq (es : List CtxEnd) :
    Wrap.contextStatus (ctxRun es) = GrpcRef.contextStatus (ctxRun es) := by
  cases es with
  | nil => rfl
  | cons e es =>
    rw [ctxRun_cons]
    cases h : e.abort <;> rfl

/-- **The first end decides, as such**: the status is Canceled "context canceled" / DeadlineExceeded "context
deadline exceeded" according to what ended the chain FIRST; neither its cause nor any later end (a cancel after
the deadline, an ancestor cancelled with another cause) changes it. -/
theorem C13_ended_context_status_of_first_end (e : CtxEnd) (es : List CtxEnd) :
    Wrap.contextStatus (ctxRun (e :: es)) = some (abortCode e.abort, abortText e.abort) := by
  rw [ctxRun_cons]
  cases h : e.abort <;> rfl

/-- A live context (no end yet) lets the call go on. -/
theorem C13_live_context_no_status : Wrap.contextStatus (ctxRun []) = none := rfl

/-- **The entry checks of `NewStream` and `Invoke`**: on an ended context the call fails as such — for every
service description, method name (known or not) and stream flags — and the handler is never reached. -/
theorem C13_open_on_ended_context (d : ServiceDesc) (e : CtxEnd) (es : List CtxEnd) (method : String) (cs ss : Bool) :
    Conn.newStream d (ctxErr (ctxRun (e :: es))) method cs ss = .ctxEnded e.abort ∧
    Conn.invoke d (ctxErr (ctxRun (e :: es))) method = .ctxEnded e.abort := by
  rw [ctxRun_cons]
  exact ⟨rfl, rfl⟩

/-- **Why the code does not report the cause**: `status.FromContextError(context.Cause(ctx))` gives the code a
real connection gives exactly when the first end had no cause of its own or a cause that is (wraps) the very
context error; any other cause (a plain error, a status error, the OTHER context error) changes the code. -/
theorem C13_cause_status_code_agrees_iff (e : CtxEnd) (es : List CtxEnd) :
    ((Wrap.contextStatusByCause (ctxRun (e :: es))).map (·.1) = (GrpcRef.contextStatus (ctxRun (e :: es))).map (·.1)) ↔
    (e.cause = none ∨ ∃ c, e.cause = some c ∧ c.isCtx = some e.abort) := by
  rw [ctxRun_cons]
  cases hc : e.cause with
  | none =>
    simp only [Option.getD_none, true_or, iff_true]
    cases e.abort <;> rfl
  | some c =>
    simp only [Option.getD_some, Wrap.contextStatusByCause, ctxCause, GrpcRef.contextStatus, ctxErr, Option.map_some,
      statusFromContextError, reduceCtorEq, false_or, Option.some.injEq, exists_eq_left']
    cases hi : c.isCtx with
    | none =>
      simp only [reduceCtorEq, iff_false]
      cases e.abort <;> simp [abortCode]
    | some a =>
      cases a <;> cases e.abort <;> simp [abortCode]

/-- Non-vacuity: a context cancelled with a plain cause would be reported as Unknown by the cause-based variant,
a cancel whose cause wraps `context.DeadlineExceeded` as DeadlineExceeded; the code reports Canceled for both. -/
example :
    Wrap.contextStatusByCause (ctxRun [⟨.cancel, some (.plain "operator gave up")⟩]) = some (2, "operator gave up") ∧
    Wrap.contextStatus (ctxRun [⟨.cancel, some (.plain "operator gave up")⟩]) = some (1, "context canceled") ∧
    (Wrap.contextStatusByCause (ctxRun [⟨.cancel, some (GoErr.errorf "upstream: " (.ctx .deadline))⟩])).map (·.1) = some 4 ∧
    (Wrap.contextStatus (ctxRun [⟨.cancel, some (GoErr.errorf "upstream: " (.ctx .deadline))⟩, ⟨.deadline, none⟩])).map (·.1)
      = some 1 := by decide

/-- **Every place of pkg/wrap that reports the end of the call's context reports it as such**: the entry checks of
Invoke / NewStream, Invoke's "request was not taken" branch, the client half's RecvMsg and status wait (raw context
error), the handler half's SendHeader / SendMsg / RecvMsg (status) — read the way a caller reads an error
(`errors.Is`, else `status.FromError`) each gives Canceled "context canceled" / DeadlineExceeded "context deadline
exceeded" according to the FIRST end of the context chain, for every history and every cause. -/
theorem C13_every_site_reports_context_end_as_such (site : CtxSite) (e : CtxEnd) (es : List CtxEnd) :
    Wrap.callerReads (Wrap.siteError site (ctxRun (e :: es))) = .status (abortCode e.abort) (abortText e.abort) := by
  rw [ctxRun_cons]
  cases site <;> cases h : e.abort <;> rfl

/-- **A handler that passes on the error its SendMsg / RecvMsg / SendHeader gave it** (or the raw context error)
ends the call as cancelled / deadline exceeded on both transports, whatever the cause of the end. -/
theorem C13_handler_passing_on_context_end (site : CtxSite) (e : CtxEnd) (es : List CtxEnd) :
    GrpcRef.handlerFin (Wrap.siteError site (ctxRun (e :: es))) = .status (abortCode e.abort) (abortText e.abort) ∧
    Wrap.handlerFin (Wrap.siteError site (ctxRun (e :: es))) = .status (abortCode e.abort) (abortText e.abort) := by
  rw [handlerFin_eq, ctxRun_cons]
  cases site <;> cases h : e.abort <;> exact ⟨rfl, rfl⟩

/-- Non-vacuity / necessity: at EVERY site the cause-reading variant turns a cancel with a plain cause into Unknown. -/
example : ∀ site : CtxSite,
    Wrap.callerReads (Wrap.siteErrorByCause site (ctxRun [⟨.cancel, some (.plain "operator gave up")⟩]))
      = .status 2 "operator gave up" := by
  intro site; cases site <;> rfl

/-- **The chain view is sound**: in ANY family of contexts (any "is derived from" relation `below`), under ANY
sequence of ends anywhere in the family, the state of context `k` (its `Err()` and `Cause`) is the fold over the ends
of `k` itself and of its ancestors only, in the order they happened — so every theorem above, stated for sequences
of ends of the chain, holds for the call's context inside any family (siblings, uncles, children of its own). -/
theorem C13_context_family_chain_view (below : Nat → Nat → Bool) (evs : List (Nat × CtxEnd)) (k : Nat) :
    famRun below (fun _ => none) evs k = ctxRun ((evs.filter fun ev => below ev.1 k).map (·.2)) :=
  famRun_chain below evs _ k

/-- An end of a context the call's context is not derived from (a sibling, an uncle, a child) is invisible to it. -/
theorem C13_unrelated_context_end_invisible (below : Nat → Nat → Bool) (evs : List (Nat × CtxEnd)) (n k : Nat)
    (e : CtxEnd) (h : below n k = false) :
    famRun below (fun _ => none) (evs ++ [(n, e)]) k = famRun below (fun _ => none) evs k := by
  simp [famRun, List.foldl_append, famStep, h]

/-! ### The handler's context ends with the call (a finished call leaves no goroutine behind)

A handler commonly ties helper goroutines to its context (`go func() { <-ctx.Done(); unsubscribe() }()`).  A gRPC
server ends the handler's context when the handler returns.  `w` is ANY state of the stream. -/

/-- **The handler's context ends exactly when a gRPC server's does**, for every call shape and state: when the
caller's context ends, and when the handler has returned (`Close`). -/
theorem C13_handler_context_ends_with_call (shape : Shape) (w : Wrap.State) :
    Wrap.handlerCtxDone (Wrap.handlerCtxOf false shape) w = GrpcRef.handlerCtxDone w := by
  cases shape <;> rfl

/-- Once the handler has returned its context has ended, whatever the caller does with its own context. -/
theorem C13_handler_context_ended_after_return (shape : Shape) (w : Wrap.State) (h : w.closed.isSome = true) :
    Wrap.handlerCtxDone (Wrap.handlerCtxOf false shape) w = true := by
  cases shape <;> simp [Wrap.handlerCtxOf, Wrap.handlerCtxDone, h]

/-- The handler's context is the one the stream's own blocking calls watch (`ctxDone`, Select.lean). -/
theorem C13_handler_context_is_stream_context (shape : Shape) (w : Wrap.State) :
    Wrap.handlerCtxDone (Wrap.handlerCtxOf false shape) w = Wrap.ctxDone w := by
  cases shape <;> rfl

/-- **The defect repaired in round 8** (on the code before the repair): `Invoke` handed the handler the caller's
context, so after the handler of a unary call had returned its context was still live for as long as the caller's —
for every state in which the caller's context has not ended — where a gRPC server's has ended. -/
theorem C13_legacy_unary_handler_context_outlives_call (w : Wrap.State) (hc : w.closed.isSome = true)
    (hl : w.ctxErr = none) :
    Wrap.handlerCtxDone (Wrap.handlerCtxOf true .unary) w = false ∧ GrpcRef.handlerCtxDone w = true := by
  simp [Wrap.handlerCtxOf, Wrap.handlerCtxDone, GrpcRef.handlerCtxDone, hc, hl]

/-- ... and only there: every other shape (the unary method through `NewStream` included) was right before. -/
theorem C13_legacy_handler_context_other_shapes (shape : Shape) (w : Wrap.State) (h : shape ≠ .unary) :
    Wrap.handlerCtxDone (Wrap.handlerCtxOf true shape) w = GrpcRef.handlerCtxDone w := by
  cases shape <;> first | rfl | exact absurd rfl h

/-- Non-vacuity: a finished call on a live caller context. -/
example : ∃ w : Wrap.State, w.closed.isSome = true ∧ w.ctxErr = none := ⟨{ closed := some .ok }, rfl, rfl⟩

end ScVerif.C13
