import ScVerif.C13.Opts
/-!
# C13 — the call options of a unary call (`collectMetadata`, pkg/wrap/wrap.go)

Property theorems only; every statement is for ALL option lists (any length, order, repetition, other options
interleaved), all header / trailer metadata and all prior contents of the caller's variables.
-/
namespace ScVerif.C13

/-- **Every `grpc.Header(&h)` option is served**: after the call `h` holds the header metadata, wherever the option
stands in the list and whatever else the list contains (the address is not also used for a trailer). -/
theorem C13_call_options_header_served (hdr trl : MD) (opts : List CallOpt) (v : Vars) (a : Nat)
    (h : CallOpt.header a ∈ opts) (hno : ∀ b, CallOpt.trailer b ∈ opts → b ≠ a) :
    (collectMetadata hdr trl opts v).lookup a = some hdr :=
  collect_header_aux hdr trl a opts v hno (Or.inl h)

/-- **Every `grpc.Trailer(&t)` option is served.** -/
theorem C13_call_options_trailer_served (hdr trl : MD) (opts : List CallOpt) (v : Vars) (a : Nat)
    (h : CallOpt.trailer a ∈ opts) (hno : ∀ b, CallOpt.header b ∈ opts → b ≠ a) :
    (collectMetadata hdr trl opts v).lookup a = some trl :=
  collect_trailer_aux hdr trl a opts v hno (Or.inl h)

/-- **All other call options are ignored** (the documented contract of `ServerToClient`): dropping them from the
list changes nothing. -/
theorem C13_call_options_others_ignored (hdr trl : MD) (opts : List CallOpt) (v : Vars) :
    collectMetadata hdr trl (opts.filter CallOpt.isMeta) v = collectMetadata hdr trl opts v :=
  collect_filter hdr trl opts v

/-- A variable no option names is left as it was. -/
theorem C13_call_options_untouched (hdr trl : MD) (opts : List CallOpt) (v : Vars) (a : Nat)
    (hh : CallOpt.header a ∉ opts) (ht : CallOpt.trailer a ∉ opts) :
    (collectMetadata hdr trl opts v).lookup a = v.lookup a :=
  collect_untouched hdr trl a opts v hh ht

/-- **An adapter between the caller and `Invoke` is transparent exactly as far as it forwards the options**: if what
it passes down still contains the caller's `grpc.Header` option, the caller's variable is filled; an adapter that
drops the options (passes none) leaves every variable as it was — nil for a fresh one. -/
theorem C13_adapter_must_forward_options (hdr trl : MD) (adapter : List CallOpt → List CallOpt)
    (opts : List CallOpt) (v : Vars) (a : Nat) :
    (CallOpt.header a ∈ adapter opts → (∀ b, CallOpt.trailer b ∈ adapter opts → b ≠ a) →
        (collectMetadata hdr trl (adapter opts) v).lookup a = some hdr) ∧
    (adapter opts = [] → (collectMetadata hdr trl (adapter opts) v).lookup a = v.lookup a) := by
  constructor
  · intro h hno; exact collect_header_aux hdr trl a _ v hno (Or.inl h)
  · intro h; simp [h, collectMetadata]

example : (collectMetadata [("a", "1")] [("b", "2")] [.other 0, .trailer 1, .header 0, .header 2] []).lookup 2
    = some [("a", "1")] := by decide

end ScVerif.C13
