import ScVerif.C13.InvokeLemmas
import ScVerif.C13.InvokeSrv
import ScVerif.C13.InvokeFrozen
import ScVerif.C13.InvokeInv
import ScVerif.C13.PropsSelect
/-!
# C13 — a unary call (`wrapper.Invoke`) is released by its caller's context

Property theorems only.  `step` (Invoke.lean) follows the caller's goroutine through the three `select`s Invoke
can be blocked in (`clientStream.SendMsg`, `RecvMsg`, `Header` inside `collectMetadata`), one ready case at a time;
`reach` / `runs` do so along a list of instants of the stream.  The instants are ARBITRARY (the handler and the
caller's context are not a fixed program): each theorem constrains them only by what it says — e.g. "in every
instant the caller's context has ended and the handler has not returned" for a handler busy with work that does
not watch its context.  A unary method of a generated trait wrapper is this function (Invoke.lean).

Second part: `hstep` / `hruns` (InvokeSrv.lean) follow the goroutine Invoke starts for the handler — request decode
(`ss.RecvMsg`), the server's method as steps of its own, `ss.SendMsg(reply)`, `Close` — in the same way; and
C13_invoke_agrees_with_rendezvous_reads connects the select-level Invoke with the deterministic reads
`Wrap.terminal` / `Wrap.header` / `Wrap.trailer` the rendezvous model (`Wrap.run`) uses for the client ops `r,h,t`.
-/
namespace ScVerif.C13
open Wrap

/-- **No blocking call of Invoke blocks once the stream's context has ended** — the caller cancelled, its deadline
passed, or the handler returned —, wherever the caller's goroutine is and whatever the handler is doing. -/
theorem C13_invoke_never_blocks_once_context_ended (pc : IPc) (c : Chans) (hp : pc.isDone = false)
    (hd : ctxDone c.w = true) : step pc c ≠ [] :=
  step_ne_nil hd hp

/-- **The caller of a unary call is released when its context ends, and with that as the outcome.**  The handler has
not returned and is not answering (it is busy with work of its own, for as long as it likes): along EVERY sequence
of such instants — any number of them, any header / trailer metadata staged or sent meanwhile, a handler taking
the request or not —, from the start of Invoke or from inside its RecvMsg, whatever Invoke returns is the caller's
own cancellation / deadline expiry as such: never a reply, never a status of the handler, never a clean end. -/
theorem C13_invoke_released_as_cancelled (a : Abort) (cs : List Chans)
    (h : ∀ c ∈ cs, c.w.ctxErr = some a ∧ c.w.closed = none ∧ c.offer = none)
    (pc : IPc) (hpc : pc = .send ∨ pc = .recv) (r : IRes) (hr : IPc.done r ∈ reach pc cs) :
    r = .early (.aborted a) ∨ ∃ hd tr, r = .full (.ev (.aborted a)) hd tr := by
  have hrel : Releasing a pc := by rcases hpc with rfl | rfl <;> trivial
  have := reach_releasing cs h pc hrel _ hr
  cases r with
  | early e => left; simpa [Releasing] using this
  | full r hd tr => right; exact ⟨hd, tr, by simpa [Releasing] using this⟩

/-- **… and it is released at once**: with the context ended, three scheduling points of the caller's goroutine
(one per blocking call: SendMsg, RecvMsg, Header) are enough for Invoke to have returned, on every path — no step
of the handler is needed. -/
theorem C13_invoke_returns_within_three_selects (c₁ c₂ c₃ : Chans)
    (h₁ : ctxDone c₁.w = true) (h₂ : ctxDone c₂.w = true) (h₃ : ctxDone c₃.w = true) (pc : IPc) :
    ∀ pc' ∈ runs pc [c₁, c₂, c₃], pc'.isDone = true := by
  apply runs_complete
  · intro c hc
    simp at hc
    rcases hc with rfl | rfl | rfl <;> assumption
  · cases pc <;> simp [IPc.rank]

/-- **A handler parked after taking the request, the caller cancels (or its deadline passes)**: with the stream
frozen in that state Invoke's RecvMsg returns the abort as such, and the `grpc.Header` call option is given the
header metadata if it had been SENT and nothing if it had only been staged (what real gRPC has on the client at
that moment). -/
theorem C13_invoke_parked_handler (a : Abort) (c : Chans) (ha : c.w.ctxErr = some a) (hc : c.w.closed = none)
    (ho : c.offer = none) :
    frozen .recv c ≠ [] ∧
    ∀ r ∈ frozen .recv c, r = .full (.ev (.aborted a)) (if c.w.headerC then c.w.header else []) c.w.trailer := by
  have hp : Parked a c := ⟨ha, hc, ho⟩
  have hrecv : step .recv c = [.collect (.ev (.aborted a))] ∨
      step .recv c = [.collect (.ev (.aborted a)), .collect (.ev (.aborted a))] := by
    simp [step, recvResults, ctxDone, ha, hc, ho, ctxErrEv]
  constructor
  · -- some path returns
    have hne : step .recv c ≠ [] := step_ne_nil hp.ctxDone rfl
    have hne2 : step (.collect (.ev (.aborted a))) c ≠ [] := step_ne_nil hp.ctxDone rfl
    obtain ⟨q, hq⟩ := List.exists_mem_of_ne_nil _ hne2
    have hq' := hq
    simp only [step, List.mem_map] at hq'
    obtain ⟨md, _, rfl⟩ := hq'
    intro hnil
    have : IRes.full (.ev (.aborted a)) md c.w.trailer ∈ frozen .recv c := by
      rw [mem_frozen]
      simp only [runs, hne, if_false, List.mem_flatMap]
      refine ⟨.collect (.ev (.aborted a)), ?_, ?_⟩
      · rcases hrecv with h | h <;> simp [h]
      · refine ⟨_, by simp [hne2]; exact hq, ?_⟩
        simp [step]
    simp [hnil] at this
  · intro r hr
    rw [mem_frozen] at hr
    have runs_cons : ∀ (pc : IPc) (cs : List Chans), step pc c ≠ [] → ∀ x, x ∈ runs pc (c :: cs) →
        ∃ q ∈ step pc c, x ∈ runs q cs := by
      intro pc cs hne x hx
      simp only [runs, hne, if_false, List.mem_flatMap] at hx
      exact hx
    have hne : step .recv c ≠ [] := step_ne_nil hp.ctxDone rfl
    have hne2 : step (.collect (.ev (.aborted a))) c ≠ [] := step_ne_nil hp.ctxDone rfl
    obtain ⟨q₁, hq₁, h1⟩ := runs_cons .recv [c, c] hne _ hr
    have hq₁' : q₁ = .collect (.ev (.aborted a)) := by
      rcases hrecv with h | h <;> simp [h] at hq₁ <;> exact hq₁
    subst hq₁'
    obtain ⟨q₂, hq₂, h2⟩ := runs_cons _ [c] hne2 _ h1
    simp only [step, List.mem_map] at hq₂
    obtain ⟨md, hmd, rfl⟩ := hq₂
    rw [runs_done _ rfl] at h2
    simp at h2
    rw [h2, headerResults_parked hp md hmd]

/-- **What the goroutine of Invoke is for.**  In the design that runs the handler of a unary call on the caller's
own goroutine (`directCall`: not the code) the caller has no result for as long as the handler has not returned —
in EVERY such state, also when the caller's context has long ended; Invoke (the code) returns in every one of those
(C13_invoke_never_blocks_once_context_ended).  The witness: the caller cancelled, the handler is parked. -/
theorem C13_direct_call_holds_caller :
    (∀ c : Chans, c.w.closed = none → directCall c = []) ∧
    ∃ c : Chans, ctxDone c.w = true ∧ directCall c = [] ∧
      frozen .recv c = [.full (.ev (.aborted .cancel)) [] []] := by
  refine ⟨fun c h => by simp [directCall, h], ⟨{ ctxErr := some .cancel }, none, false⟩, by decide⟩

/-- … and a design that only relabels the direct call's result afterwards ("the caller's context has ended, so
report Canceled") gives the right CODE once the handler does return: the end results agree, which is why only the
moment of the return tells the two apart. -/
theorem C13_direct_call_same_code_when_handler_returns (c : Chans) (a : Abort) (err : Fin)
    (ha : c.w.ctxErr = some a) (hc : c.w.closed = some err) : directCall c = [.aborted a] := by
  simp [directCall, ha, hc]

/-- **`collectMetadata` never blocks.**  Once Invoke's RecvMsg has returned — with the reply, the handler's status or
the caller's abort — the `Header()` read for the `grpc.Header` call option has a ready case in every later instant:
a handler offers its reply only after `sendHeaderIfNeeded`, which closes the header latch unless the stream's context
has ended (`OfferedAfterFlush`: established by `serverStream.SendMsg` itself, C13_handler_offers_only_after_flush), a
terminal result means the stream's context has ended, and neither is ever undone. -/
theorem C13_invoke_collect_never_blocks (c c' : Chans) (r : Res) (hinv : OfferedAfterFlush c)
    (hl : Later c c') (hr : IPc.collect r ∈ step .recv c) : step (.collect r) c' ≠ [] := by
  have : c.w.headerC = true ∨ ctxDone c.w = true := by
    simp only [step, List.mem_map] at hr
    obtain ⟨r', hr', _⟩ := hr
    cases hd : ctxDone c.w
    · left
      cases hcl : c.w.closed with
      | some err => simp [ctxDone, hcl] at hd
      | none =>
        cases ho : c.offer with
        | none => simp [recvResults, hd, hcl, ho] at hr'
        | some m => exact (hinv (by simp [ho])).resolve_right (by simp [hd])
    · right; rfl
  rcases this with h | h
  · simp [step, headerResults, hl.1 h]
  · simp [step, headerResults, hl.2 h]

/-- The hypothesis of C13_invoke_collect_never_blocks is what the code of `serverStream.SendMsg` establishes: in every
state a handler can be offering a message in (`sendHeaderIfNeeded` has run, its error ignored), the header latch is
closed or the stream's context has ended — since 1e9d1bd `SendHeader` refuses on an ended context, so the latch may
legitimately still be open there, and Header() then takes its context case. -/
theorem C13_handler_offers_only_after_flush (w : State) (offer : Option Nat) (tk : Bool) :
    OfferedAfterFlush ⟨sendHeaderIfNeeded w, offer, tk⟩ :=
  offeredAfterFlush_of_sendMsg w offer tk

/-- … and its other hypothesis (`Later`: the stream only moves forward) holds for everything that can happen to the
shared state: no SetHeader / SendHeader / SetTrailer / flush of the handler half, no end of the caller's context and
no `Close` re-opens the header latch or revives an ended context (any channel activity alongside). -/
theorem C13_stream_only_moves_forward (w : State) (m : Move) (o o' : Option Nat) (t t' : Bool) :
    Later ⟨w, o, t⟩ ⟨m.apply w, o', t'⟩ :=
  Move.forward w m o o' t t'

/-- **A handler that has returned an error: the caller gets exactly that status**, along every sequence of instants
after the return with the caller's context live — whether the request was still taken or not. -/
theorem C13_invoke_gives_handler_status (err : Fin) (cs : List Chans)
    (h : ∀ c ∈ cs, c.w.closed = some err ∧ c.w.ctxErr = none) (r : IRes) (hr : IPc.done r ∈ reach .send cs) :
    r = .early (closeErrEv err) ∨ ∃ hd tr, r = .full (.ev (closeErrEv err)) hd tr := by
  -- the invariant along the trace
  let Good : IPc → Prop := fun
    | .send => True
    | .recv => True
    | .collect r => r = .ev (closeErrEv err)
    | .done (.early e) => e = closeErrEv err
    | .done (.full r _ _) => r = .ev (closeErrEv err)
  have hstep : ∀ c, (c.w.closed = some err ∧ c.w.ctxErr = none) → ∀ pc pc', Good pc → pc' ∈ step pc c → Good pc' := by
    intro c ⟨hcl, ha⟩ pc pc' hg hs
    cases pc with
    | send =>
      simp only [step, List.mem_map] at hs
      obtain ⟨e, _, rfl⟩ := hs
      by_cases he : e = .sent <;> simp [he, Good, sendFailed, ha, hcl]
    | recv =>
      simp only [step, List.mem_map] at hs
      obtain ⟨r', hr', rfl⟩ := hs
      simp [recvResults, ctxDone, hcl] at hr'
      simp [Good, hr']
    | collect r' =>
      simp only [step, List.mem_map] at hs
      obtain ⟨md, _, rfl⟩ := hs
      exact hg
    | done r' => simp [step] at hs
  have hreach : ∀ cs : List Chans, (∀ c ∈ cs, c.w.closed = some err ∧ c.w.ctxErr = none) →
      ∀ pc, Good pc → ∀ pc' ∈ reach pc cs, Good pc' := by
    intro cs
    induction cs with
    | nil => intro _ pc hp pc' h; simp [reach] at h; exact h ▸ hp
    | cons c cs ih =>
      intro hcs pc hp pc' h
      simp only [reach, List.mem_flatMap] at h
      obtain ⟨q, hq, hq'⟩ := h
      have hcs' := fun x hx => hcs x (List.mem_cons_of_mem _ hx)
      rcases List.mem_cons.mp hq with rfl | hq
      · exact ih hcs' _ hp _ hq'
      · exact ih hcs' _ (hstep c (hcs c (List.mem_cons_self ..)) _ _ hp hq) _ hq'
  have := hreach cs h .send trivial _ hr
  cases r with
  | early e => left; simpa [Good] using this
  | full r hd tr => right; exact ⟨hd, tr, by simpa [Good] using this⟩

/-- **The reply**: the handler is offering its reply `m` (context live, not returned): Invoke's RecvMsg takes it, and
`collectMetadata` then reads the sent header and the trailer of that instant. -/
theorem C13_invoke_reply (c : Chans) (m : Nat) (hc : c.w.closed = none) (ha : c.w.ctxErr = none)
    (ho : c.offer = some m) (hinv : OfferedAfterFlush c) :
    step .recv c = [.collect (.msg m)] ∧
    step (.collect (.msg m)) c = [.done (.full (.msg m) c.w.header c.w.trailer)] := by
  have hh : c.w.headerC = true := (hinv (by simp [ho])).resolve_right (by simp [ctxDone, hc, ha])
  simp [step, recvResults, headerResults, ctxDone, hc, ha, ho, hh]

/-- Non-vacuity: the instants of `C13_invoke_released_as_cancelled` exist and Invoke does return along them
(header a=1 only staged, the deadline passed while the handler is parked, the request taken on the way). -/
example :
    (runs .send [⟨{ header := [("a", "1")], ctxErr := some .deadline }, none, true⟩,
                 ⟨{ header := [("a", "1")], ctxErr := some .deadline }, none, false⟩,
                 ⟨{ header := [("a", "1")], ctxErr := some .deadline }, none, false⟩]).contains
      (.done (.full (.ev (.aborted .deadline)) [] [])) = true := by
  decide

/-- **No goroutine is left behind a unary call whose caller has gone.**  The stream's context has ended (the caller
cancelled, its deadline passed): wherever the handler goroutine is — decoding the request, anywhere in work of its
own that takes `n` more steps and never looks at its context, handing over its reply — it reaches `Close` within
its own remaining steps plus its two blocking calls, on every path: neither `ss.RecvMsg` nor `ss.SendMsg(res)`
waits for a caller that is no longer there. -/
theorem C13_invoke_handler_goroutine_ends (cs : List SChans) (h : ∀ c ∈ cs, ctxDone c.w = true) (pc : HPc)
    (hn : pc.rank ≤ cs.length) : ∀ pc' ∈ hruns pc cs, pc'.isClosed = true :=
  hruns_complete cs h pc hn

/-- **The late reply is dropped, and the handler is told why.**  The caller's context ended (`a`) and the caller is
not inside RecvMsg any more (Invoke has returned): the `ss.SendMsg(res)` of a handler that finishes afterwards has
exactly one ready case — the context's — and the goroutine closes the stream with Canceled / DeadlineExceeded;
nobody is handed the reply. -/
theorem C13_invoke_late_reply_dropped (c : SChans) (a : Abort) (m : Nat) (ha : c.w.ctxErr = some a)
    (ht : c.cTaker = false) : hstep (.send m) c = [.closed (cancelFin a)] := by
  simp [hstep, ssendResults, ctxDone, srvCtxErr, ha, ht]

/-- With the caller still there (context live, inside RecvMsg) the reply is handed over and the call ends OK. -/
theorem C13_invoke_reply_handed_over (c : SChans) (m : Nat) (ha : c.w.ctxErr = none) (hc : c.w.closed = none)
    (ht : c.cTaker = true) : hstep (.send m) c = [.closed .ok] := by
  simp [hstep, ssendResults, ctxDone, ha, hc, ht]

/-- **Invoke reads what the rendezvous model reads.**  In every state of the stream in which the handler is not
offering a message, whatever Invoke (inside RecvMsg, stream kept in that state) hands back — on every combination
of ready select cases — is the terminal event, the header and the trailer the deterministic functions of the
rendezvous model give for the client ops `r`, `h`, `t` in that state; and when Invoke does not return, the
rendezvous model's RecvMsg has no terminal event either (it blocks too). -/
theorem C13_invoke_agrees_with_rendezvous_reads (w : State) (tk : Bool) :
    (∀ r ∈ frozen .recv ⟨w, none, tk⟩, ∃ e md, terminal w = some e ∧ header w = some md ∧
      r = .full (.ev e) md (trailer w)) ∧
    (frozen .recv ⟨w, none, tk⟩ = [] → terminal w = none) := by
  constructor
  · intro r hr
    obtain ⟨r', hr', md, hmd, rfl⟩ := mem_frozen_recv hr
    have h1 := (C13_recv_select_agrees_with_terminal w tk).1 r' hr'
    have h2 := (C13_header_select_agrees w).1 md hmd
    cases ht : terminal w with
    | none => simp [ht] at h1
    | some e =>
      simp [ht] at h1
      exact ⟨e, md, rfl, h2.symm, by simp [h1, trailer]⟩
  · intro hnil
    -- if RecvMsg had a terminal event the context has ended, and then Invoke returns
    cases ht : terminal w with
    | none => rfl
    | some e =>
      exfalso
      have hd : ctxDone w = true := by
        cases hc : w.closed <;> cases ha : w.ctxErr <;> simp_all [terminal, ctxDone]
      have hall := C13_invoke_returns_within_three_selects ⟨w, none, tk⟩ ⟨w, none, tk⟩ ⟨w, none, tk⟩ hd hd hd .recv
      have hne : runs .recv [⟨w, none, tk⟩, ⟨w, none, tk⟩, ⟨w, none, tk⟩] ≠ [] := runs_ne_nil _ _
      obtain ⟨q, hq⟩ := List.exists_mem_of_ne_nil _ hne
      have hqd := hall q hq
      cases q with
      | done r =>
        have : r ∈ frozen .recv ⟨w, none, tk⟩ := mem_frozen.mpr hq
        simp [hnil] at this
      | _ => simp [IPc.isDone] at hqd

/-- Non-vacuity: a handler with three steps of its own work ahead, the caller cancelled. -/
example : hruns (.work 3 7 .ok) (List.replicate 5 ⟨{ ctxErr := some .cancel }, none, false, true⟩) =
    [.closed (cancelFin .cancel)] := by decide

end ScVerif.C13
