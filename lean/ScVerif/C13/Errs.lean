import ScVerif.C13.Ctx
/-
C13 — the error VALUE a handler returns, and what each transport makes of it.

A handler returns a Go `error`.  Which status the call ends with is decided from the value's shape:

* a real gRPC server (grpc-go `processUnaryRPC` / `processStreamingRPC`):
  `appStatus, ok := status.FromError(appErr); if !ok { appStatus = status.FromContextError(appErr) }`
  — a status error keeps its status; an error that WRAPS a status error (reachable through `Unwrap`,
  `errors.As`) keeps that status' code with the outermost error's text as the message; a context error
  (`errors.Is`) becomes Canceled / DeadlineExceeded; anything else — `io.EOF` included — is Unknown;
* the wrapper (pkg/wrap): the handler goroutine hands the value to `ClientServerStream.Close`, the client's
  `RecvMsg` returns it from `closeErrLocked()` — where `io.EOF` is the sentinel for "closed without an error", so
  a stored `io.EOF` is reported as Unknown "EOF" —
  and the caller reads the value the way every gRPC caller does (`status.FromError` / `status.Code`;
  cancellation and deadline expiry as such, `errors.Is`).

`GoErr` is the error tree as far as those functions look at it: a chain of wrappers (any type with
`Error()` and `Unwrap()`: `fmt.Errorf("…%w")`, an application's own type) around a leaf.
-/
namespace ScVerif.C13

inductive GoErr where
  | status (code : Nat) (msg : String)     -- status.Error(code, msg): implements GRPCStatus()
  | ctx (a : Abort)                        -- context.Canceled / context.DeadlineExceeded
  | eof                                    -- io.EOF
  | plain (msg : String)                   -- errors.New(msg), any leaf error type the packages do not know
  | wrap (text : String) (cause : GoErr)   -- Error() = text, Unwrap() = cause
  deriving DecidableEq, Repr

/-- `codes.Code.String()` -/
def codeName : Nat → String
  | 0 => "OK" | 1 => "Canceled" | 2 => "Unknown" | 3 => "InvalidArgument" | 4 => "DeadlineExceeded"
  | 5 => "NotFound" | 6 => "AlreadyExists" | 7 => "PermissionDenied" | 8 => "ResourceExhausted"
  | 9 => "FailedPrecondition" | 10 => "Aborted" | 11 => "OutOfRange" | 12 => "Unimplemented"
  | 13 => "Internal" | 14 => "Unavailable" | 15 => "DataLoss" | 16 => "Unauthenticated"
  | n => "Code(" ++ toString n ++ ")"

def abortCode : Abort → Nat
  | .cancel => 1
  | .deadline => 4

def abortText : Abort → String
  | .cancel => "context canceled"
  | .deadline => "context deadline exceeded"

/-- `err.Error()` -/
def GoErr.text : GoErr → String
  | .status c m => "rpc error: code = " ++ codeName c ++ " desc = " ++ m
  | .ctx a => abortText a
  | .eof => "EOF"
  | .plain m => m
  | .wrap t _ => t

/-- `fmt.Errorf(prefix + "%w", e)` -/
def GoErr.errorf (pre : String) (e : GoErr) : GoErr := .wrap (pre ++ e.text) e

/-- `errors.As(err, &grpcstatus)`: the first error of the chain that implements `GRPCStatus()`. -/
def GoErr.findStatus : GoErr → Option (Nat × String)
  | .status c m => some (c, m)
  | .wrap _ e => e.findStatus
  | _ => none

/-- `errors.Is(err, context.DeadlineExceeded)` / `errors.Is(err, context.Canceled)`. -/
def GoErr.isCtx : GoErr → Option Abort
  | .ctx a => some a
  | .wrap _ e => e.isCtx
  | _ => none

/-- `errors.Is(err, io.EOF)` is not what the wrapper asks: `closeErrLocked` and the callers compare with `==`. -/
def GoErr.isEOF : GoErr → Bool
  | .eof => true
  | _ => false

/-- `status.FromError(err)` for a non-nil error: the status and whether the error "is" a status error.
(A status leaf is returned as it is; a wrapped one gives its code with the whole text as the message.) -/
def statusFromError (e : GoErr) : (Nat × String) × Bool :=
  match e with
  | .status c m => ((c, m), true)
  | e =>
    match e.findStatus with
    | some (c, _) => ((c, e.text), true)
    | none => ((2, e.text), false)

/-- `status.FromContextError(err)` for a non-nil error. -/
def statusFromContextError (e : GoErr) : Nat × String :=
  match e.isCtx with
  | some a => (abortCode a, e.text)
  | none => (2, e.text)

/-- The outermost-only test `err.(interface{ GRPCStatus() })` (what `errors.As` replaced). -/
def GoErr.isStatusLeaf : GoErr → Bool
  | .status _ _ => true
  | _ => false

namespace GrpcRef

/-- grpc-go's server: the status written to the trailers for what the handler returned. -/
def handlerFin : Option GoErr → Fin
  | none => .ok
  | some e =>
    if (statusFromError e).2 then .status (statusFromError e).1.1 (statusFromError e).1.2
    else .status (statusFromContextError e).1 (statusFromContextError e).2

end GrpcRef

namespace Wrap

/-- `ClientServerStream.Close(err)` stores the error; `closeErrLocked()` gives `io.EOF` when none is stored.
`eofFails` (the code now, 1e87efa + 0d02060): a stored `io.EOF` is reported by `closeErrLocked()` as Unknown "EOF" —
`io.EOF` is the client half's sentinel for a clean end, a handler that returns it has failed.  Result: the error
value `RecvMsg` returns at the end of the call (`none` = `io.EOF`, the clean end). -/
def closeErr (eofFails : Bool) : Option GoErr → Option GoErr
  | none => none
  | some e =>
    if e.isEOF then (if eofFails then some (.status 2 e.text) else none)
    else some e

/-- How a caller reads the error `RecvMsg` / `Invoke` returned: a clean end; its own or the handler's
cancellation / deadline expiry as such (`errors.Is`, compared by class: the code, with the text); otherwise
`status.FromError` (code and message; Unknown with the text for an error that is no status error). -/
def callerReads : Option GoErr → Fin
  | none => .ok
  | some e =>
    match e.isCtx with
    | some a => .status (abortCode a) e.text
    | none => .status (statusFromError e).1.1 (statusFromError e).1.2

def handlerFinCfg (eofFails : Bool) (e : Option GoErr) : Fin := callerReads (closeErr eofFails e)

/-- The code in /repo now. -/
def handlerFin (e : Option GoErr) : Fin := handlerFinCfg true e

end Wrap

/-- A handler as a function of what it sees of its context, returning an error VALUE. -/
abbrev ErrHandler := SrvCtx → List SOp × Option GoErr

/-- The scripted call with the handler's return value given as an error value: each transport makes of it
what its own code does (`Wrap.handlerFin`: Close, closeErrLocked, the caller's reading; `GrpcRef.handlerFin`: the
server's conversion to the status on the wire). -/
def Wrap.runErr (shape : Shape) (ctx : CallerCtx) (h : ErrHandler) (cs : List COp) (reuse : Bool := false) :
    Transcript :=
  Wrap.runCtx shape ctx (fun sc => ((h sc).1, Wrap.handlerFin (h sc).2)) cs reuse

def GrpcRef.runErr (shape : Shape) (ctx : CallerCtx) (h : ErrHandler) (cs : List COp) (reuse : Bool := false) :
    Transcript :=
  GrpcRef.runCtx shape ctx (fun sc => ((h sc).1, GrpcRef.handlerFin (h sc).2)) cs reuse

/-- A conversion of the handler's error that recognises a status error only by a type assertion on the OUTERMOST
error (`err.(interface{ GRPCStatus() })`) before falling back to `status.FromContextError` — not what the code does;
kept to state why looking through the `Unwrap` chain is necessary. -/
def outermostOnly (e : GoErr) : GoErr :=
  if e.isStatusLeaf then e else .status (statusFromContextError e).1 (statusFromContextError e).2

/-! ### Lemmas -/

theorem GoErr.findStatus_isCtx (e : GoErr) : e.findStatus.isSome → e.isCtx = none := by
  induction e with
  | status c m => intro _; rfl
  | ctx a => intro h; simp [GoErr.findStatus] at h
  | eof => intro h; simp [GoErr.findStatus] at h
  | plain m => intro h; simp [GoErr.findStatus] at h
  | wrap t e ih => intro h; simpa [GoErr.isCtx] using ih (by simpa [GoErr.findStatus] using h)

theorem statusFromError_ok (e : GoErr) : (statusFromError e).2 = e.findStatus.isSome := by
  cases e with
  | status c m => rfl
  | wrap t e =>
    simp only [statusFromError, GoErr.findStatus]
    cases h : e.findStatus with
    | none => simp
    | some p => simp
  | _ => rfl

theorem statusFromError_code (e : GoErr) (c : Nat) (m : String) (h : e.findStatus = some (c, m)) :
    (statusFromError e).1.1 = c := by
  cases e with
  | status c' m' => simp [GoErr.findStatus] at h; simp [statusFromError, h.1]
  | wrap t e => simp only [GoErr.findStatus] at h; simp [statusFromError, GoErr.findStatus, h]
  | _ => simp [GoErr.findStatus] at h

/-- With the repair, the two transports end the call alike for EVERY error value. -/
theorem handlerFin_eq (e : Option GoErr) : Wrap.handlerFin e = GrpcRef.handlerFin e := by
  cases e with
  | none => rfl
  | some e =>
    by_cases heof : e.isEOF = true
    · cases e <;> simp [GoErr.isEOF] at heof
      decide
    · have hne : e.isEOF = false := by simpa using heof
      simp only [Wrap.handlerFin, Wrap.handlerFinCfg, Wrap.closeErr, hne, Bool.false_eq_true, if_false,
        Wrap.callerReads, GrpcRef.handlerFin, statusFromError_ok]
      cases hs : e.findStatus with
      | some p =>
        have := GoErr.findStatus_isCtx e (by simp [hs])
        simp [this]
      | none =>
        simp only [Option.isSome_none, Bool.false_eq_true, if_false]
        cases hc : e.isCtx with
        | some a => simp [statusFromContextError, hc]
        | none =>
          simp only [statusFromContextError, hc]
          cases e with
          | status c m => simp [GoErr.findStatus] at hs
          | wrap t e' => simp only [GoErr.findStatus] at hs; simp [statusFromError, GoErr.findStatus, hs]
          | _ => rfl

end ScVerif.C13
