import ScVerif.C13.Select
import ScVerif.C13.Conn
/-!
# C13 — the client half's blocking calls, select case by select case

Property theorems only.  `recvResults` / `awaitResults` / `sendResults` / `headerResults` (Select.lean) list
what `clientStream.RecvMsg`, `awaitStatus`, `SendMsg`, `Header` can return in a given instant of the stream —
one entry per READY case of their `select`, `[]` = the call blocks.  All statements are for EVERY state of the
stream (no reachability hypothesis) and every message offered / taker present.
-/
namespace ScVerif.C13
open Wrap

/-- **All ready cases of RecvMsg's select agree**, and with the deterministic `Wrap.terminal` used by the
rendezvous model: when the handler is not offering a message, every result RecvMsg can have is the terminal event,
and it blocks exactly when there is none yet. -/
theorem C13_recv_select_agrees_with_terminal (w : State) (tk : Bool) :
    (∀ r ∈ recvResults ⟨w, none, tk⟩, some r = (terminal w).map Res.ev) ∧
    (recvResults ⟨w, none, tk⟩ = [] ↔ terminal w = none) := by
  cases hc : w.closed <;> cases ha : w.ctxErr <;>
    simp [recvResults, ctxDone, terminal, hc, ha, closeErrEv, ctxErrEv]

/-- The same for `Header()` and `Wrap.header`. -/
theorem C13_header_select_agrees (w : State) :
    (∀ md ∈ headerResults w, some md = header w) ∧ (headerResults w = [] ↔ header w = none) := by
  cases hh : w.headerC <;> cases hc : w.closed <;> cases ha : w.ctxErr <;>
    simp [headerResults, header, ctxDone, hh, hc, ha]

/-- **Once the stream's context has ended — the caller cancelled, its deadline passed, or the handler returned —
no call of the client half blocks**, whatever the handler is doing (parked on work of its own, inside SendMsg,
inside RecvMsg, returned): RecvMsg, the wait for the status after a single response, SendMsg and Header() all
have a ready case. -/
theorem C13_client_calls_return_once_context_ended (c : Chans) (h : ctxDone c.w = true) :
    recvResults c ≠ [] ∧ awaitResults c ≠ [] ∧ sendResults c ≠ [] ∧ headerResults c.w ≠ [] := by
  simp [recvResults, awaitResults, sendResults, headerResults, h]

/-- **The wait for the status yields to the caller's cancellation.** The single response of a method without
server streaming has been taken and the handler has NOT returned: when the caller's context ends, `awaitStatus`
returns at once, the response is never delivered, and (the handler not sending again) the result is the
cancellation / deadline expiry as such — whatever the handler goes on to return later. -/
theorem C13_await_status_yields_to_cancel (c : Chans) (a : Abort) (hc : c.w.closed = none)
    (ha : c.w.ctxErr = some a) :
    awaitResults c ≠ [] ∧ Res.deliver ∉ awaitResults c ∧
    (c.offer = none → awaitResults c = [.ev (.aborted a)]) := by
  cases ho : c.offer <;> simp [awaitResults, ctxDone, hc, ha, ho, ctxErrEv, cardinality]

/-- **After the handler returned, the wait gives the handler's status on every ready case**: the response is
delivered exactly when the handler returned nil, otherwise the client is given the handler's error. -/
theorem C13_await_status_after_return (c : Chans) (err : Fin) (h : c.w.closed = some err) :
    awaitResults c ≠ [] ∧ (∀ r ∈ awaitResults c, r = awaitClosed err) ∧
    (Res.deliver ∈ awaitResults c ↔ err = .ok) := by
  by_cases he : err = .ok <;> simp [awaitResults, ctxDone, h, awaitClosed, he]

/-- Before the handler has returned and before the context ends the wait blocks (it is a wait). -/
theorem C13_await_status_waits (c : Chans) (hc : c.w.closed = none) (ha : c.w.ctxErr = none)
    (ho : c.offer = none) : awaitResults c = [] := by
  simp [awaitResults, ctxDone, hc, ha, ho]

/-- Why `awaitStatus` needs its context case: a wait that only receives from `serverSend` blocks in a state in
which the caller has cancelled and the handler is still busy — for as long as the handler likes. -/
theorem C13_await_plain_receive_ignores_cancel :
    ∃ c : Chans, ctxDone c.w = true ∧ awaitPlainReceive c = [] ∧ awaitResults c = [.ev (.aborted .cancel)] :=
  ⟨⟨{ ctxErr := some .cancel }, none, false⟩, by decide⟩

/-- The select-level wait and the rendezvous model's `hold` rewriting say the same: once the handler has returned
`fin`, the `RecvMsg` that took the single response `m` gives `m` when `fin` is OK and the handler's status otherwise —
`hold` replaces the message event by the status exactly then. -/
theorem C13_await_matches_hold (fin : Fin) (m : Nat) :
    (hold true fin (canon fin) ⟨[.msg m], []⟩).client =
    [match awaitClosed fin with
     | .deliver => Ev.msg m
     | .ev e => e
     | .msg k => Ev.msg k] := by
  by_cases h : fin = .ok <;> simp [awaitClosed, hold, holdEv, closeErrEv, h]

/-- **The handler's blocking calls return once the stream's context has ended** (its SendMsg with no client
receiving, its RecvMsg with no client sending): a handler is never left blocked by a client that went away. -/
theorem C13_handler_calls_return_once_context_ended (c : SChans) (h : ctxDone c.w = true) :
    ssendResults c ≠ [] ∧ srecvResults c ≠ [] := by
  simp [ssendResults, srecvResults, h]

/-- **The handler is told of the caller's abort as such**: with the caller's context ended, the handler not yet
returned and no client call to meet, its SendMsg and RecvMsg return the Canceled / DeadlineExceeded status —
never io.EOF, which means a half-close (the defect repaired by 3d4f9fa, at the level of the select). -/
theorem C13_handler_sees_abort_as_such (c : SChans) (a : Abort) (ha : c.w.ctxErr = some a)
    (hc : c.cOffer = none) (ht : c.cTaker = false) (hh : c.halfClosed = false) :
    ssendResults c = [.ctxErr a] ∧ srecvResults c = [.ctxErr a] := by
  simp [ssendResults, srecvResults, ctxDone, srvCtxErr, ha, hc, ht, hh]

/-- `io.EOF` from the handler's RecvMsg means the client half-closed, in every state. -/
theorem C13_handler_eof_only_after_half_close (c : SChans) (h : SRes.eof ∈ srecvResults c) :
    c.halfClosed = true := by
  cases hh : c.halfClosed
  · cases ho : c.cOffer <;> cases hd : ctxDone c.w <;> simp [srecvResults, hh, ho, hd] at h
  · rfl

/-- Non-vacuity: a state with the response taken, the handler parked, the caller's deadline passed. -/
example : awaitResults ⟨{ headerC := true, ctxErr := some .deadline }, none, false⟩ = [.ev (.aborted .deadline)] := by
  decide

end ScVerif.C13
