import ScVerif.C13.WF
/-
C13 — lemmas: the wrapper's shared state and the reference's frames stay related along every joint
run, so the two runs produce the same transcript.
-/
namespace ScVerif.C13

/-- While the handler runs: nothing is closed or aborted, the staged trailer metadata agree, and the
header latch corresponds to the HEADERS frame (closed latch = frame written with the latch's
metadata; open latch = nothing written, same staged metadata). -/
def RelRun (w : Wrap.State) (g : GrpcRef.State) : Prop :=
  w.closed = none ∧ g.trlFrame = none ∧ w.ctxErr = none ∧ g.rst = none ∧ w.trailer = g.trailers ∧
  (if w.headerC then g.hdrFrame = some w.header else g.hdrFrame = none ∧ g.staged = w.header)

/-- After the handler returned the state is frozen: the client-side reads agree. -/
def Obs (w : Wrap.State) (g : GrpcRef.State) : Prop :=
  Wrap.header w = GrpcRef.header g ∧ Wrap.trailer w = GrpcRef.trailer g ∧
  Wrap.terminal w = GrpcRef.terminal g

def Rel : Srv → Wrap.State → GrpcRef.State → Prop
  | .running _, w, g => RelRun w g
  | .done, w, g => Obs w g
  | .aborted, w, g => Wrap.terminal w = GrpcRef.terminal g

theorem rel_init : RelRun {} {} := by
  simp [RelRun]

theorem rel_setHeader {w g} (h : RelRun w g) (md : MD) :
    RelRun (Wrap.setHeader Cfg.current w md).1 (GrpcRef.setHeader g md).1 ∧
    (Wrap.setHeader Cfg.current w md).2 = (GrpcRef.setHeader g md).2 := by
  obtain ⟨h1, h2, h3, h4, h5, h6⟩ := h
  unfold Wrap.setHeader GrpcRef.setHeader GrpcRef.headerWritten
  simp only [Cfg.current, if_true]
  by_cases hm : md.isEmpty
  · simp [hm, RelRun, h1, h2, h3, h4, h5, h6]
  · by_cases hc : w.headerC
    · simp [hc] at h6
      simp [hm, hc, RelRun, h1, h2, h3, h4, h5, h6]
    · simp [hc] at h6
      simp [hm, hc, RelRun, h1, h2, h3, h4, h5, h6]

theorem rel_sendHeader {w g} (h : RelRun w g) (md : MD) :
    RelRun (Wrap.sendHeader w md).1 (GrpcRef.sendHeader g md).1 ∧
    (Wrap.sendHeader w md).2 = (GrpcRef.sendHeader g md).2 := by
  obtain ⟨h1, h2, h3, h4, h5, h6⟩ := h
  unfold Wrap.sendHeader GrpcRef.sendHeader GrpcRef.headerWritten
  by_cases hc : w.headerC
  · simp [hc] at h6
    simp [hc, RelRun, h1, h2, h3, h4, h5, h6]
  · simp [hc] at h6
    simp [hc, RelRun, h1, h2, h3, h4, h5, h6]

theorem rel_setTrailer {w g} (h : RelRun w g) (md : MD) :
    RelRun (Wrap.setTrailer w md) (GrpcRef.setTrailer g md) := by
  obtain ⟨h1, h2, h3, h4, h5, h6⟩ := h
  simp [Wrap.setTrailer, GrpcRef.setTrailer, RelRun, h1, h2, h3, h4, h5]
  exact h6

theorem rel_preSend {w g} (h : RelRun w g) :
    RelRun (Wrap.sendHeaderIfNeeded w) (GrpcRef.beforeData g) := by
  obtain ⟨h1, h2, h3, h4, h5, h6⟩ := h
  unfold Wrap.sendHeaderIfNeeded Wrap.sendHeader GrpcRef.beforeData
  by_cases hc : w.headerC
  · simp [hc] at h6
    simp [hc, RelRun, h1, h2, h3, h4, h5, h6]
  · simp [hc] at h6
    simp [hc, RelRun, h1, h2, h3, h4, h5, h6]

theorem canon_wire (fin : Fin) :
    Wrap.canon fin = .fin (GrpcRef.wireStatus fin).1 (GrpcRef.wireStatus fin).2 := by
  cases fin <;> rfl

theorem rel_close {w g} (h : RelRun w g) (fin : Fin) :
    Obs (Wrap.close Cfg.current w fin) (GrpcRef.writeStatus g fin) := by
  obtain ⟨h1, h2, h3, h4, h5, h6⟩ := h
  unfold Obs Wrap.close Wrap.sendHeaderIfNeeded Wrap.sendHeader GrpcRef.writeStatus
  simp only [Cfg.current, if_true]
  by_cases hc : w.headerC
  · simp [hc] at h6
    simp [hc, h6, Wrap.header, GrpcRef.header, Wrap.trailer, GrpcRef.trailer, Wrap.terminal,
      GrpcRef.terminal, h5, canon_wire]
  · simp [hc] at h6
    obtain ⟨h6a, h6b⟩ := h6
    by_cases he : w.header.isEmpty
    · have : w.header = [] := by simpa using he
      simp [hc, h6a, h6b, this, Wrap.header, GrpcRef.header, Wrap.trailer, GrpcRef.trailer,
        Wrap.terminal, GrpcRef.terminal, h5, canon_wire]
    · simp [hc, h6a, h6b, he, Wrap.header, GrpcRef.header, Wrap.trailer, GrpcRef.trailer,
        Wrap.terminal, GrpcRef.terminal, h5, canon_wire]

theorem rel_abort {w g} (h : RelRun w g) (a : Abort) :
    Wrap.terminal (Wrap.abort w a) = GrpcRef.terminal (GrpcRef.reset g a) := by
  obtain ⟨h1, h2, h3, h4, h5, h6⟩ := h
  simp [Wrap.terminal, Wrap.abort, GrpcRef.terminal, GrpcRef.reset, h1, h2]

theorem rel_header {w g} (h : RelRun w g) : Wrap.header w = GrpcRef.header g := by
  obtain ⟨h1, h2, h3, h4, h5, h6⟩ := h
  unfold Wrap.header GrpcRef.header
  by_cases hc : w.headerC
  · simp [hc] at h6
    simp [hc, h6]
  · simp [hc] at h6
    simp [hc, h6, h1, h2, h3, h4]

end ScVerif.C13
