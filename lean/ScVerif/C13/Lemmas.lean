import ScVerif.C13.WF
import ScVerif.C13.HeapLemmas
/-
C13 — lemmas: the wrapper's shared state and the reference's frames stay related along every joint
run, so the two runs produce the same transcript.
-/
namespace ScVerif.C13

/-- While the handler runs: nothing is closed or aborted, the staged trailer metadata agree, and the
header latch corresponds to the HEADERS frame (closed latch = frame written with the latch's
metadata; open latch = nothing written, same staged metadata). -/
def RelRun (w : Wrap.State) (g : GrpcRef.State) : Prop :=
  w.closed = none ∧ g.trlFrame = none ∧ w.ctxErr = none ∧ g.rst = none ∧ w.trailer = g.trailers ∧
  (if w.headerC then g.hdrFrame = some w.header else g.hdrFrame = none ∧ g.staged = w.header)

/-- After the handler returned the state is frozen: the client-side reads agree. -/
def Obs (w : Wrap.State) (g : GrpcRef.State) : Prop :=
  Wrap.header w = GrpcRef.header g ∧ Wrap.trailer w = GrpcRef.trailer g ∧
  Wrap.terminal w = GrpcRef.terminal g

def Rel : Srv → Wrap.State → GrpcRef.State → Prop
  | .running _, w, g => RelRun w g
  | .done, w, g => Obs w g
  | .aborted, w, g => Wrap.header w = GrpcRef.header g ∧ Wrap.terminal w = GrpcRef.terminal g

theorem rel_init : RelRun {} {} := by
  simp [RelRun]

theorem rel_setHeader {w g} (h : RelRun w g) (md : MD) :
    RelRun (Wrap.setHeader Cfg.current w md).1 (GrpcRef.setHeader g md).1 ∧
    (Wrap.setHeader Cfg.current w md).2 = (GrpcRef.setHeader g md).2 := by
  obtain ⟨h1, h2, h3, h4, h5, h6⟩ := h
  unfold Wrap.setHeader GrpcRef.setHeader GrpcRef.headerWritten
  simp only [Cfg.current, if_true]
  by_cases hm : md.isEmpty
  · simp [hm, RelRun, h1, h2, h3, h4, h5, h6]
  · by_cases hc : w.headerC
    · simp [hc] at h6
      simp [hm, hc, RelRun, h1, h2, h3, h4, h5, h6]
    · simp [hc] at h6
      simp [hm, hc, RelRun, h1, h2, h3, h4, h5, h6]

theorem rel_sendHeader {w g} (h : RelRun w g) (md : MD) :
    RelRun (Wrap.sendHeader w md).1 (GrpcRef.sendHeader g md).1 ∧
    (Wrap.sendHeader w md).2 = (GrpcRef.sendHeader g md).2 := by
  obtain ⟨h1, h2, h3, h4, h5, h6⟩ := h
  unfold Wrap.sendHeader GrpcRef.sendHeader GrpcRef.headerWritten
  by_cases hc : w.headerC
  · simp [hc] at h6
    simp [hc, RelRun, h1, h2, h3, h4, h5, h6]
  · simp [hc] at h6
    simp [hc, RelRun, h1, h2, h3, h4, h5, h6]

theorem rel_setTrailer {w g} (h : RelRun w g) (md : MD) :
    RelRun (Wrap.setTrailer w md) (GrpcRef.setTrailer g md) := by
  obtain ⟨h1, h2, h3, h4, h5, h6⟩ := h
  simp [Wrap.setTrailer, GrpcRef.setTrailer, RelRun, h1, h2, h3, h4, h5]
  exact h6

theorem rel_preSend {w g} (h : RelRun w g) :
    RelRun (Wrap.sendHeaderIfNeeded w) (GrpcRef.beforeData g) := by
  obtain ⟨h1, h2, h3, h4, h5, h6⟩ := h
  unfold Wrap.sendHeaderIfNeeded Wrap.sendHeader GrpcRef.beforeData
  by_cases hc : w.headerC
  · simp [hc] at h6
    simp [hc, RelRun, h1, h2, h3, h4, h5, h6]
  · simp [hc] at h6
    simp [hc, RelRun, h1, h2, h3, h4, h5, h6]

theorem canon_wire (fin : Fin) :
    Wrap.canon fin = .fin (GrpcRef.wireStatus fin).1 (GrpcRef.wireStatus fin).2 := by
  cases fin <;> rfl

theorem rel_close {w g} (h : RelRun w g) (fin : Fin) :
    Obs (Wrap.close Cfg.current w fin) (GrpcRef.writeStatus g fin) := by
  obtain ⟨h1, h2, h3, h4, h5, h6⟩ := h
  have hcl : Wrap.close Cfg.current w fin = { Wrap.sendHeaderIfNeeded w with closed := some fin } := rfl
  rw [hcl]
  unfold Obs Wrap.sendHeaderIfNeeded Wrap.sendHeader GrpcRef.writeStatus
  simp only [h3, Option.isSome_none, Bool.false_eq_true, if_false]
  by_cases hc : w.headerC
  · simp [hc] at h6
    simp [hc, h6, Wrap.header, GrpcRef.header, Wrap.trailer, GrpcRef.trailer, Wrap.terminal,
      GrpcRef.terminal, h5, canon_wire]
  · simp [hc] at h6
    obtain ⟨h6a, h6b⟩ := h6
    by_cases he : w.header.isEmpty
    · have : w.header = [] := by simpa using he
      simp [hc, h6a, h6b, this, Wrap.header, GrpcRef.header, Wrap.trailer, GrpcRef.trailer,
        Wrap.terminal, GrpcRef.terminal, h5, canon_wire]
    · simp [hc, h6a, h6b, he, Wrap.header, GrpcRef.header, Wrap.trailer, GrpcRef.trailer,
        Wrap.terminal, GrpcRef.terminal, h5, canon_wire]

theorem rel_abort {w g} (h : RelRun w g) (a : Abort) :
    Wrap.header (Wrap.abort w a) = GrpcRef.header (GrpcRef.reset g a) ∧
    Wrap.terminal (Wrap.abort w a) = GrpcRef.terminal (GrpcRef.reset g a) := by
  obtain ⟨h1, h2, h3, h4, h5, h6⟩ := h
  constructor
  · unfold Wrap.header GrpcRef.header Wrap.abort GrpcRef.reset
    by_cases hc : w.headerC
    · simp [hc] at h6
      simp [hc, h6]
    · simp [hc] at h6
      simp [hc, h6, h1, h2]
  · simp [Wrap.terminal, Wrap.abort, GrpcRef.terminal, GrpcRef.reset, h1, h2]

theorem rel_header {w g} (h : RelRun w g) : Wrap.header w = GrpcRef.header g := by
  obtain ⟨h1, h2, h3, h4, h5, h6⟩ := h
  unfold Wrap.header GrpcRef.header
  by_cases hc : w.headerC
  · simp [hc] at h6
    simp [hc, h6]
  · simp [hc] at h6
    simp [hc, h6, h1, h2, h3, h4]

/-- While the handler runs the message objects are well formed (needed for the payload of later
messages); once it has returned or was aborted no message passes any more. -/
def Hp : Srv → Wrap.State → Prop
  | .running _, w => Wrap.HeapInv w
  | _, _ => True

theorem rel_xfer {w g} (h : RelRun w g) (d : Dir) (m : Nat) (reuse : Bool) :
    RelRun (Wrap.xfer Cfg.current w d m reuse).1 g := by
  obtain ⟨h1, h2, h3, h4, h5, h6⟩ := h
  obtain ⟨f1, f2, f3, f4, f5⟩ := Wrap.xfer_fields Cfg.current w d m reuse
  refine ⟨by rw [f4]; exact h1, h2, by rw [f5]; exact h3, h4, by rw [f3]; exact h5, ?_⟩
  rw [f2, f1]; exact h6

/-- The joint runs over the wrapper's state and over the reference's frames agree whenever the two
states are related: by induction over the run (38 cases of `go`). -/
theorem go_eq (fin : Fin) (reuse : Bool) (w : Wrap.State) (cc : Bool) (srv : Srv) (cs : List COp) :
    ∀ g, Rel srv w g → Hp srv w →
      go (Wrap.impl Cfg.current) fin reuse w cc srv cs = go GrpcRef.impl fin reuse g cc srv cs := by
  fun_induction go (Wrap.impl Cfg.current) fin reuse w cc srv cs
  case case1 s cc md ss cs ih =>
    intro g h hq
    have := rel_setHeader h md
    simp only [go]
    rw [ih _ this.1 (Wrap.heapInv_setHeader hq _ md)]
    simp only [Wrap.impl, GrpcRef.impl, Wrap.sendHeaderC_current, this.2]
  case case2 s cc md ss cs ih =>
    intro g h hq
    have := rel_sendHeader h md
    simp only [go]
    rw [ih _ this.1 (Wrap.heapInv_sendHeader hq md)]
    simp only [Wrap.impl, GrpcRef.impl, Wrap.sendHeaderC_current, this.2]
  case case3 s cc md ss cs ih =>
    intro g h hq
    simp only [go]
    exact ih _ (rel_setTrailer h md) (Wrap.heapInv_setTrailer hq md)
  case case4 s cc cs ih =>
    intro g h hq
    simp only [go]
    exact ih _ (rel_close h fin) trivial
  case case5 s cc m ss cs ih =>
    intro g h hq
    have hps := rel_preSend h
    have hqs := Wrap.heapInv_preSend hq
    have hpay := Wrap.xfer_payload hqs Cfg.current rfl .s2c m reuse
    simp only [go]
    rw [ih _ (rel_xfer hps .s2c m reuse) (Wrap.xfer_heapInv hqs Cfg.current rfl .s2c m reuse)]
    simp only [Wrap.impl, GrpcRef.impl, Wrap.sendHeaderIfNeededC_current, hpay]
  case case6 s cc m ss cs md hmd ih =>
    intro g h hq
    have hp := rel_preSend h
    have hh := rel_header hp
    simp only [Wrap.impl, Wrap.sendHeaderIfNeededC_current] at hmd
    simp only [go, GrpcRef.impl, ← hh, hmd]
    exact congrArg _ (ih _ hp (Wrap.heapInv_preSend hq))
  case case7 s cc m ss cs hmd =>
    intro g h hq
    have hp := rel_preSend h
    have hh := rel_header hp
    simp only [Wrap.impl, Wrap.sendHeaderIfNeededC_current] at hmd
    simp only [go, GrpcRef.impl, ← hh, hmd]
  case case8 s m ss cs ih =>
    intro g h hq
    simp only [go]
    exact congrArg _ (ih _ (rel_preSend h) (Wrap.heapInv_preSend hq))
  case case9 => intro g h hq; simp only [go]
  case case10 x cc m tl hd tl1 h1 h2 h3 =>
    intro g h hq
    cases hd <;> first | (exact absurd rfl h1) | (exact absurd rfl h2) | skip
    all_goals first | (simp only [go]; done) | skip
    all_goals (cases cc <;> first | (exact absurd rfl (h3 rfl)) | (simp only [go]))
  case case11 s ss cs ih =>
    intro g h hq
    simp only [go]
    exact congrArg _ (ih _ h hq)
  case case12 s ss m cs ih =>
    intro g h hq
    have hpay := Wrap.xfer_payload hq Cfg.current rfl .c2s m reuse
    simp only [go]
    rw [ih _ (rel_xfer h .c2s m reuse) (Wrap.xfer_heapInv hq Cfg.current rfl .c2s m reuse)]
    simp only [Wrap.impl, GrpcRef.impl, Wrap.sendHeaderIfNeededC_current, hpay]
  case case13 s ss cs ih =>
    intro g h hq
    have := ih _ h hq
    simp only [go] at this ⊢
    exact congrArg _ this
  case case14 s ss cs md hmd ih =>
    intro g h hq
    have hh := rel_header h
    simp only [Wrap.impl, Wrap.sendHeaderIfNeededC_current] at hmd
    simp only [go, GrpcRef.impl, ← hh, hmd]
    exact congrArg _ (ih _ h hq)
  case case15 s ss cs hmd =>
    intro g h hq
    have hh := rel_header h
    simp only [Wrap.impl, Wrap.sendHeaderIfNeededC_current] at hmd
    simp only [go, GrpcRef.impl, ← hh, hmd]
  case case16 s tl a cs ih =>
    intro g h hq
    simp only [go]
    exact congrArg _ (congrArg _ (ih _ (rel_abort h a) trivial))
  case case17 => intro g h hq; simp only [go]
  case case18 x tl hd tl1 h1 h2 h3 h4 =>
    intro g h hq
    cases hd
    case send m => exact absurd rfl (h1 m)
    case closeSend => exact absurd rfl h2
    case header => exact absurd rfl h3
    case abort a => exact absurd rfl (h4 a)
    all_goals simp only [go]
  case case19 s cc ss cs md hmd ih =>
    intro g h hq
    have hh := rel_header h
    simp only [Wrap.impl, Wrap.sendHeaderIfNeededC_current] at hmd
    simp only [go, GrpcRef.impl, ← hh, hmd]
    exact congrArg _ (ih _ h hq)
  case case20 s cc ss cs hmd =>
    intro g h hq
    have hh := rel_header h
    simp only [Wrap.impl, Wrap.sendHeaderIfNeededC_current] at hmd
    simp only [go, GrpcRef.impl, ← hh, hmd]
  case case21 s ss cs ih =>
    intro g h hq
    simp only [go]
    exact congrArg _ (ih _ h hq)
  case case22 s cc tl a cs ih =>
    intro g h hq
    simp only [go]
    exact congrArg _ (congrArg _ (ih _ (rel_abort h a) trivial))
  case case23 => intro g h hq; simp only [go]
  case case24 x cc tl hd tl1 h1 h2 h3 =>
    intro g h hq
    cases hd
    case header => exact absurd rfl h1
    case abort a => exact absurd rfl (h3 a)
    case closeSend => cases cc <;> first | (exact absurd rfl (h2 rfl)) | (simp only [go])
    all_goals simp only [go]
  case case25 => intro g h hq; simp only [go]
  case case26 s cc cs e he ih =>
    intro g h hq
    have ht : Wrap.terminal s = GrpcRef.terminal g := h.2.2
    simp only [Wrap.impl] at he
    simp only [go, GrpcRef.impl, ← ht, he]
    exact congrArg _ (ih _ h hq)
  case case27 s cc cs he =>
    intro g h hq
    have ht : Wrap.terminal s = GrpcRef.terminal g := h.2.2
    simp only [Wrap.impl] at he
    simp only [go, GrpcRef.impl, ← ht, he]
  case case28 s cc cs md hmd ih =>
    intro g h hq
    have hh : Wrap.header s = GrpcRef.header g := h.1
    simp only [Wrap.impl, Wrap.sendHeaderIfNeededC_current] at hmd
    simp only [go, GrpcRef.impl, ← hh, hmd]
    exact congrArg _ (ih _ h hq)
  case case29 s cc cs hmd =>
    intro g h hq
    have hh : Wrap.header s = GrpcRef.header g := h.1
    simp only [Wrap.impl, Wrap.sendHeaderIfNeededC_current] at hmd
    simp only [go, GrpcRef.impl, ← hh, hmd]
  case case30 s cc cs ih =>
    intro g h hq
    have hh : Wrap.trailer s = GrpcRef.trailer g := h.2.1
    simp only [go, GrpcRef.impl, Wrap.impl, ← hh]
    exact congrArg _ (ih _ h hq)
  case case31 s cs ih =>
    intro g h hq
    simp only [go]
    exact congrArg _ (ih _ h hq)
  case case32 x cc hd tl h1 h2 h3 h4 =>
    intro g h hq
    cases hd
    case recv => exact absurd rfl h1
    case header => exact absurd rfl h2
    case trailer => exact absurd rfl h3
    case closeSend => cases cc <;> first | (exact absurd rfl (h4 rfl)) | (simp only [go])
    all_goals simp only [go]
  case case33 => intro g h hq; simp only [go]
  case case34 s cc cs e he ih =>
    intro g h hq
    have ht : Wrap.terminal s = GrpcRef.terminal g := h.2
    simp only [Wrap.impl] at he
    simp only [go, GrpcRef.impl, ← ht, he]
    exact congrArg _ (ih _ h hq)
  case case35 s cc cs he =>
    intro g h hq
    have ht : Wrap.terminal s = GrpcRef.terminal g := h.2
    simp only [Wrap.impl] at he
    simp only [go, GrpcRef.impl, ← ht, he]
  case case36 s cc cs md hmd ih =>
    intro g h hq
    have hh : Wrap.header s = GrpcRef.header g := h.1
    simp only [Wrap.impl, Wrap.sendHeaderIfNeededC_current] at hmd
    simp only [go, GrpcRef.impl, ← hh, hmd]
    exact congrArg _ (ih _ h hq)
  case case37 s cc cs hmd =>
    intro g h hq
    have hh : Wrap.header s = GrpcRef.header g := h.1
    simp only [Wrap.impl, Wrap.sendHeaderIfNeededC_current] at hmd
    simp only [go, GrpcRef.impl, ← hh, hmd]
  case case38 x cc hd tl h1 h2 =>
    intro g h hq
    cases hd
    case recv => exact absurd rfl h1
    case header => exact absurd rfl h2
    all_goals simp only [go]

end ScVerif.C13
