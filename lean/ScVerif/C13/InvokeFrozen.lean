import ScVerif.C13.InvokeLemmas
/-
C13 — `frozen` (Invoke.lean) written out: with the stream kept in one state, Invoke inside RecvMsg returns exactly
the combinations of a ready case of RecvMsg's select with a ready case of Header()'s select.
-/
namespace ScVerif.C13
namespace Wrap

theorem runs_blocked {pc : IPc} {c : Chans} (h : step pc c = []) : ∀ n, runs pc (List.replicate n c) = [pc] := by
  intro n
  induction n with
  | zero => rfl
  | succ k ih => simp [List.replicate, runs, h, ih]

theorem runs_ne_nil (pc : IPc) (cs : List Chans) : runs pc cs ≠ [] := by
  induction cs generalizing pc with
  | nil => simp [runs]
  | cons c cs ih =>
    by_cases h : step pc c = []
    · simp [runs, h, ih]
    · obtain ⟨q, hq⟩ := List.exists_mem_of_ne_nil _ h
      simp only [runs, h, if_false]
      intro hnil
      have := List.flatMap_eq_nil_iff.mp hnil q hq
      exact ih q this

theorem runs_cons_of_ne {pc : IPc} {c : Chans} {cs : List Chans} (hne : step pc c ≠ []) {x : IPc}
    (hx : x ∈ runs pc (c :: cs)) : ∃ q ∈ step pc c, x ∈ runs q cs := by
  simp only [runs, hne, if_false, List.mem_flatMap] at hx
  exact hx

theorem mem_frozen_recv {c : Chans} {r : IRes} (h : r ∈ frozen .recv c) :
    ∃ r' ∈ recvResults c, ∃ md ∈ headerResults c.w, r = .full r' md c.w.trailer := by
  rw [mem_frozen] at h
  by_cases h1 : step .recv c = []
  · have := runs_blocked h1 3
    simp only [List.replicate] at this
    rw [this] at h
    simp at h
  · obtain ⟨q₁, hq₁, hx⟩ := runs_cons_of_ne h1 h
    simp only [step, List.mem_map] at hq₁
    obtain ⟨r', hr', rfl⟩ := hq₁
    by_cases h2 : step (.collect r') c = []
    · have := runs_blocked h2 2
      simp only [List.replicate] at this
      rw [this] at hx
      simp at hx
    · obtain ⟨q₂, hq₂, hy⟩ := runs_cons_of_ne h2 hx
      simp only [step, List.mem_map] at hq₂
      obtain ⟨md, hmd, rfl⟩ := hq₂
      rw [runs_done _ rfl] at hy
      simp at hy
      exact ⟨r', hr', md, hmd, hy⟩

end Wrap
end ScVerif.C13
