/-
C13 — vocabulary: rendezvous scripts for one RPC, the client transcript and the handler's view.

A *server script* is what a handler does: `SetHeader md | SendHeader md | SetTrailer md | send m |
recv | wait` (wait = block on its own event source until the call's context ends) followed by what it
returns (`Fin`).  A *client script* is what the caller does with the `grpc.ClientStream`.
-/
namespace ScVerif.C13

/-- gRPC metadata as the list of key/value pairs in the order they were joined
(`metadata.Join` appends per key; the driver prints it stably sorted by key). -/
abbrev MD := List (String × String)

/-- What the handler returns: nil, a status error, or a plain (non-status) Go error. -/
inductive Fin where
  | ok
  | status (code : Nat) (msg : String)
  | plain (msg : String)
  deriving DecidableEq, Repr

/-- Why the caller's context ended. -/
inductive Abort where
  | cancel | deadline
  deriving DecidableEq, Repr

inductive SOp where
  | setHeader (md : MD)
  | sendHeader (md : MD)
  | setTrailer (md : MD)
  | send (m : Nat)
  | recv
  | wait
  deriving DecidableEq, Repr

inductive COp where
  | send (m : Nat)
  | closeSend
  | recv
  | header
  | trailer
  | abort (a : Abort)
  deriving DecidableEq, Repr

/-- One entry of the client transcript (the result of one client op). -/
inductive Ev where
  | sent                          -- SendMsg returned nil
  | sendErr                       -- SendMsg returned an error
  | closed                        -- CloseSend returned nil
  | msg (m : Nat)                 -- RecvMsg delivered message m
  | fin (code : Nat) (msg : String) -- RecvMsg returned the terminal status (io.EOF = code 0)
  | aborted (a : Abort)           -- RecvMsg returned cancellation / deadline expiry (compared by class)
  | hdr (md : MD)                 -- Header() returned md
  | trl (md : MD)                 -- Trailer() returned md
  | did (a : Abort)               -- the client cancelled / let the deadline pass
  | stuck                         -- the scripts leave the rendezvous discipline here (outside the hypothesis)
  deriving DecidableEq, Repr

/-- One entry of the handler's view. -/
inductive SEv where
  | incoming (md : MD)            -- request metadata seen by the handler (metadata.FromIncomingContext)
  | deadline                      -- the handler's context has a deadline
  | outgoing (md : MD)            -- the handler's context carries OUTGOING metadata (a downstream call made
                                  -- with it would transmit md)
  | got (m : Nat)                 -- RecvMsg delivered message m
  | eof                           -- RecvMsg returned io.EOF (client half-closed)
  | hErr                          -- SetHeader returned an error
  | sErr                          -- SendHeader returned an error
  | abort                         -- the call's context ended under the handler
  | left                          -- the client script is over and the handler is still blocked (goroutine left)
  deriving DecidableEq, Repr

structure Transcript where
  client : List Ev
  server : List SEv
  deriving DecidableEq, Repr

def cev (e : Ev) (t : Transcript) : Transcript := { t with client := e :: t.client }
def sev (e : SEv) (t : Transcript) : Transcript := { t with server := e :: t.server }
def sevIf (b : Bool) (e : SEv) (t : Transcript) : Transcript := if b then sev e t else t

/-- The run stops: the next client op cannot be served under the rendezvous discipline. -/
def stuckT : Transcript := ⟨[.stuck], []⟩
/-- The client script is over while the handler is still blocked. -/
def leftT : Transcript := ⟨[], [.left]⟩
def endT : Transcript := ⟨[], []⟩

/-- State of the handler goroutine. -/
inductive Srv where
  | running (ops : List SOp)
  | done        -- the handler returned (Close was called with its error)
  | aborted     -- the call's context ended under the handler
  deriving DecidableEq, Repr

def Srv.size : Srv → Nat
  | .running ops => ops.length + 1
  | .done => 0
  | .aborted => 0

/-- Direction of a message. -/
inductive Dir where
  | c2s | s2c
  deriving DecidableEq, Repr

/-- The transport-specific part of a connection: what the header / trailer / close calls do to the
per-call state and what the client can read from it.  `Wrap.impl` follows pkg/wrap/stream.go,
`GrpcRef.impl` is the reference semantics of a real gRPC connection. -/
structure Impl (σ : Type) where
  setHeader : σ → MD → σ × Bool        -- Bool: the call returned an error
  sendHeader : σ → MD → σ × Bool
  setTrailer : σ → MD → σ
  preSend : σ → σ                      -- what SendMsg does before the message is handed over
  /-- one message with payload `m` from SendMsg to the receiver's own object; the Bool says that the
  sender reuses one message object and overwrites it as soon as SendMsg has returned; the result is the
  payload the receiver ends up with -/
  xfer : σ → Dir → Nat → Bool → σ × Nat
  close : σ → Fin → σ                  -- the handler returned
  abort : σ → Abort → σ                -- the caller's context ended
  header : σ → Option MD               -- client Header(); none = it blocks
  trailer : σ → MD                     -- client Trailer()
  terminal : σ → Option Ev             -- client RecvMsg when no message can arrive; none = it blocks

/-- The joint run of a handler script and a client script under the rendezvous discipline of the
property's hypothesis: the handler runs until it needs the client (send, recv without input, wait) or
returns; a message passes exactly when one side sends and the other receives; anything else is
`stuck`.  `cc` = the client half-closed. -/
def go {σ : Type} (I : Impl σ) (fin : Fin) (reuse : Bool) : σ → Bool → Srv → List COp → Transcript
  -- handler ops that do not need the client
  | s, cc, .running (.setHeader md :: ss), cs =>
      sevIf (I.setHeader s md).2 .hErr (go I fin reuse (I.setHeader s md).1 cc (.running ss) cs)
  | s, cc, .running (.sendHeader md :: ss), cs =>
      sevIf (I.sendHeader s md).2 .sErr (go I fin reuse (I.sendHeader s md).1 cc (.running ss) cs)
  | s, cc, .running (.setTrailer md :: ss), cs =>
      go I fin reuse (I.setTrailer s md) cc (.running ss) cs
  | s, cc, .running [], cs =>
      go I fin reuse (I.close s fin) cc .done cs
  -- handler in SendMsg: the header latch is flushed first, then it waits for the client's RecvMsg
  | s, cc, .running (.send m :: ss), .recv :: cs =>
      cev (.msg (I.xfer (I.preSend s) .s2c m reuse).2)
        (go I fin reuse (I.xfer (I.preSend s) .s2c m reuse).1 cc (.running ss) cs)
  | s, cc, .running (.send m :: ss), .header :: cs =>
      match I.header (I.preSend s) with
      | some md => cev (.hdr md) (go I fin reuse (I.preSend s) cc (.running (.send m :: ss)) cs)
      | none => stuckT
  | s, false, .running (.send m :: ss), .closeSend :: cs =>
      cev .closed (go I fin reuse (I.preSend s) true (.running (.send m :: ss)) cs)
  | _, _, .running (.send _ :: _), [] => leftT
  | _, _, .running (.send _ :: _), _ :: _ => stuckT
  -- handler in RecvMsg
  | s, true, .running (.recv :: ss), cs =>
      sev .eof (go I fin reuse s true (.running ss) cs)
  | s, false, .running (.recv :: ss), .send m :: cs =>
      cev .sent (sev (.got (I.xfer s .c2s m reuse).2)
        (go I fin reuse (I.xfer s .c2s m reuse).1 false (.running ss) cs))
  | s, false, .running (.recv :: ss), .closeSend :: cs =>
      cev .closed (go I fin reuse s true (.running (.recv :: ss)) cs)
  | s, false, .running (.recv :: ss), .header :: cs =>
      match I.header s with
      | some md => cev (.hdr md) (go I fin reuse s false (.running (.recv :: ss)) cs)
      | none => stuckT
  | s, false, .running (.recv :: _), .abort a :: cs =>
      cev (.did a) (sev .abort (go I fin reuse (I.abort s a) false .aborted cs))
  | _, false, .running (.recv :: _), [] => leftT
  | _, false, .running (.recv :: _), _ :: _ => stuckT
  -- handler blocked on its own event source until the context ends
  | s, cc, .running (.wait :: ss), .header :: cs =>
      match I.header s with
      | some md => cev (.hdr md) (go I fin reuse s cc (.running (.wait :: ss)) cs)
      | none => stuckT
  | s, false, .running (.wait :: ss), .closeSend :: cs =>
      cev .closed (go I fin reuse s true (.running (.wait :: ss)) cs)
  | s, cc, .running (.wait :: _), .abort a :: cs =>
      cev (.did a) (sev .abort (go I fin reuse (I.abort s a) cc .aborted cs))
  | _, _, .running (.wait :: _), [] => leftT
  | _, _, .running (.wait :: _), _ :: _ => stuckT
  -- the handler has returned: the client runs alone
  | _, _, .done, [] => endT
  | s, cc, .done, .recv :: cs =>
      match I.terminal s with
      | some e => cev e (go I fin reuse s cc .done cs)
      | none => stuckT
  | s, cc, .done, .header :: cs =>
      match I.header s with
      | some md => cev (.hdr md) (go I fin reuse s cc .done cs)
      | none => stuckT
  | s, cc, .done, .trailer :: cs =>
      cev (.trl (I.trailer s)) (go I fin reuse s cc .done cs)
  | s, false, .done, .closeSend :: cs =>
      cev .closed (go I fin reuse s true .done cs)
  | _, _, .done, _ :: _ => stuckT
  -- the call was aborted by the client: the terminal RecvMsg, and Header(): what was SENT as header before
  -- the abort, nothing if headers were only staged (`clientStream.Header`'s ctx.Done branch probes the latch).
  -- (grpc-go's Header() after a cancel depends on whether the HEADERS frame was already processed when one
  -- was written: `sync` admits the op only when none was; Trailer() after an abort is the recorded finding)
  | _, _, .aborted, [] => endT
  | s, cc, .aborted, .recv :: cs =>
      match I.terminal s with
      | some e => cev e (go I fin reuse s cc .aborted cs)
      | none => stuckT
  | s, cc, .aborted, .header :: cs =>
      match I.header s with
      | some md => cev (.hdr md) (go I fin reuse s cc .aborted cs)
      | none => stuckT
  | _, _, .aborted, _ :: _ => stuckT
termination_by _ _ srv cs => srv.size + cs.length
decreasing_by all_goals (simp only [Srv.size, List.length_cons]; omega)

end ScVerif.C13
