import ScVerif.C13.Invoke
/-
C13 — the handler half's invariant the caller's `collectMetadata` relies on, from the code of `serverStream.SendMsg`:
it runs `sendHeaderIfNeeded` (= `SendHeader(nil)`, error ignored) before it offers the message, and `SendHeader`
either closes the header latch or fails because the call's context has ended (1e9d1bd).
-/
namespace ScVerif.C13
namespace Wrap

/-- A handler offering a message has closed the header latch, or the stream's context has ended. -/
def OfferedAfterFlush (c : Chans) : Prop :=
  c.offer.isSome = true → c.w.headerC = true ∨ ctxDone c.w = true

theorem sendHeaderIfNeeded_flushes (w : State) :
    (sendHeaderIfNeeded w).headerC = true ∨ ctxDone (sendHeaderIfNeeded w) = true := by
  unfold sendHeaderIfNeeded sendHeader
  cases ha : w.ctxErr with
  | some a => right; simp [ctxDone, ha]
  | none =>
    cases hh : w.headerC <;> (left; simp [*])

/-- The invariant holds in every state a handler can be offering a message in. -/
theorem offeredAfterFlush_of_sendMsg (w : State) (offer : Option Nat) (tk : Bool) :
    OfferedAfterFlush ⟨sendHeaderIfNeeded w, offer, tk⟩ :=
  fun _ => sendHeaderIfNeeded_flushes w

theorem OfferAfterHeader.weaken {c : Chans} (h : OfferAfterHeader c) : OfferedAfterFlush c :=
  fun ho => Or.inl (h ho)

/-- One thing either half, the caller's context or `Close` can do to the shared state of the stream. -/
inductive Move where
  | setHeader (md : MD)
  | sendHeader (md : MD)
  | setTrailer (md : MD)
  | flush                    -- sendHeaderIfNeeded (first thing SendMsg does)
  | abort (a : Abort)        -- the caller's context ends
  | close (err : Fin)        -- Close(err)
  deriving Repr

def Move.apply (w : State) : Move → State
  | .setHeader md => (Wrap.setHeader Cfg.current w md).1
  | .sendHeader md => (Wrap.sendHeader w md).1
  | .setTrailer md => Wrap.setTrailer w md
  | .flush => sendHeaderIfNeeded w
  | .abort a => Wrap.abort w a
  | .close err => Wrap.close Cfg.current w err

theorem sendHeader_forward (w : State) (md : MD) :
    (w.headerC = true → (sendHeader w md).1.headerC = true) ∧
    (sendHeader w md).1.closed = w.closed ∧ (sendHeader w md).1.ctxErr = w.ctxErr := by
  unfold sendHeader
  cases ha : w.ctxErr <;> cases hh : w.headerC <;> simp [ha, hh]

theorem setHeader_forward (w : State) (md : MD) :
    (w.headerC = true → (setHeader Cfg.current w md).1.headerC = true) ∧
    (setHeader Cfg.current w md).1.closed = w.closed ∧ (setHeader Cfg.current w md).1.ctxErr = w.ctxErr := by
  unfold setHeader
  cases hm : md.isEmpty <;> cases hh : w.headerC <;> simp [Cfg.current, *]

/-- No move undoes a closed header latch or an ended context. -/
theorem Move.forward (w : State) (m : Move) (o o' : Option Nat) (t t' : Bool) :
    Later ⟨w, o, t⟩ ⟨m.apply w, o', t'⟩ := by
  have hs := sendHeader_forward w
  cases m with
  | setHeader md =>
    obtain ⟨h1, h2, h3⟩ := setHeader_forward w md
    exact ⟨h1, by simp [Move.apply, ctxDone, h2, h3]⟩
  | sendHeader md =>
    obtain ⟨h1, h2, h3⟩ := hs md
    exact ⟨h1, by simp [Move.apply, ctxDone, h2, h3]⟩
  | setTrailer md => simp [Move.apply, Wrap.setTrailer, Later, ctxDone]
  | flush =>
    obtain ⟨h1, h2, h3⟩ := hs []
    exact ⟨h1, by simp [Move.apply, sendHeaderIfNeeded, ctxDone, h2, h3]⟩
  | abort a =>
    refine ⟨by simp [Move.apply, Wrap.abort], ?_⟩
    simp [Move.apply, Wrap.abort, ctxDone]
  | close err =>
    obtain ⟨h1, _, _⟩ := hs []
    refine ⟨?_, by simp [Move.apply, Wrap.close, ctxDone]⟩
    simpa [Move.apply, Wrap.close, Cfg.current, sendHeaderIfNeededC, sendHeaderIfNeeded, sendHeaderC] using h1

end Wrap
end ScVerif.C13
