import ScVerif.C13.Conn
/-
C13 — the property's hypothesis as a decidable predicate on the two scripts.

`sync` is the synchronisation skeleton of a call, written without reference to either transport:
it follows who waits for whom and says `true` iff every send meets a ready receiver, the client asks
for the header only when the handler has produced it or cannot be waiting for the client, asks for
the trailer only after its RecvMsg returned the terminal status (`tm`), cancels only while the handler is blocked waiting (recv
with nothing in flight, or `wait`), and both scripts run to their end.  `hdr` = the handler has produced
the header (SendHeader, first message, handler returned): `Header()` does not block.  After the client's
own CANCEL `hdr` keeps the value it had: `Header()` is then asked only when NO header had been produced
(metadata staged with SetHeader at most): both transports must report none — a real client has received
nothing and has reset the stream; had a HEADERS frame been written, grpc-go's answer would depend on
whether the frame was processed before the cancel.  After a DEADLINE `Header()` is not asked (`hdr` is
set): the server's own timer fires as well, and whether its final HEADERS + status reach the client first
is a race inside gRPC.
-/
namespace ScVerif.C13

def sync : Bool → Bool → Bool → Srv → List COp → Bool
  | tm, hdr, cc, .running (.setHeader _ :: ss), cs => sync tm hdr cc (.running ss) cs
  | tm, _, cc, .running (.sendHeader _ :: ss), cs => sync tm true cc (.running ss) cs
  | tm, hdr, cc, .running (.setTrailer _ :: ss), cs => sync tm hdr cc (.running ss) cs
  | tm, _, cc, .running [], cs => sync tm true cc .done cs
  | tm, _, cc, .running (.send _ :: ss), .recv :: cs => sync tm true cc (.running ss) cs
  | tm, _, cc, .running (.send m :: ss), .header :: cs => sync tm true cc (.running (.send m :: ss)) cs
  | tm, _, false, .running (.send m :: ss), .closeSend :: cs => sync tm true true (.running (.send m :: ss)) cs
  | _, _, _, .running (.send _ :: _), [] => false
  | _, _, _, .running (.send _ :: _), _ :: _ => false
  | tm, hdr, true, .running (.recv :: ss), cs => sync tm hdr true (.running ss) cs
  | tm, hdr, false, .running (.recv :: ss), .send _ :: cs => sync tm hdr false (.running ss) cs
  | tm, hdr, false, .running (.recv :: ss), .closeSend :: cs => sync tm hdr true (.running (.recv :: ss)) cs
  | tm, hdr, false, .running (.recv :: ss), .header :: cs => hdr && sync tm hdr false (.running (.recv :: ss)) cs
  | tm, hdr, false, .running (.recv :: _), .abort a :: cs => sync tm (hdr || a != .cancel) false .aborted cs
  | _, _, false, .running (.recv :: _), [] => false
  | _, _, false, .running (.recv :: _), _ :: _ => false
  | tm, hdr, cc, .running (.wait :: ss), .header :: cs => hdr && sync tm hdr cc (.running (.wait :: ss)) cs
  | tm, hdr, false, .running (.wait :: ss), .closeSend :: cs => sync tm hdr true (.running (.wait :: ss)) cs
  | tm, hdr, cc, .running (.wait :: _), .abort a :: cs => sync tm (hdr || a != .cancel) cc .aborted cs
  | _, _, _, .running (.wait :: _), [] => false
  | _, _, _, .running (.wait :: _), _ :: _ => false
  | _, _, _, .done, [] => true
  | _, hdr, cc, .done, .recv :: cs => sync true hdr cc .done cs
  | tm, hdr, cc, .done, .header :: cs => sync tm hdr cc .done cs
  | tm, hdr, cc, .done, .trailer :: cs => tm && sync tm hdr cc .done cs
  | tm, hdr, false, .done, .closeSend :: cs => sync tm hdr true .done cs
  | _, _, _, .done, _ :: _ => false
  | _, _, _, .aborted, [] => true
  | tm, hdr, cc, .aborted, .recv :: cs => sync tm hdr cc .aborted cs
  | tm, hdr, cc, .aborted, .header :: cs => !hdr && sync tm hdr cc .aborted cs
  | _, _, _, .aborted, _ :: _ => false
termination_by _ _ _ srv cs => srv.size + cs.length
decreasing_by all_goals (simp only [Srv.size, List.length_cons]; omega)

def SOp.isSend : SOp → Bool | .send _ => true | _ => false
def SOp.isRecv : SOp → Bool | .recv => true | _ => false
def SOp.isWait : SOp → Bool | .wait => true | _ => false

/-- Every `send` is the last op (the single response of a unary / client-streaming method). -/
def sendOnlyLast : List SOp → Bool
  | [] => true
  | [_] => true
  | op :: rest => !op.isSend && sendOnlyLast rest

/-- A handler of a method with a single response: it returns OK exactly when it produced the response
(or never returns by itself: `wait`). -/
def singleResponse (ops : List SOp) (fin : Fin) : Bool :=
  sendOnlyLast ops &&
  (if fin = .ok then (ops.getLast?.map SOp.isSend).getD false || ops.any SOp.isWait
   else !ops.any SOp.isSend)

def SOp.isLocal : SOp → Bool
  | .setHeader _ | .sendHeader _ | .setTrailer _ => true
  | _ => false

/-- After its single response the handler only touches header / trailer metadata before it returns. -/
def localAfterSend : List SOp → Bool
  | [] => true
  | .send _ :: rest => rest.all SOp.isLocal
  | _ :: rest => localAfterSend rest

/-- A client-streaming handler: at most one response (`SendAndClose`), nothing but metadata calls after it
(the client is waiting for the status by then), and an OK return only with a response (or never, `wait`).
An ERROR return after the response is allowed: the client is then given the error, not the response. -/
def singleResponseC (ops : List SOp) (fin : Fin) : Bool :=
  localAfterSend ops &&
  (if fin = .ok then ops.any SOp.isSend || ops.any SOp.isWait else true)

/-- The generated handler reads the single request before the service method runs. -/
def singleRequest : List SOp → Bool
  | .recv :: rest => !rest.any SOp.isRecv
  | _ => false

def startsWithRequest : List COp → Bool
  | .send _ :: .closeSend :: _ => true
  | _ => false

/-- The scripts fit the method's shape (what the generated code of test_grpc.pb.go lets each side do). -/
def conforms (shape : Shape) (ss : List SOp) (fin : Fin) (cs : List COp) : Bool :=
  match shape with
  | .unary => singleRequest ss && singleResponse ss fin && cs == invokeOps cs
  | .unaryS => singleRequest ss && singleResponse ss fin && startsWithRequest cs
  | .sstream => singleRequest ss && startsWithRequest cs
  | .cstream => singleResponseC ss fin
  | .bidi => true

/-- `Invoke`: the one `RecvMsg(reply)` of a unary call returns with the call finished — grpc-go's client reads on to
the status for a method without server streaming, and in the wrapper the handler FUNCTION has returned before the
goroutine of `Invoke` sends its response — so the grpc.Trailer call option, collected right after it, is read after
the end of the call: `Trailer()` is defined there although no second `RecvMsg` has returned the status. -/
def Shape.statusRead : Shape → Bool
  | .unary => true
  | _ => false

/-- The hypothesis of C13 for one scripted call. -/
def WFScripts (shape : Shape) (ss : List SOp) (fin : Fin) (cs : List COp) : Bool :=
  conforms shape ss fin cs && sync shape.statusRead false false (.running ss) (clientOps shape cs)

/-- A run is complete: it never left the rendezvous discipline and no handler is left blocked. -/
def Transcript.complete (t : Transcript) : Bool :=
  !t.client.contains .stuck && !t.server.contains .left

end ScVerif.C13
