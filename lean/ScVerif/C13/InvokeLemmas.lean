import ScVerif.C13.Invoke
/-
C13 — lemmas about the select-level model of `wrapper.Invoke` (Invoke.lean).
-/
namespace ScVerif.C13
namespace Wrap

/-- The caller's context has ended (`a`), the handler has not returned and is not sending. -/
def Parked (a : Abort) (c : Chans) : Prop :=
  c.w.ctxErr = some a ∧ c.w.closed = none ∧ c.offer = none

theorem Parked.ctxDone {a : Abort} {c : Chans} (h : Parked a c) : ctxDone c.w = true := by
  simp [Wrap.ctxDone, h.1]

/-- Places of the caller's goroutine from which Invoke can only end as the abort `a`. -/
def Releasing (a : Abort) : IPc → Prop
  | .send => True
  | .recv => True
  | .collect r => r = .ev (.aborted a)
  | .done (.early e) => e = .aborted a
  | .done (.full r _ _) => r = .ev (.aborted a)

theorem step_releasing {a : Abort} {c : Chans} (hc : Parked a c) {pc pc' : IPc}
    (hp : Releasing a pc) (h : pc' ∈ step pc c) : Releasing a pc' := by
  obtain ⟨ha, hcl, ho⟩ := hc
  cases pc with
  | send =>
    simp only [step, List.mem_map] at h
    obtain ⟨e, _, rfl⟩ := h
    by_cases he : e = .sent
    · simp [he, Releasing]
    · simp [he, Releasing, sendFailed, ha]
  | recv =>
    simp only [step, List.mem_map] at h
    obtain ⟨r, hr, rfl⟩ := h
    simp [recvResults, Wrap.ctxDone, ha, hcl, ho, ctxErrEv] at hr
    simp [Releasing, hr]
  | collect r =>
    simp only [step, List.mem_map] at h
    obtain ⟨md, _, rfl⟩ := h
    exact hp
  | done r => simp [step] at h

theorem reach_releasing {a : Abort} (cs : List Chans) (hcs : ∀ c ∈ cs, Parked a c) :
    ∀ pc, Releasing a pc → ∀ pc' ∈ reach pc cs, Releasing a pc' := by
  induction cs with
  | nil => intro pc hp pc' h; simp [reach] at h; exact h ▸ hp
  | cons c cs ih =>
    intro pc hp pc' h
    simp only [reach, List.mem_flatMap] at h
    obtain ⟨q, hq, hq'⟩ := h
    have hcs' : ∀ c ∈ cs, Parked a c := fun x hx => hcs x (List.mem_cons_of_mem _ hx)
    rcases List.mem_cons.mp hq with rfl | hq
    · exact ih hcs' _ hp _ hq'
    · exact ih hcs' _ (step_releasing (hcs c (List.mem_cons_self ..)) hp hq) _ hq'

/-- Once the stream's context has ended every blocking call of Invoke has a ready case. -/
theorem step_ne_nil {pc : IPc} {c : Chans} (hd : ctxDone c.w = true) (hp : pc.isDone = false) :
    step pc c ≠ [] := by
  cases pc with
  | send => simp [step, sendResults, hd]
  | recv => simp [step, recvResults, hd]
  | collect r => simp [step, headerResults, hd]
  | done r => simp [IPc.isDone] at hp

/-- How far from returning the caller's goroutine is (number of blocking calls ahead). -/
def IPc.rank : IPc → Nat
  | .send => 3
  | .recv => 2
  | .collect _ => 1
  | .done _ => 0

theorem step_rank {pc pc' : IPc} {c : Chans} (h : pc' ∈ step pc c) : pc'.rank < pc.rank := by
  cases pc with
  | send =>
    simp only [step, List.mem_map] at h
    obtain ⟨e, _, rfl⟩ := h
    by_cases he : e = .sent <;> simp [he, IPc.rank]
  | recv =>
    simp only [step, List.mem_map] at h
    obtain ⟨r, _, rfl⟩ := h
    simp [IPc.rank]
  | collect r =>
    simp only [step, List.mem_map] at h
    obtain ⟨md, _, rfl⟩ := h
    simp [IPc.rank]
  | done r => simp [step] at h

theorem rank_zero_done {pc : IPc} (h : pc.rank = 0) : pc.isDone = true := by
  cases pc <;> simp_all [IPc.rank, IPc.isDone]

theorem runs_done (pc : IPc) (hd : pc.isDone = true) (cs : List Chans) : runs pc cs = [pc] := by
  induction cs with
  | nil => rfl
  | cons c cs ih =>
    cases pc with
    | done r => simp [runs, step, ih]
    | _ => simp [IPc.isDone] at hd

/-- With the context ended in every instant, `n` instants bring a call of rank ≤ n to its return. -/
theorem runs_complete (cs : List Chans) (hcs : ∀ c ∈ cs, ctxDone c.w = true) :
    ∀ pc, pc.rank ≤ cs.length → ∀ pc' ∈ runs pc cs, pc'.isDone = true := by
  induction cs with
  | nil =>
    intro pc hr pc' h
    simp [runs] at h
    subst h
    exact rank_zero_done (by simpa using hr)
  | cons c cs ih =>
    intro pc hr pc' h
    have hcs' : ∀ c ∈ cs, ctxDone c.w = true := fun x hx => hcs x (List.mem_cons_of_mem _ hx)
    cases hdone : pc.isDone with
    | true =>
      rw [runs_done pc hdone] at h
      simp at h
      exact h ▸ hdone
    | false =>
      have hne := step_ne_nil (hcs c (List.mem_cons_self ..)) hdone
      simp only [runs, hne, if_false, List.mem_flatMap] at h
      obtain ⟨q, hq, hq'⟩ := h
      have := step_rank hq
      exact ih hcs' q (by simp at hr; omega) pc' hq'

/-- `runs` is a restriction of `reach` (it never idles when a case is ready). -/
theorem runs_sub_reach (cs : List Chans) : ∀ pc, ∀ pc' ∈ runs pc cs, pc' ∈ reach pc cs := by
  induction cs with
  | nil => intro pc pc' h; simpa [runs, reach] using h
  | cons c cs ih =>
    intro pc pc' h
    simp only [runs, List.mem_flatMap] at h
    obtain ⟨q, hq, hq'⟩ := h
    simp only [reach, List.mem_flatMap]
    refine ⟨q, ?_, ih q pc' hq'⟩
    by_cases hs : step pc c = []
    · simp [hs] at hq; simp [hq]
    · simp [hs] at hq; exact List.mem_cons_of_mem _ hq

theorem mem_frozen {pc : IPc} {c : Chans} {r : IRes} :
    r ∈ frozen pc c ↔ IPc.done r ∈ runs pc [c, c, c] := by
  simp only [frozen, List.mem_filterMap]
  constructor
  · rintro ⟨p, hp, h⟩
    cases p <;> simp at h
    exact h ▸ hp
  · intro h
    exact ⟨_, h, rfl⟩

/-- What `Header()` gives once the caller's context has ended and the handler has not returned: the header if it
was SENT, nothing if it was only staged. -/
theorem headerResults_parked {a : Abort} {c : Chans} (h : Parked a c) :
    ∀ md ∈ headerResults c.w, md = (if c.w.headerC then c.w.header else []) := by
  intro md hmd
  cases hh : c.w.headerC <;> simp [headerResults, Wrap.ctxDone, h.1, hh] at hmd ⊢ <;> exact hmd

end Wrap
end ScVerif.C13
