import ScVerif.C13.Errs
import ScVerif.C13.PropsCtx
/-!
# C13 — the error value a handler returns ends the call alike on both transports

Property theorems only.  `GoErr` is the handler's error as a chain of wrappers (`fmt.Errorf("…%w")`, own
types with `Unwrap`) of ANY depth around a leaf (status error, context error, io.EOF, plain error).
`GrpcRef.handlerFin` follows grpc-go's server (`status.FromError`, else `status.FromContextError`);
`Wrap.handlerFin` follows pkg/wrap (`Close`, `closeErrLocked`) and the caller's reading of the error it is
handed (`errors.Is` for cancellation as such, `status.FromError`).
-/
namespace ScVerif.C13

/-- **Same terminal status for every error value**: nil, status errors, status errors wrapped to any depth,
context errors (bare or wrapped), io.EOF (bare or wrapped), plain errors. -/
theorem C13_handler_error_status_eq (e : Option GoErr) :
    Wrap.handlerFin e = GrpcRef.handlerFin e := handlerFin_eq e

/-- **Transcript equality with handlers that return error values**: every call shape, caller context, handler
(a function of the context it sees, returning any error value), client script. -/
theorem C13_handler_error_transcript_eq (shape : Shape) (ctx : CallerCtx) (h : ErrHandler) (cs : List COp)
    (reuse : Bool) :
    Wrap.runErr shape ctx h cs reuse = GrpcRef.runErr shape ctx h cs reuse := by
  unfold Wrap.runErr GrpcRef.runErr
  simp only [C13_handler_error_status_eq]
  exact C13_ctx_transcript_eq shape ctx _ cs reuse

/-- **A status error keeps its code through any number of wrappers** (what `errors.As` gives): if a status
error with code `c` is reachable through the `Unwrap` chain, the call ends with code `c` on both transports. -/
theorem C13_wrapped_status_keeps_code (e : GoErr) (c : Nat) (m : String) (h : e.findStatus = some (c, m)) :
    (∃ msg, Wrap.handlerFin (some e) = .status c msg) ∧ (∃ msg, GrpcRef.handlerFin (some e) = .status c msg) := by
  have hg : ∃ msg, GrpcRef.handlerFin (some e) = .status c msg := by
    refine ⟨(statusFromError e).1.2, ?_⟩
    simp [GrpcRef.handlerFin, statusFromError_ok, h, statusFromError_code e c m h]
  exact ⟨by simpa [C13_handler_error_status_eq] using hg, hg⟩

/-- **A handler that returns an error never gives the client a clean end of stream** — whatever the error
value, io.EOF included (after 1e87efa). -/
theorem C13_handler_error_never_clean_end (e : GoErr) : Wrap.handlerFin (some e) ≠ .ok := by
  rw [C13_handler_error_status_eq]
  simp only [GrpcRef.handlerFin]
  split <;> simp

/-- The defect repaired by 1e87efa, on the code before it: a handler returning `io.EOF` ended the call
cleanly for the wrapped client where a real connection reports Unknown "EOF". -/
theorem C13_legacy_handler_eof_clean_end :
    Wrap.handlerFinCfg false (some .eof) = .ok ∧ GrpcRef.handlerFin (some .eof) = .status 2 "EOF" := by
  decide

/-- Why the status has to be looked for through the `Unwrap` chain: a conversion that tests only the
outermost error turns a wrapped NotFound into Unknown (the client reads code 2 where gRPC gives 5). -/
theorem C13_outermost_assertion_loses_code :
    ∃ e : GoErr, Wrap.callerReads (some (outermostOnly e)) ≠ GrpcRef.handlerFin (some e) :=
  ⟨GoErr.errorf "w: " (.status 5 "e0"), by decide⟩

/-- Non-vacuity: a twice-wrapped status error. -/
example : Wrap.handlerFin (some (.wrap "boom" (GoErr.errorf "w: " (.status 9 "inner")))) = .status 9 "boom" := by
  decide

example : Wrap.handlerFin (some (GoErr.errorf "w: " (.ctx .cancel))) = .status 1 "w: context canceled" := by
  decide

end ScVerif.C13
