import ScVerif.C13.Unwrap
/-!
# C13 — `wrap.UnwrapFully` (pkg/wrap/unwrap.go)

Property theorems only.
-/
namespace ScVerif.C13

/-- Through any number of stacked adapters `UnwrapFully` gives back the server value that was wrapped. -/
theorem C13_unwrap_fully_reaches_server (k : Nat) (id : Nat) :
    unwrapFully (stack k (.plain id)) = .plain id := by
  induction k with
  | zero => rfl
  | succ k ih => simpa [stack, unwrapFully] using ih

/-- The result never implements `Unwrapper` (the loop's exit condition), for every object. -/
theorem C13_unwrap_fully_result_is_plain (o : Obj) : (unwrapFully o).isUnwrapper = false := by
  induction o with
  | plain i => rfl
  | unwrapper o ih => simpa [unwrapFully] using ih

/-- `UnwrapFully` is idempotent and insensitive to further adapters on top. -/
theorem C13_unwrap_fully_idempotent (k : Nat) (o : Obj) :
    unwrapFully (unwrapFully o) = unwrapFully o ∧ unwrapFully (stack k o) = unwrapFully o := by
  constructor
  · induction o with
    | plain i => rfl
    | unwrapper o ih => simpa [unwrapFully] using ih
  · induction k with
    | zero => rfl
    | succ k ih => simpa [stack, unwrapFully] using ih

example : unwrapFully (stack 3 (.plain 7)) = .plain 7 := by decide

end ScVerif.C13
