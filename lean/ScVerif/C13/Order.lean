import ScVerif.C13.Complete
/-
C13 — lemmas: messages are neither lost, duplicated nor reordered by the wrapper: what each side
received is a prefix of what the other side's script sends.
-/
namespace ScVerif.C13

def Ev.msg? : Ev → Option Nat | .msg m => some m | _ => none
def SEv.got? : SEv → Option Nat | .got m => some m | _ => none
def SOp.send? : SOp → Option Nat | .send m => some m | _ => none
def COp.send? : COp → Option Nat | .send m => some m | _ => none

/-- Messages the client received, in order. -/
def Transcript.clientMsgs (t : Transcript) : List Nat := t.client.filterMap Ev.msg?
/-- Messages the handler received, in order. -/
def Transcript.serverMsgs (t : Transcript) : List Nat := t.server.filterMap SEv.got?
def Srv.ops : Srv → List SOp | .running ops => ops | _ => []

theorem Wrap.terminal_msg {w : Wrap.State} {e : Ev} (h : Wrap.terminal w = some e) : e.msg? = none := by
  unfold Wrap.terminal at h
  cases hc : w.closed with
  | some f => simp [hc] at h; subst h; cases f <;> rfl
  | none =>
    cases ha : w.ctxErr with
    | some a => simp [hc, ha] at h; subst h; rfl
    | none => simp [hc, ha] at h

theorem go_msgs (c : Cfg) (fin : Fin) (w : Wrap.State) (cc : Bool) (srv : Srv) (cs : List COp) :
    (go (Wrap.impl c) fin w cc srv cs).clientMsgs <+: srv.ops.filterMap SOp.send? ∧
    (go (Wrap.impl c) fin w cc srv cs).serverMsgs <+: cs.filterMap COp.send? := by
  fun_induction go (Wrap.impl c) fin w cc srv cs
  case case1 s cc md ss cs ih =>
    cases hb : ((Wrap.impl c).setHeader s md).2 <;>
      simpa [sevIf, hb, sev, Transcript.clientMsgs, Transcript.serverMsgs, Srv.ops, List.filterMap_cons, SOp.send?, SEv.got?] using ih
  case case2 s cc md ss cs ih =>
    cases hb : ((Wrap.impl c).sendHeader s md).2 <;>
      simpa [sevIf, hb, sev, Transcript.clientMsgs, Transcript.serverMsgs, Srv.ops, List.filterMap_cons, SOp.send?, SEv.got?] using ih
  case case26 s cc cs e he ih =>
    have := Wrap.terminal_msg he
    simp_all [Transcript.clientMsgs, Transcript.serverMsgs, Srv.ops, cev, List.filterMap_cons, COp.send?]
  case case34 s cc cs e he ih =>
    have := Wrap.terminal_msg he
    simp_all [Transcript.clientMsgs, Transcript.serverMsgs, Srv.ops, cev, List.filterMap_cons, COp.send?]
  case case16 s tl a cs ih =>
    obtain ⟨h1, h2⟩ := ih
    simp only [Srv.ops, List.filterMap_nil, List.prefix_nil, Transcript.clientMsgs] at h1
    simp only [Transcript.clientMsgs, Transcript.serverMsgs] at h2 ⊢
    simp only [cev, sev, List.filterMap_cons, Ev.msg?, SEv.got?, COp.send?, h1]
    exact ⟨List.nil_prefix, h2⟩
  case case22 s cc tl a cs ih =>
    obtain ⟨h1, h2⟩ := ih
    simp only [Srv.ops, List.filterMap_nil, List.prefix_nil, Transcript.clientMsgs] at h1
    simp only [Transcript.clientMsgs, Transcript.serverMsgs] at h2 ⊢
    simp only [cev, sev, List.filterMap_cons, Ev.msg?, SEv.got?, COp.send?, h1]
    exact ⟨List.nil_prefix, h2⟩
  all_goals simp_all [Transcript.clientMsgs, Transcript.serverMsgs, Srv.ops, cev, sev, stuckT, leftT, endT,
    Ev.msg?, SEv.got?, SOp.send?, COp.send?, List.filterMap_cons]
end ScVerif.C13
