import ScVerif.C13.Complete
/-
C13 — lemmas: messages are neither lost, duplicated nor reordered by the wrapper: what each side
received is a prefix of what the other side's script sends.
-/
namespace ScVerif.C13

def Ev.msg? : Ev → Option Nat | .msg m => some m | _ => none
def SEv.got? : SEv → Option Nat | .got m => some m | _ => none
def SOp.send? : SOp → Option Nat | .send m => some m | _ => none
def COp.send? : COp → Option Nat | .send m => some m | _ => none

/-- Messages the client received, in order. -/
def Transcript.clientMsgs (t : Transcript) : List Nat := t.client.filterMap Ev.msg?
/-- Messages the handler received, in order. -/
def Transcript.serverMsgs (t : Transcript) : List Nat := t.server.filterMap SEv.got?
def Srv.ops : Srv → List SOp | .running ops => ops | _ => []

theorem GrpcRef.terminal_msg {g : GrpcRef.State} {e : Ev} (h : GrpcRef.terminal g = some e) : e.msg? = none := by
  unfold GrpcRef.terminal at h
  cases hc : g.trlFrame with
  | some f => obtain ⟨md, c, m⟩ := f; simp [hc] at h; subst h; rfl
  | none =>
    cases ha : g.rst with
    | some a => simp [hc, ha] at h; subst h; rfl
    | none => simp [hc, ha] at h

/-- Proved on the reference run (where a message is its bytes); `C13_transcript_eq` carries it over to
the wrapper, whose receiver reads the payload out of message objects. -/
theorem go_msgs (fin : Fin) (reuse : Bool) (w : GrpcRef.State) (cc : Bool) (srv : Srv) (cs : List COp) :
    (go GrpcRef.impl fin reuse w cc srv cs).clientMsgs <+: srv.ops.filterMap SOp.send? ∧
    (go GrpcRef.impl fin reuse w cc srv cs).serverMsgs <+: cs.filterMap COp.send? := by
  fun_induction go GrpcRef.impl fin reuse w cc srv cs
  case case1 s cc md ss cs ih =>
    cases hb : (GrpcRef.impl.setHeader s md).2 <;>
      simpa [sevIf, hb, sev, Transcript.clientMsgs, Transcript.serverMsgs, Srv.ops, List.filterMap_cons, SOp.send?, SEv.got?] using ih
  case case2 s cc md ss cs ih =>
    cases hb : (GrpcRef.impl.sendHeader s md).2 <;>
      simpa [sevIf, hb, sev, Transcript.clientMsgs, Transcript.serverMsgs, Srv.ops, List.filterMap_cons, SOp.send?, SEv.got?] using ih
  case case26 s cc cs e he ih =>
    have := GrpcRef.terminal_msg he
    simp_all [Transcript.clientMsgs, Transcript.serverMsgs, Srv.ops, cev, List.filterMap_cons, COp.send?]
  case case34 s cc cs e he ih =>
    have := GrpcRef.terminal_msg he
    simp_all [Transcript.clientMsgs, Transcript.serverMsgs, Srv.ops, cev, List.filterMap_cons, COp.send?]
  case case16 s tl a cs ih =>
    obtain ⟨h1, h2⟩ := ih
    simp only [Srv.ops, List.filterMap_nil, List.prefix_nil, Transcript.clientMsgs] at h1
    simp only [Transcript.clientMsgs, Transcript.serverMsgs] at h2 ⊢
    simp only [cev, sev, List.filterMap_cons, Ev.msg?, SEv.got?, COp.send?, h1]
    exact ⟨List.nil_prefix, h2⟩
  case case22 s cc tl a cs ih =>
    obtain ⟨h1, h2⟩ := ih
    simp only [Srv.ops, List.filterMap_nil, List.prefix_nil, Transcript.clientMsgs] at h1
    simp only [Transcript.clientMsgs, Transcript.serverMsgs] at h2 ⊢
    simp only [cev, sev, List.filterMap_cons, Ev.msg?, SEv.got?, COp.send?, h1]
    exact ⟨List.nil_prefix, h2⟩
  all_goals simp_all [Transcript.clientMsgs, Transcript.serverMsgs, Srv.ops, cev, sev, stuckT, leftT, endT,
    Ev.msg?, SEv.got?, SOp.send?, COp.send?, List.filterMap_cons, GrpcRef.impl]
end ScVerif.C13
