import ScVerif.C13.Order
/-! C13 — lemmas about `hold` (the single response of a method without server streaming). -/
namespace ScVerif.C13

theorem holds_current (shape : Shape) : Wrap.holds Cfg.current shape = GrpcRef.holds shape := by
  cases shape <;> rfl

theorem canon_eq_statusEv (fin : Fin) : Wrap.canon fin = GrpcRef.statusEv fin := by
  cases fin <;> rfl

theorem hold_server (b : Bool) (fin : Fin) (st : Ev) (t : Transcript) : (hold b fin st t).server = t.server := by
  unfold hold; split <;> rfl

theorem holdEv_stuck (st e : Ev) (hst : st ≠ .stuck) : (Ev.stuck == holdEv st e) = (Ev.stuck == e) := by
  cases e <;> simp only [holdEv]
  have h1 : (Ev.stuck == st) = false := by
    cases st <;> first | rfl | exact absurd rfl hst
  rw [h1]
  rfl

theorem contains_map_holdEv (st : Ev) (hst : st ≠ .stuck) (l : List Ev) :
    (l.map (holdEv st)).contains .stuck = l.contains .stuck := by
  induction l with
  | nil => rfl
  | cons e t ih => simp only [List.map_cons, List.contains_cons, holdEv_stuck st e hst, ih]

theorem complete_hold (b : Bool) (fin : Fin) (st : Ev) (hst : st ≠ .stuck) (t : Transcript) :
    (hold b fin st t).complete = t.complete := by
  unfold hold
  split
  · simp only [Transcript.complete, contains_map_holdEv st hst]
  · rfl

theorem canon_ne_stuck (fin : Fin) : Wrap.canon fin ≠ .stuck := by cases fin <;> simp [Wrap.canon]

theorem filterMap_msg_holdEv (fin : Fin) (l : List Ev) :
    (l.map (holdEv (Wrap.canon fin))).filterMap Ev.msg? = [] := by
  induction l with
  | nil => rfl
  | cons e t ih =>
    cases e <;> cases fin <;> simp_all [holdEv, Ev.msg?, Wrap.canon, List.filterMap_cons]

/-- Holding the response back only removes messages from what the client received. -/
theorem clientMsgs_hold (b : Bool) (fin : Fin) (t : Transcript) :
    (hold b fin (Wrap.canon fin) t).clientMsgs <+: t.clientMsgs := by
  unfold hold
  split
  · simp only [Transcript.clientMsgs, filterMap_msg_holdEv]
    exact List.nil_prefix
  · exact List.prefix_refl _

theorem serverMsgs_hold (b : Bool) (fin : Fin) (st : Ev) (t : Transcript) :
    (hold b fin st t).serverMsgs = t.serverMsgs := by
  simp [Transcript.serverMsgs, hold_server]

end ScVerif.C13
