import ScVerif.C13.Errs
/-
C13 — HOW the caller's context ended, and the status a call on it reports (pkg/wrap/wrap.go: the entry checks
of `Invoke` and `NewStream`, the "request was not taken" branch of `Invoke`; pkg/wrap/stream.go: `RecvMsg`,
`SendHeader`, `ctxErr`).

Since Go 1.20 a context can end WITH A CAUSE: `context.WithCancelCause` (`cancel(cause)`),
`context.WithTimeoutCause` / `WithDeadlineCause` (the cause reported when the deadline passes).  `ctx.Err()` is
still `context.Canceled` / `context.DeadlineExceeded`; the caller's own error is what `context.Cause(ctx)`
returns.  The cause is inherited: a context derived from one that ended with a cause reports the same cause.

The standard library, as far as it is modelled (context.go, `cancelCtx.cancel(removeFromParent, err, cause)`):
```
if cause == nil { cause = err }
c.mu.Lock()
if c.err != nil { c.mu.Unlock(); return }   // already canceled
c.err = err; c.cause = cause
for child := range c.children { child.cancel(false, err, cause) }
```
so what the CALL's context reports is fixed by the first end of the context itself or of any of its ancestors.
-/
namespace ScVerif.C13

/-- One end of the call's context or of one of its ancestors: the cancel function was called / the deadline
passed, with the cause given for it (`none`: a plain `WithCancel` / `WithTimeout` / `WithDeadline`, or
`cancel(nil)`). -/
structure CtxEnd where
  abort : Abort
  cause : Option GoErr := none
  deriving DecidableEq, Repr

/-- The call's context: `none` = live; `some (err, cause)` = `ctx.Err()` and `context.Cause(ctx)`. -/
abbrev CtxState := Option (Abort × GoErr)

/-- `cancelCtx.cancel` as seen from the call's context. -/
def ctxStep (s : CtxState) (e : CtxEnd) : CtxState :=
  match s with
  | some x => some x
  | none => some (e.abort, e.cause.getD (.ctx e.abort))

/-- The state after a sequence of ends (in the order they happen). -/
def ctxRun (es : List CtxEnd) : CtxState := es.foldl ctxStep none

/-- `ctx.Err()` -/
def ctxErr (s : CtxState) : Option Abort := s.map (·.1)

/-- `context.Cause(ctx)` -/
def ctxCause (s : CtxState) : Option GoErr := s.map (·.2)

namespace Wrap

/-- The code: `status.FromContextError(ctx.Err()).Err()` (`none`: the context is live, the call goes on). -/
def contextStatus (s : CtxState) : Option (Nat × String) :=
  (ctxErr s).map fun a => statusFromContextError (.ctx a)

/-- NOT the code: the same with `context.Cause(ctx)` ("the status says why the context ended"). -/
def contextStatusByCause (s : CtxState) : Option (Nat × String) :=
  (ctxCause s).map statusFromContextError

end Wrap

namespace GrpcRef

/-- grpc-go's client (`newClientStream`, `csAttempt`, `recvMsg`): `toRPCErr(ctx.Err())` — Canceled /
DeadlineExceeded with the context error's text. -/
def contextStatus (s : CtxState) : Option (Nat × String) :=
  (ctxErr s).map fun a => (abortCode a, abortText a)

end GrpcRef

/-- The places of pkg/wrap that tell one of the two parties that the call's context has ended. -/
inductive CtxSite where
  | invokeEntry         -- wrap.go Invoke: `if err := ctx.Err(); err != nil { return status.FromContextError(err).Err() }`
  | invokeNotTaken      -- wrap.go Invoke: SendMsg(args) failed and `ctx.Err() != nil`
  | newStreamEntry      -- wrap.go NewStream
  | clientRecv          -- stream.go clientStream.RecvMsg: `return c.Context().Err()` (the raw context error)
  | clientAwaitStatus   -- stream.go clientStream.awaitStatus: `return c.ctx.Err()`
  | serverSendHeader    -- stream.go serverStream.SendHeader: `status.FromContextError(err).Err()`
  | serverSendMsg       -- stream.go serverStream.SendMsg: `s.ctxErr()`
  | serverRecvMsg       -- stream.go serverStream.RecvMsg: `s.ctxErr()`
  deriving DecidableEq, Repr

/-- Does the site hand out the raw context error (`true`) or a status made of it? -/
def CtxSite.raw : CtxSite → Bool
  | .clientRecv | .clientAwaitStatus => true
  | _ => false

namespace Wrap

/-- The error value a site returns for the state `s` of the context it looks at (`none`: live, the site does not
fire).  Every site reads `ctx.Err()`. -/
def siteError (site : CtxSite) (s : CtxState) : Option GoErr :=
  (ctxErr s).map fun a =>
    if site.raw then .ctx a
    else .status (statusFromContextError (.ctx a)).1 (statusFromContextError (.ctx a)).2

/-- NOT the code: the sites reading `context.Cause(ctx)` instead. -/
def siteErrorByCause (site : CtxSite) (s : CtxState) : Option GoErr :=
  (ctxCause s).map fun c =>
    if site.raw then c
    else .status (statusFromContextError c).1 (statusFromContextError c).2

end Wrap

/-- The status code as the class of outcome the harness prints for an open. -/
def openClassOfStatus : Option (Nat × String) → String
  | none => "ok"
  | some (c, _) => codeName c

theorem ctxRun_some (x : Abort × GoErr) (es : List CtxEnd) : es.foldl ctxStep (some x) = some x := by
  induction es with
  | nil => rfl
  | cons e es ih => simpa [List.foldl, ctxStep] using ih

theorem ctxRun_cons (e : CtxEnd) (es : List CtxEnd) :
    ctxRun (e :: es) = some (e.abort, e.cause.getD (.ctx e.abort)) := by
  simp [ctxRun, List.foldl, ctxStep, ctxRun_some]

/-- A FAMILY of contexts (any forest: `below n k` = context `k` is `n` itself or derived from it, directly or not):
an end at `n` reaches exactly the contexts below it (`cancelCtx.cancel` walks the children), each keeping an earlier
end of its own. `σ k` = the state of context `k`. -/
def famStep (below : Nat → Nat → Bool) (σ : Nat → CtxState) (ev : Nat × CtxEnd) : Nat → CtxState :=
  fun k => if below ev.1 k then ctxStep (σ k) ev.2 else σ k

def famRun (below : Nat → Nat → Bool) (σ : Nat → CtxState) (evs : List (Nat × CtxEnd)) : Nat → CtxState :=
  evs.foldl (famStep below) σ

theorem famRun_chain (below : Nat → Nat → Bool) (evs : List (Nat × CtxEnd)) (σ : Nat → CtxState) (k : Nat) :
    famRun below σ evs k = ((evs.filter fun ev => below ev.1 k).map (·.2)).foldl ctxStep (σ k) := by
  induction evs generalizing σ with
  | nil => rfl
  | cons ev evs ih =>
    simp only [famRun, List.foldl_cons] at ih ⊢
    rw [ih]
    by_cases h : below ev.1 k = true
    · simp [h, famStep]
    · simp [h, famStep]

/-! ### The handler's context ends with the call -/

/-- Which context the handler of a call is given. -/
inductive HandlerCtx where
  /-- the caller's context with the call's values (`startStream`'s result): ends only when the CALLER's context ends -/
  | caller
  /-- the stream's context (`ss.Context()`: `context.WithCancel` of the former in `NewClientServerStream`, cancelled by
  `Close`, which the handler goroutine calls when the handler has returned) -/
  | stream
  deriving DecidableEq, Repr

namespace Wrap

/-- pkg/wrap/wrap.go: `Invoke` runs `matched.Handler(w.srv, ss.Context(), dec, nil)` (`legacy`: it passed `ctx`);
`NewStream` runs `matched.Handler(w.srv, ss)` whose handler asks `ss.Context()`; `adaptUnaryToStream` passes
`stream.Context()`. -/
def handlerCtxOf (legacy : Bool) : Shape → HandlerCtx
  | .unary => if legacy then .caller else .stream
  | _ => .stream

/-- Has the handler's context ended in state `w` of the stream? -/
def handlerCtxDone (h : HandlerCtx) (w : State) : Bool :=
  match h with
  | .caller => w.ctxErr.isSome
  | .stream => w.closed.isSome || w.ctxErr.isSome

end Wrap

namespace GrpcRef

/-- A gRPC server's handler context (grpc-go `processUnaryRPC` / `processStreamingRPC`: the stream's context is
cancelled when the handler has returned and the status is written; and when the client cancels / its deadline
passes). -/
def handlerCtxDone (w : Wrap.State) : Bool := w.closed.isSome || w.ctxErr.isSome

end GrpcRef

end ScVerif.C13
