import ScVerif.C13.Invoke
import ScVerif.C13.Async
/-
C13 — the goroutine `wrapper.Invoke` starts for the handler (pkg/wrap/wrap.go), at the level of its blocking calls:

```
go func() {
    res, err := matched.Handler(w.srv, ctx, func(dst any) error { return ss.RecvMsg(dst) }, nil)
    if err != nil { clientServerStream.Close(err); return }
    err = ss.SendMsg(res)
    clientServerStream.Close(err)
}()
```

`matched.Handler` is the generated `_Xxx_Handler`: it decodes the request (`dec(in)` = `ss.RecvMsg`), returns the
decode error if there is one, and otherwise calls the server's method — the handler proper: work of its own for as
long as it likes (it may or may not watch its context: both are runs of `work`), ending in a reply or an error.
The goroutine is inside `serverStream.RecvMsg` / `SendMsg` (selects: Select.lean `srecvResults` / `ssendResults`) or
in the handler's own code.  As in Invoke.lean the state of the stream at each step is arbitrary.
-/
namespace ScVerif.C13
namespace Wrap

/-- Where the handler goroutine is. -/
inductive HPc where
  /-- inside `ss.RecvMsg` (the request decode); `res` / `err`: what the server's method will come to -/
  | recv (work : Nat) (res : Nat) (err : Fin)
  /-- in the server's method: `work` more steps of its own, then it returns (`res`, `err`) -/
  | work (work : Nat) (res : Nat) (err : Fin)
  /-- inside `ss.SendMsg(res)` -/
  | send (res : Nat)
  /-- `Close(err)` called, goroutine over -/
  | closed (err : Fin)
  deriving DecidableEq, Repr

def HPc.isClosed : HPc → Bool
  | .closed _ => true
  | _ => false

/-- One step of the handler goroutine in an instant of the stream (`[]` = blocked in a select). -/
def hstep (pc : HPc) (c : SChans) : List HPc :=
  match pc with
  | .recv n res err => (srecvResults c).map fun
      | .msg _ => .work n res err
      | .eof => .closed (.plain "EOF")            -- the decode error, handed to Close (an io.EOF: Unknown "EOF")
      | .ctxErr a => .closed (cancelFin a)
      | .sent => .closed (.plain "unreachable")
  | .work (n + 1) res err => [.work n res err]
  | .work 0 res err => if err = .ok then [.send res] else [.closed err]
  | .send _ => (ssendResults c).map fun
      | .sent => .closed .ok
      | .ctxErr a => .closed (cancelFin a)
      | _ => .closed (.plain "unreachable")
  | .closed _ => []

/-- Blocking calls and own steps ahead. -/
def HPc.rank : HPc → Nat
  | .recv n _ _ => n + 3
  | .work n _ _ => n + 2
  | .send _ => 1
  | .closed _ => 0

/-- The goroutine along the instants `cs`, taking a step whenever it can. -/
def hruns (pc : HPc) : List SChans → List HPc
  | [] => [pc]
  | c :: cs => (if hstep pc c = [] then [pc] else hstep pc c).flatMap (hruns · cs)

theorem hstep_ne_nil {pc : HPc} {c : SChans} (hd : ctxDone c.w = true) (hp : pc.isClosed = false) :
    hstep pc c ≠ [] := by
  cases pc with
  | recv n res err => simp [hstep, srecvResults, hd]
  | work n res err => cases n <;> simp [hstep]; split <;> simp
  | send m => simp [hstep, ssendResults, hd]
  | closed e => simp [HPc.isClosed] at hp

theorem hstep_rank {pc pc' : HPc} {c : SChans} (h : pc' ∈ hstep pc c) : pc'.rank < pc.rank := by
  cases pc with
  | recv n res err =>
    simp only [hstep, List.mem_map] at h
    obtain ⟨r, _, rfl⟩ := h
    cases r <;> simp [HPc.rank]
  | work n res err =>
    cases n with
    | zero =>
      simp only [hstep] at h
      split at h <;> simp at h <;> subst h <;> simp [HPc.rank]
    | succ k => simp [hstep] at h; subst h; simp [HPc.rank]
  | send m =>
    simp only [hstep, List.mem_map] at h
    obtain ⟨r, _, rfl⟩ := h
    cases r <;> simp [HPc.rank]
  | closed e => simp [hstep] at h

theorem hruns_closed (e : Fin) (cs : List SChans) : hruns (.closed e) cs = [.closed e] := by
  induction cs with
  | nil => rfl
  | cons c cs ih => simp [hruns, hstep, ih]

theorem hruns_complete (cs : List SChans) (hcs : ∀ c ∈ cs, ctxDone c.w = true) :
    ∀ pc, pc.rank ≤ cs.length → ∀ pc' ∈ hruns pc cs, pc'.isClosed = true := by
  induction cs with
  | nil =>
    intro pc hr pc' h
    simp [hruns] at h
    subst h
    cases pc' <;> simp_all [HPc.rank, HPc.isClosed]
  | cons c cs ih =>
    intro pc hr pc' h
    have hcs' : ∀ c ∈ cs, ctxDone c.w = true := fun x hx => hcs x (List.mem_cons_of_mem _ hx)
    cases hdone : pc.isClosed with
    | true =>
      cases pc with
      | closed e => rw [hruns_closed] at h; simp at h; subst h; rfl
      | _ => simp [HPc.isClosed] at hdone
    | false =>
      have hne := hstep_ne_nil (hcs c (List.mem_cons_self ..)) hdone
      simp only [hruns, hne, if_false, List.mem_flatMap] at h
      obtain ⟨q, hq, hq'⟩ := h
      have := hstep_rank hq
      exact ih hcs' q (by simp at hr; omega) pc' hq'

end Wrap
end ScVerif.C13
