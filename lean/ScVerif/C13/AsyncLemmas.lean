import ScVerif.C13.Async
/-
C13 — lemmas about the runs after an abort at an arbitrary position.
-/
namespace ScVerif.C13

/-- What a client op after its own abort may yield. -/
def AllowedEv (fin opErr : Fin) (a : Abort) (e : Ev) : Prop :=
  e = .aborted a ∨ (∃ m, e = .msg m) ∨ e = Wrap.canon fin ∨ e = Wrap.canon opErr ∨
  (∃ md, e = .hdr md) ∨ (∃ md, e = .trl md) ∨ e = .stuck

/-- While the handler runs the stream is not closed; once it returned, it was closed with what the
script returns or with the error its failing call gave it. -/
def AInv (fin opErr : Fin) (w : Wrap.State) : Srv → Prop
  | .running _ => w.closed = none
  | .done => w.closed = some fin ∨ w.closed = some opErr
  | .aborted => True

theorem setHeader_closed (c : Cfg) (w : Wrap.State) (md : MD) : (Wrap.setHeader c w md).1.closed = w.closed := by
  unfold Wrap.setHeader
  split
  · split
    · rfl
    · split <;> rfl
  · rfl

theorem sendHeader_closed (c : Cfg) (w : Wrap.State) (md : MD) : (Wrap.sendHeaderC c w md).1.closed = w.closed := by
  unfold Wrap.sendHeaderC Wrap.sendHeader Wrap.sendHeaderOld
  split
  · split
    · rfl
    · split <;> rfl
  · split <;> rfl

theorem close_closed (c : Cfg) (w : Wrap.State) (e : Fin) : (Wrap.close c w e).closed = some e := by
  simp [Wrap.close]

theorem unwind_inv (c : Cfg) (fin opErr : Fin) (cc : Bool) (ops : List SOp) :
    ∀ w : Wrap.State, w.closed = none →
      ∀ f ∈ unwind (Wrap.impl c) fin opErr cc w ops, AInv fin opErr f.1 f.2 := by
  induction ops with
  | nil =>
    intro w hw f hf
    simp only [unwind, List.mem_cons, List.mem_nil_iff, or_false] at hf
    rcases hf with rfl | rfl
    · exact hw
    · exact Or.inl (close_closed c w fin)
  | cons op ss ih =>
    intro w hw f hf
    cases op with
    | setHeader md =>
      simp only [unwind, List.mem_cons] at hf
      rcases hf with rfl | hf
      · exact hw
      · exact ih _ (by simp only [Wrap.impl]; rw [setHeader_closed]; exact hw) f hf
    | sendHeader md =>
      simp only [unwind, List.mem_cons] at hf
      rcases hf with rfl | hf
      · exact hw
      · exact ih _ (by simp only [Wrap.impl]; rw [sendHeader_closed]; exact hw) f hf
    | setTrailer md =>
      simp only [unwind, List.mem_cons] at hf
      rcases hf with rfl | hf
      · exact hw
      · exact ih _ (by simpa [Wrap.impl, Wrap.setTrailer] using hw) f hf
    | send m =>
      simp only [unwind, List.mem_cons, List.mem_nil_iff, or_false] at hf
      rcases hf with rfl | rfl
      · show (Wrap.sendHeaderIfNeededC c w).closed = none
        unfold Wrap.sendHeaderIfNeededC; rw [sendHeader_closed]; exact hw
      · exact Or.inr (close_closed c _ opErr)
    | recv =>
      simp only [unwind, List.mem_cons] at hf
      rcases hf with rfl | rfl | hf
      · exact hw
      · exact Or.inr (close_closed c _ opErr)
      · cases cc
        · simp at hf
        · exact ih _ hw f (by simpa using hf)
    | wait =>
      simp only [unwind, List.mem_cons, List.mem_nil_iff, or_false] at hf
      rcases hf with rfl | rfl
      · exact hw
      · exact Or.inr (close_closed c _ opErr)

theorem advance_inv (c : Cfg) (fin opErr : Fin) (cc : Bool) (ops : List SOp) :
    ∀ w : Wrap.State, w.closed = none →
      ∀ f ∈ advance (Wrap.impl c) fin cc w ops, AInv fin opErr f.1 f.2 := by
  induction ops with
  | nil =>
    intro w hw f hf
    simp only [advance, List.mem_cons, List.mem_nil_iff, or_false] at hf
    rcases hf with rfl | rfl
    · exact hw
    · exact Or.inl (close_closed c w fin)
  | cons op ss ih =>
    intro w hw f hf
    cases op with
    | setHeader md =>
      simp only [advance, List.mem_cons] at hf
      rcases hf with rfl | hf
      · exact hw
      · exact ih _ (by simp only [Wrap.impl]; rw [setHeader_closed]; exact hw) f hf
    | sendHeader md =>
      simp only [advance, List.mem_cons] at hf
      rcases hf with rfl | hf
      · exact hw
      · exact ih _ (by simp only [Wrap.impl]; rw [sendHeader_closed]; exact hw) f hf
    | setTrailer md =>
      simp only [advance, List.mem_cons] at hf
      rcases hf with rfl | hf
      · exact hw
      · exact ih _ (by simpa [Wrap.impl, Wrap.setTrailer] using hw) f hf
    | send m =>
      simp only [advance, List.mem_cons, List.mem_nil_iff, or_false] at hf
      rcases hf with rfl | rfl
      · exact hw
      · show (Wrap.sendHeaderIfNeededC c w).closed = none
        unfold Wrap.sendHeaderIfNeededC; rw [sendHeader_closed]; exact hw
    | recv =>
      simp only [advance, List.mem_cons] at hf
      rcases hf with rfl | hf
      · exact hw
      · cases cc
        · simp at hf
        · exact ih _ hw f (by simpa using hf)
    | wait =>
      simp only [advance, List.mem_cons, List.mem_nil_iff, or_false] at hf
      subst hf
      exact hw

theorem advanced_inv (c : Cfg) (fin opErr : Fin) (cc : Bool) (w : Wrap.State) (srv : Srv)
    (h : AInv fin opErr w srv) : ∀ f ∈ advanced (Wrap.impl c) fin cc w srv, AInv fin opErr f.1 f.2 := by
  cases srv with
  | running ops => exact advance_inv c fin opErr cc ops w h
  | done => intro f hf; simp only [advanced, List.mem_cons, List.mem_nil_iff, or_false] at hf; subst hf; exact h
  | aborted => intro f hf; simp only [advanced, List.mem_cons, List.mem_nil_iff, or_false] at hf; subst hf; exact h

theorem futures_inv (c : Cfg) (fin opErr : Fin) (cc : Bool) (w : Wrap.State) (srv : Srv)
    (h : AInv fin opErr w srv) : ∀ f ∈ futures (Wrap.impl c) fin opErr cc w srv, AInv fin opErr f.1 f.2 := by
  cases srv with
  | running ops => exact unwind_inv c fin opErr cc ops w h
  | done => intro f hf; simp only [futures, List.mem_cons, List.mem_nil_iff, or_false] at hf; subst hf; exact h
  | aborted => intro f hf; simp only [futures, List.mem_cons, List.mem_nil_iff, or_false] at hf; subst hf; exact h

theorem observe_inv (c : Cfg) (fin opErr : Fin) (a : Abort) (reuse term : Bool) (op : COp) (f : Wrap.State × Srv)
    (h : AInv fin opErr f.1 f.2) :
    ∀ o ∈ observe (Wrap.impl c) a reuse term op f, AInv fin opErr o.2.1.1 o.2.1.2 ∧ AllowedEv fin opErr a o.1 := by
  intro o ho
  obtain ⟨w, srv⟩ := f
  dsimp only at h
  cases op with
  | recv =>
    simp only [observe] at ho
    cases term
    · simp only [Bool.false_eq_true, if_false] at ho
      cases srv with
      | running ops =>
        cases ops with
        | nil => simp at ho; subst ho; exact ⟨h, Or.inl rfl⟩
        | cons op ss =>
          cases op <;> simp only [List.mem_cons, List.mem_nil_iff, or_false] at ho
          case send m =>
            rcases ho with rfl | rfl
            · refine ⟨?_, Or.inr (Or.inl ⟨_, rfl⟩)⟩
              show (Wrap.xfer c w .s2c m reuse).1.closed = none
              rw [Wrap.xfer_closed]; exact h
            · exact ⟨h, Or.inl rfl⟩
          all_goals (subst ho; exact ⟨h, Or.inl rfl⟩)
      | done =>
        have ht : ∃ e, Wrap.terminal w = some (Wrap.canon e) ∧ (e = fin ∨ e = opErr) := by
          rcases h with h | h
          · exact ⟨fin, by simp [Wrap.terminal, h], Or.inl rfl⟩
          · exact ⟨opErr, by simp [Wrap.terminal, h], Or.inr rfl⟩
        obtain ⟨e, he, hee⟩ := ht
        simp only [Wrap.impl, he, List.mem_cons, List.mem_nil_iff, or_false] at ho
        rcases ho with rfl | rfl
        · refine ⟨h, ?_⟩
          rcases hee with rfl | rfl
          · exact Or.inr (Or.inr (Or.inl rfl))
          · exact Or.inr (Or.inr (Or.inr (Or.inl rfl)))
        · exact ⟨h, Or.inl rfl⟩
      | aborted => simp at ho; subst ho; exact ⟨h, Or.inl rfl⟩
    · simp at ho
  | header =>
    simp only [observe, List.mem_cons, List.mem_nil_iff, or_false] at ho
    subst ho
    exact ⟨h, Or.inr (Or.inr (Or.inr (Or.inr (Or.inl ⟨_, rfl⟩))))⟩
  | trailer =>
    simp only [observe, List.mem_cons, List.mem_nil_iff, or_false] at ho
    subst ho
    exact ⟨h, Or.inr (Or.inr (Or.inr (Or.inr (Or.inr (Or.inl ⟨_, rfl⟩)))))⟩
  | send m => simp [observe] at ho
  | closeSend => simp [observe] at ho
  | abort b => simp [observe] at ho

theorem after_allowed (c : Cfg) (fin opErr : Fin) (a : Abort) (reuse cc : Bool) (cs : List COp) :
    ∀ (term : Bool) (w : Wrap.State) (srv : Srv), AInv fin opErr w srv →
      ∀ evs ∈ after (Wrap.impl c) fin opErr a reuse cc term w srv cs, ∀ e ∈ evs, AllowedEv fin opErr a e := by
  induction cs with
  | nil => intro term w srv _ evs hevs e he; simp [after] at hevs; subst hevs; simp at he
  | cons op cs ih =>
    intro term w srv h evs hevs e he
    simp only [after] at hevs
    split at hevs
    · simp at hevs; subst hevs; simp at he; subst he
      exact Or.inr (Or.inr (Or.inr (Or.inr (Or.inr (Or.inr rfl)))))
    · simp only [List.mem_flatMap, List.mem_map] at hevs
      obtain ⟨o, ho, rest, hrest, rfl⟩ := hevs
      obtain ⟨f, hf, hof⟩ := ho
      have hfi := futures_inv c fin opErr cc w srv h f hf
      have hoi := observe_inv c fin opErr a reuse term op f hfi o hof
      simp only [List.mem_cons] at he
      rcases he with rfl | he
      · exact hoi.2
      · exact ih o.2.2 o.2.1.1 o.2.1.2 hoi.1 rest hrest e he

end ScVerif.C13

namespace ScVerif.C13

theorem xfer_closed' (c : Cfg) (w : Wrap.State) (d : Dir) (m : Nat) (r : Bool) :
    ((Wrap.impl c).xfer w d m r).1.closed = w.closed := Wrap.xfer_closed c w d m r

/-- The state in which the abort finds the call satisfies `AInv` (with any `opErr`). -/
theorem stateAt_inv (c : Cfg) (fin opErr : Fin) (reuse : Bool) (w : Wrap.State) (cc : Bool) (srv : Srv)
    (cs : List COp) :
    AInv fin opErr w srv → ∀ r, stateAt (Wrap.impl c) fin reuse w cc srv cs = some r → AInv fin opErr r.1 r.2.2 := by
  fun_induction stateAt (Wrap.impl c) fin reuse w cc srv cs
  all_goals intro h r hr
  all_goals first
    | (simp at hr; done)
    | (simp only [Option.some.injEq] at hr; subst hr; exact h)
    | (rename_i ih; exact ih h r hr)
    | (rename_i ih; refine ih ?_ r hr; show (Wrap.setHeader c _ _).1.closed = none; rw [setHeader_closed]; exact h)
    | (rename_i ih; refine ih ?_ r hr; show (Wrap.sendHeaderC c _ _).1.closed = none; rw [sendHeader_closed]; exact h)
    | (rename_i ih; refine ih ?_ r hr; show (Wrap.setTrailer _ _).closed = none; exact h)
    | (rename_i ih; refine ih ?_ r hr; exact Or.inl (close_closed c _ fin))
    | (rename_i ih; refine ih ?_ r hr; show (Wrap.sendHeaderIfNeededC c _).closed = none; unfold Wrap.sendHeaderIfNeededC; rw [sendHeader_closed]; exact h)
    | (rename_i ih; refine ih ?_ r hr; show ((Wrap.impl c).xfer _ _ _ _).1.closed = none; rw [xfer_closed']; exact h)
    | (rename_i ih; refine ih ?_ r hr; show ((Wrap.impl c).xfer _ _ _ _).1.closed = none; rw [xfer_closed']; show (Wrap.sendHeaderIfNeededC c _).closed = none; unfold Wrap.sendHeaderIfNeededC; rw [sendHeader_closed]; exact h)

/-- **After the abort the handler always returns**: every way it can unwind ends with the handler
returned (each of its blocking calls also waits on the call's context). -/
theorem unwind_last_done {σ : Type} (I : Impl σ) (fin opErr : Fin) (cc : Bool) (ops : List SOp) :
    ∀ s : σ, ((unwind I fin opErr cc s ops).getLast?).map (·.2) = some .done := by
  induction ops with
  | nil => intro s; simp [unwind]
  | cons op ss ih =>
    intro s
    cases op <;> simp only [unwind]
    case setHeader md => rw [List.getLast?_cons_of_ne_nil]; exact ih _; intro h; have := ih (I.setHeader s md).1; simp [h] at this
    case sendHeader md => rw [List.getLast?_cons_of_ne_nil]; exact ih _; intro h; have := ih (I.sendHeader s md).1; simp [h] at this
    case setTrailer md => rw [List.getLast?_cons_of_ne_nil]; exact ih _; intro h; have := ih (I.setTrailer s md); simp [h] at this
    case send m => simp
    case wait => simp
    case recv =>
      cases cc
      · simp
      · simp only [if_true]
        have hne : unwind I fin opErr true s ss ≠ [] := by intro h; have := ih s; simp [h] at this
        rw [List.getLast?_cons_of_ne_nil (by simp), List.getLast?_cons_of_ne_nil hne]
        exact ih s

/-! ### Once the caller's context has ended, nothing the handler does changes what `Header()` reads -/

/-- `w'` differs from `w` at most in metadata that is not (and never will be) visible through `Header()`:
same context state, same latch, and the same header content if the latch is closed. -/
def Frozen (w w' : Wrap.State) : Prop :=
  w'.ctxErr = w.ctxErr ∧ w'.headerC = w.headerC ∧ (w.headerC = true → w'.header = w.header)

theorem Frozen.refl (w : Wrap.State) : Frozen w w := ⟨rfl, rfl, fun _ => rfl⟩

theorem Frozen.trans {a b c : Wrap.State} (h1 : Frozen a b) (h2 : Frozen b c) : Frozen a c :=
  ⟨h2.1.trans h1.1, h2.2.1.trans h1.2.1, fun h => (h2.2.2 (h1.2.1.trans h)).trans (h1.2.2 h)⟩

theorem Frozen.header {w w' : Wrap.State} (h : Frozen w w') (he : w.ctxErr.isSome = true) :
    Wrap.header w' = Wrap.header w := by
  obtain ⟨h1, h2, h3⟩ := h
  unfold Wrap.header
  rw [h1, h2]
  by_cases hc : w.headerC
  · simp [hc, h3 hc]
  · simp [hc, he]

theorem frozen_setHeader (w : Wrap.State) (md : MD) : Frozen w (Wrap.setHeader Cfg.current w md).1 := by
  unfold Wrap.setHeader
  simp only [Cfg.current, if_true]
  by_cases hm : md.isEmpty
  · simp only [hm, if_true]; exact Frozen.refl w
  · by_cases hc : w.headerC
    · simp only [hm, hc, if_true]; exact Frozen.refl w
    · have hc' : w.headerC = false := by simpa using hc
      simp only [hm, hc', Bool.false_eq_true, if_false]
      exact ⟨rfl, hc'.symm, fun h => absurd h hc⟩

theorem frozen_sendHeader (w : Wrap.State) (md : MD) (he : w.ctxErr.isSome = true) :
    Frozen w (Wrap.sendHeader w md).1 := by
  unfold Wrap.sendHeader
  simp only [he, if_true]
  exact Frozen.refl w

theorem frozen_close (w : Wrap.State) (e : Fin) (he : w.ctxErr.isSome = true) :
    Frozen w (Wrap.close Cfg.current w e) := by
  have hcl : Wrap.close Cfg.current w e = { Wrap.sendHeaderIfNeeded w with closed := some e } := rfl
  rw [hcl]
  obtain ⟨h1, h2, h3⟩ := frozen_sendHeader w [] he
  exact ⟨h1, h2, h3⟩

/-- The closed flag does not take part in `Header()` once the context has ended. -/
theorem header_close_irrelevant (w : Wrap.State) (e : Fin) (he : w.ctxErr.isSome = true) :
    Wrap.header { w with closed := some e } = Wrap.header w := by
  unfold Wrap.header
  by_cases hc : w.headerC <;> simp [hc, he]

/-- Every state the handler passes through while it unwinds after the abort is `Frozen` w.r.t. the state
at the abort. -/
theorem unwind_frozen (fin opErr : Fin) (cc : Bool) (ops : List SOp) :
    ∀ w : Wrap.State, w.ctxErr.isSome = true →
      ∀ f ∈ unwind (Wrap.impl Cfg.current) fin opErr cc w ops, Frozen w f.1 := by
  induction ops with
  | nil =>
    intro w he f hf
    simp only [unwind, List.mem_cons, List.mem_nil_iff, or_false] at hf
    rcases hf with rfl | rfl
    · exact Frozen.refl w
    · exact frozen_close w fin he
  | cons op ss ih =>
    intro w he f hf
    cases op with
    | setHeader md =>
      simp only [unwind, List.mem_cons] at hf
      rcases hf with rfl | hf
      · exact Frozen.refl w
      · have hfz := frozen_setHeader w md
        exact hfz.trans (ih _ (by rw [hfz.1]; exact he) f hf)
    | sendHeader md =>
      simp only [unwind, List.mem_cons] at hf
      rcases hf with rfl | hf
      · exact Frozen.refl w
      · have hfz := frozen_sendHeader w md he
        exact hfz.trans (ih _ (by rw [hfz.1]; exact he) f hf)
    | setTrailer md =>
      simp only [unwind, List.mem_cons] at hf
      rcases hf with rfl | hf
      · exact Frozen.refl w
      · have hfz : Frozen w (Wrap.setTrailer w md) := ⟨rfl, rfl, fun _ => rfl⟩
        exact hfz.trans (ih (Wrap.setTrailer w md) he f hf)
    | send m =>
      simp only [unwind, List.mem_cons, List.mem_nil_iff, or_false] at hf
      have hfz : Frozen w (Wrap.sendHeaderIfNeeded w) := frozen_sendHeader w [] he
      rcases hf with rfl | rfl
      · exact hfz
      · exact hfz.trans (frozen_close _ opErr (by rw [hfz.1]; exact he))
    | recv =>
      simp only [unwind, List.mem_cons] at hf
      rcases hf with rfl | rfl | hf
      · exact Frozen.refl w
      · exact frozen_close w opErr he
      · cases cc
        · simp at hf
        · simp only [if_true] at hf
          exact ih w he f hf
    | wait =>
      simp only [unwind, List.mem_cons, List.mem_nil_iff, or_false] at hf
      rcases hf with rfl | rfl
      · exact Frozen.refl w
      · exact frozen_close w opErr he

end ScVerif.C13
