import ScVerif.C13.Script
/-
C13 — reference semantics of a real gRPC (HTTP/2) call, written from gRPC's documented behaviour,
independently of pkg/wrap:

* the server writes at most one HEADERS frame: on `SendHeader`, before the first message, or — if
  any header metadata was set — together with the final status; `SetHeader`/`SendHeader` after that
  frame fail (`SetHeader` with empty metadata always succeeds);
* the handler's return value travels in the trailers frame as `grpc-status`/`grpc-message` together
  with the metadata given to `SetTrailer`; a non-status error is sent as Unknown;
* the client's `Header()` returns the HEADERS frame's metadata, or nothing when the call ended
  without one (trailers-only response, or the call was cancelled first);
* `Trailer()` is the trailers frame's metadata; `RecvMsg` after the last message returns the status
  of the trailers frame, or Canceled / DeadlineExceeded when the caller's context ended.
-/
namespace ScVerif.C13
namespace GrpcRef

structure State where
  staged : MD := []                               -- header metadata set but not yet on the wire
  hdrFrame : Option MD := none                    -- the HEADERS frame, once written
  trailers : MD := []                             -- metadata given to SetTrailer so far
  trlFrame : Option (MD × Nat × String) := none   -- trailers frame: metadata, grpc-status, grpc-message
  rst : Option Abort := none                      -- the client reset the stream (cancel / deadline)
  deriving DecidableEq, Repr

def headerWritten (g : State) : Bool := g.hdrFrame.isSome || g.trlFrame.isSome

def setHeader (g : State) (md : MD) : State × Bool :=
  if md.isEmpty then (g, false)
  else if headerWritten g then (g, true)
  else ({ g with staged := g.staged ++ md }, false)

def sendHeader (g : State) (md : MD) : State × Bool :=
  if headerWritten g then (g, true)
  else ({ g with hdrFrame := some (g.staged ++ md), staged := [] }, false)

def setTrailer (g : State) (md : MD) : State := { g with trailers := g.trailers ++ md }

/-- Before the first DATA frame the HEADERS frame is written if it was not yet. -/
def beforeData (g : State) : State :=
  match g.hdrFrame with
  | some _ => g
  | none => { g with hdrFrame := some g.staged, staged := [] }

/-- grpc-status / grpc-message of what the handler returned. -/
def wireStatus : Fin → Nat × String
  | .ok => (0, "")
  | .status c m => (c, m)
  | .plain m => (2, m)

/-- The handler returned: staged header metadata (if any) goes out in a HEADERS frame first, otherwise
the response is trailers-only. -/
def writeStatus (g : State) (fin : Fin) : State :=
  let g := match g.hdrFrame with
    | some _ => g
    | none => if g.staged.isEmpty then g else { g with hdrFrame := some g.staged, staged := [] }
  { g with trlFrame := some (g.trailers, (wireStatus fin).1, (wireStatus fin).2) }

def reset (g : State) (a : Abort) : State := { g with rst := some a }

def header (g : State) : Option MD :=
  match g.hdrFrame with
  | some md => some md
  | none => if g.trlFrame.isSome || g.rst.isSome then some [] else none

def trailer (g : State) : MD :=
  match g.trlFrame with
  | some (md, _, _) => md
  | none => []

def terminal (g : State) : Option Ev :=
  match g.trlFrame with
  | some (_, c, m) => some (.fin c m)
  | none => g.rst.map Ev.aborted

def impl : Impl State where
  setHeader := setHeader
  sendHeader := sendHeader
  setTrailer := setTrailer
  preSend := beforeData
  xfer := fun g _ m _ => (g, m)   -- SendMsg serialises the message: the receiver decodes those bytes
  close := writeStatus
  abort := reset
  header := header
  trailer := trailer
  terminal := terminal

end GrpcRef
end ScVerif.C13
