import ScVerif.C13.Conn
/-
C13 — the call options of a unary call (pkg/wrap/wrap.go `collectMetadata`).

`Invoke` is handed the caller's option list; `collectMetadata` walks it in order: every `grpc.Header(&h)` option
gets a clone of `Header()`, every `grpc.Trailer(&t)` option a clone of `Trailer()`, every other option is ignored.
The caller's variables are addressed by numbers; `Vars` is the assignment log, newest first.  Anything between the
caller and `Invoke` (a generated trait wrapper, a typed client, an adapter) is a function on the option list.
-/
namespace ScVerif.C13

inductive CallOpt where
  | header (addr : Nat)    -- grpc.Header(&vars[addr])
  | trailer (addr : Nat)   -- grpc.Trailer(&vars[addr])
  | other (tag : Nat)      -- any other call option (WaitForReady, MaxCallRecvMsgSize, ...)
  deriving DecidableEq, Repr

abbrev Vars := List (Nat × MD)

/-- `collectMetadata(cs, opts)`: `for _, opt := range opts { switch opt.(type) { … } }`. -/
def collectMetadata (hdr trl : MD) : List CallOpt → Vars → Vars
  | [], v => v
  | .header a :: os, v => collectMetadata hdr trl os ((a, cloneMD hdr) :: v)
  | .trailer a :: os, v => collectMetadata hdr trl os ((a, cloneMD trl) :: v)
  | .other _ :: os, v => collectMetadata hdr trl os v

def CallOpt.isMeta : CallOpt → Bool
  | .other _ => false
  | _ => true

theorem cloneMD_eq (md : MD) : cloneMD md = md := by
  unfold cloneMD
  induction md with
  | nil => rfl
  | cons kv t ih => simp [List.map]

theorem collect_header_aux (hdr trl : MD) (a : Nat) :
    ∀ (opts : List CallOpt) (v : Vars), (∀ b, CallOpt.trailer b ∈ opts → b ≠ a) →
      (CallOpt.header a ∈ opts ∨ v.lookup a = some hdr) →
      (collectMetadata hdr trl opts v).lookup a = some hdr := by
  intro opts
  induction opts with
  | nil => intro v _ h; simpa [collectMetadata] using h
  | cons o os ih =>
    intro v hno h
    have hno' : ∀ b, CallOpt.trailer b ∈ os → b ≠ a := fun b hb => hno b (List.mem_cons_of_mem _ hb)
    cases o with
    | header a' =>
      simp only [collectMetadata]
      apply ih _ hno'
      by_cases e : a' = a
      · right; simp [List.lookup, e, cloneMD_eq]
      · rcases h with h | h
        · left
          rcases List.mem_cons.mp h with h | h
          · cases h; exact absurd rfl e
          · exact h
        · right
          have : (a == a') = false := by simpa using fun hh : a = a' => e hh.symm
          simp [List.lookup, this, h]
    | trailer b =>
      simp only [collectMetadata]
      apply ih _ hno'
      have hb : b ≠ a := hno b (by simp)
      rcases h with h | h
      · left; simpa using h
      · right
        have : (a == b) = false := by simpa using fun hh : a = b => hb hh.symm
        simp [List.lookup, this, h]
    | other t =>
      simp only [collectMetadata]
      apply ih _ hno'
      rcases h with h | h
      · left; simpa using h
      · right; exact h

theorem collect_trailer_aux (hdr trl : MD) (a : Nat) :
    ∀ (opts : List CallOpt) (v : Vars), (∀ b, CallOpt.header b ∈ opts → b ≠ a) →
      (CallOpt.trailer a ∈ opts ∨ v.lookup a = some trl) →
      (collectMetadata hdr trl opts v).lookup a = some trl := by
  intro opts
  induction opts with
  | nil => intro v _ h; simpa [collectMetadata] using h
  | cons o os ih =>
    intro v hno h
    have hno' : ∀ b, CallOpt.header b ∈ os → b ≠ a := fun b hb => hno b (List.mem_cons_of_mem _ hb)
    cases o with
    | trailer a' =>
      simp only [collectMetadata]
      apply ih _ hno'
      by_cases e : a' = a
      · right; simp [List.lookup, e, cloneMD_eq]
      · rcases h with h | h
        · left
          rcases List.mem_cons.mp h with h | h
          · cases h; exact absurd rfl e
          · exact h
        · right
          have : (a == a') = false := by simpa using fun hh : a = a' => e hh.symm
          simp [List.lookup, this, h]
    | header b =>
      simp only [collectMetadata]
      apply ih _ hno'
      have hb : b ≠ a := hno b (by simp)
      rcases h with h | h
      · left; simpa using h
      · right
        have : (a == b) = false := by simpa using fun hh : a = b => hb hh.symm
        simp [List.lookup, this, h]
    | other t =>
      simp only [collectMetadata]
      apply ih _ hno'
      rcases h with h | h
      · left; simpa using h
      · right; exact h

theorem collect_filter (hdr trl : MD) :
    ∀ (opts : List CallOpt) (v : Vars),
      collectMetadata hdr trl (opts.filter CallOpt.isMeta) v = collectMetadata hdr trl opts v := by
  intro opts
  induction opts with
  | nil => intro v; rfl
  | cons o os ih => intro v; cases o <;> simp [List.filter, CallOpt.isMeta, collectMetadata, ih]

theorem collect_untouched (hdr trl : MD) (a : Nat) :
    ∀ (opts : List CallOpt) (v : Vars), CallOpt.header a ∉ opts → CallOpt.trailer a ∉ opts →
      (collectMetadata hdr trl opts v).lookup a = v.lookup a := by
  intro opts
  induction opts with
  | nil => intro v _ _; rfl
  | cons o os ih =>
    intro v hh ht
    have hh' : CallOpt.header a ∉ os := fun h => hh (List.mem_cons_of_mem _ h)
    have ht' : CallOpt.trailer a ∉ os := fun h => ht (List.mem_cons_of_mem _ h)
    cases o with
    | header b =>
      have hb : (a == b) = false := by
        have : a ≠ b := fun e => hh (by simp [e])
        simpa using this
      simp only [collectMetadata]
      rw [ih _ hh' ht']; simp [List.lookup, hb]
    | trailer b =>
      have hb : (a == b) = false := by
        have : a ≠ b := fun e => ht (by simp [e])
        simpa using this
      simp only [collectMetadata]
      rw [ih _ hh' ht']; simp [List.lookup, hb]
    | other t => simp only [collectMetadata]; exact ih _ hh' ht'

end ScVerif.C13
