import ScVerif.C13.Wrap
/-
C13 — `ClientServerStream.Close(err)` step by step (pkg/wrap/stream.go).

`Wrap.close` (Wrap.lean) treats Close as one atomic step.  The Go function is four separate writes
that a client goroutine parked in `RecvMsg` / `Header()` can observe one by one:

```
_ = (&serverStream{s}).SendHeader(nil)   -- flush     : join nothing, close the latch headerC (if still open and
                                         --             the call's context has not ended: 1e9d1bd)
s.headerM.Lock(); s.closeErr = err; …    -- recordErr : the error the client is to be given
close(s.serverSend)                      -- closeChan : RecvMsg's `case _, ok := <-serverSend` fires with !ok
s.closed()                               -- cancelCtx : the stream context is done
```
`Fine` carries exactly the fields these writes and the client-side reads touch; the reads below follow
`clientStream.Header`, `.Trailer`, `.RecvMsg` (no message in flight) select-case by select-case.
-/
namespace ScVerif.C13
namespace Wrap

structure Fine where
  header : MD := []
  headerC : Bool := false
  trailer : MD := []
  closeErr : Option Fin := none     -- none = the field still holds nil because Close has not written it
  sendClosed : Bool := false        -- serverSend is closed
  ctxErr : Option Abort := none     -- the stream context is done, with this error (first cause wins)
  deriving DecidableEq, Repr

inductive CloseStep where
  | flush
  | recordErr (err : Fin)
  | closeChan
  | cancelCtx
  deriving DecidableEq, Repr

def Fine.step (f : Fine) : CloseStep → Fine
  | .flush => if f.ctxErr.isSome then f else if f.headerC then f else { f with headerC := true }
  | .recordErr err => { f with closeErr := some err }
  | .closeChan => { f with sendClosed := true }
  | .cancelCtx => { f with ctxErr := f.ctxErr <|> some .cancel }   -- context.Canceled unless already done

def Fine.run (f : Fine) (steps : List CloseStep) : Fine := steps.foldl Fine.step f

/-- The statements of `Close`, in the order of the source. -/
def closeOrder (err : Fin) : List CloseStep := [.flush, .recordErr err, .closeChan, .cancelCtx]

/-- A stream on which Close has not started, seen at field level. -/
def lift (w : State) : Fine :=
  { header := w.header, headerC := w.headerC, trailer := w.trailer, ctxErr := w.ctxErr }

/-- `clientStream.Header()`: `select { <-ctx.Done(): (headerC closed ? header : nil); <-headerC: header }`
(when both are ready either case gives the header). -/
def Fine.readHeader (f : Fine) : Option MD :=
  if f.headerC then some f.header
  else if f.ctxErr.isSome then some []
  else none

def Fine.readTrailer (f : Fine) : MD := f.trailer

/-- `closeErrLocked()`: `closeErr`, or io.EOF while it is nil. -/
def Fine.closeErrLocked (f : Fine) : Ev := canon (f.closeErr.getD .ok)

/-- `clientStream.RecvMsg` with no message in flight:
`select { <-ctx.Done(): (serverSend closed ? closeErrLocked() : ctx.Err()); <-serverSend (closed): closeErrLocked() }`. -/
def Fine.readTerminal (f : Fine) : Option Ev :=
  if f.sendClosed then some f.closeErrLocked
  else f.ctxErr.map Ev.aborted

/-! ### Lemmas -/

theorem lift_readHeader (w : State) (h : w.closed = none) : (lift w).readHeader = Wrap.header w := by
  obtain ⟨hd, hc, tr, cl, ce, hp, co, so, cob, sob⟩ := w
  simp only at h
  subst h
  cases hc <;> cases ce <;> rfl

theorem lift_readTerminal (w : State) (h : w.closed = none) : (lift w).readTerminal = Wrap.terminal w := by
  simp only [lift, Fine.readTerminal, Wrap.terminal, h]
  cases w.ctxErr <;> simp

/-- The four field-level states Close passes through (prefixes of `closeOrder`). -/
theorem run_closeOrder_take (f : Fine) (err : Fin) (k : Nat) :
    f.run ((closeOrder err).take k) = f ∨
    f.run ((closeOrder err).take k) = f.step .flush ∨
    f.run ((closeOrder err).take k) = (f.step .flush).step (.recordErr err) ∨
    f.run ((closeOrder err).take k) = ((f.step .flush).step (.recordErr err)).step .closeChan ∨
    f.run ((closeOrder err).take k) = f.run (closeOrder err) := by
  match k with
  | 0 => left; rfl
  | 1 => right; left; rfl
  | 2 => right; right; left; rfl
  | 3 => right; right; right; left; rfl
  | k + 4 => right; right; right; right; simp [closeOrder, List.take]

end Wrap
end ScVerif.C13
