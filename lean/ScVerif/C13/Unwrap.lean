/-
C13 — model of pkg/wrap/unwrap.go: `UnwrapFully` follows `Unwrap()` until the object no longer implements
`Unwrapper`.  The generated trait wrappers (`*_wrap.pb.go`: `Unwrap() any { return w.UnwrapServer() }`) and any
adapter an application stacks on top implement it; the innermost object is the server value that was wrapped.
-/
namespace ScVerif.C13

/-- An object as far as `UnwrapFully` looks at it: a value that does not implement `Unwrapper` (identified by a
number), or an `Unwrapper` around another object. -/
inductive Obj where
  | plain (id : Nat)
  | unwrapper (inner : Obj)
  deriving DecidableEq, Repr

/-- `for t, ok := obj.(Unwrapper); ok; t, ok = obj.(Unwrapper) { obj = t.Unwrap() }; return obj` -/
def unwrapFully : Obj → Obj
  | .plain i => .plain i
  | .unwrapper o => unwrapFully o

def Obj.isUnwrapper : Obj → Bool
  | .unwrapper _ => true
  | .plain _ => false

/-- `k` adapters stacked on `o`. -/
def stack : Nat → Obj → Obj
  | 0, o => o
  | k + 1, o => .unwrapper (stack k o)

end ScVerif.C13
