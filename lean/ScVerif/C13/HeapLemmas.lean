import ScVerif.C13.Wrap
/-
C13 — lemmas about message objects: ownership stays disjoint, what is handed over the channel is held
by nobody, and the receiver ends up with the payload the sender wrote before SendMsg.
-/
namespace ScVerif.C13
namespace Wrap

/-- Every object a side holds exists, the two sides hold no object in common, and a side's reused
object is one of its own. -/
structure HeapInv (w : State) : Prop where
  cLt : ∀ r ∈ w.cOwn, r < w.heap.next
  sLt : ∀ r ∈ w.sOwn, r < w.heap.next
  disj : ∀ r ∈ w.cOwn, r ∉ w.sOwn
  cObj : ∀ r, w.cObj = some r → r ∈ w.cOwn
  sObj : ∀ r, w.sObj = some r → r ∈ w.sOwn

theorem heapInv_init : HeapInv {} := by
  constructor <;> simp

/-- Ops that leave the heap part alone keep the invariant. -/
theorem heapInv_congr {w w' : State} (h : HeapInv w) (h1 : w'.heap = w.heap) (h2 : w'.cOwn = w.cOwn)
    (h3 : w'.sOwn = w.sOwn) (h4 : w'.cObj = w.cObj) (h5 : w'.sObj = w.sObj) : HeapInv w' := by
  constructor
  · rw [h1, h2]; exact h.cLt
  · rw [h1, h3]; exact h.sLt
  · rw [h2, h3]; exact h.disj
  · rw [h2, h4]; exact h.cObj
  · rw [h3, h5]; exact h.sObj

theorem get_set_same (h : Heap) (r v : Nat) : (h.set r v).get r = v := by
  simp [Heap.get, Heap.set]

theorem get_set_other (h : Heap) (r s v : Nat) (hne : s ≠ r) : (h.set r v).get s = h.get s := by
  have : (s == r) = false := by simpa using hne
  simp [Heap.get, Heap.set, List.lookup, this]

theorem get_alloc_new (h : Heap) (v : Nat) : (h.alloc v).1.get h.next = v := by
  simp [Heap.get, Heap.alloc]

theorem get_alloc_old (h : Heap) (s v : Nat) (hlt : s < h.next) : (h.alloc v).1.get s = h.get s := by
  have : (s == h.next) = false := by simpa using Nat.ne_of_lt hlt
  simp [Heap.get, Heap.alloc, List.lookup, this]

theorem heapInv_poke {w : State} (h : HeapInv w) (r v : Nat) : HeapInv (poke w r v) :=
  ⟨h.cLt, h.sLt, h.disj, h.cObj, h.sObj⟩

theorem heapInv_allocFree {w : State} (h : HeapInv w) (v : Nat) : HeapInv (allocFree w v).1 := by
  constructor
  · intro r hr; have := h.cLt r hr; simp [allocFree, Heap.alloc]; omega
  · intro r hr; have := h.sLt r hr; simp [allocFree, Heap.alloc]; omega
  · exact h.disj
  · exact h.cObj
  · exact h.sObj

theorem heapInv_newObj {w : State} (h : HeapInv w) (d : Dir) (v : Nat) : HeapInv (newObj w d v).1 := by
  cases d
  · constructor
    · intro r hr
      simp only [newObj, addOwn, List.mem_cons] at hr
      rcases hr with rfl | hr
      · simp [newObj, addOwn, Heap.alloc]
      · have := h.cLt r hr; simp [newObj, addOwn, Heap.alloc]; omega
    · intro r hr; have := h.sLt r hr; simp [newObj, addOwn, Heap.alloc]; omega
    · intro r hr
      simp only [newObj, addOwn, List.mem_cons] at hr
      rcases hr with rfl | hr
      · intro hs; have := h.sLt _ hs; simp [newObj, addOwn] at this
      · exact h.disj r hr
    · intro r hr; simp only [newObj, addOwn, List.mem_cons]; exact Or.inr (h.cObj r hr)
    · exact h.sObj
  · constructor
    · intro r hr; have := h.cLt r hr; simp [newObj, addOwn, Heap.alloc]; omega
    · intro r hr
      simp only [newObj, addOwn, List.mem_cons] at hr
      rcases hr with rfl | hr
      · simp [newObj, addOwn, Heap.alloc]
      · have := h.sLt r hr; simp [newObj, addOwn, Heap.alloc]; omega
    · intro r hr hs
      simp only [newObj, addOwn, List.mem_cons] at hs
      rcases hs with rfl | hs
      · have := h.cLt _ hr; simp [newObj, addOwn] at this
      · exact h.disj r hr hs
    · exact h.cObj
    · intro r hr; simp only [newObj, addOwn, List.mem_cons]; exact Or.inr (h.sObj r hr)

theorem newObj_mem (w : State) (d : Dir) (v : Nat) : (newObj w d v).2 ∈ own (newObj w d v).1 d := by
  cases d <;> simp [newObj, addOwn, own]

theorem heapInv_setObj {w : State} (h : HeapInv w) (d : Dir) (r : Nat) (hr : r ∈ own w d) :
    HeapInv (setObj w d r) := by
  cases d
  · exact ⟨h.cLt, h.sLt, h.disj, fun r' h' => by simp [setObj] at h'; subst h'; exact hr, h.sObj⟩
  · exact ⟨h.cLt, h.sLt, h.disj, h.cObj, fun r' h' => by simp [setObj] at h'; subst h'; exact hr⟩

theorem obj_mem {w : State} (h : HeapInv w) (d : Dir) (r : Nat) (hr : obj w d = some r) : r ∈ own w d := by
  cases d
  · exact h.cObj r hr
  · exact h.sObj r hr

theorem own_lt {w : State} (h : HeapInv w) (d : Dir) (r : Nat) (hr : r ∈ own w d) : r < w.heap.next := by
  cases d
  · exact h.cLt r hr
  · exact h.sLt r hr

/-- The sender's object is its own and holds `m`. -/
theorem senderObj_spec {w : State} (h : HeapInv w) (d : Dir) (reuse : Bool) (m : Nat) :
    HeapInv (senderObj w d reuse m).1 ∧
    (senderObj w d reuse m).2 ∈ own (senderObj w d reuse m).1 d ∧
    (senderObj w d reuse m).1.heap.get (senderObj w d reuse m).2 = m := by
  unfold senderObj
  cases reuse
  · simp only [Bool.false_eq_true, if_false]
    refine ⟨heapInv_newObj h d m, newObj_mem w d m, ?_⟩
    cases d <;> simp [newObj, addOwn, get_alloc_new]
  · simp only [if_true]
    cases ho : obj w d with
    | some r =>
      refine ⟨heapInv_poke h r m, ?_, get_set_same _ _ _⟩
      have := obj_mem h d r ho
      cases d <;> simpa [poke, own] using this
    | none =>
      refine ⟨heapInv_setObj (heapInv_newObj h d m) d _ (newObj_mem w d m), ?_, ?_⟩
      · have := newObj_mem w d m
        cases d <;> simpa [setObj, own] using this
      · cases d <;> simp [setObj, newObj, addOwn, get_alloc_new]

/-- **What travels is held by nobody** (current code): the reference handed over the channel is fresh,
belongs to neither side, and holds the sender's payload. -/
theorem sendMsg_snapshot {w : State} (h : HeapInv w) (c : Cfg) (hc : c.snapshotOnSend = true) (r : Nat)
    (hr : r < w.heap.next) :
    HeapInv (sendMsg c w r).1 ∧ (sendMsg c w r).2 ∉ (sendMsg c w r).1.cOwn ∧
    (sendMsg c w r).2 ∉ (sendMsg c w r).1.sOwn ∧ (sendMsg c w r).2 ≠ r ∧
    (sendMsg c w r).2 < (sendMsg c w r).1.heap.next ∧
    (sendMsg c w r).1.heap.get (sendMsg c w r).2 = w.heap.get r := by
  simp only [sendMsg, hc, if_true]
  refine ⟨heapInv_allocFree h _, ?_, ?_, ?_, ?_, ?_⟩
  · intro hm; have := h.cLt _ hm; simp [allocFree] at this
  · intro hm; have := h.sLt _ hm; simp [allocFree] at this
  · simp only [allocFree]; omega
  · simp [allocFree, Heap.alloc]
  · simp [allocFree, get_alloc_new]

/-- **The receiver gets what the sender wrote before SendMsg**, whatever the sender does to its object
afterwards (current code). -/
theorem xfer_payload {w : State} (h : HeapInv w) (c : Cfg) (hc : c.snapshotOnSend = true) (d : Dir) (m : Nat)
    (reuse : Bool) : (xfer c w d m reuse).2 = m := by
  have hs := senderObj_spec h d reuse m
  have hlt := own_lt hs.1 d _ hs.2.1
  have hsnap := sendMsg_snapshot hs.1 c hc _ hlt
  simp only [xfer, recvMsg]
  cases reuse
  · simp only [Bool.false_eq_true, if_false]
    rw [hsnap.2.2.2.2.2, hs.2.2]
  · simp only [if_true, poke]
    rw [get_set_other _ _ _ _ hsnap.2.2.2.1, hsnap.2.2.2.2.2, hs.2.2]

theorem xfer_heapInv {w : State} (h : HeapInv w) (c : Cfg) (hc : c.snapshotOnSend = true) (d : Dir) (m : Nat)
    (reuse : Bool) : HeapInv (xfer c w d m reuse).1 := by
  have hs := senderObj_spec h d reuse m
  have hlt := own_lt hs.1 d _ hs.2.1
  have hsnap := sendMsg_snapshot hs.1 c hc _ hlt
  simp only [xfer, recvMsg]
  cases reuse
  · simp only [Bool.false_eq_true, if_false]
    exact heapInv_newObj hsnap.1 _ _
  · simp only [if_true]
    exact heapInv_newObj (heapInv_poke hsnap.1 _ _) _ _

/-- `xfer` only touches the message objects. -/
theorem xfer_fields (c : Cfg) (w : State) (d : Dir) (m : Nat) (reuse : Bool) :
    (xfer c w d m reuse).1.header = w.header ∧ (xfer c w d m reuse).1.headerC = w.headerC ∧
    (xfer c w d m reuse).1.trailer = w.trailer ∧ (xfer c w d m reuse).1.closed = w.closed ∧
    (xfer c w d m reuse).1.ctxErr = w.ctxErr := by
  cases d <;> cases reuse <;> cases hsn : c.snapshotOnSend <;> cases ho1 : w.cObj <;> cases ho2 : w.sObj <;>
    simp [hsn, xfer, recvMsg, newObj, addOwn, sendMsg, allocFree, poke, senderObj, obj, setObj, flipDir, ho1, ho2]

theorem xfer_header (c : Cfg) (w : State) (d : Dir) (m : Nat) (reuse : Bool) :
    (xfer c w d m reuse).1.header = w.header := (xfer_fields c w d m reuse).1
theorem xfer_headerC (c : Cfg) (w : State) (d : Dir) (m : Nat) (reuse : Bool) :
    (xfer c w d m reuse).1.headerC = w.headerC := (xfer_fields c w d m reuse).2.1
theorem xfer_trailer (c : Cfg) (w : State) (d : Dir) (m : Nat) (reuse : Bool) :
    (xfer c w d m reuse).1.trailer = w.trailer := (xfer_fields c w d m reuse).2.2.1
theorem xfer_closed (c : Cfg) (w : State) (d : Dir) (m : Nat) (reuse : Bool) :
    (xfer c w d m reuse).1.closed = w.closed := (xfer_fields c w d m reuse).2.2.2.1
theorem xfer_ctxErr (c : Cfg) (w : State) (d : Dir) (m : Nat) (reuse : Bool) :
    (xfer c w d m reuse).1.ctxErr = w.ctxErr := (xfer_fields c w d m reuse).2.2.2.2

/-- **Frame**: writing into an object of one side leaves every object of the other side as it was. -/
theorem poke_frame {w : State} (h : HeapInv w) (r v s : Nat)
    (hrs : (r ∈ w.cOwn ∧ s ∈ w.sOwn) ∨ (r ∈ w.sOwn ∧ s ∈ w.cOwn)) :
    (poke w r v).heap.get s = w.heap.get s := by
  apply get_set_other
  rcases hrs with ⟨hr, hs⟩ | ⟨hr, hs⟩
  · intro e; subst e; exact h.disj _ hr hs
  · intro e; subst e; exact h.disj _ hs hr

end Wrap
end ScVerif.C13

namespace ScVerif.C13
namespace Wrap

theorem heapInv_setHeader {w : State} (h : HeapInv w) (c : Cfg) (md : MD) : HeapInv (setHeader c w md).1 := by
  unfold setHeader
  split
  · split
    · exact h
    · split
      · exact h
      · exact ⟨h.cLt, h.sLt, h.disj, h.cObj, h.sObj⟩
  · exact ⟨h.cLt, h.sLt, h.disj, h.cObj, h.sObj⟩

theorem heapInv_sendHeader {w : State} (h : HeapInv w) (md : MD) : HeapInv (sendHeader w md).1 := by
  unfold sendHeader
  split
  · exact h
  · split
    · exact h
    · exact ⟨h.cLt, h.sLt, h.disj, h.cObj, h.sObj⟩

theorem heapInv_setTrailer {w : State} (h : HeapInv w) (md : MD) : HeapInv (setTrailer w md) :=
  ⟨h.cLt, h.sLt, h.disj, h.cObj, h.sObj⟩

theorem heapInv_preSend {w : State} (h : HeapInv w) : HeapInv (sendHeaderIfNeeded w) :=
  heapInv_sendHeader h []

end Wrap
end ScVerif.C13
