import ScVerif.C05.SeqDepth
/-
Helper lemmas behind `C05_constructors_keep_paths` (what the option constructors do with the paths
they are given) and the read-only-resource theorems (an empty non-nil writable mask).
-/
namespace ScVerif.C05

/-! ## Option constructors -/

theorem computeWriteConfig_split (pre post : List WOpt) (o : WOpt) :
    computeWriteConfig (pre ++ o :: post) = post.foldl WOpt.apply (WOpt.apply (computeWriteConfig pre) o) := by
  simp [computeWriteConfig, List.foldl_append]

/-- After an update mask `M`, constructors other than `WithUpdateMask/Paths` keep the paths of `M` in
place and append, in order, exactly the paths given to the `WithMoreUpdate*` constructors. -/
theorem foldl_update_exact : ∀ (post : List WCtor) (r : WriteRequest) (M : List Path), r.update = some M →
    (∀ c ∈ post, c.updateGiven = none) →
    ((post.map WCtor.opt).foldl WOpt.apply r).update = some (M ++ (post.map WCtor.moreUpdateGiven).flatten)
  | [], r, M, hr, _ => by simpa using hr
  | c :: rest, r, M, hr, hno => by
    have hrest : ∀ c' ∈ rest, c'.updateGiven = none := fun c' hc' => hno c' (List.mem_cons_of_mem _ hc')
    have hc := hno c (List.mem_cons_self ..)
    simp only [List.map_cons, List.foldl_cons, List.flatten_cons]
    cases c with
    | withUpdateMask m => simp [WCtor.updateGiven] at hc
    | withUpdatePaths ps => simp [WCtor.updateGiven] at hc
    | withMoreUpdateMask m =>
      have hu : (WOpt.apply r (WCtor.opt (.withMoreUpdateMask m))).update = some (M ++ m.getD []) := by
        simp [WCtor.opt, WOpt.apply, hr]
      rw [foldl_update_exact rest _ _ hu hrest]
      simp [WCtor.moreUpdateGiven, List.append_assoc]
    | withMoreUpdatePaths ps =>
      have hu : (WOpt.apply r (WCtor.opt (.withMoreUpdatePaths ps))).update = some (M ++ ps) := by
        simp [WCtor.opt, WOpt.apply, hr, maskOfPaths]
      rw [foldl_update_exact rest _ _ hu hrest]
      simp [WCtor.moreUpdateGiven, List.append_assoc]
    | withResetMask m =>
      rw [foldl_update_exact rest _ M (by simp [WCtor.opt, WOpt.apply, hr]) hrest]
      simp [WCtor.moreUpdateGiven]
    | withResetPaths ps =>
      rw [foldl_update_exact rest _ M (by simp [WCtor.opt, WOpt.apply, hr]) hrest]
      simp [WCtor.moreUpdateGiven]
    | withMoreWritableFields m =>
      rw [foldl_update_exact rest _ M (by simp [WCtor.opt, WOpt.apply, hr]) hrest]
      simp [WCtor.moreUpdateGiven]
    | withMoreWritablePaths ps =>
      rw [foldl_update_exact rest _ M (by simp [WCtor.opt, WOpt.apply, hr]) hrest]
      simp [WCtor.moreUpdateGiven]
    | withAllFieldsWritable =>
      rw [foldl_update_exact rest _ M (by simp [WCtor.opt, WOpt.apply, hr]) hrest]
      simp [WCtor.moreUpdateGiven]

/-- Constructors other than `WithResetMask/Paths` do not touch the reset mask. -/
theorem foldl_reset_exact : ∀ (post : List WCtor) (r : WriteRequest),
    (∀ c ∈ post, c.resetGiven = none) →
    ((post.map WCtor.opt).foldl WOpt.apply r).reset = r.reset
  | [], _, _ => rfl
  | c :: rest, r, hno => by
    have hrest : ∀ c' ∈ rest, c'.resetGiven = none := fun c' hc' => hno c' (List.mem_cons_of_mem _ hc')
    have hc := hno c (List.mem_cons_self ..)
    simp only [List.map_cons, List.foldl_cons]
    rw [foldl_reset_exact rest _ hrest]
    cases c with
    | withResetMask m => simp [WCtor.resetGiven] at hc
    | withResetPaths ps => simp [WCtor.resetGiven] at hc
    | withMoreUpdateMask m => simp only [WCtor.opt, WOpt.apply]; cases r.update <;> rfl
    | withMoreUpdatePaths ps => simp only [WCtor.opt, WOpt.apply]; cases r.update <;> rfl
    | _ => rfl

/-! ## Read-only resources: the effective writable mask is empty and non-nil -/

theorem insertSorted_ne_nil (p : Path) : ∀ xs : List Path, insertSorted p xs ≠ []
  | [] => by simp [insertSorted]
  | q :: rest => by simp only [insertSorted]; split <;> simp

theorem normalize_eq_nil {ps : List Path} : normalize ps = [] ↔ ps = [] := by
  constructor
  · intro h
    cases ps with
    | nil => rfl
    | cons p rest =>
      exfalso
      unfold normalize at h
      simp only [sortPaths] at h
      cases hs : insertSorted p (sortPaths rest) with
      | nil => exact insertSorted_ne_nil _ _ hs
      | cons a as => rw [hs] at h; simp [elide] at h
  · rintro rfl; rfl

theorem union_eq_nil {a b : List Path} : union a b = [] ↔ a = [] ∧ b = [] := by
  unfold union
  rw [normalize_eq_nil]
  simp

/-- An ordinary write: not privileged (`WithAllFieldsWritable`) and without extra writable paths
(`WithMoreWritable*` options, if any, carry no path). -/
def OrdinaryWrite (opts : List WOpt) : Prop :=
  WOpt.allWritable ∉ opts ∧ ∀ m, WOpt.moreWritable (some m) ∈ opts → m = []

theorem cwc_moreWritable_nil (opts : List WOpt) (h : ∀ m, WOpt.moreWritable (some m) ∈ opts → m = []) :
    (computeWriteConfig opts).moreWritable.getD [] = [] := by
  apply List.eq_nil_iff_forall_not_mem.mpr
  intro x hx
  obtain ⟨m, hm, hxm⟩ := cwc_moreWritable_mem opts x hx
  rw [h m hm] at hxm
  cases hxm

/-- On a resource whose writable mask is non-nil without paths an ordinary write runs with exactly
that: a non-nil writable mask without paths — NOT with a nil one. -/
theorem writable_of_readOnly (opts : List WOpt) (h : OrdinaryWrite opts) :
    ((computeWriteConfig opts).fieldUpdater (some [])).writable = some [] := by
  rw [fieldUpdater_writable]
  have hn : (computeWriteConfig opts).nilWritable = false := by
    cases hb : (computeWriteConfig opts).nilWritable with
    | false => rfl
    | true => exact absurd ((cwc_nilWritable opts).mp hb) h.1
  simp only [hn, Bool.false_eq_true, if_false, Option.map_some, cwc_moreWritable_nil opts h.2]
  rfl

end ScVerif.C05
