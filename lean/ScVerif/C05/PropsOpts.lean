import ScVerif.C05.OptMore
/-!
# C05 — the masks a write runs with, as computed from its options, and sequences of writes

Model: `ScVerif/C05/Opts.lean` (`WOpt.apply`, `ComputeWriteConfig`, `WriteRequest.fieldUpdater`,
resource construction options, `runSeq`/`finalStored`: sequences of writes on one resource), following
`pkg/resource/opt.go` after 5cc1d68 (`WithMoreUpdateMask` keeps the paths as given).  The theorems
say that the update / reset / writable masks computed by the code's forward fold over the option list
are the ones the options denote (specification: scan from the last option backwards, path sets), lift
the write theorems of `Props.lean` to the level of option lists, and extend the frame to all
sequences of writes — for top-level fields (`C05_sequence_frame`) and at any depth
(`C05_sequence_frame_depth`, helper lemmas in `SeqDepth.lean`).  Round 5 adds the option
CONSTRUCTORS as a caller writes them (`WCtor`, `WCtor.opt`: `C05_constructors_keep_paths`,
`C05_write_rejects_constructors`) and read-only resources, i.e. a writable mask that is non-nil
without paths (`C05_read_only_write`, `C05_read_only_sequence`; helper lemmas in `OptMore.lean`).
-/
namespace ScVerif.C05
open ScVerif.C06 (GoodPath validPath_iff)

/-- **C05_options_update.**  For every list of write options, the update mask `ComputeWriteConfig`
ends up with is the one the options denote: the mask of the LAST `WithUpdateMask/Paths` option, nil
("all writable fields") when that is nil or there is none — *whatever `WithMoreUpdate*` options are
present* — and otherwise that mask followed by the paths of the `WithMoreUpdate*` options after it
(those before it are overwritten). -/
theorem C05_options_update (opts : List WOpt) :
    (computeWriteConfig opts).update = specUpdate opts := cwc_update opts

/-- **C05_more_update_keeps_nil.**  Without a non-nil `WithUpdateMask` option the update mask is nil
for every combination of the other options: `WithMoreUpdateMask/Paths` never turns "all writable
fields" into a narrow mask. -/
theorem C05_more_update_keeps_nil (opts : List WOpt) (h : ∀ m, WOpt.updateMask (some m) ∉ opts) :
    (computeWriteConfig opts).update = none := by
  rw [cwc_update]
  unfold specUpdate
  have h' : ∀ m, WOpt.updateMask (some m) ∉ opts.reverse := fun m hm => h m (List.mem_reverse.mp hm)
  generalize opts.reverse = rs at h'
  induction rs with
  | nil => rfl
  | cons o rest ih =>
    have ih' := ih (fun m hm => h' m (List.mem_cons_of_mem _ hm))
    cases o with
    | updateMask m =>
      cases m with
      | none => rfl
      | some m => exact absurd (List.mem_cons_self ..) (h' m)
    | moreUpdateMask m => simp [specUpdateRev, ih']
    | resetMask m => simpa [specUpdateRev] using ih'
    | moreWritable m => simpa [specUpdateRev] using ih'
    | allWritable => simpa [specUpdateRev] using ih'

/-- **C05_options_update_paths.**  After a `WithUpdateMask(B)` with a non-nil `B`, followed by options
`post` none of which is a `WithUpdateMask`: the update mask is non-nil and names exactly the paths
`B` names together with those the `WithMoreUpdate*` options of `post` name. -/
theorem C05_options_update_paths (pre post : List WOpt) (B : List Path)
    (hpost : ∀ m, WOpt.updateMask m ∉ post) :
    ∃ M, (computeWriteConfig (pre ++ WOpt.updateMask (some B) :: post)).update = some M ∧
      ∀ p, Covers M p ↔ Covers B p ∨ ∃ m, WOpt.moreUpdateMask (some m) ∈ post ∧ Covers m p := by
  obtain ⟨M, hM, hmem⟩ := cwc_update_mem pre post B hpost
  refine ⟨M, hM, fun p => ?_⟩
  constructor
  · rintro ⟨q, hq, hqp⟩
    rcases (hmem q).mp hq with h | ⟨m, hm, hqm⟩
    · exact Or.inl ⟨q, h, hqp⟩
    · exact Or.inr ⟨m, hm, q, hqm, hqp⟩
  · rintro (⟨q, hq, hqp⟩ | ⟨m, hm, q, hqm, hqp⟩)
    · exact ⟨q, (hmem q).mpr (Or.inl hq), hqp⟩
    · exact ⟨q, (hmem q).mpr (Or.inr ⟨m, hm, hqm⟩), hqp⟩

/-- **C05_write_rejects_options** (the `rejects` clause at the level of option lists; the full
statement behind the repair 5cc1d68).  A write whose last `WithUpdateMask/Paths(B)` is non-nil is
rejected with `InvalidArgument`, for every resource writable mask, stored and written message and
whatever the other options are, as soon as ONE path of `B` or of a `WithMoreUpdate*` option after it
is not well-formed for the message type (unknown field, continuation through a scalar, …) — also
when that path lies inside another path of the mask — or, when the write has a writable mask `W`,
is neither a writable path nor below one. -/
theorem C05_write_rejects_options (S : Schema) (ty : Nat) (resW : Option (List Path))
    (pre post : List WOpt) (B : List Path) (hpost : ∀ m, WOpt.updateMask m ∉ post) (p : Path)
    (hp : p ∈ B ∨ ∃ m, WOpt.moreUpdateMask (some m) ∈ post ∧ p ∈ m)
    (hbad : ¬ GoodPath S ty p ∨
      ∃ W, ((computeWriteConfig (pre ++ WOpt.updateMask (some B) :: post)).fieldUpdater resW).writable = some W ∧
        ¬ InsideWritable W p) :
    ∀ stored src, writeWith S ty resW (pre ++ WOpt.updateMask (some B) :: post) stored src
      = .err .invalidArgument := by
  obtain ⟨M, hM, hmem⟩ := cwc_update_mem pre post B hpost
  have hpM : p ∈ M := (hmem p).mpr hp
  intro stored src
  unfold writeWith
  refine (C05_rejects S ty _ M ((fieldUpdater_update _ resW).trans hM) ?_).2 stored src
  rcases hbad with h | ⟨W, hW, h⟩
  · exact Or.inl ⟨p, hpM, h⟩
  · exact Or.inr ⟨W, hW, p, hpM, h⟩

/-- **C05_options_reset.**  The reset mask of a write is the mask of its last `WithResetMask/Paths`
option (nil without one); no other option touches it. -/
theorem C05_options_reset (opts : List WOpt) :
    (computeWriteConfig opts).reset = specReset opts := cwc_reset opts

/-- **C05_options_writable** (`W` as computed from the options = the specification).  For every
resource writable mask and option list, the writable mask of the `FieldUpdater` the write runs with
is nil (everything writable) exactly when the resource has no writable mask or the write carries
`WithAllFieldsWritable`; otherwise it names exactly the paths named by the resource's writable
fields or by one of the write's OWN `WithMoreWritableFields/Paths` options (any number, any order,
`fieldmaskpb.Union`'s normalisation included). -/
theorem C05_options_writable (resW : Option (List Path)) (opts : List WOpt) :
    (((computeWriteConfig opts).fieldUpdater resW).writable = none ↔ resW = none ∨ WOpt.allWritable ∈ opts) ∧
    (∀ W, ((computeWriteConfig opts).fieldUpdater resW).writable = some W → ∀ p,
      Covers W p ↔ (∃ w, resW = some w ∧ Covers w p) ∨ ∃ m, WOpt.moreWritable (some m) ∈ opts ∧ Covers m p) := by
  have hw := fieldUpdater_writable (computeWriteConfig opts) resW
  have hall := cwc_nilWritable opts
  constructor
  · rw [hw]
    cases hn : (computeWriteConfig opts).nilWritable with
    | true => simp [hall.mp hn]
    | false =>
      have : WOpt.allWritable ∉ opts := fun h => by rw [hall.mpr h] at hn; cases hn
      cases resW <;> simp [this]
  · intro W hW p
    have hW' := hW
    rw [hw] at hW'
    cases hn : (computeWriteConfig opts).nilWritable with
    | true => simp [hn] at hW'
    | false =>
      simp only [hn, Bool.false_eq_true, if_false] at hW'
      cases resW with
      | none => simp at hW'
      | some w =>
        simp only [Option.map_some, Option.some.injEq] at hW'
        subst hW'
        rw [covers_union, cwc_moreWritable_covers]
        simp

/-- **C05_write_nil_update_replaces** ("nil M means all of W", at the level of `Value.Set` /
`Collection.Update` with an option list).  For every resource writable mask, stored and written
message and every option list WITHOUT a non-nil `WithUpdateMask` — but with any `WithMoreUpdate*`,
`WithMoreWritable*`, `WithAllFieldsWritable`, `WithResetMask` options in any order — an accepted
write leaves at every path `p` that is writable (everything is, with `WithAllFieldsWritable` or
without resource writable fields; else `p` is at or below a writable path of the resource or of one
of this write's `WithMoreWritable*` options) and unrelated to the reset paths exactly what the
written message holds there: absent there means cleared.  Tree hypotheses as in
`C05_inside_nil_mask`. -/
theorem C05_write_nil_update_replaces (S : Schema) (ty : Nat) (resW : Option (List Path))
    (opts : List WOpt) (stored src st src' : Fields) (p : Path)
    (hU : ∀ m, WOpt.updateMask (some m) ∉ opts) (hp : p ≠ [])
    (hW : WOpt.allWritable ∈ opts ∨ resW = none ∨
      ∃ w, resW = some w ∧ Clean w ∧ NonNil w ∧
        (∀ m, WOpt.moreWritable (some m) ∈ opts → Clean m ∧ NonNil m) ∧
        (Covers w p ∨ ∃ m, WOpt.moreWritable (some m) ∈ opts ∧ Covers m p))
    (hR : ∀ R, specReset opts = some R → Clean R ∧ Unrelated p R)
    (hdisp : NoDispAlong S ty p) (hns : NoDupAlong p src)
    (h : writeWith S ty resW opts stored src = .ok st src') :
    st.getPath p = src.getPath p := by
  unfold writeWith valueSet at h
  generalize hu : (computeWriteConfig opts).fieldUpdater resW = u at h
  have hupd : u.update = none := by
    rw [← hu, fieldUpdater_update]; exact C05_more_update_keeps_nil opts hU
  have hres : u.reset = specReset opts := by rw [← hu]; exact (writeWith_updater resW opts).2
  obtain ⟨hnone, hsome⟩ := C05_options_writable resW opts
  rw [hu] at hnone hsome
  split at h
  · split at h
    · cases h
    next r hm =>
      simp only [SetOut.ok.injEq] at h
      obtain ⟨rfl, _⟩ := h
      refine C05_inside_nil_mask S ty u stored src r p hupd hp ?_ (fun R hr => hR R (hres ▸ hr)) hdisp hns hm
      intro W hWu
      have hnn : ¬ (resW = none ∨ WOpt.allWritable ∈ opts) := fun hc => by
        rw [hnone.mpr hc] at hWu; cases hWu
      rcases hW with hall | hnil | ⟨w, hw, hwc, hwn, hmore, hcov⟩
      · exact absurd (Or.inr hall) hnn
      · exact absurd (Or.inl hnil) hnn
      · have hWeq : W = union w ((computeWriteConfig opts).moreWritable.getD []) := by
          have := fieldUpdater_writable (computeWriteConfig opts) resW
          rw [hu, hWu, hw] at this
          cases hn : (computeWriteConfig opts).nilWritable with
          | true => simp [hn] at this
          | false => simpa [hn] using this
        have hmc : Clean ((computeWriteConfig opts).moreWritable.getD []) := fun x hx => by
          obtain ⟨m, hm, hxm⟩ := cwc_moreWritable_mem opts x hx
          exact (hmore m hm).1 x hxm
        have hmn : NonNil ((computeWriteConfig opts).moreWritable.getD []) := fun x hx => by
          obtain ⟨m, hm, hxm⟩ := cwc_moreWritable_mem opts x hx
          exact (hmore m hm).2 x hxm
        refine ⟨hWeq ▸ clean_union hwc hmc, hWeq ▸ nonNil_union hwn hmn, ?_⟩
        have : Covers W p := (hsome W hWu p).mpr (by
          rcases hcov with hc | hc
          · exact Or.inl ⟨w, hw, hc⟩
          · exact Or.inr hc)
        exact this
  · cases h

/-- **C05_sequence_frame** (the frame over ALL sequences of writes on one resource).  For every
resource writable mask, initial stored message and every finite sequence of writes (`Value.Set` /
`Collection.Update` of the item / `Collection.Add` of other items; accepted, rejected or panicking,
each with its own option list): a field `k` that no write of the sequence names — for each write,
no path of its update mask (of its writable fields when the update mask is nil) and of its reset
mask starts with `k` — and that no oneof assignment can displace holds after the whole sequence
exactly what it held before it.  By induction on the sequence; no hypothesis on the messages. -/
theorem C05_sequence_frame (S : Schema) (ty : Nat) (resW : Option (List Path)) (k : Name)
    (hd : NotDisplaced S ty k) :
    ∀ (steps : List Step) (stored : Fields),
      (∀ s ∈ steps, Avoids k ((computeWriteConfig s.opts).fieldUpdater resW)) →
      (finalStored S ty resW stored steps).get k = stored.get k := by
  intro steps
  induction steps with
  | nil => intro stored _; rfl
  | cons s rest ih =>
    intro stored hall
    have hs := hall s (List.mem_cons_self ..)
    have hrest : ∀ s' ∈ rest, Avoids k ((computeWriteConfig s'.opts).fieldUpdater resW) :=
      fun s' hs' => hall s' (List.mem_cons_of_mem _ hs')
    unfold finalStored
    cases ho : s.run S ty resW stored with
    | panic => rfl
    | err c => simp only [Step.next]; exact ih stored hrest
    | ok st src' =>
      simp only [Step.next]
      cases hf : s.fresh with
      | true => simp only [if_true]; exact ih stored hrest
      | false =>
        simp only [Bool.false_eq_true, if_false]
        rw [ih st hrest]
        unfold Step.run writeWith valueSet at ho
        simp only [hf, Bool.false_eq_true, if_false] at ho
        split at ho
        · split at ho
          · cases ho
          next r hm =>
            simp only [SetOut.ok.injEq] at ho
            obtain ⟨rfl, _⟩ := ho
            exact merge_avoids S ty _ stored s.src r k hs hd hm
        · cases ho

/-- **C05_sequence_frame_depth** (the frame AT ANY DEPTH over ALL sequences of writes on one
resource; the tree hypotheses of `C05_frame` carried through the sequence).  For every resource
writable mask, path `p` through singular messages (any depth), initial stored message with unique
keys along `p`, and every finite sequence of writes (`Value.Set` / `Collection.Update` of the item,
`Collection.Add` of other items; accepted, rejected or panicking, each with its own option list): if
every write of the item leaves `p` alone — its update mask (its writable fields when the update mask
is nil) and its reset mask are unrelated to `p` — and its written message has unique keys along `p`
and fits `p` (`Fits`: messages on the way down, no non-message at `p` where a message is stored),
then after the whole sequence the resource holds at `p` exactly what it held before — and its keys
along `p` are still unique.  The hypotheses speak about the INITIAL stored message and the written
messages only: that they hold again for every intermediate stored message is part of the proof
(`merge_avoidsPath`: one write keeps the value at `p` and the uniqueness of keys along `p`). -/
theorem C05_sequence_frame_depth (S : Schema) (ty : Nat) (resW : Option (List Path)) (p : Path)
    (hp : p ≠ []) (hdisp : NoDispAlong S ty p) :
    ∀ (steps : List Step) (stored : Fields), NoDupAlong p stored →
      (∀ s ∈ steps, s.fresh = false →
        AvoidsPath p ((computeWriteConfig s.opts).fieldUpdater resW) ∧
        NoDupAlong p s.src ∧ Fits (stored.getPath p) p s.src) →
      (finalStored S ty resW stored steps).getPath p = stored.getPath p ∧
        NoDupAlong p (finalStored S ty resW stored steps) := by
  intro steps
  induction steps with
  | nil => intro stored hn _; exact ⟨rfl, hn⟩
  | cons s rest ih =>
    intro stored hn hall
    have hrest : ∀ s' ∈ rest, s'.fresh = false →
        AvoidsPath p ((computeWriteConfig s'.opts).fieldUpdater resW) ∧
        NoDupAlong p s'.src ∧ Fits (stored.getPath p) p s'.src :=
      fun s' hs' => hall s' (List.mem_cons_of_mem _ hs')
    unfold finalStored
    cases ho : s.run S ty resW stored with
    | panic => exact ⟨rfl, hn⟩
    | err c => simp only [Step.next]; exact ih stored hn hrest
    | ok st src' =>
      simp only [Step.next]
      cases hf : s.fresh with
      | true => simp only [if_true]; exact ih stored hn hrest
      | false =>
        simp only [Bool.false_eq_true, if_false]
        obtain ⟨hav, hns, hfit⟩ := hall s (List.mem_cons_self ..) hf
        unfold Step.run writeWith valueSet at ho
        simp only [hf, Bool.false_eq_true, if_false] at ho
        split at ho
        · split at ho
          · cases ho
          next r hm =>
            simp only [SetOut.ok.injEq] at ho
            obtain ⟨rfl, _⟩ := ho
            obtain ⟨hget, hn'⟩ := merge_avoidsPath S ty _ stored s.src r p hav hp hdisp hn hns hfit hm
            have := ih r.dst hn' (fun s' hs' hf' => by rw [hget]; exact hrest s' hs' hf')
            rw [hget] at this
            exact this
        · cases ho

/-- **C05_fits_of_conforms** (the `Fits` hypothesis of `C05_sequence_frame_depth` is what typing
gives).  For every schema and path `p` whose segments before the last are singular message fields
(`MsgPath`: the paths `fieldmaskpb` lets a mask continue through): every written message that
conforms to the schema fits `p` against every conforming stored message — every field populated
with a value of its declared kind, recursively, is all it takes. -/
theorem C05_fits_of_conforms (S : Schema) (ty : Nat) (p : Path) (stored src : Fields)
    (hp : MsgPath S ty p) (hst : Fields.conforms S ty stored = true) (hsrc : Fields.conforms S ty src = true) :
    Fits (stored.getPath p) p src :=
  fits_of_kind S _ p ty src hp hsrc (fun _ hdf => kind_at_path S p ty stored _ hst hdf)

/-- **C05_sequence_history_free.**  Later writes depend on earlier ones only through the stored
message: for every sequence `pre ++ rest` (no panic in `pre`), the outcomes of `rest` are those of
running `rest` alone on a resource that stores what `pre` left — nothing else (no updater, no mask,
no privilege) is carried from one write to the next. -/
theorem C05_sequence_history_free (S : Schema) (ty : Nat) (resW : Option (List Path)) (rest : List Step) :
    ∀ (pre : List Step) (stored : Fields), SetOut.panic ∉ runSeq S ty resW stored pre →
      runSeq S ty resW stored (pre ++ rest) =
        runSeq S ty resW stored pre ++ runSeq S ty resW (finalStored S ty resW stored pre) rest := by
  intro pre
  induction pre with
  | nil => intro stored _; rfl
  | cons s more ih =>
    intro stored hnp
    cases ho : s.run S ty resW stored with
    | panic => simp [runSeq, ho] at hnp
    | err c =>
      simp only [List.cons_append, runSeq, finalStored, ho]
      rw [ih]
      intro hp; apply hnp; simp [runSeq, ho, hp]
    | ok st src' =>
      simp only [List.cons_append, runSeq, finalStored, ho]
      rw [ih]
      intro hp; apply hnp; simp [runSeq, ho, hp]

/-- **C05_constructors_keep_paths** (over ALL option constructors, in any list).  Every
`resource.With…Paths(paths...)` constructor is its `With…Mask` sibling on a non-nil mask holding the
variadic paths exactly as given (`WCtor.opt`), and for every list of constructors:
* the update mask the write runs with is — path for path, in order, duplicates, paths inside other
  paths and paths unknown to the message included — the paths handed to the last non-nil
  `WithUpdateMask/Paths` followed by those handed to the `WithMoreUpdateMask/Paths` constructors after
  it: NO constructor sorts, de-duplicates, normalises or drops an update path (so `Validate` sees
  every path the caller wrote);
* the reset mask is exactly the mask handed to the last `WithResetMask/Paths`.
(The writable side is the one family that normalises — `WithMoreWritable*` use `fieldmaskpb.Union` —
and there only the covered path-set matters: `C05_options_writable`.) -/
theorem C05_constructors_keep_paths (pre post : List WCtor) (c : WCtor) :
    (∀ B, c.updateGiven = some (some B) → (∀ c' ∈ post, c'.updateGiven = none) →
      (computeWriteConfig ((pre ++ c :: post).map WCtor.opt)).update
        = some (B ++ (post.map WCtor.moreUpdateGiven).flatten)) ∧
    (∀ R, c.resetGiven = some R → (∀ c' ∈ post, c'.resetGiven = none) →
      (computeWriteConfig ((pre ++ c :: post).map WCtor.opt)).reset = R) := by
  have hsplit : computeWriteConfig ((pre ++ c :: post).map WCtor.opt) =
      (post.map WCtor.opt).foldl WOpt.apply (WOpt.apply (computeWriteConfig (pre.map WCtor.opt)) c.opt) := by
    rw [List.map_append, List.map_cons, computeWriteConfig_split]
  constructor
  · intro B hB hpost
    rw [hsplit]
    refine foldl_update_exact post _ B ?_ hpost
    cases c <;> simp [WCtor.updateGiven] at hB <;> subst hB <;> simp [WCtor.opt, WOpt.apply, maskOfPaths]
  · intro R hR hpost
    rw [hsplit, foldl_reset_exact post _ hpost]
    cases c <;> simp [WCtor.resetGiven] at hR <;> subst hR <;> simp [WCtor.opt, WOpt.apply, maskOfPaths]

/-- **C05_write_rejects_constructors** (the `rejects` clause for the constructors as called).  Whatever
mixture of `…Mask` and `…Paths` constructors a write is given: if ONE path handed to the last non-nil
`WithUpdateMask/Paths` or to a `WithMoreUpdateMask/Paths` after it is not well-formed for the message
type — also when it lies below another, valid, path of the same call (`WithUpdatePaths("f", "f.nope")`)
— or is outside the write's writable mask, `Value.Set` / `Collection.Update` reject the write with
`InvalidArgument`, for every resource, stored and written message. -/
theorem C05_write_rejects_constructors (S : Schema) (ty : Nat) (resW : Option (List Path))
    (pre post : List WCtor) (c : WCtor) (B : List Path)
    (hc : c.updateGiven = some (some B)) (hpost : ∀ c' ∈ post, c'.updateGiven = none) (p : Path)
    (hp : p ∈ B ∨ ∃ c' ∈ post, p ∈ c'.moreUpdateGiven)
    (hbad : ¬ GoodPath S ty p ∨
      ∃ W, ((computeWriteConfig ((pre ++ c :: post).map WCtor.opt)).fieldUpdater resW).writable = some W ∧
        ¬ InsideWritable W p) :
    ∀ stored src, writeWith S ty resW ((pre ++ c :: post).map WCtor.opt) stored src
      = .err .invalidArgument := by
  have hM := (C05_constructors_keep_paths pre post c).1 B hc hpost
  have hpM : p ∈ B ++ (post.map WCtor.moreUpdateGiven).flatten := by
    rcases hp with h | ⟨c', hc', h⟩
    · exact List.mem_append.mpr (Or.inl h)
    · exact List.mem_append.mpr (Or.inr (List.mem_flatten.mpr ⟨_, List.mem_map.mpr ⟨c', hc', rfl⟩, h⟩))
  have hu : ((computeWriteConfig ((pre ++ c :: post).map WCtor.opt)).fieldUpdater resW).update
      = some (B ++ (post.map WCtor.moreUpdateGiven).flatten) := by
    rw [(writeWith_updater resW _).1, ← cwc_update]; exact hM
  intro stored src
  unfold writeWith
  refine (C05_rejects S ty _ _ hu ?_).2 stored src
  rcases hbad with h | ⟨W, hW, h⟩
  · exact Or.inl ⟨p, hpM, h⟩
  · exact Or.inr ⟨W, hW, p, hpM, h⟩

/-- **C05_read_only_write** (one ordinary write on a read-only resource).  The resource's writable
mask is NON-NIL WITHOUT PATHS (`WithWritableFields(&FieldMask{})`, `WithWritablePaths(m)`): for every
option list of an ordinary write (no `WithAllFieldsWritable`, no `WithMoreWritable*` path), stored and
written message:
* the `FieldUpdater` runs with a non-nil writable mask without paths (it is NOT turned into nil =
  "everything writable" anywhere between the resource and `Merge`);
* an update mask with at least one path — valid or not — is rejected with `InvalidArgument`;
* an accepted write copies nothing: without reset mask, or with an empty non-nil update mask, the
  stored message is exactly what it was; in every case each path unrelated to the reset paths holds
  what it held (any depth, no hypothesis on the trees). -/
theorem C05_read_only_write (S : Schema) (ty : Nat) (opts : List WOpt) (hro : OrdinaryWrite opts)
    (stored src : Fields) :
    ((computeWriteConfig opts).fieldUpdater (some [])).writable = some [] ∧
    (∀ M, specUpdate opts = some M → M ≠ [] →
      writeWith S ty (some []) opts stored src = .err .invalidArgument) ∧
    (∀ st src', writeWith S ty (some []) opts stored src = .ok st src' →
      ((specUpdate opts = some [] ∨ specReset opts = none) → st = stored) ∧
      ∀ p, p ≠ [] → (∀ R, specReset opts = some R → Clean R ∧ Unrelated p R) →
        st.getPath p = stored.getPath p) := by
  have hW := writable_of_readOnly opts hro
  obtain ⟨hupd, hres⟩ := writeWith_updater (some []) opts
  refine ⟨hW, ?_, ?_⟩
  · intro M hM hne
    unfold writeWith
    exact ((C05_nothing_writable S ty _ stored src hW).1 M (hupd.trans hM) hne).2 stored src
  · intro st src' h
    unfold writeWith valueSet at h
    split at h
    · split at h
      · cases h
      next r hm =>
        simp only [SetOut.ok.injEq] at h
        obtain ⟨rfl, _⟩ := h
        obtain ⟨_, hsame, _, hframe⟩ := (C05_nothing_writable S ty _ stored src hW).2 r hm
        refine ⟨fun hc => hsame (hc.imp (fun e => hupd.trans e) (fun e => hres.trans e)), ?_⟩
        intro p hp hR
        exact hframe p hp (fun R hr => hR R (hres ▸ hr))
    · cases h

/-- **C05_read_only_sequence** (a read-only resource stays what it is).  On a resource whose writable
mask is non-nil without paths, for EVERY finite sequence of ordinary writes — each with its own
option list, any update masks (accepted or rejected), written messages of any shape, `Collection.Add`
of other items in between — that carry no reset mask (or carry it under an empty non-nil update
mask), the stored message after the sequence is exactly the initial one.  By induction on the
sequence; no hypothesis on the messages. -/
theorem C05_read_only_sequence (S : Schema) (ty : Nat) :
    ∀ (steps : List Step) (stored : Fields),
      (∀ s ∈ steps, s.fresh = false →
        OrdinaryWrite s.opts ∧ (specUpdate s.opts = some [] ∨ specReset s.opts = none)) →
      finalStored S ty (some []) stored steps = stored := by
  intro steps
  induction steps with
  | nil => intro stored _; rfl
  | cons s rest ih =>
    intro stored hall
    have hrest : ∀ s' ∈ rest, s'.fresh = false →
        OrdinaryWrite s'.opts ∧ (specUpdate s'.opts = some [] ∨ specReset s'.opts = none) :=
      fun s' hs' => hall s' (List.mem_cons_of_mem _ hs')
    unfold finalStored
    cases ho : s.run S ty (some []) stored with
    | panic => rfl
    | err c => simp only [Step.next]; exact ih stored hrest
    | ok st src' =>
      simp only [Step.next]
      cases hf : s.fresh with
      | true => simp only [if_true]; exact ih stored hrest
      | false =>
        simp only [Bool.false_eq_true, if_false]
        obtain ⟨hro, hq⟩ := hall s (List.mem_cons_self ..) hf
        unfold Step.run at ho
        simp only [hf, Bool.false_eq_true, if_false] at ho
        have := ((C05_read_only_write S ty s.opts hro stored s.src).2.2 st src' ho).1 hq
        rw [this]
        exact ih stored hrest

/-- **C05_more_update_legacy_fails** (before 5cc1d68).  `WithUpdatePaths("f", "f.zz")` names the
unknown field `f.zz` and is rejected with `InvalidArgument` — but followed by
`WithMoreUpdatePaths("g")` the former `fieldmaskpb.Union` normalised the mask to `{f, g}`, which
`Validate` accepted, and the write went through.  Now the paths are kept and the write is rejected. -/
theorem C05_more_update_legacy_fails :
    ∃ (opts : List WOpt) (src : Fields),
      opts = [.updateMask (some [["f"], ["f", "zz"]]), .moreUpdateMask (some [["g"]])] ∧
      ¬ GoodPath wSchema 0 ["f", "zz"] ∧
      validate wSchema 0 ((opts.foldl WOpt.applyLegacy .empty).fieldUpdater none) = .ok ∧
      writeWith wSchema 0 none (opts.take 1) wStored src = .err .invalidArgument ∧
      writeWith wSchema 0 none opts wStored src = .err .invalidArgument :=
  ⟨_, .cons "g" (.sc "i9") .nil, rfl,
    fun h => by have := (validPath_iff wSchema 0 _).mpr h; revert this; decide,
    by decide, by decide, by decide⟩

/-! ## Non-vacuity -/

/-- The lightpb preset write: the caller passes no update mask, the model adds
`WithMoreUpdatePaths("g")` — the mask stays nil; with an explicit mask it is widened. -/
example : (computeWriteConfig [.moreUpdateMask (some [["g"]])]).update = none ∧
    (computeWriteConfig [.updateMask none, .moreUpdateMask (some [["g"]])]).update = none ∧
    (computeWriteConfig [.updateMask (some [["f", "c"]]), .moreUpdateMask (some [["g"]])]).update
      = some [["f", "c"], ["g"]] ∧
    (computeWriteConfig [.moreUpdateMask (some [["g"]]), .updateMask (some [["f", "c"]])]).update
      = some [["f", "c"]] := by decide

/-- `C05_write_rejects_options` applies to an unknown path brought by `WithMoreUpdatePaths`, and to one
outside the writable fields of the resource. -/
example : writeWith wSchema 0 none [.updateMask (some [["g"]]), .moreUpdateMask (some [["nope"]])] wStored .nil
      = .err .invalidArgument ∧
    writeWith wSchema 0 (some [["g"]]) [.updateMask (some [["g"]]), .allWritable, .moreUpdateMask (some [["f"]])] wStored .nil
      = .ok .nil .nil ∧
    writeWith wSchema 0 (some [["g"]]) [.updateMask (some [["g"]]), .moreUpdateMask (some [["f"]])] wStored .nil
      = .err .invalidArgument := by decide

/-- `C05_options_writable`: resource `{g}`, write `WithMoreWritablePaths("f.c")`, twice. -/
example : ((computeWriteConfig [.moreWritable (some [["f", "c"]]), .moreWritable (some [["f", "c"]])]).fieldUpdater
      (some [["g"]])).writable = some [["f", "c"], ["g"]] ∧
    ((computeWriteConfig [.moreWritable (some [["f", "c"]]), .allWritable]).fieldUpdater (some [["g"]])).writable = none ∧
    ((computeWriteConfig [.moreWritable (some [["f", "c"]])]).fieldUpdater none).writable = none := by decide

/-- `C05_write_nil_update_replaces` applies (and its conclusion is not trivially true): resource
writable `{g}`, write `{g=9}` with `WithMoreUpdatePaths("f")` only — accepted, `g` becomes 9. -/
example : writeWith wSchema 0 (some [["g"]]) [.moreUpdateMask (some [["f"]])] wStored (.cons "g" (.sc "i9") .nil)
    = .ok (.cons "f" (.msg (.cons "c" (.sc "i1") (.cons "d" (.sc "i2") .nil))) (.cons "g" (.sc "i9") .nil))
        (.cons "g" (.sc "i9") .nil) := by decide

/-- `C05_sequence_frame` applies: `f` is avoided by an ordinary bare write (writable `{g}`), by a
masked write of `g` with a reset of `g`, and the hypothesis fails — as it must — for a bare
privileged write. -/
example : Avoids "f" ((computeWriteConfig []).fieldUpdater (some [["g"]])) ∧
    Avoids "f" ((computeWriteConfig [.updateMask (some [["g"]]), .resetMask (some [["g"]])]).fieldUpdater (some [["g"]])) ∧
    ¬ Avoids "f" ((computeWriteConfig [.allWritable]).fieldUpdater (some [["g"]])) := by
  refine ⟨⟨?_, ?_⟩, ⟨?_, ?_⟩, ?_⟩
  · exact ⟨[["g"]], rfl, by decide, by decide, by decide⟩
  · intro R h; cases h
  · show Clean [["g"]] ∧ NonNil [["g"]] ∧ NoHead "f" [["g"]]
    decide
  · intro R h
    have h' : (some [["g"]] : Option (List Path)) = some R := h
    cases h'; decide
  · rintro ⟨⟨W, hW, _⟩, _⟩
    cases hW

/-- …and a two-write sequence (a bare ordinary write, then a masked one) on one resource with writable
fields `{g}` changes `g` twice and keeps `f`. -/
example : (finalStored wSchema 0 (some [["g"]]) wStored
      [⟨[], .cons "g" (.sc "i8") .nil, false⟩, ⟨[.updateMask (some [["g"]])], .cons "g" (.sc "i9") .nil, false⟩]).get "f"
    = wStored.get "f" := by decide

/-- `C05_sequence_frame_depth` applies to the nested path `f.d` on a resource with writable fields
`{f.c, g}`: a bare ordinary write of `{f={c=5}, g=8}` and a masked write `{f.c}` of `{g=9}` both avoid
`f.d`, their written messages fit it … -/
example : AvoidsPath ["f", "d"] ((computeWriteConfig []).fieldUpdater (some [["f", "c"], ["g"]])) ∧
    AvoidsPath ["f", "d"] ((computeWriteConfig [.updateMask (some [["f", "c"]])]).fieldUpdater (some [["f", "c"], ["g"]])) ∧
    ¬ AvoidsPath ["f", "d"] ((computeWriteConfig [.updateMask (some [["f"]])]).fieldUpdater (some [["f", "c"], ["g"]])) := by
  refine ⟨⟨⟨[["f", "c"], ["g"]], by decide, by decide, by decide, by decide⟩, ?_⟩, ⟨?_, ?_⟩, ?_⟩
  · intro R h; cases h
  · show Clean [["f", "c"]] ∧ NonNil [["f", "c"]] ∧ Unrelated ["f", "d"] [["f", "c"]]
    decide
  · intro R h; cases h
  · rintro ⟨⟨_, _, hu⟩, _⟩
    exact (hu ["f"] (List.mem_cons_self ..)).1 (by decide)
example : Fits (wStored.getPath ["f", "d"]) ["f", "d"]
      (.cons "f" (.msg (.cons "c" (.sc "i5") .nil)) (.cons "g" (.sc "i8") .nil)) ∧
    Fits (wStored.getPath ["f", "d"]) ["f", "d"] (.cons "g" (.sc "i9") .nil) ∧
    NoDupAlong ["f", "d"] (.cons "f" (.msg (.cons "c" (.sc "i5") .nil)) (.cons "g" (.sc "i8") .nil)) := by
  refine ⟨by simp [Fits, Fields.get], by simp [Fits, Fields.get], by simp [NoDupAlong, Fields.keys, Fields.get]⟩
/-- `C05_fits_of_conforms` applies: `f.d` runs through the singular message field `f`, the stored and
written messages of these examples conform to `wSchema`. -/
example : MsgPath wSchema 0 ["f", "d"] ∧ Fields.conforms wSchema 0 wStored = true ∧
    Fields.conforms wSchema 0 (.cons "f" (.msg (.cons "c" (.sc "i5") .nil)) (.cons "g" (.sc "i8") .nil)) = true :=
  ⟨⟨⟨⟨"f", .message 1, 0⟩, 1, by decide, rfl⟩, trivial⟩, by decide, by decide⟩
/-- … and the sequence changes `f.c` twice (5, then cleared) and `g`, and keeps `f.d`. -/
example : (finalStored wSchema 0 (some [["f", "c"], ["g"]]) wStored
      [⟨[], .cons "f" (.msg (.cons "c" (.sc "i5") .nil)) (.cons "g" (.sc "i8") .nil), false⟩,
       ⟨[.updateMask (some [["f", "c"]])], .cons "g" (.sc "i9") .nil, false⟩])
    = .cons "f" (.msg (.cons "d" (.sc "i2") .nil)) (.cons "g" (.sc "i8") .nil) := by decide

/-- `C05_constructors_keep_paths`: `WithUpdatePaths("f", "f.zz", "f")` then `WithMoreUpdatePaths("g", "f")`
— the mask is the five paths as given; `WithUpdatePaths("f", "f.zz")` is rejected exactly like
`WithUpdateMask` of the same paths (the unknown `f.zz` is not normalised away under `f`). -/
example : (computeWriteConfig ([WCtor.withUpdatePaths [["f"], ["f", "zz"], ["f"]],
        WCtor.withMoreUpdatePaths [["g"], ["f"]]].map WCtor.opt)).update
      = some [["f"], ["f", "zz"], ["f"], ["g"], ["f"]] ∧
    writeWith wSchema 0 none ([WCtor.withUpdatePaths [["f"], ["f", "zz"]]].map WCtor.opt) wStored .nil
      = .err .invalidArgument ∧
    writeWith wSchema 0 none ([WCtor.withUpdateMask (some [["f", "zz"], ["f"]])].map WCtor.opt) wStored .nil
      = .err .invalidArgument ∧
    writeWith wSchema 0 none ([WCtor.withUpdatePaths [["f"]]].map WCtor.opt) wStored .nil
      = .ok (.cons "g" (.sc "i7") .nil) .nil := by decide

/-- `C05_read_only_write` / `C05_read_only_sequence` apply: bare writes and masked writes are ordinary
writes; on the read-only resource a bare write is accepted and changes nothing, a masked one is
rejected, an empty mask with a reset mask changes nothing — while the same bare write on a resource
WITHOUT writable mask replaces the stored message. -/
example : OrdinaryWrite [] ∧ OrdinaryWrite [.updateMask (some [["g"]]), .moreWritable (some [])] ∧
    ¬ OrdinaryWrite [.moreWritable (some [["g"]])] := by
  refine ⟨⟨by simp, by simp⟩, ⟨by simp, by simp⟩, ?_⟩
  rintro ⟨_, h⟩
  exact absurd (h [["g"]] (List.mem_cons_self ..)) (by simp)
example : writeWith wSchema 0 (some []) [] wStored (.cons "g" (.sc "i9") .nil)
      = .ok wStored (.cons "g" (.sc "i9") .nil) ∧
    writeWith wSchema 0 (some []) [.updateMask (some [["g"]])] wStored (.cons "g" (.sc "i9") .nil)
      = .err .invalidArgument ∧
    writeWith wSchema 0 (some []) [.updateMask (some []), .resetMask (some [["g"]])] wStored (.cons "g" (.sc "i9") .nil)
      = .ok wStored (.cons "g" (.sc "i9") .nil) ∧
    writeWith wSchema 0 none [] wStored (.cons "g" (.sc "i9") .nil)
      = .ok (.cons "g" (.sc "i9") .nil) (.cons "g" (.sc "i9") .nil) := by decide

/-- **C05_sequence_last_write** (the named-field clause composed over sequences: the last write that
names a field decides it).  For every resource writable mask, stored message with unique keys that a
write `s` of the item meets, and every sequence `post` of further writes: if `s` is accepted, names
the top-level field `k` in its (non-nil) update mask, `k` is writable for it and not in its reset
mask, the written message holds a scalar at `k` or nothing, and every write of `post` leaves `k`
alone (`Avoids`), then after `s :: post` the resource holds at `k` exactly what `s` wrote — its
scalar, or nothing: *absent there means cleared* — whatever `post` did elsewhere and however many of
its writes were rejected or panicked.  (`C05_scalar_in` for `s`, `C05_sequence_frame` for `post`.) -/
theorem C05_sequence_last_write (S : Schema) (ty : Nat) (resW : Option (List Path)) (k : Name)
    (hd : NotDisplaced S ty k) (s : Step) (post : List Step) (stored st src' : Fields)
    (m : Path) (ms : List Path)
    (hf : s.fresh = false)
    (hM : ((computeWriteConfig s.opts).fieldUpdater resW).update = some (m :: ms))
    (hMc : Clean (m :: ms)) (hMn : NonNil (m :: ms)) (hk : [k] ∈ m :: ms)
    (hW : ∀ W, ((computeWriteConfig s.opts).fieldUpdater resW).writable = some W →
      Clean W ∧ NonNil W ∧ ∃ w ∈ W, w <+: [k])
    (hR : ∀ R, ((computeWriteConfig s.opts).fieldUpdater resW).reset = some R → Clean R ∧ Unrelated [k] R)
    (hnd : stored.keys.Nodup) (hns : s.src.keys.Nodup)
    (hsc : ∀ v, s.src.get k = some v → ∃ x, v = .sc x)
    (ho : s.run S ty resW stored = .ok st src')
    (hpost : ∀ s' ∈ post, Avoids k ((computeWriteConfig s'.opts).fieldUpdater resW)) :
    (finalStored S ty resW stored (s :: post)).get k = s.src.get k := by
  have hfin : finalStored S ty resW stored (s :: post) = finalStored S ty resW st post := by
    rw [finalStored]
    simp [ho, Step.next, hf]
  rw [hfin, C05_sequence_frame S ty resW k hd post st hpost]
  unfold Step.run writeWith valueSet at ho
  simp only [hf, Bool.false_eq_true, if_false] at ho
  split at ho
  · split at ho
    · cases ho
    next r hm =>
      simp only [SetOut.ok.injEq] at ho
      obtain ⟨rfl, _⟩ := ho
      have hout : ∀ q ∈ m :: ms, strictPrefix q [k] = false := by
        intro q hq
        have hq0 := hMn q hq
        cases q with
        | nil => exact absurd rfl hq0
        | cons a t => simp [strictPrefix]
      have := C05_scalar_in S ty _ stored s.src r m ms [k] hM hMc hMn hk hout hW hR
        ⟨hd, trivial⟩ ⟨hnd, fun _ _ => trivial⟩ ⟨hns, fun _ _ => trivial⟩
        (by simpa [Fields.getPath] using hsc) hm
      simpa [Fields.getPath] using this
  · cases ho

/-- `C05_sequence_last_write` applies: `WithUpdatePaths("g")` of `{g=9}` resp. of `{}` (clears `g`),
followed by a masked write of `f.c` that avoids `g`. -/
example : (finalStored wSchema 0 none wStored
      [⟨[.updateMask (some [["g"]])], .cons "g" (.sc "i9") .nil, false⟩,
       ⟨[.updateMask (some [["f", "c"]])], .nil, false⟩]).get "g" = some (.sc "i9") ∧
    (finalStored wSchema 0 none wStored
      [⟨[.updateMask (some [["g"]])], .nil, false⟩,
       ⟨[.updateMask (some [["f", "c"]])], .nil, false⟩]).get "g" = none ∧
    (Step.run wSchema 0 none wStored ⟨[.updateMask (some [["g"]])], .nil, false⟩ matches .ok _ _) ∧
    Avoids "g" ((computeWriteConfig [.updateMask (some [["f", "c"]])]).fieldUpdater none) := by
  refine ⟨by decide, by decide, by decide, ?_, ?_⟩
  · show Clean [["f", "c"]] ∧ NonNil [["f", "c"]] ∧ NoHead "g" [["f", "c"]]
    decide
  · intro R h; cases h

end ScVerif.C05
