import ScVerif.C05.Opts
import ScVerif.C05.Nested
import ScVerif.C05.Lemmas
/-
Lemmas for the option plumbing: the path-set meaning of `fieldmaskpb`'s `normalizePaths` / `Union`
(`Covers`: which paths a list of mask paths names), and invariants of `ComputeWriteConfig`'s fold.
-/
namespace ScVerif.C05

/-- The path-set view of a mask: `p` is named by `ps` when one of its paths is a prefix of `p`. -/
def Covers (ps : List Path) (p : Path) : Prop := ∃ q ∈ ps, q <+: p

theorem covers_iff_insideWritable (ps : List Path) (p : Path) : Covers ps p ↔ InsideWritable ps p := Iff.rfl

theorem covers_append (a b : List Path) (p : Path) : Covers (a ++ b) p ↔ Covers a p ∨ Covers b p := by
  unfold Covers
  constructor
  · rintro ⟨q, hq, hp⟩
    rcases List.mem_append.mp hq with h | h
    · exact Or.inl ⟨q, h, hp⟩
    · exact Or.inr ⟨q, h, hp⟩
  · rintro (⟨q, hq, hp⟩ | ⟨q, hq, hp⟩)
    · exact ⟨q, List.mem_append.mpr (Or.inl hq), hp⟩
    · exact ⟨q, List.mem_append.mpr (Or.inr hq), hp⟩

theorem covers_nil (p : Path) : ¬ Covers [] p := by rintro ⟨q, hq, _⟩; cases hq

/-! ## `normalizePaths` -/

theorem mem_insertSorted (x p : Path) : ∀ ps : List Path, x ∈ insertSorted p ps ↔ x = p ∨ x ∈ ps
  | [] => by simp [insertSorted]
  | q :: rest => by
    unfold insertSorted
    split
    · simp only [List.mem_cons, mem_insertSorted x p rest]
      constructor
      · rintro (h | h | h)
        · exact Or.inr (Or.inl h)
        · exact Or.inl h
        · exact Or.inr (Or.inr h)
      · rintro (h | h | h)
        · exact Or.inr (Or.inl h)
        · exact Or.inl h
        · exact Or.inr (Or.inr h)
    · simp [List.mem_cons]

theorem mem_sortPaths (x : Path) : ∀ ps : List Path, x ∈ sortPaths ps ↔ x ∈ ps
  | [] => by simp [sortPaths]
  | p :: rest => by simp [sortPaths, mem_insertSorted, mem_sortPaths x rest]

theorem mem_elide (x : Path) : ∀ (ps : List Path) (l : Option Path), x ∈ elide l ps → x ∈ ps
  | [], l, h => by cases l <;> simp [elide] at h
  | p :: rest, none, h => by
    simp only [elide, List.mem_cons] at h
    rcases h with h | h
    · exact h ▸ List.mem_cons_self ..
    · exact List.mem_cons_of_mem _ (mem_elide x rest _ h)
  | p :: rest, some l, h => by
    simp only [elide] at h
    split at h
    · exact List.mem_cons_of_mem _ (mem_elide x rest _ h)
    · simp only [List.mem_cons] at h
      rcases h with h | h
      · exact h ▸ List.mem_cons_self ..
      · exact List.mem_cons_of_mem _ (mem_elide x rest _ h)

/-- Whatever the elision loop drops lies inside a path it kept (sortedness is not needed for this:
it only makes the result minimal). -/
theorem elide_covers (x : Path) : ∀ (ps : List Path) (l : Option Path), x ∈ ps →
    Covers (elide l ps) x ∨ ∃ l', l = some l' ∧ l' <+: x
  | [], _, h => by cases h
  | p :: rest, none, h => by
    left
    simp only [elide]
    rcases List.mem_cons.mp h with h | h
    · exact ⟨p, List.mem_cons_self .., h ▸ List.prefix_refl _⟩
    · rcases elide_covers x rest (some p) h with ⟨q, hq, hqx⟩ | ⟨l', hl, hl'⟩
      · exact ⟨q, List.mem_cons_of_mem _ hq, hqx⟩
      · cases hl; exact ⟨p, List.mem_cons_self .., hl'⟩
  | p :: rest, some l, h => by
    simp only [elide]
    split
    next hpre =>
      rcases List.mem_cons.mp h with h | h
      · right; exact ⟨l, rfl, h ▸ (hasPrefix_iff p l).mp hpre⟩
      · exact elide_covers x rest (some l) h
    next =>
      left
      rcases List.mem_cons.mp h with h | h
      · exact ⟨p, List.mem_cons_self .., h ▸ List.prefix_refl _⟩
      · rcases elide_covers x rest (some p) h with ⟨q, hq, hqx⟩ | ⟨l', hl, hl'⟩
        · exact ⟨q, List.mem_cons_of_mem _ hq, hqx⟩
        · cases hl; exact ⟨p, List.mem_cons_self .., hl'⟩

theorem mem_normalize {x : Path} {ps : List Path} (h : x ∈ normalize ps) : x ∈ ps :=
  (mem_sortPaths x ps).mp (mem_elide x _ _ h)

/-- `normalizePaths` keeps the set of named paths. -/
theorem covers_normalize (ps : List Path) (p : Path) : Covers (normalize ps) p ↔ Covers ps p := by
  constructor
  · rintro ⟨q, hq, hp⟩; exact ⟨q, mem_normalize hq, hp⟩
  · rintro ⟨q, hq, hp⟩
    rcases elide_covers q (sortPaths ps) none ((mem_sortPaths q ps).mpr hq) with ⟨r, hr, hrq⟩ | ⟨_, hl, _⟩
    · exact ⟨r, hr, List.IsPrefix.trans hrq hp⟩
    · cases hl

/-- `fieldmaskpb.Union` names exactly the paths either mask names. -/
theorem covers_union (a b : List Path) (p : Path) : Covers (union a b) p ↔ Covers a p ∨ Covers b p := by
  unfold union; rw [covers_normalize, covers_append]

theorem mem_union {x : Path} {a b : List Path} (h : x ∈ union a b) : x ∈ a ∨ x ∈ b :=
  List.mem_append.mp (mem_normalize h)

theorem clean_union {a b : List Path} (ha : Clean a) (hb : Clean b) : Clean (union a b) := by
  intro p hp; rcases mem_union hp with h | h
  · exact ha p h
  · exact hb p h

theorem nonNil_union {a b : List Path} (ha : NonNil a) (hb : NonNil b) : NonNil (union a b) := by
  intro p hp; rcases mem_union hp with h | h
  · exact ha p h
  · exact hb p h

theorem unrelated_union {p : Path} {a b : List Path} (ha : Unrelated p a) (hb : Unrelated p b) :
    Unrelated p (union a b) := by
  intro q hq; rcases mem_union hq with h | h
  · exact ha q h
  · exact hb q h

theorem noHead_iff {k : Name} {ps : List Path} : NoHead k ps ↔ ∀ t, (k :: t) ∉ ps := by
  unfold NoHead
  constructor
  · intro h t ht
    have := mem_tails.mpr ht
    rw [h] at this; cases this
  · intro h
    cases ht : tails k ps with
    | nil => rfl
    | cons t ts =>
      have : t ∈ tails k ps := by rw [ht]; exact List.mem_cons_self ..
      exact absurd (mem_tails.mp this) (h t)

theorem noHead_union {k : Name} {a b : List Path} (ha : NoHead k a) (hb : NoHead k b) : NoHead k (union a b) := by
  rw [noHead_iff] at *
  intro t ht
  rcases mem_union ht with h | h
  · exact ha t h
  · exact hb t h

/-! ## `ComputeWriteConfig` -/

theorem computeWriteConfig_snoc (opts : List WOpt) (o : WOpt) :
    computeWriteConfig (opts ++ [o]) = WOpt.apply (computeWriteConfig opts) o := by
  simp [computeWriteConfig, List.foldl_append]

end ScVerif.C05
