import ScVerif.C05.OptFrame
/-
The frame at depth carried through sequences of writes: what one write keeps of the *shape* of the
stored message along a path (unique keys), so that the tree hypotheses of `C05_frame` /
`C05_frame_nil_mask` hold again for the next write.
-/
namespace ScVerif.C05

/-! ## `pruneEmpty` keeps keys unique, at the top and on the way down -/

theorem nodup_pruneEmpty (mask : Mask) (src : Fields) : ∀ (dst dst' : Fields),
    pruneEmpty mask src dst = some dst' → dst.keys.Nodup → dst'.keys.Nodup
  | .nil, dst', h, _ => by simp [pruneEmpty] at h; subst h; simp [Fields.keys]
  | .cons a v rest, dst', h, hn => by
    have hh : (a :: rest.keys).Nodup := by simpa [Fields.keys] using hn
    have ⟨h1, h2⟩ := List.nodup_cons.mp hh
    rw [pruneEmpty] at h
    have ih := nodup_pruneEmpty mask src rest
    have keep : ∀ (w : Val) (r : Option Fields), r = pruneEmpty mask src rest → r.map (Fields.cons a w) = some dst' →
        dst'.keys.Nodup := by
      intro w r e hr
      cases hr' : pruneEmpty mask src rest with
      | none => rw [e, hr'] at hr; cases hr
      | some r' =>
        rw [e, hr'] at hr
        simp only [Option.map_some, Option.some.injEq] at hr
        subst hr
        simp only [Fields.keys, List.nodup_cons]
        exact ⟨fun hm => h1 (mem_keys_pruneEmpty mask src a rest r' hr' hm), ih r' hr' h2⟩
    have drop : pruneEmpty mask src rest = some dst' → dst'.keys.Nodup := fun hr => ih dst' hr h2
    split at h
    · exact keep _ _ rfl h
    · split at h
      · split at h
        · split at h
          · exact drop h
          · split at h
            · cases h
            · exact keep _ _ rfl h
        · exact drop h
      · split at h
        · split at h
          · cases h
          · exact keep _ _ rfl h
        · exact keep _ _ rfl h

/-- A message found under `k` after `pruneEmpty` comes from a message under `k` before: untouched,
pruned with the nested mask, or visited by `pruneEmpty` itself. -/
theorem get_pruneEmpty_msg (mask : Mask) (src : Fields) (k : Name) (dst dst' : Fields)
    (hn : dst.keys.Nodup) (h : pruneEmpty mask src dst = some dst')
    (df' : Fields) (hg : dst'.get k = some (.msg df')) :
    ∃ df, dst.get k = some (.msg df) ∧
      (df' = df ∨ (∃ sub, pruneFields sub df = some df') ∨ ∃ sub sf, pruneEmpty sub sf df = some df') := by
  cases hf : mask.find k with
  | none =>
    rw [get_pruneEmpty_other mask src k hf dst dst' h] at hg
    exact ⟨df', hg, Or.inl rfl⟩
  | some sub =>
    by_cases he : sub.isEmpty = true
    · have := get_pruneEmpty_empty mask src k sub hf he dst dst' hn h
      cases hgd : dst.get k with
      | none => rw [hgd] at this; rw [this] at hg; cases hg
      | some v =>
        rw [hgd] at this
        simp only at this
        cases hs : src.get k with
        | none => rw [hs] at this; simp only at this; rw [this] at hg; cases hg
        | some sv =>
          rw [hs] at this
          simp only at this
          cases v with
          | msg df =>
            cases sv with
            | msg sf =>
              simp only at this
              obtain ⟨df'', hd, hg'⟩ := this
              rw [hg'] at hg; cases hg
              exact ⟨df, rfl, Or.inr (Or.inr ⟨sub, sf, hd⟩)⟩
            | sc _ => simp only at this; rw [this] at hg; cases hg; exact ⟨_, rfl, Or.inl rfl⟩
            | scs _ => simp only at this; rw [this] at hg; cases hg; exact ⟨_, rfl, Or.inl rfl⟩
            | msgs _ => simp only at this; rw [this] at hg; cases hg; exact ⟨_, rfl, Or.inl rfl⟩
            | map _ => simp only at this; rw [this] at hg; cases hg; exact ⟨_, rfl, Or.inl rfl⟩
          | sc _ => simp only at this; rw [this] at hg; cases hg
          | scs _ => simp only at this; rw [this] at hg; cases hg
          | msgs _ => simp only at this; rw [this] at hg; cases hg
          | map _ => simp only at this; rw [this] at hg; cases hg
    · have he' : sub.isEmpty = false := by simpa using he
      have := get_pruneEmpty_sub mask src k sub hf he' dst dst' hn h
      cases hgd : dst.get k with
      | none => rw [hgd] at this; rw [this] at hg; cases hg
      | some v =>
        rw [hgd] at this
        simp only at this
        cases hs : src.get k with
        | none =>
          rw [hs] at this
          simp only at this
          cases v with
          | msg df =>
            simp only at this
            obtain ⟨df'', hd, hg'⟩ := this
            rw [hg'] at hg; cases hg
            exact ⟨df, rfl, Or.inr (Or.inl ⟨sub, hd⟩)⟩
          | sc _ => simp only at this; rw [this] at hg; cases hg
          | scs _ => simp only at this; rw [this] at hg; cases hg
          | msgs _ => simp only at this; rw [this] at hg; cases hg
          | map _ => simp only at this; rw [this] at hg; cases hg
        | some sv =>
          rw [hs] at this
          simp only at this
          cases v with
          | msg df =>
            cases sv with
            | msg sf =>
              simp only at this
              obtain ⟨df'', hd, hg'⟩ := this
              rw [hg'] at hg; cases hg
              exact ⟨df, rfl, Or.inr (Or.inr ⟨sub, sf, hd⟩)⟩
            | sc _ => simp only at this; rw [this] at hg; cases hg; exact ⟨_, rfl, Or.inl rfl⟩
            | scs _ => simp only at this; rw [this] at hg; cases hg; exact ⟨_, rfl, Or.inl rfl⟩
            | msgs _ => simp only at this; rw [this] at hg; cases hg; exact ⟨_, rfl, Or.inl rfl⟩
            | map _ => simp only at this; rw [this] at hg; cases hg; exact ⟨_, rfl, Or.inl rfl⟩
          | sc _ => simp only at this; rw [this] at hg; cases hg
          | scs _ => simp only at this; rw [this] at hg; cases hg
          | msgs _ => simp only at this; rw [this] at hg; cases hg
          | map _ => simp only at this; rw [this] at hg; cases hg

/-- `pruneEmpty` keeps keys unique on the way down any path. -/
theorem noDupAlong_pruneEmpty : ∀ (p : Path) (mask : Mask) (src dst dst' : Fields),
    pruneEmpty mask src dst = some dst' → NoDupAlong p dst → NoDupAlong p dst'
  | [], _, _, _, _, _, _ => trivial
  | k :: rest, mask, src, dst, dst', hp, h => by
    simp only [NoDupAlong] at h ⊢
    refine ⟨nodup_pruneEmpty mask src dst dst' hp h.1, ?_⟩
    intro df' hg
    obtain ⟨df, hgf, hd⟩ := get_pruneEmpty_msg mask src k dst dst' h.1 hp df' hg
    rcases hd with rfl | ⟨sub, hd⟩ | ⟨sub, sf, hd⟩
    · exact h.2 _ hgf
    · exact noDupAlong_pruneFields rest sub df df' hd (h.2 df hgf)
    · exact noDupAlong_pruneEmpty rest sub sf df df' hd (h.2 df hgf)

theorem noDupAlong_pruneMsg (p : Path) (mask : Mask) (fs fs' : Fields)
    (h : pruneMsg mask fs = some fs') (hn : NoDupAlong p fs) : NoDupAlong p fs' := by
  unfold pruneMsg at h
  by_cases he : mask.isEmpty = true
  · rw [if_pos he] at h; cases h; exact hn
  · rw [if_neg he] at h; exact noDupAlong_pruneFields p mask fs fs' h hn

theorem noDupAlong_resetDst (p : Path) (u : Updater) (d d' : Fields)
    (h : resetDst u d = some d') (hn : NoDupAlong p d) : NoDupAlong p d' := by
  unfold resetDst at h
  cases hr : u.reset with
  | none => rw [hr] at h; simp at h; rw [← h]; exact hn
  | some R => rw [hr] at h; exact noDupAlong_pruneMsg p _ d d' h hn

/-! ## What a written message must look like along `p`, whatever is stored -/

/-- The written message *fits* the path `p`, given what the resource holds at `p` (`old`): on the way
down `p` it holds messages only (or nothing), and at the end of `p` it does not hold a non-message
where the resource holds a message.  Both follow from the written message conforming to the schema
the stored one conforms to, `p` being a path through singular message fields. -/
def Fits (old : Option Val) : Path → Fields → Prop
  | [], _ => True
  | [k], src => ∀ v, src.get k = some v → (∀ sf, v ≠ .msg sf) → ∀ df, old ≠ some (.msg df)
  | k :: k' :: rest, src =>
    match src.get k with
    | none => True
    | some (.msg sf) => Fits old (k' :: rest) sf
    | some _ => False

/-- A fitting written message agrees (`Agree`) with every stored message that holds `old` at `p`. -/
theorem agree_of_fits : ∀ (p : Path) (dst src : Fields), Fits (dst.getPath p) p src → Agree p dst src
  | [], _, _, _ => trivial
  | [k], dst, src, h => by
    simp only [Fits, Fields.getPath] at h
    simp only [Agree]
    cases hs : src.get k with
    | none => trivial
    | some v =>
      cases v with
      | msg sf => simp only; intro _ _; trivial
      | sc x => exact h _ hs (by simp)
      | scs x => exact h _ hs (by simp)
      | msgs x => exact h _ hs (by simp)
      | map x => exact h _ hs (by simp)
  | k :: k' :: rest, dst, src, h => by
    simp only [Fits] at h
    simp only [Agree]
    cases hs : src.get k with
    | none => trivial
    | some v =>
      rw [hs] at h
      cases v with
      | msg sf =>
        simp only at h ⊢
        intro df hdf
        apply agree_of_fits (k' :: rest) df sf
        have : dst.getPath (k :: k' :: rest) = df.getPath (k' :: rest) := by
          simp [Fields.getPath, hdf]
        rw [← this]; exact h
      | sc x => exact absurd h (by simp)
      | scs x => exact absurd h (by simp)
      | msgs x => exact absurd h (by simp)
      | map x => exact absurd h (by simp)

/-! ## Messages that conform to the schema fit every path through singular message fields -/

/-- Every segment of `p` but the last names a singular message field (a path `fieldmaskpb` can
continue through). -/
def MsgPath (S : Schema) : Nat → Path → Prop
  | _, [] => True
  | _, [_] => True
  | ty, k :: k' :: rest =>
    (∃ fd t, S.field ty k = some fd ∧ fd.kind = .message t) ∧ MsgPath S (S.child ty k) (k' :: rest)

/-- The descriptor of the field at the end of `p`. -/
def leafField (S : Schema) : Nat → Path → Option FieldDesc
  | _, [] => none
  | ty, [k] => S.field ty k
  | ty, k :: k' :: rest => leafField S (S.child ty k) (k' :: rest)

theorem hasKind_msg {df : Fields} {kind : Kind} (h : (Val.msg df).hasKind kind = true) : ∃ t, kind = .message t := by
  cases kind <;> simp [Val.hasKind] at h
  exact ⟨_, rfl⟩

theorem msg_of_hasKind {v : Val} {t : Nat} (h : v.hasKind (.message t) = true) : ∃ sf, v = .msg sf := by
  cases v <;> simp [Val.hasKind] at h
  exact ⟨_, rfl⟩

/-- A populated field of a conforming message is declared, has the declared kind and conforms. -/
theorem conforms_get (S : Schema) (ty : Nat) (k : Name) : ∀ (fs : Fields) (v : Val),
    Fields.conforms S ty fs = true → fs.get k = some v →
    ∃ fd, S.field ty k = some fd ∧ v.hasKind fd.kind = true ∧ Val.conforms S (S.child ty k) v = true
  | .nil, _, _, hg => by simp [Fields.get] at hg
  | .cons a w rest, v, hc, hg => by
    rw [Fields.conforms] at hc
    simp only [Bool.and_eq_true] at hc
    by_cases hak : a = k
    · subst hak
      simp only [Fields.get, if_true, Option.some.injEq] at hg
      subst hg
      cases hf : S.field ty a with
      | none => rw [hf] at hc; simp at hc
      | some fd =>
        rw [hf] at hc
        simp only [Bool.and_eq_true] at hc
        exact ⟨fd, rfl, hc.1.1, hc.1.2⟩
    · simp only [Fields.get, hak, if_false] at hg
      exact conforms_get S ty k rest v hc.2 hg

/-- What a conforming message holds at `p` has the kind of the field at the end of `p`. -/
theorem kind_at_path (S : Schema) : ∀ (p : Path) (ty : Nat) (fs : Fields) (v : Val),
    Fields.conforms S ty fs = true → fs.getPath p = some v →
    ∃ fd, leafField S ty p = some fd ∧ v.hasKind fd.kind = true
  | [], _, _, _, _, hg => by simp [Fields.getPath] at hg
  | [k], ty, fs, v, hc, hg => by
    simp only [Fields.getPath] at hg
    obtain ⟨fd, hf, hk, _⟩ := conforms_get S ty k fs v hc hg
    exact ⟨fd, hf, hk⟩
  | k :: k' :: rest, ty, fs, v, hc, hg => by
    simp only [Fields.getPath] at hg
    cases hgk : fs.get k with
    | none => rw [hgk] at hg; cases hg
    | some w =>
      rw [hgk] at hg
      cases w with
      | msg sub =>
        simp only at hg
        obtain ⟨_, _, _, hsub⟩ := conforms_get S ty k fs _ hc hgk
        rw [Val.conforms] at hsub
        exact kind_at_path S (k' :: rest) (S.child ty k) sub v hsub hg
      | sc _ => simp at hg
      | scs _ => simp at hg
      | msgs _ => simp at hg
      | map _ => simp at hg

theorem fits_of_kind (S : Schema) (old : Option Val) : ∀ (p : Path) (ty : Nat) (src : Fields),
    MsgPath S ty p → Fields.conforms S ty src = true →
    (∀ df, old = some (.msg df) → ∃ fd, leafField S ty p = some fd ∧ (Val.msg df).hasKind fd.kind = true) →
    Fits old p src
  | [], _, _, _, _, _ => trivial
  | [k], ty, src, _, hc, hold => by
    simp only [Fits]
    intro v hg hnm df hdf
    obtain ⟨fd, hf, hk⟩ := hold df hdf
    simp only [leafField] at hf
    obtain ⟨t, ht⟩ := hasKind_msg hk
    obtain ⟨fd', hf', hk', _⟩ := conforms_get S ty k src v hc hg
    rw [hf] at hf'; cases hf'
    rw [ht] at hk'
    obtain ⟨sf, rfl⟩ := msg_of_hasKind hk'
    exact hnm sf rfl
  | k :: k' :: rest, ty, src, hp, hc, hold => by
    simp only [MsgPath] at hp
    obtain ⟨⟨fd, t, hf, ht⟩, hrest⟩ := hp
    simp only [Fits]
    cases hg : src.get k with
    | none => trivial
    | some v =>
      obtain ⟨fd', hf', hk', hsub⟩ := conforms_get S ty k src v hc hg
      rw [hf] at hf'; cases hf'
      rw [ht] at hk'
      obtain ⟨sf, rfl⟩ := msg_of_hasKind hk'
      simp only
      rw [Val.conforms] at hsub
      exact fits_of_kind S old (k' :: rest) (S.child ty k) sf hrest hsub (by simpa [leafField] using hold)

/-! ## One write that avoids a path -/

/-- A write leaves the path `p` alone: its update mask (the writable fields when that is nil) and
its reset mask are unrelated to `p` (no path of them is a prefix of `p`, `p` is a prefix of none). -/
def AvoidsPath (p : Path) (u : Updater) : Prop :=
  (match u.update with
   | some M => Clean M ∧ NonNil M ∧ Unrelated p M
   | none => ∃ W, u.writable = some W ∧ Clean W ∧ NonNil W ∧ Unrelated p W) ∧
  (∀ R, u.reset = some R → Clean R ∧ Unrelated p R)

/-- The stored message keeps unique keys along `p` through one write with a non-empty update mask
that does not reach `p`. -/
theorem noDupAlong_merge_mask (S : Schema) (ty : Nat) (u : Updater) (dst src : Fields) (r : Merged)
    (m : Path) (ms : List Path) (p : Path)
    (hM : u.update = some (m :: ms)) (hMc : Clean (m :: ms)) (hMn : NonNil (m :: ms))
    (hp : p ≠ []) (hpM : Unrelated p (m :: ms))
    (hdisp : NoDispAlong S ty p)
    (hnd : NoDupAlong p dst) (hns : NoDupAlong p src) (hag : Agree p dst src)
    (h : merge S ty u dst src = some r) :
    NoDupAlong p r.dst := by
  unfold merge at h
  by_cases hW : u.writable = some []
  · simp only [hW, if_true, hM] at h
    cases hd' : resetDst u dst with
    | none => rw [hd'] at h; cases h
    | some d' => rw [hd'] at h; simp at h; rw [← h]; exact noDupAlong_resetDst p u _ _ hd' hnd
  · simp only [hW, if_false, hM] at h
    split at h
    · cases h
    next src1 hf1 =>
      have hs1 := shape_filterMsg p _ dst src src1 hf1 hns hag
      simp only [Option.getD_some] at h
      have hne := nestedMask_not_empty hMc hMn (by simp)
      have hmiss := misses_nestedMask hMc hp hpM
      split at h
      · cases h
      next src2 hf2 =>
        unfold filterMsg at hf2
        simp only [hne, Bool.false_eq_true, if_false] at hf2
        have hready := mergeReady_filterFields p _ dst src1 src2 hmiss hf2 hs1.1 hs1.2
        have hs2 := noDupAlong_filterFields p _ src1 src2 hf2 hs1.1
        have hn2 := noDupAlong_mergeFields S p ty dst src2 hnd hs2 hdisp hready
        split at h
        · cases h
        next d3 hd3 =>
          have hn3 := noDupAlong_pruneEmpty p _ src2 _ d3 hd3 hn2
          cases hd' : resetDst u d3 with
          | none => rw [hd'] at h; cases h
          | some d' => rw [hd'] at h; simp at h; rw [← h]; exact noDupAlong_resetDst p u _ _ hd' hn3

/-- The same for a nil update mask and non-empty writable fields that do not reach `p`. -/
theorem noDupAlong_merge_nil_mask (S : Schema) (ty : Nat) (u : Updater) (dst src : Fields) (r : Merged)
    (w : Path) (ws : List Path) (p : Path)
    (hM : u.update = none) (hW : u.writable = some (w :: ws)) (hWc : Clean (w :: ws)) (hWn : NonNil (w :: ws))
    (hp : p ≠ []) (hpW : Unrelated p (w :: ws))
    (hdisp : NoDispAlong S ty p)
    (hnd : NoDupAlong p dst) (hns : NoDupAlong p src) (hag : Agree p dst src)
    (h : merge S ty u dst src = some r) :
    NoDupAlong p r.dst := by
  have hne := nestedMask_not_empty hWc hWn (by simp)
  have hmiss := misses_nestedMask hWc hp hpW
  unfold merge at h
  simp only [hW, hM] at h
  rw [if_neg (by simp)] at h
  simp only [Option.isNone_some, Bool.false_eq_true, if_false] at h
  split at h
  · cases h
  next src1 hf1 =>
    cases hd1 : pruneMsg (nestedMask (w :: ws)) dst with
    | none => rw [hd1] at h; simp at h
    | some dst1 =>
      rw [hd1] at h
      have hsh := shape_pruneMsg p _ dst dst1 src hd1 hnd hag
      unfold filterMsg at hf1
      simp only [hne, Bool.false_eq_true, if_false] at hf1
      have hready := mergeReady_filterFields p _ dst1 src src1 hmiss hf1 hns hsh.2
      have hs1 := noDupAlong_filterFields p _ src src1 hf1 hns
      simp only [Option.getD_none] at h
      have hnil : nestedMask [] = Mask.nil := rfl
      rw [hnil] at h
      have hfm : filterMsg Mask.nil src1 = some src1 := by simp [filterMsg, Mask.isEmpty]
      rw [hfm] at h
      simp only at h
      have hn2 := noDupAlong_mergeFields S p ty dst1 src1 hsh.1 hs1 hdisp hready
      split at h
      · cases h
      next d3 hd3 =>
        have hn3 := noDupAlong_pruneEmpty p _ src1 _ d3 hd3 hn2
        cases hd' : resetDst u d3 with
        | none => rw [hd'] at h; cases h
        | some d' => rw [hd'] at h; simp at h; rw [← h]; exact noDupAlong_resetDst p u _ _ hd' hn3

/-- One write whose masks avoid the path `p` keeps what the stored message holds at `p` AND keeps the
stored message's keys unique along `p`: the invariant that carries the depth frame through sequences. -/
theorem merge_avoidsPath (S : Schema) (ty : Nat) (u : Updater) (dst src : Fields) (r : Merged) (p : Path)
    (ha : AvoidsPath p u) (hp : p ≠ []) (hdisp : NoDispAlong S ty p)
    (hnd : NoDupAlong p dst) (hns : NoDupAlong p src) (hfit : Fits (dst.getPath p) p src)
    (h : merge S ty u dst src = some r) :
    r.dst.getPath p = dst.getPath p ∧ NoDupAlong p r.dst := by
  have hag := agree_of_fits p dst src hfit
  obtain ⟨hmask, hreset⟩ := ha
  cases hupd : u.update with
  | some M =>
    rw [hupd] at hmask
    obtain ⟨hMc, hMn, hMu⟩ := hmask
    cases M with
    | nil => rw [C05_empty_mask S ty u dst src r hupd h]; exact ⟨rfl, hnd⟩
    | cons m ms =>
      exact ⟨C05_frame S ty u dst src r m ms p hupd hMc hMn hp hMu hreset hdisp hnd hns hag h,
        noDupAlong_merge_mask S ty u dst src r m ms p hupd hMc hMn hp hMu hdisp hnd hns hag h⟩
  | none =>
    rw [hupd] at hmask
    obtain ⟨W, hW, hWc, hWn, hWu⟩ := hmask
    cases W with
    | cons w ws =>
      exact ⟨C05_frame_nil_mask S ty u dst src r w ws p hupd hW hWc hWn hp hWu hreset hdisp hnd hns hag h,
        noDupAlong_merge_nil_mask S ty u dst src r w ws p hupd hW hWc hWn hp hWu hdisp hnd hns hag h⟩
    | nil =>
      unfold merge at h
      simp only [hW, if_true, hupd, reduceCtorEq, if_false] at h
      cases hd' : resetDst u dst with
      | none => rw [hd'] at h; cases h
      | some d' =>
        rw [hd'] at h; simp at h; rw [← h]
        refine ⟨?_, noDupAlong_resetDst p u _ _ hd' hnd⟩
        unfold resetDst at hd'
        cases hr : u.reset with
        | none => rw [hr] at hd'; simp at hd'; rw [hd']
        | some R =>
          rw [hr] at hd'
          obtain ⟨hRc, hRu⟩ := hreset R hr
          exact getPath_pruneMsg_misses p _ dst d' (misses_nestedMask hRc hp hRu) hd'

end ScVerif.C05
