import ScVerif.C05.OptLemmas
/-
Specification of the option plumbing, written by scanning the option list from the LAST option
backwards (the code folds it forwards), and the invariants of `ComputeWriteConfig` behind the
`C05_options_*` theorems.
-/
namespace ScVerif.C05

/-- The update mask a list of options denotes, options given LAST FIRST: the mask of the last
`WithUpdateMask` decides — nil (or no such option) is nil whatever `WithMoreUpdateMask` options
follow it; a non-nil one is extended by the paths of the `WithMoreUpdateMask` options after it. -/
def specUpdateRev : List WOpt → Option (List Path)
  | [] => none
  | .updateMask m :: _ => m
  | .moreUpdateMask m :: earlier => (specUpdateRev earlier).map (· ++ m.getD [])
  | _ :: earlier => specUpdateRev earlier

def specUpdate (opts : List WOpt) : Option (List Path) := specUpdateRev opts.reverse

/-- The reset mask a list of options denotes, options given last first: the last `WithResetMask`. -/
def specResetRev : List WOpt → Option (List Path)
  | [] => none
  | .resetMask m :: _ => m
  | _ :: earlier => specResetRev earlier

def specReset (opts : List WOpt) : Option (List Path) := specResetRev opts.reverse

/-- Induction along `ComputeWriteConfig`'s fold. -/
theorem cwc_induction {P : List WOpt → WriteRequest → Prop} (h0 : P [] .empty)
    (hs : ∀ opts o r, P opts r → P (opts ++ [o]) (WOpt.apply r o)) :
    ∀ opts, P opts (computeWriteConfig opts) := by
  intro opts
  have key : ∀ rs : List WOpt, P rs.reverse (computeWriteConfig rs.reverse) := by
    intro rs
    induction rs with
    | nil => exact h0
    | cons o rest ih => rw [List.reverse_cons, computeWriteConfig_snoc]; exact hs _ _ _ ih
  have := key opts.reverse
  rwa [List.reverse_reverse] at this

theorem cwc_update (opts : List WOpt) : (computeWriteConfig opts).update = specUpdate opts := by
  refine cwc_induction (P := fun opts r => r.update = specUpdate opts) rfl ?_ opts
  intro opts o r ih
  unfold specUpdate at *
  rw [List.reverse_append, List.reverse_singleton, List.singleton_append]
  cases o with
  | updateMask m => simp [WOpt.apply, specUpdateRev]
  | moreUpdateMask m =>
    simp only [WOpt.apply, specUpdateRev, ← ih]
    cases hu : r.update <;> simp [hu]
  | resetMask m => simp [WOpt.apply, specUpdateRev, ih]
  | moreWritable m => simp [WOpt.apply, specUpdateRev, ih]
  | allWritable => simp [WOpt.apply, specUpdateRev, ih]

theorem cwc_reset (opts : List WOpt) : (computeWriteConfig opts).reset = specReset opts := by
  refine cwc_induction (P := fun opts r => r.reset = specReset opts) rfl ?_ opts
  intro opts o r ih
  unfold specReset at *
  rw [List.reverse_append, List.reverse_singleton, List.singleton_append]
  cases o with
  | updateMask m => simp [WOpt.apply, specResetRev, ih]
  | moreUpdateMask m =>
    simp only [WOpt.apply, specResetRev, ← ih]
    cases r.update <;> simp
  | resetMask m => simp [WOpt.apply, specResetRev]
  | moreWritable m => simp [WOpt.apply, specResetRev, ih]
  | allWritable => simp [WOpt.apply, specResetRev, ih]

theorem cwc_nilWritable (opts : List WOpt) :
    (computeWriteConfig opts).nilWritable = true ↔ WOpt.allWritable ∈ opts := by
  refine cwc_induction (P := fun opts r => r.nilWritable = true ↔ WOpt.allWritable ∈ opts) (by simp [WriteRequest.empty]) ?_ opts
  intro opts o r ih
  cases o with
  | updateMask m => simp [WOpt.apply, ih]
  | moreUpdateMask m =>
    simp only [WOpt.apply]
    cases r.update <;> simp [ih]
  | resetMask m => simp [WOpt.apply, ih]
  | moreWritable m => simp [WOpt.apply, ih]
  | allWritable => simp [WOpt.apply]

/-- Every extra writable path comes from one of the `WithMoreWritableFields` options. -/
theorem cwc_moreWritable_mem (opts : List WOpt) (x : Path) :
    x ∈ (computeWriteConfig opts).moreWritable.getD [] → ∃ m, WOpt.moreWritable (some m) ∈ opts ∧ x ∈ m := by
  refine cwc_induction (P := fun opts r => x ∈ r.moreWritable.getD [] → ∃ m, WOpt.moreWritable (some m) ∈ opts ∧ x ∈ m)
    (by simp [WriteRequest.empty]) ?_ opts
  intro opts o r ih
  have lift : (∃ m, WOpt.moreWritable (some m) ∈ opts ∧ x ∈ m) → ∃ m, WOpt.moreWritable (some m) ∈ opts ++ [o] ∧ x ∈ m :=
    fun ⟨m, hm, hx⟩ => ⟨m, List.mem_append.mpr (Or.inl hm), hx⟩
  cases o with
  | updateMask m => exact fun h => lift (ih h)
  | moreUpdateMask m =>
    simp only [WOpt.apply]
    cases r.update <;> exact fun h => lift (ih h)
  | resetMask m => exact fun h => lift (ih h)
  | allWritable => exact fun h => lift (ih h)
  | moreWritable m =>
    simp only [WOpt.apply, Option.getD_some]
    intro h
    rcases mem_union h with h | h
    · exact lift (ih h)
    · cases m with
      | none => simp at h
      | some m => exact ⟨m, by simp, h⟩

/-- The extra writable fields name exactly the paths the `WithMoreWritableFields` options name. -/
theorem cwc_moreWritable_covers (opts : List WOpt) (p : Path) :
    Covers ((computeWriteConfig opts).moreWritable.getD []) p ↔
      ∃ m, WOpt.moreWritable (some m) ∈ opts ∧ Covers m p := by
  refine cwc_induction (P := fun opts r => Covers (r.moreWritable.getD []) p ↔ ∃ m, WOpt.moreWritable (some m) ∈ opts ∧ Covers m p)
    ?_ ?_ opts
  · simp [WriteRequest.empty, Covers]
  intro opts o r ih
  have other : (∀ m, o ≠ WOpt.moreWritable (some m)) →
      ((∃ m, WOpt.moreWritable (some m) ∈ opts ++ [o] ∧ Covers m p) ↔ ∃ m, WOpt.moreWritable (some m) ∈ opts ∧ Covers m p) := by
    intro hne
    constructor
    · rintro ⟨m, hm, hc⟩
      rcases List.mem_append.mp hm with h | h
      · exact ⟨m, h, hc⟩
      · simp at h; exact absurd h.symm (hne m)
    · rintro ⟨m, hm, hc⟩; exact ⟨m, List.mem_append.mpr (Or.inl hm), hc⟩
  cases o with
  | updateMask m => rw [other (by simp)]; exact ih
  | moreUpdateMask m =>
    rw [other (by simp)]
    simp only [WOpt.apply]
    cases r.update <;> exact ih
  | resetMask m => rw [other (by simp)]; exact ih
  | allWritable => rw [other (by simp)]; exact ih
  | moreWritable m =>
    simp only [WOpt.apply, Option.getD_some]
    rw [covers_union, ih]
    cases m with
    | none =>
      rw [other (by simp)]
      simp [Covers]
    | some m =>
      simp only [Option.getD_some]
      constructor
      · rintro (⟨m', hm', hc⟩ | hc)
        · exact ⟨m', List.mem_append.mpr (Or.inl hm'), hc⟩
        · exact ⟨m, by simp, hc⟩
      · rintro ⟨m', hm', hc⟩
        rcases List.mem_append.mp hm' with h | h
        · exact Or.inl ⟨m', h, hc⟩
        · simp at h; subst h; exact Or.inr hc

/-- After a non-nil update mask, options other than `WithUpdateMask` keep it non-nil and add exactly
the paths of the `WithMoreUpdateMask` options. -/
theorem foldl_update_mem : ∀ (post : List WOpt) (r : WriteRequest) (M : List Path), r.update = some M →
    (∀ m, WOpt.updateMask m ∉ post) →
    ∃ M', (post.foldl WOpt.apply r).update = some M' ∧
      ∀ x, x ∈ M' ↔ x ∈ M ∨ ∃ m, WOpt.moreUpdateMask (some m) ∈ post ∧ x ∈ m := by
  intro post
  induction post with
  | nil => intro r M hr _; exact ⟨M, hr, fun p => by simp⟩
  | cons o rest ih =>
    intro r M hr hno
    have hno' : ∀ m, WOpt.updateMask m ∉ rest := fun m hm => hno m (List.mem_cons_of_mem _ hm)
    have same : (∀ m, o ≠ WOpt.moreUpdateMask (some m)) → (WOpt.apply r o).update = some M →
        ∃ M', ((o :: rest).foldl WOpt.apply r).update = some M' ∧
          ∀ x, x ∈ M' ↔ x ∈ M ∨ ∃ m, WOpt.moreUpdateMask (some m) ∈ o :: rest ∧ x ∈ m := by
      intro hne hu
      obtain ⟨M', hM', hc⟩ := ih (WOpt.apply r o) M hu hno'
      refine ⟨M', hM', fun p => ?_⟩
      rw [hc p]
      constructor
      · rintro (h | ⟨m, hm, hcm⟩)
        · exact Or.inl h
        · exact Or.inr ⟨m, List.mem_cons_of_mem _ hm, hcm⟩
      · rintro (h | ⟨m, hm, hcm⟩)
        · exact Or.inl h
        · rcases List.mem_cons.mp hm with e | hm
          · exact absurd e.symm (hne m)
          · exact Or.inr ⟨m, hm, hcm⟩
    cases o with
    | updateMask m => exact absurd (List.mem_cons_self ..) (hno m)
    | resetMask m => exact same (by simp) (by simp [WOpt.apply, hr])
    | moreWritable m => exact same (by simp) (by simp [WOpt.apply, hr])
    | allWritable => exact same (by simp) (by simp [WOpt.apply, hr])
    | moreUpdateMask m =>
      cases m with
      | none => exact same (by simp) (by simp [WOpt.apply, hr])
      | some m =>
        have hu : (WOpt.apply r (.moreUpdateMask (some m))).update = some (M ++ m) := by
          simp [WOpt.apply, hr]
        obtain ⟨M', hM', hc⟩ := ih _ (M ++ m) hu hno'
        refine ⟨M', hM', fun p => ?_⟩
        rw [hc p, List.mem_append]
        constructor
        · rintro ((h | h) | ⟨m', hm', hcm⟩)
          · exact Or.inl h
          · exact Or.inr ⟨m, List.mem_cons_self .., h⟩
          · exact Or.inr ⟨m', List.mem_cons_of_mem _ hm', hcm⟩
        · rintro (h | ⟨m', hm', hcm⟩)
          · exact Or.inl (Or.inl h)
          · rcases List.mem_cons.mp hm' with e | hm'
            · cases e; exact Or.inl (Or.inr hcm)
            · exact Or.inr ⟨m', hm', hcm⟩

theorem cwc_update_mem (pre post : List WOpt) (B : List Path) (hpost : ∀ m, WOpt.updateMask m ∉ post) :
    ∃ M, (computeWriteConfig (pre ++ WOpt.updateMask (some B) :: post)).update = some M ∧
      ∀ x, x ∈ M ↔ x ∈ B ∨ ∃ m, WOpt.moreUpdateMask (some m) ∈ post ∧ x ∈ m := by
  have : computeWriteConfig (pre ++ WOpt.updateMask (some B) :: post) =
      post.foldl WOpt.apply (WOpt.apply (computeWriteConfig pre) (.updateMask (some B))) := by
    simp [computeWriteConfig, List.foldl_append]
  rw [this]
  exact foldl_update_mem post _ B (by simp [WOpt.apply]) hpost

/-- The writable mask of the updater a write runs with. -/
theorem fieldUpdater_writable (r : WriteRequest) (resW : Option (List Path)) :
    (r.fieldUpdater resW).writable =
      if r.nilWritable then none else resW.map (fun w => union w (r.moreWritable.getD [])) := by
  unfold WriteRequest.fieldUpdater
  rw [fieldUpdater_eq]
  cases r.nilWritable <;> cases resW <;> simp

theorem fieldUpdater_update (r : WriteRequest) (resW : Option (List Path)) :
    (r.fieldUpdater resW).update = r.update := by
  unfold WriteRequest.fieldUpdater; rw [fieldUpdater_eq]

theorem fieldUpdater_reset (r : WriteRequest) (resW : Option (List Path)) :
    (r.fieldUpdater resW).reset = r.reset := by
  unfold WriteRequest.fieldUpdater; rw [fieldUpdater_eq]

/-- A write leaves field `k` alone: its update mask (the writable fields when that is nil) and its
reset mask have no path through `k`. -/
def Avoids (k : Name) (u : Updater) : Prop :=
  (match u.update with
   | some M => Clean M ∧ NonNil M ∧ NoHead k M
   | none => ∃ W, u.writable = some W ∧ Clean W ∧ NonNil W ∧ NoHead k W) ∧
  (∀ R, u.reset = some R → Clean R ∧ NoHead k R)

end ScVerif.C05
