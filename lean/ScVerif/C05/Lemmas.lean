import ScVerif.C05.MaskLemmas
import ScVerif.C05.Update
/-
Field-level lemmas about the passes of `FieldUpdater.Merge`: what each pass does to a top-level
field that its mask does not mention.
-/
namespace ScVerif.C05

namespace Fields

theorem get_erase_other {k n : Name} (h : k ≠ n) : ∀ fs : Fields, (fs.erase n).get k = fs.get k
  | .nil => rfl
  | .cons a v rest => by
    by_cases ha : a = n
    · subst ha
      have hak : ¬ a = k := fun e => h e.symm
      simp [erase, get, hak, get_erase_other h rest]
    · by_cases hk : a = k
      · subst hk; simp [erase, get, h]
      · simp [erase, get, ha, hk, get_erase_other h rest]

theorem get_eraseAll_other {k : Name} : ∀ (ns : List Name) (fs : Fields), k ∉ ns →
    (fs.eraseAll ns).get k = fs.get k
  | [], _, _ => rfl
  | n :: ns, fs, h => by
    have h1 : k ≠ n := fun e => h (e ▸ List.mem_cons_self ..)
    have h2 : k ∉ ns := fun e => h (List.mem_cons_of_mem _ e)
    simp [eraseAll, get_eraseAll_other ns (fs.erase n) h2, get_erase_other h1]

theorem get_put_other {k n : Name} (v : Val) (h : k ≠ n) : ∀ fs : Fields, (fs.put n v).get k = fs.get k
  | .nil => by
    have : ¬ n = k := fun e => h e.symm
    simp [put, get, this]
  | .cons a w rest => by
    by_cases ha : a = n
    · subst ha
      have hak : ¬ a = k := fun e => h e.symm
      simp [put, get, hak, get_erase_other h rest]
    · by_cases hk : a = k
      · subst hk; simp [put, get, h]
      · simp [put, get, ha, hk, get_put_other v h rest]

theorem get_set_other {k n : Name} (sibs : List Name) (v : Val) (h : k ≠ n) (hs : k ∉ sibs)
    (fs : Fields) : (fs.set sibs n v).get k = fs.get k := by
  simp [set, get_put_other v h, get_eraseAll_other sibs fs hs]

end Fields

/-- `proto.Merge` leaves a field alone that the source does not hold and that is not displaced by a
oneof sibling. -/
theorem get_mergeFields_other (S : Schema) (ty : Nat) (k : Name) (hk : ∀ n, k ∉ S.sibs ty n) :
    ∀ (src dst : Fields), src.get k = none → (mergeFields S ty dst src).get k = dst.get k
  | .nil, _, _ => by rw [mergeFields]
  | .cons n v rest, dst, h => by
    have hn : ¬ n = k := by
      intro e; subst e; rw [Fields.get] at h; simp at h
    have hrest : rest.get k = none := by rw [Fields.get] at h; simpa [hn] using h
    rw [mergeFields]
    rw [get_mergeFields_other S ty k hk rest _ hrest]
    exact Fields.get_set_other _ _ (fun e => hn e.symm) (hk n) dst

/-- `fmutils.Filter` with a non-empty mask drops every field the mask does not mention. -/
theorem get_filterFields_none (mask : Mask) (k : Name) (hk : mask.find k = none) :
    ∀ (fs fs' : Fields), filterFields mask fs = some fs' → fs'.get k = none
  | .nil, fs', h => by
    simp [filterFields] at h; subst h; rfl
  | .cons a v rest, fs', h => by
    rw [filterFields] at h
    cases hf : mask.find a with
    | none =>
      rw [hf] at h
      exact get_filterFields_none mask k hk rest fs' h
    | some sub =>
      have hak : ¬ a = k := by
        intro e; subst e; rw [hk] at hf; cases hf
      rw [hf] at h
      simp only at h
      by_cases he : sub.isEmpty
      · simp only [he, if_true] at h
        cases hr : filterFields mask rest with
        | none => rw [hr] at h; cases h
        | some r =>
          rw [hr] at h
          simp only [Option.map_some, Option.some.injEq] at h
          subst h
          simp [Fields.get, hak, get_filterFields_none mask k hk rest r hr]
      · simp only [he, Bool.false_eq_true, if_false] at h
        cases hv : filterVal sub v with
        | none => rw [hv] at h; cases h
        | some v' =>
          rw [hv] at h
          simp only at h
          cases hr : filterFields mask rest with
          | none => rw [hr] at h; cases h
          | some r =>
            rw [hr] at h
            simp only [Option.map_some, Option.some.injEq] at h
            subst h
            simp [Fields.get, hak, get_filterFields_none mask k hk rest r hr]

/-- `pruneEmpty` leaves a field alone that the mask does not mention. -/
theorem get_pruneEmpty_other (mask : Mask) (src : Fields) (k : Name) (hk : mask.find k = none) :
    ∀ (dst dst' : Fields), pruneEmpty mask src dst = some dst' → dst'.get k = dst.get k
  | .nil, dst', h => by
    simp [pruneEmpty] at h; subst h; rfl
  | .cons a v rest, dst', h => by
    rw [pruneEmpty] at h
    cases hf : mask.find a with
    | none =>
      rw [hf] at h
      simp only at h
      cases hr : pruneEmpty mask src rest with
      | none => rw [hr] at h; cases h
      | some r =>
        rw [hr] at h
        simp only [Option.map_some, Option.some.injEq] at h
        subst h
        by_cases hak : a = k <;> simp [Fields.get, hak, get_pruneEmpty_other mask src k hk rest r hr]
    | some sub =>
      have hak : ¬ a = k := by
        intro e; subst e; rw [hk] at hf; cases hf
      rw [hf] at h
      simp only at h
      have keep : ∀ (w : Val) (r : Option Fields), r.map (Fields.cons a w) = some dst' →
          r = pruneEmpty mask src rest → dst'.get k = (Fields.cons a v rest).get k := by
        intro w r hr e
        cases hr' : pruneEmpty mask src rest with
        | none => rw [← e] at hr'; rw [hr'] at hr; cases hr
        | some r' =>
          rw [← e] at hr'; rw [hr'] at hr
          simp only [Option.map_some, Option.some.injEq] at hr
          subst hr
          rw [e] at hr'
          simp [Fields.get, hak, get_pruneEmpty_other mask src k hk rest r' hr']
      have drop : pruneEmpty mask src rest = some dst' → dst'.get k = (Fields.cons a v rest).get k := by
        intro hr
        simp [Fields.get, hak, get_pruneEmpty_other mask src k hk rest dst' hr]
      split at h
      · split at h
        · split at h
          · exact drop h
          · split at h
            · cases h
            · exact keep _ _ h rfl
        · exact drop h
      · split at h
        · split at h
          · cases h
          · exact keep _ _ h rfl
        · exact keep _ _ h rfl

/-- `fmutils.Prune` leaves a field alone that the mask does not mention. -/
theorem get_pruneFields_other (mask : Mask) (k : Name) (hk : mask.find k = none) :
    ∀ (fs fs' : Fields), pruneFields mask fs = some fs' → fs'.get k = fs.get k
  | .nil, fs', h => by
    simp [pruneFields] at h; subst h; rfl
  | .cons a v rest, fs', h => by
    rw [pruneFields] at h
    cases hf : mask.find a with
    | none =>
      rw [hf] at h
      simp only at h
      cases hr : pruneFields mask rest with
      | none => rw [hr] at h; cases h
      | some r =>
        rw [hr] at h
        simp only [Option.map_some, Option.some.injEq] at h
        subst h
        by_cases hak : a = k <;> simp [Fields.get, hak, get_pruneFields_other mask k hk rest r hr]
    | some sub =>
      have hak : ¬ a = k := by
        intro e; subst e; rw [hk] at hf; cases hf
      rw [hf] at h
      simp only at h
      by_cases he : sub.isEmpty
      · simp only [he, if_true] at h
        simp [Fields.get, hak, get_pruneFields_other mask k hk rest fs' h]
      · simp only [he, Bool.false_eq_true, if_false] at h
        cases hv : pruneVal sub v with
        | none => rw [hv] at h; cases h
        | some v' =>
          rw [hv] at h
          simp only at h
          cases hr : pruneFields mask rest with
          | none => rw [hr] at h; cases h
          | some r =>
            rw [hr] at h
            simp only [Option.map_some, Option.some.injEq] at h
            subst h
            simp [Fields.get, hak, get_pruneFields_other mask k hk rest r hr]

/-- `fmutils.Prune` clears a field that the mask names with no continuation. -/
theorem get_pruneFields_cleared (mask : Mask) (k : Name) (sub : Mask) (hk : mask.find k = some sub)
    (he : sub.isEmpty = true) :
    ∀ (fs fs' : Fields), pruneFields mask fs = some fs' → fs'.get k = none
  | .nil, fs', h => by
    simp [pruneFields] at h; subst h; rfl
  | .cons a v rest, fs', h => by
    rw [pruneFields] at h
    by_cases hak : a = k
    · subst hak
      rw [hk] at h
      simp only [he, if_true] at h
      exact get_pruneFields_cleared mask a sub hk he rest fs' h
    · cases hf : mask.find a with
      | none =>
        rw [hf] at h
        simp only at h
        cases hr : pruneFields mask rest with
        | none => rw [hr] at h; cases h
        | some r =>
          rw [hr] at h
          simp only [Option.map_some, Option.some.injEq] at h
          subst h
          simp [Fields.get, hak, get_pruneFields_cleared mask k sub hk he rest r hr]
      | some sub' =>
        rw [hf] at h
        simp only at h
        by_cases he' : sub'.isEmpty
        · simp only [he', if_true] at h
          exact get_pruneFields_cleared mask k sub hk he rest fs' h
        · simp only [he', Bool.false_eq_true, if_false] at h
          cases hv : pruneVal sub' v with
          | none => rw [hv] at h; cases h
          | some v' =>
            rw [hv] at h
            simp only at h
            cases hr : pruneFields mask rest with
            | none => rw [hr] at h; cases h
            | some r =>
              rw [hr] at h
              simp only [Option.map_some, Option.some.injEq] at h
              subst h
              simp [Fields.get, hak, get_pruneFields_cleared mask k sub hk he rest r hr]

theorem get_pruneMsg_other (mask : Mask) (k : Name) (hk : mask.find k = none)
    (fs fs' : Fields) (h : pruneMsg mask fs = some fs') : fs'.get k = fs.get k := by
  unfold pruneMsg at h
  by_cases he : mask.isEmpty
  · simp [he] at h; subst h; rfl
  · simp only [he, Bool.false_eq_true, if_false] at h
    exact get_pruneFields_other mask k hk fs fs' h

/-- A mask built from non-empty clean paths, at least one of them, is not empty. -/
theorem fromPaths_not_empty {p : Path} {ps : List Path} (hc : Clean (p :: ps)) (hn : p ≠ []) :
    (Mask.fromPaths (p :: ps)).isEmpty = false := by
  rw [Mask.fromPaths_eq hc]
  cases hh : (Mask.insertAll .nil (p :: ps)).isEmpty with
  | false => rfl
  | true => exact absurd ((Mask.insertAll_nil_isEmpty _).mp hh p (List.mem_cons_self ..)) hn

/-- `nestedMask` of a non-empty list of non-empty clean paths is not empty. -/
theorem nestedMask_not_empty {ps : List Path} (hc : Clean ps) (hn : NonNil ps) (hne : ps ≠ []) :
    (nestedMask ps).isEmpty = false := by
  unfold nestedMask
  cases hm : minimal ps with
  | nil => exact absurd ((minimal_eq_nil_iff ps).mp hm) hne
  | cons q qs =>
    have hq : q ∈ minimal ps := by rw [hm]; exact List.mem_cons_self ..
    rw [← hm]
    rw [Mask.fromPaths_eq (clean_minimal hc)]
    cases hh : (Mask.insertAll .nil (minimal ps)).isEmpty with
    | false => rfl
    | true => exact absurd ((Mask.insertAll_nil_isEmpty _).mp hh q hq) (nonNil_minimal hn q hq)

/-- No path of `ps` starts with `k`. -/
def NoHead (k : Name) (ps : List Path) : Prop := tails k ps = []
instance (k : Name) (ps : List Path) : Decidable (NoHead k ps) := by unfold NoHead; infer_instance

theorem find_fromPaths_noHead {k : Name} {ps : List Path} (hc : Clean ps) (h : NoHead k ps) :
    (Mask.fromPaths ps).find k = none := by
  rw [Mask.find_fromPaths hc, h]; rfl

theorem noHead_minimal {k : Name} {ps : List Path} (h : NoHead k ps) : NoHead k (minimal ps) := by
  unfold NoHead at *
  cases ht : tails k (minimal ps) with
  | nil => rfl
  | cons t ts =>
    have : t ∈ tails k (minimal ps) := by rw [ht]; exact List.mem_cons_self ..
    have := mem_tails.mpr (minimal_subset (mem_tails.mp this))
    rw [h] at this; cases this

theorem find_nestedMask_noHead {k : Name} {ps : List Path} (hc : Clean ps) (h : NoHead k ps) :
    (nestedMask ps).find k = none :=
  find_fromPaths_noHead (clean_minimal hc) (noHead_minimal h)

end ScVerif.C05
