import ScVerif.C05.PropsIcpt
/-
Sequences of intercepted writes on one resource: the way a trait server is used over its life — every
Update RPC is one `Value.Set` with the request's own mask, its own written message and its own
interceptors (delta / relative before the merge, derived fields after it).
-/
namespace ScVerif.C05

/-- One intercepted write of a sequence: its option list, written message and interceptors. -/
structure IStep where
  opts : List WOpt
  src : Fields
  before : Option Icpt
  after : Option Icpt

/-- One `Value.Set` with options and interceptors. -/
def IStep.run (S : Schema) (ty : Nat) (resW : Option (List Path)) (stored : Fields) (s : IStep) : SetOut :=
  valueSetI S ty ((computeWriteConfig s.opts).fieldUpdater resW) s.before s.after stored s.src

/-- The stored message after a sequence of intercepted writes (a rejected write stores nothing, a
panic ends the sequence). -/
def finalStoredI (S : Schema) (ty : Nat) (resW : Option (List Path)) : Fields → List IStep → Fields
  | stored, [] => stored
  | stored, s :: rest =>
    match s.run S ty resW stored with
    | .panic => stored
    | .err _ => finalStoredI S ty resW stored rest
    | .ok st _ => finalStoredI S ty resW st rest

/-- **C05_intercept_sequence_frame** (the frame over ALL sequences of intercepted writes).  For every
resource writable mask, initial stored message and every finite sequence of writes — accepted,
rejected or panicking, each with its own option list, written message, ANY before-interceptor and an
after-interceptor that leaves the field `k` alone —: if no write of the sequence names `k` (no path
of its update mask, of its writable fields when the update mask is nil, and of its reset mask starts
with `k`) and no oneof assignment can displace `k`, the resource holds at `k` after the whole
sequence exactly what it held before it: a counter no request's mask names never moves, however
many delta requests are served.  By induction on the sequence; no hypothesis on the messages. -/
theorem C05_intercept_sequence_frame (S : Schema) (ty : Nat) (resW : Option (List Path)) (k : Name)
    (hd : NotDisplaced S ty k) :
    ∀ (steps : List IStep) (stored : Fields),
      (∀ s ∈ steps, Avoids k ((computeWriteConfig s.opts).fieldUpdater resW) ∧ KeepsField k s.after) →
      (finalStoredI S ty resW stored steps).get k = stored.get k := by
  intro steps
  induction steps with
  | nil => intro stored _; rfl
  | cons s rest ih =>
    intro stored hall
    have hs := hall s (List.mem_cons_self ..)
    have hrest : ∀ s' ∈ rest, Avoids k ((computeWriteConfig s'.opts).fieldUpdater resW) ∧ KeepsField k s'.after :=
      fun s' hs' => hall s' (List.mem_cons_of_mem _ hs')
    unfold finalStoredI
    cases ho : s.run S ty resW stored with
    | panic => rfl
    | err c => exact ih stored hrest
    | ok st src' =>
      simp only
      rw [ih st hrest]
      exact C05_intercept_frame S ty _ s.before s.after stored s.src st src' k hs.1 hd hs.2 ho

/-- **C05_intercept_sequence_empty_masks.**  A sequence of requests that all carry an empty non-nil
update mask (whatever their messages, flags and before-interceptors; after-interceptors quiet on an
unchanged message) leaves the stored message exactly as it was. -/
theorem C05_intercept_sequence_empty_masks (S : Schema) (ty : Nat) (resW : Option (List Path)) :
    ∀ (steps : List IStep) (stored : Fields),
      (∀ s ∈ steps, ((computeWriteConfig s.opts).fieldUpdater resW).update = some [] ∧
        QuietWhenUnchanged s.after) →
      finalStoredI S ty resW stored steps = stored := by
  intro steps
  induction steps with
  | nil => intro stored _; rfl
  | cons s rest ih =>
    intro stored hall
    have hs := hall s (List.mem_cons_self ..)
    have hrest : ∀ s' ∈ rest, ((computeWriteConfig s'.opts).fieldUpdater resW).update = some [] ∧
        QuietWhenUnchanged s'.after := fun s' hs' => hall s' (List.mem_cons_of_mem _ hs')
    unfold finalStoredI
    cases ho : s.run S ty resW stored with
    | panic => rfl
    | err c => exact ih stored hrest
    | ok st src' =>
      simp only
      have : st = stored :=
        C05_intercept_empty_mask S ty _ s.before s.after stored s.src st src' hs.1 hs.2 ho
      rw [this]; exact ih stored hrest

/-! ## Non-vacuity -/

/-- Two delta requests with mask `{g}` on the example message: `g` accumulates (7 → 14 → 28 under the
witness table `add7`, whose other lines return the written token), `f` never moves; the hypotheses of
`C05_intercept_sequence_frame` hold for `f`. -/
example :
    let s : IStep := ⟨[.updateMask (some [["g"]])], .cons "g" (.sc "i7") .nil, some (deltaIcptWith add7 ["g"]), none⟩
    (∀ t ∈ [s, s], Avoids "f" ((computeWriteConfig t.opts).fieldUpdater none) ∧ KeepsField "f" t.after) ∧
    (finalStoredI wSchema 0 none wStored [s, s]).get "f" = wStored.get "f" ∧
    (finalStoredI wSchema 0 none wStored [s]).get "g" = some (.sc "i14") := by
  intro s
  refine ⟨?_, by decide, by decide⟩
  intro t ht
  simp only [List.mem_cons, List.mem_nil_iff, or_false, or_self] at ht
  subst ht
  refine ⟨⟨⟨by decide, by decide, by decide⟩, by
    intro R h
    have hn : ((computeWriteConfig [WOpt.updateMask (some [["g"]])]).fieldUpdater none).reset = none := by decide
    rw [hn] at h; cases h⟩, ?_⟩
  intro g hg; cases hg

end ScVerif.C05
