/-
Message trees, nested masks and schemas shared by C05 (update masks) and C06 (read masks).

* A message (`Fields`) holds its *populated* fields only, keyed by field name.  Go's
  `protoreflect.Message.Range` visits populated fields in an unspecified order, and every model
  operation below is order-insensitive in the same way; the driver prints fields sorted by name (the
  harness does the same with the real message), so the order inside a `Fields` value is not observable.
* Scalars, repeated-scalar elements and map keys/values are opaque canonical texts (`String`):
  no modelled operation computes with them (`proto.Merge` copies, `fmutils` keeps or clears).
  Map values that are messages are carried as an opaque text too, since neither `fmutils` nor
  `fieldmaskpb.IsValid` ever looks inside a map.
* `Mask` is fmutils' `NestedMask` (`map[string]NestedMask`) as an association tree.
-/
namespace ScVerif.C05

abbrev Name := String
abbrev Path := List Name

mutual
  /-- The value of one populated field. -/
  inductive Val where
    | sc (s : String)                     -- singular scalar / enum / bytes
    | msg (fs : Fields)                   -- singular message
    | scs (xs : List String)              -- repeated scalar
    | msgs (xs : Msgs)                    -- repeated message
    | map (es : List (String × String))   -- map field
  /-- Populated fields of one message. -/
  inductive Fields where
    | nil
    | cons (k : Name) (v : Val) (rest : Fields)
  /-- Elements of a repeated message field. -/
  inductive Msgs where
    | nil
    | cons (m : Fields) (rest : Msgs)
end

deriving instance DecidableEq for Val, Fields, Msgs
deriving instance Repr for Val, Fields, Msgs
instance : Inhabited Val := ⟨.sc ""⟩
instance : Inhabited Fields := ⟨.nil⟩
instance : Inhabited Msgs := ⟨.nil⟩

namespace Fields

/-- `protoreflect.Message.Get/Has` of a field by name (first match). -/
def get : Fields → Name → Option Val
  | .nil, _ => none
  | .cons k v rest, n => if k = n then some v else get rest n

def has (fs : Fields) (n : Name) : Bool := (fs.get n).isSome

/-- `Clear(fd)`: remove every entry named `n`. -/
def erase : Fields → Name → Fields
  | .nil, _ => .nil
  | .cons k v rest, n => if k = n then erase rest n else .cons k v (erase rest n)

def eraseAll (fs : Fields) : List Name → Fields
  | [] => fs
  | n :: ns => eraseAll (fs.erase n) ns

/-- `Set(fd, v)` on a field that is not part of a oneof: replace in place or append. -/
def put : Fields → Name → Val → Fields
  | .nil, n, v => .cons n v .nil
  | .cons k w rest, n, v => if k = n then .cons k v (erase rest n) else .cons k w (put rest n v)

/-- `Set(fd, v)`: setting a member of a oneof clears the other members (`sibs`) first. -/
def set (fs : Fields) (sibs : List Name) (n : Name) (v : Val) : Fields :=
  (fs.eraseAll sibs).put n v

def keys : Fields → List Name
  | .nil => []
  | .cons k _ rest => k :: keys rest

def length : Fields → Nat
  | .nil => 0
  | .cons _ _ rest => length rest + 1

end Fields

namespace Msgs
def append : Msgs → Msgs → Msgs
  | .nil, ys => ys
  | .cons m rest, ys => .cons m (append rest ys)

def toList : Msgs → List Fields
  | .nil => []
  | .cons m rest => m :: toList rest

def ofList : List Fields → Msgs
  | [] => .nil
  | m :: rest => .cons m (ofList rest)
end Msgs

/-- Follow a path through *singular message* fields; the value found at its end. -/
def Fields.getPath : Fields → Path → Option Val
  | _, [] => none
  | fs, [k] => fs.get k
  | fs, k :: k' :: rest =>
    match fs.get k with
    | some (.msg sub) => Fields.getPath sub (k' :: rest)
    | _ => none

/-- Path-set view of a mask: the continuations below field `k`, i.e. the tails of the paths whose
first segment is `k`. -/
def tails (k : Name) : List Path → List Path
  | [] => []
  | [] :: ps => tails k ps
  | (a :: t) :: ps => if a = k then t :: tails k ps else tails k ps

/-! ## fmutils.NestedMask -/

/-- `map[string]NestedMask` as an association tree (keys unique by construction in `insert`). -/
inductive Mask where
  | nil
  | cons (k : Name) (sub : Mask) (rest : Mask)
deriving DecidableEq, Repr, Inhabited

namespace Mask

def isEmpty : Mask → Bool
  | .nil => true
  | .cons .. => false

def find : Mask → Name → Option Mask
  | .nil, _ => none
  | .cons k sub rest, n => if k = n then some sub else find rest n

/-- The chain `k₁ → k₂ → … → {}` created for a fresh key. -/
def chain : Path → Mask
  | [] => .nil
  | k :: ks => .cons k (chain ks) .nil

/-- One iteration of the outer loop of `NestedMaskFromPaths` for a path whose empty segments have
already been dropped (`curr[key]` is created if absent, then descended into). -/
def insert : Mask → Path → Mask
  | m, [] => m
  | .nil, k :: ks => .cons k (chain ks) .nil
  | .cons k' sub rest, k :: ks =>
    if k' = k then .cons k' (insert sub ks) rest else .cons k' sub (insert rest (k :: ks))

/-- `NestedMaskFromPaths` skips empty segments (`a..b`, trailing/leading dots, the empty path). -/
def clean (p : Path) : Path := p.filter (· ≠ "")

/-- `fmutils.NestedMaskFromPaths`. -/
def fromPaths (ps : List Path) : Mask :=
  ps.foldl (fun m p => m.insert (clean p)) .nil

end Mask

/-! ## Schema (the descriptor facts the modelled code reads) -/

inductive Kind where
  | scalar                 -- singular scalar, enum, bytes (with or without explicit presence)
  | message (ty : Nat)     -- singular message of type `ty`
  | repScalar
  | repMessage (ty : Nat)
  | map
deriving DecidableEq, Repr, Inhabited

structure FieldDesc where
  name : Name
  kind : Kind
  /-- 0: not a member of a (real) oneof; otherwise the 1-based index of its oneof. -/
  oneof : Nat
deriving DecidableEq, Repr, Inhabited

/-- Message types by index; type `ty` has the fields `S[ty]`. -/
abbrev Schema := List (List FieldDesc)

namespace Schema

def fields (S : Schema) (ty : Nat) : List FieldDesc := S.getD ty []

/-- `md.Fields().ByName(name)`. -/
def field (S : Schema) (ty : Nat) (n : Name) : Option FieldDesc :=
  (S.fields ty).find? (·.name = n)

/-- The other members of the oneof that `n` belongs to (empty if none). -/
def sibs (S : Schema) (ty : Nat) (n : Name) : List Name :=
  match S.field ty n with
  | some fd =>
    if fd.oneof = 0 then []
    else ((S.fields ty).filter (fun g => g.oneof = fd.oneof ∧ g.name ≠ n)).map (·.name)
  | none => []

/-- The message type of the values of field `n` (singular or repeated message). -/
def child (S : Schema) (ty : Nat) (n : Name) : Nat :=
  match S.field ty n with
  | some ⟨_, .message t, _⟩ => t
  | some ⟨_, .repMessage t, _⟩ => t
  | _ => 0

end Schema

/-! ## Conformance of a value to a schema (what the harness's serialiser produces) -/

def Val.hasKind : Val → Kind → Bool
  | .sc _, .scalar => true
  | .msg _, .message _ => true
  | .scs _, .repScalar => true
  | .msgs _, .repMessage _ => true
  | .map _, .map => true
  | _, _ => false

mutual
  /-- Every populated field is declared with the matching kind, recursively. -/
  def Fields.conforms (S : Schema) (ty : Nat) : Fields → Bool
    | .nil => true
    | .cons k v rest =>
      (match S.field ty k with
       | some fd => v.hasKind fd.kind && Val.conforms S (S.child ty k) v
       | none => false) && Fields.conforms S ty rest
  def Val.conforms (S : Schema) (cty : Nat) : Val → Bool
    | .msg fs => Fields.conforms S cty fs
    | .msgs xs => Msgs.conforms S cty xs
    | _ => true
  def Msgs.conforms (S : Schema) (cty : Nat) : Msgs → Bool
    | .nil => true
    | .cons m rest => Fields.conforms S cty m && Msgs.conforms S cty rest
end

end ScVerif.C05
