import ScVerif.C05.Race
import ScVerif.C05.OptFrame
/-
Lemmas for `PropsRace.lean`: reading a field of a normal form, `raceSet` case analysis, the
resource options that are not masks.
-/
namespace ScVerif.C05

theorem get_insertSorted (k : Name) (v : Val) (n : Name) :
    ∀ fs : Fields, (Fields.insertSorted k v fs).get n = if k = n then some v else fs.get n
  | .nil => by simp [Fields.insertSorted, Fields.get]
  | .cons k' v' rest => by
    unfold Fields.insertSorted
    by_cases hlt : k' < k
    · simp only [hlt, if_true, Fields.get]
      rw [get_insertSorted k v n rest]
      by_cases hk : k = n
      · subst hk
        have : k' ≠ k := fun h => by subst h; exact absurd hlt (String.lt_irrefl _)
        simp [this]
      · simp [hk]
    · simp only [hlt, if_false, Fields.get]

/-- Reading a field of the normal form = the normal form of what reading the field gives (first
match in both: the sort is stable). -/
theorem get_norm (n : Name) : ∀ fs : Fields, (Fields.norm fs).get n = (fs.get n).map Val.norm
  | .nil => by simp [Fields.norm, Fields.get]
  | .cons k v rest => by
    rw [Fields.norm, get_insertSorted, get_norm n rest]
    by_cases hk : k = n <;> simp [Fields.get, hk]

/-- `proto.Equal` messages hold equal values (as protobuf values) in every field. -/
theorem protoEqual_get (a b : Fields) (h : protoEqual a b = true) (k : Name) :
    (a.get k).map Val.norm = (b.get k).map Val.norm := by
  have h' : Fields.norm a = Fields.norm b := by simpa [protoEqual] using h
  rw [← get_norm, ← get_norm, h']

/-- A successful `raceSet`, taken apart. -/
theorem raceSet_ok (eq : Fields → Fields → Bool) (S : Schema) (ty : Nat) (u : Updater)
    (stored src : Fields) (rivals : List Rival) (st src' : Fields)
    (h : (raceSet eq S ty u stored src rivals).out = .ok st src') :
    validate S ty u = .ok ∧ merge S ty u stored src = some ⟨st, src'⟩ ∧
      eq stored (commitAll S ty stored rivals) = true ∧
      (raceSet eq S ty u stored src rivals).stored = st := by
  unfold raceSet at h ⊢
  cases hv : validate S ty u <;> simp only [hv] at h ⊢
  · cases hm : merge S ty u stored src with
    | none => simp [hm] at h
    | some r =>
      simp only [hm] at h ⊢
      by_cases he : eq stored (commitAll S ty stored rivals) = true
      · simp only [he, if_true] at h ⊢
        simp only [RaceOut.ok.injEq] at h
        obtain ⟨h1, h2⟩ := h
        subst h1; subst h2
        exact ⟨trivial, rfl, trivial, rfl⟩
      · simp [he] at h
  · cases h
  · cases h

def ROpt.isOther : ROpt → Bool
  | .other _ => true
  | _ => false

theorem resourceWritable_foldl_other (S : Schema) (ty : Nat) :
    ∀ (opts : List ROpt) (w : Out (Option (List Path))),
      opts.foldl (ROpt.apply S ty) w = (opts.filter (fun o => !o.isOther)).foldl (ROpt.apply S ty) w
  | [], _ => rfl
  | o :: rest, w => by
    cases o with
    | other n =>
      simp only [List.foldl_cons, ROpt.apply, ROpt.isOther, Bool.not_true, List.filter_cons_of_neg,
        Bool.false_eq_true, not_false_eq_true]
      exact resourceWritable_foldl_other S ty rest w
    | writableFields m =>
      simp only [List.foldl_cons, ROpt.isOther, Bool.not_false, List.filter_cons_of_pos]
      exact resourceWritable_foldl_other S ty rest _
    | writablePaths ps =>
      simp only [List.foldl_cons, ROpt.isOther, Bool.not_false, List.filter_cons_of_pos]
      exact resourceWritable_foldl_other S ty rest _

end ScVerif.C05
