import ScVerif.C05.Nested
/-
The frame clause at depth: composition of `fmutils.Filter`, `proto.Merge` and `pruneEmpty` below a
field that update paths pass through.
-/
namespace ScVerif.C05

namespace Fields

theorem get_eq_none_iff (k : Name) : ∀ fs : Fields, fs.get k = none ↔ k ∉ fs.keys
  | .nil => by simp [get, keys]
  | .cons a v rest => by
    by_cases h : a = k
    · subst h; simp [get, keys]
    · have := get_eq_none_iff k rest
      have hk : ¬ k = a := fun e => h e.symm
      simp [get, keys, h, hk, this]

theorem mem_keys_erase {k n : Name} : ∀ fs : Fields, k ∈ (fs.erase n).keys ↔ k ∈ fs.keys ∧ k ≠ n
  | .nil => by simp [erase, keys]
  | .cons a v rest => by
    by_cases h : a = n
    · subst h
      simp only [erase, if_true, mem_keys_erase rest, keys, List.mem_cons]
      constructor
      · rintro ⟨h1, h2⟩; exact ⟨Or.inr h1, h2⟩
      · rintro ⟨h1 | h1, h2⟩
        · exact absurd h1 h2
        · exact ⟨h1, h2⟩
    · simp only [erase, h, if_false, keys, List.mem_cons, mem_keys_erase rest]
      constructor
      · rintro (h1 | ⟨h1, h2⟩)
        · exact ⟨Or.inl h1, by rw [h1]; exact h⟩
        · exact ⟨Or.inr h1, h2⟩
      · rintro ⟨h1 | h1, h2⟩
        · exact Or.inl h1
        · exact Or.inr ⟨h1, h2⟩

theorem nodup_erase (n : Name) : ∀ fs : Fields, fs.keys.Nodup → (fs.erase n).keys.Nodup
  | .nil, _ => by simp [erase, keys]
  | .cons a v rest, h => by
    have ⟨h1, h2⟩ := List.nodup_cons.mp h
    by_cases ha : a = n
    · simp [erase, ha, nodup_erase n rest h2]
    · simp only [erase, ha, if_false, keys, List.nodup_cons]
      exact ⟨fun hm => h1 ((mem_keys_erase rest).mp hm).1, nodup_erase n rest h2⟩

theorem nodup_eraseAll : ∀ (ns : List Name) (fs : Fields), fs.keys.Nodup → (fs.eraseAll ns).keys.Nodup
  | [], _, h => h
  | n :: ns, fs, h => nodup_eraseAll ns _ (nodup_erase n fs h)

theorem mem_keys_put {k n : Name} (v : Val) : ∀ fs : Fields, k ∈ (fs.put n v).keys → k ∈ fs.keys ∨ k = n
  | .nil, h => by simp [put, keys] at h; exact Or.inr h
  | .cons a w rest, h => by
    by_cases ha : a = n
    · subst ha
      simp only [put, if_true, keys, List.mem_cons] at h ⊢
      rcases h with h | h
      · exact Or.inr h
      · exact Or.inl (Or.inr ((mem_keys_erase rest).mp h).1)
    · simp only [put, ha, if_false, keys, List.mem_cons] at h ⊢
      rcases h with h | h
      · exact Or.inl (Or.inl h)
      · rcases mem_keys_put v rest h with h' | h'
        · exact Or.inl (Or.inr h')
        · exact Or.inr h'

theorem nodup_put (n : Name) (v : Val) : ∀ fs : Fields, fs.keys.Nodup → (fs.put n v).keys.Nodup
  | .nil, _ => by simp [put, keys]
  | .cons a w rest, h => by
    have ⟨h1, h2⟩ := List.nodup_cons.mp h
    by_cases ha : a = n
    · subst ha
      simp only [put, if_true, keys, List.nodup_cons]
      exact ⟨fun hm => ((mem_keys_erase rest).mp hm).2 rfl, nodup_erase a rest h2⟩
    · simp only [put, ha, if_false, keys, List.nodup_cons]
      refine ⟨fun hm => ?_, nodup_put n v rest h2⟩
      rcases mem_keys_put v rest hm with h' | h'
      · exact h1 h'
      · exact ha h'

theorem nodup_set (sibs : List Name) (n : Name) (v : Val) (fs : Fields) (h : fs.keys.Nodup) :
    (fs.set sibs n v).keys.Nodup := nodup_put n v _ (nodup_eraseAll sibs fs h)

theorem get_put_same (n : Name) (v : Val) : ∀ fs : Fields, (fs.put n v).get n = some v
  | .nil => by simp [put, get]
  | .cons a w rest => by
    by_cases ha : a = n
    · subst ha; simp [put, get]
    · simp [put, get, ha, get_put_same n v rest]

theorem get_set_same (sibs : List Name) (n : Name) (v : Val) (fs : Fields) :
    (fs.set sibs n v).get n = some v := get_put_same n v _

end Fields

/-- `proto.Merge` keeps keys unique. -/
theorem nodup_mergeFields (S : Schema) (ty : Nat) : ∀ (src dst : Fields), dst.keys.Nodup →
    (mergeFields S ty dst src).keys.Nodup
  | .nil, _, h => by rw [mergeFields]; exact h
  | .cons n v rest, dst, h => by
    rw [mergeFields]
    exact nodup_mergeFields S ty rest _ (Fields.nodup_set _ _ _ _ h)

/-- What `proto.Merge` leaves under a key that oneof assignments cannot displace, for a source with
unique keys. -/
theorem get_mergeFields (S : Schema) (ty : Nat) (k : Name) (hk : ∀ n, k ∉ S.sibs ty n) :
    ∀ (src dst : Fields), src.keys.Nodup →
      (mergeFields S ty dst src).get k =
        match src.get k with
        | none => dst.get k
        | some v => some (mergeVal S (S.child ty k) (dst.get k) v)
  | .nil, dst, _ => by rw [mergeFields]; simp [Fields.get]
  | .cons n v rest, dst, h => by
    have hh : (n :: rest.keys).Nodup := by simpa [Fields.keys] using h
    have ⟨h1, h2⟩ := List.nodup_cons.mp hh
    rw [mergeFields]
    by_cases hn : n = k
    · subst hn
      have hrest : rest.get n = none := (Fields.get_eq_none_iff n rest).mpr h1
      rw [get_mergeFields_other S ty n hk rest _ hrest, Fields.get_set_same]
      simp [Fields.get]
    · rw [get_mergeFields S ty k hk rest _ h2]
      have : (dst.set (S.sibs ty n) n (mergeVal S (S.child ty n) (dst.get n) v)).get k = dst.get k :=
        Fields.get_set_other _ _ (fun e => hn e.symm) (hk n) dst
      simp [Fields.get, hn, this]

/-- No oneof assignment can displace any field along the path. -/
def NoDispAlong (S : Schema) : Nat → Path → Prop
  | _, [] => True
  | ty, k :: rest => (∀ n, k ∉ S.sibs ty n) ∧ NoDispAlong S (S.child ty k) rest

/-- What `proto.Merge(dst, src)` needs from `src` to leave `dst` alone at path `p`: unique keys on
the way, nothing at `p`, and no non-message value of `src` sitting where `dst` has a message. -/
def MergeReady : Path → Fields → Fields → Prop
  | [], _, _ => False
  | [k], _, src => src.keys.Nodup ∧ src.get k = none
  | k :: k' :: rest, dst, src => src.keys.Nodup ∧
      match src.get k with
      | none => True
      | some (.msg sf) =>
        (match dst.get k with
         | some (.msg df) => MergeReady (k' :: rest) df sf
         | _ => sf.getPath (k' :: rest) = none)
      | some _ => ∀ df, dst.get k ≠ some (.msg df)

/-- Keys are unique in every message on the way down `p`. -/
def NoDupAlong : Path → Fields → Prop
  | [], _ => True
  | k :: rest, fs => fs.keys.Nodup ∧ ∀ sub, fs.get k = some (.msg sub) → NoDupAlong rest sub

/-- On the way down `p`, `src` never holds a non-message where `dst` holds a message (both follow
one schema). -/
def Agree : Path → Fields → Fields → Prop
  | [], _, _ => True
  | k :: rest, dst, src =>
    match src.get k with
    | none => True
    | some (.msg sf) => ∀ df, dst.get k = some (.msg df) → Agree rest df sf
    | some _ => ∀ df, dst.get k ≠ some (.msg df)

theorem getPath_through_nonmsg {fs : Fields} {k k' : Name} {rest : Path}
    (h : ∀ df, fs.get k ≠ some (.msg df)) : fs.getPath (k :: k' :: rest) = none := by
  rw [Fields.getPath]
  cases hg : fs.get k with
  | none => rfl
  | some v =>
    cases v with
    | msg df => exact absurd hg (h df)
    | _ => rfl

/-- `proto.Merge` at depth. -/
theorem getPath_mergeFields (S : Schema) : ∀ (p : Path) (ty : Nat) (dst src : Fields),
    MergeReady p dst src → NoDispAlong S ty p →
    (mergeFields S ty dst src).getPath p = dst.getPath p
  | [], _, _, _, h, _ => by simp [MergeReady] at h
  | [k], ty, dst, src, h, hd => by
    simp only [MergeReady] at h
    simp only [NoDispAlong] at hd
    simp [Fields.getPath, get_mergeFields S ty k hd.1 src dst h.1, h.2]
  | k :: k' :: rest, ty, dst, src, h, hd => by
    simp only [MergeReady] at h
    simp only [NoDispAlong] at hd
    obtain ⟨hnd, h⟩ := h
    have hget := get_mergeFields S ty k hd.1 src dst hnd
    cases hs : src.get k with
    | none =>
      rw [hs] at hget
      simp [Fields.getPath, hget]
    | some v =>
      rw [hs] at hget h
      simp only at hget
      cases v with
      | msg sf =>
        simp only at h
        cases hdg : dst.get k with
        | none =>
          rw [hdg] at h hget
          simp only [mergeVal] at hget
          simp [Fields.getPath, hget, hdg, h]
        | some w =>
          rw [hdg] at h hget
          cases w with
          | msg df =>
            simp only [mergeVal] at hget
            simp only at h
            have ih := getPath_mergeFields S (k' :: rest) (S.child ty k) df sf h hd.2
            simp [Fields.getPath, hget, hdg, ih]
          | sc _ => simp only [mergeVal] at hget; simp at h; simp [Fields.getPath, hget, hdg, h]
          | scs _ => simp only [mergeVal] at hget; simp at h; simp [Fields.getPath, hget, hdg, h]
          | msgs _ => simp only [mergeVal] at hget; simp at h; simp [Fields.getPath, hget, hdg, h]
          | map _ => simp only [mergeVal] at hget; simp at h; simp [Fields.getPath, hget, hdg, h]
      | sc x =>
        simp only at h
        have hnm : ∀ df, (mergeFields S ty dst src).get k ≠ some (.msg df) := by
          intro df; rw [hget]; simp [mergeVal]
        rw [getPath_through_nonmsg hnm, getPath_through_nonmsg h]
      | scs xs =>
        simp only at h
        have hnm : ∀ df, (mergeFields S ty dst src).get k ≠ some (.msg df) := by
          intro df; rw [hget]; simp only [mergeVal]; split <;> simp
        rw [getPath_through_nonmsg hnm, getPath_through_nonmsg h]
      | msgs xs =>
        simp only at h
        have hnm : ∀ df, (mergeFields S ty dst src).get k ≠ some (.msg df) := by
          intro df; rw [hget]; simp only [mergeVal]; split <;> simp
        rw [getPath_through_nonmsg hnm, getPath_through_nonmsg h]
      | map es =>
        simp only at h
        have hnm : ∀ df, (mergeFields S ty dst src).get k ≠ some (.msg df) := by
          intro df; rw [hget]; simp only [mergeVal]; split <;> simp
        rw [getPath_through_nonmsg hnm, getPath_through_nonmsg h]

/-! ## fmutils.Filter below a continuing mask entry -/

theorem mem_keys_filterFields (mask : Mask) (k : Name) : ∀ (fs fs' : Fields),
    filterFields mask fs = some fs' → k ∈ fs'.keys → k ∈ fs.keys
  | .nil, fs', h, hk => by simp [filterFields] at h; subst h; exact hk
  | .cons a v rest, fs', h, hk => by
    rw [filterFields] at h
    have ih := mem_keys_filterFields mask k rest
    cases hf : mask.find a with
    | none => rw [hf] at h; simp only [Fields.keys, List.mem_cons]; exact Or.inr (ih fs' h hk)
    | some sub =>
      rw [hf] at h
      simp only at h
      have step : ∀ (w : Val) (r : Option Fields), r = filterFields mask rest → r.map (Fields.cons a w) = some fs' →
          k ∈ (Fields.cons a v rest).keys := by
        intro w r e hr
        cases hr' : filterFields mask rest with
        | none => rw [e, hr'] at hr; cases hr
        | some r' =>
          rw [e, hr'] at hr
          simp only [Option.map_some, Option.some.injEq] at hr
          subst hr
          simp only [Fields.keys, List.mem_cons] at hk ⊢
          rcases hk with hk | hk
          · exact Or.inl hk
          · exact Or.inr (ih r' hr' hk)
      by_cases he : sub.isEmpty
      · simp only [he, if_true] at h; exact step _ _ rfl h
      · simp only [he, Bool.false_eq_true, if_false] at h
        cases hv : filterVal sub v with
        | none => rw [hv] at h; cases h
        | some v' => rw [hv] at h; exact step _ _ rfl h

theorem nodup_filterFields (mask : Mask) : ∀ (fs fs' : Fields),
    filterFields mask fs = some fs' → fs.keys.Nodup → fs'.keys.Nodup
  | .nil, fs', h, _ => by simp [filterFields] at h; subst h; simp [Fields.keys]
  | .cons a v rest, fs', h, hn => by
    have hh : (a :: rest.keys).Nodup := by simpa [Fields.keys] using hn
    have ⟨h1, h2⟩ := List.nodup_cons.mp hh
    rw [filterFields] at h
    have ih := nodup_filterFields mask rest
    cases hf : mask.find a with
    | none => rw [hf] at h; exact ih fs' h h2
    | some sub =>
      rw [hf] at h
      simp only at h
      have step : ∀ (w : Val) (r : Option Fields), r = filterFields mask rest → r.map (Fields.cons a w) = some fs' →
          fs'.keys.Nodup := by
        intro w r e hr
        cases hr' : filterFields mask rest with
        | none => rw [e, hr'] at hr; cases hr
        | some r' =>
          rw [e, hr'] at hr
          simp only [Option.map_some, Option.some.injEq] at hr
          subst hr
          simp only [Fields.keys, List.nodup_cons]
          exact ⟨fun hm => h1 (mem_keys_filterFields mask a rest r' hr' hm), ih r' hr' h2⟩
      by_cases he : sub.isEmpty
      · simp only [he, if_true] at h; exact step _ _ rfl h
      · simp only [he, Bool.false_eq_true, if_false] at h
        cases hv : filterVal sub v with
        | none => rw [hv] at h; cases h
        | some v' => rw [hv] at h; exact step _ _ rfl h

/-- What `fmutils.Filter` leaves under a key the mask names: the value itself when the mask entry
has no continuation, its filtered version otherwise. -/
theorem get_filterFields_some (mask : Mask) (k : Name) (sub : Mask) (hk : mask.find k = some sub) :
    ∀ (fs fs' : Fields), filterFields mask fs = some fs' →
      match fs.get k with
      | none => fs'.get k = none
      | some v => if sub.isEmpty then fs'.get k = some v
                  else ∃ v', filterVal sub v = some v' ∧ fs'.get k = some v'
  | .nil, fs', h => by simp [filterFields] at h; subst h; simp [Fields.get]
  | .cons a v rest, fs', h => by
    rw [filterFields] at h
    by_cases hak : a = k
    · subst hak
      rw [hk] at h
      simp only at h
      simp only [Fields.get, if_true]
      by_cases he : sub.isEmpty
      · simp only [he, if_true] at h ⊢
        cases hr : filterFields mask rest with
        | none => rw [hr] at h; cases h
        | some r => rw [hr] at h; simp only [Option.map_some, Option.some.injEq] at h; subst h; simp [Fields.get]
      · simp only [he, Bool.false_eq_true, if_false] at h ⊢
        cases hv : filterVal sub v with
        | none => rw [hv] at h; cases h
        | some v' =>
          rw [hv] at h
          simp only at h
          cases hr : filterFields mask rest with
          | none => rw [hr] at h; cases h
          | some r =>
            rw [hr] at h; simp only [Option.map_some, Option.some.injEq] at h; subst h
            exact ⟨v', rfl, by simp [Fields.get]⟩
    · have ih := fun r hr => get_filterFields_some mask k sub hk rest r hr
      have hget : (Fields.cons a v rest).get k = rest.get k := by simp [Fields.get, hak]
      rw [hget]
      have step : ∀ (w : Val) (r : Option Fields), r = filterFields mask rest → r.map (Fields.cons a w) = some fs' →
          match rest.get k with
          | none => fs'.get k = none
          | some v => if sub.isEmpty then fs'.get k = some v
                      else ∃ v', filterVal sub v = some v' ∧ fs'.get k = some v' := by
        intro w r e hr
        cases hr' : filterFields mask rest with
        | none => rw [e, hr'] at hr; cases hr
        | some r' =>
          rw [e, hr'] at hr
          simp only [Option.map_some, Option.some.injEq] at hr
          subst hr
          have := ih r' hr'
          simpa [Fields.get, hak] using this
      cases hf : mask.find a with
      | none => rw [hf] at h; exact ih fs' h
      | some sub' =>
        rw [hf] at h
        simp only at h
        by_cases he' : sub'.isEmpty
        · simp only [he', if_true] at h; exact step _ _ rfl h
        · simp only [he', Bool.false_eq_true, if_false] at h
          cases hv : filterVal sub' v with
          | none => rw [hv] at h; cases h
          | some v' => rw [hv] at h; exact step _ _ rfl h

/-- `filterVal` keeps the kind of value; on a message it is `filterFields`. -/
theorem filterVal_cases {sub : Mask} {v v' : Val} (h : filterVal sub v = some v') :
    (∃ fs fs', v = .msg fs ∧ v' = .msg fs' ∧ filterFields sub fs = some fs') ∨
    ((∀ df, v ≠ .msg df) ∧ (∀ df, v' ≠ .msg df)) := by
  cases v with
  | msg fs =>
    simp only [filterVal] at h
    cases hf : filterFields sub fs with
    | none => rw [hf] at h; cases h
    | some fs' =>
      rw [hf] at h; simp only [Option.map_some, Option.some.injEq] at h
      exact Or.inl ⟨fs, fs', rfl, h.symm, hf⟩
  | sc x => simp only [filterVal, Option.some.injEq] at h; subst h; exact Or.inr ⟨by simp, by simp⟩
  | scs _ => simp [filterVal] at h
  | map _ => simp [filterVal] at h
  | msgs xs =>
    simp only [filterVal] at h
    cases hf : filterMsgs sub xs with
    | none => rw [hf] at h; cases h
    | some xs' =>
      rw [hf] at h; simp only [Option.map_some, Option.some.injEq] at h; subst h
      exact Or.inr ⟨by simp, by simp⟩

/-- `fmutils.Filter` at depth: nothing is left at a path the mask does not reach. -/
theorem getPath_filterFields_misses : ∀ (p : Path) (mask : Mask) (fs fs' : Fields),
    misses p mask = true → filterFields mask fs = some fs' → fs'.getPath p = none
  | [], _, _, _, h, _ => by simp [misses] at h
  | [k], mask, fs, fs', h, hp => by
    rw [misses] at h
    cases hf : mask.find k with
    | none => simpa [Fields.getPath] using get_filterFields_none mask k hf fs fs' hp
    | some sub => rw [hf] at h; simp at h
  | k :: k' :: rest, mask, fs, fs', h, hp => by
    rw [misses] at h
    cases hf : mask.find k with
    | none => simp [Fields.getPath, get_filterFields_none mask k hf fs fs' hp]
    | some sub =>
      rw [hf] at h
      simp only [Bool.and_eq_true, Bool.not_eq_eq_eq_not, Bool.not_true, List.isEmpty_cons] at h
      obtain ⟨⟨he, _⟩, hm⟩ := h
      have := get_filterFields_some mask k sub hf fs fs' hp
      cases hg : fs.get k with
      | none => rw [hg] at this; simp [Fields.getPath, this]
      | some v =>
        rw [hg] at this
        simp only [he, Bool.false_eq_true, if_false] at this
        obtain ⟨v', hv, hg'⟩ := this
        rcases filterVal_cases hv with ⟨df, df', _, rfl, hd⟩ | ⟨_, hnm⟩
        · simp only [Fields.getPath, hg']
          exact getPath_filterFields_misses (k' :: rest) sub df df' hm hd
        · exact getPath_through_nonmsg (fun df e => hnm df (by rw [hg'] at e; exact (Option.some.inj e)))

/-- `fmutils.Filter` keeps keys unique on the way down. -/
theorem noDupAlong_filterFields : ∀ (p : Path) (mask : Mask) (fs fs' : Fields),
    filterFields mask fs = some fs' → NoDupAlong p fs → NoDupAlong p fs'
  | [], _, _, _, _, _ => trivial
  | k :: rest, mask, fs, fs', hp, h => by
    simp only [NoDupAlong] at h ⊢
    refine ⟨nodup_filterFields mask fs fs' hp h.1, ?_⟩
    intro sub' hs'
    cases hf : mask.find k with
    | none => rw [get_filterFields_none mask k hf fs fs' hp] at hs'; cases hs'
    | some sub =>
      have := get_filterFields_some mask k sub hf fs fs' hp
      cases hg : fs.get k with
      | none => rw [hg] at this; rw [this] at hs'; cases hs'
      | some v =>
        rw [hg] at this
        by_cases he : sub.isEmpty
        · simp only [he, if_true] at this
          rw [this] at hs'; cases hs'
          exact h.2 sub' hg
        · simp only [he, Bool.false_eq_true, if_false] at this
          obtain ⟨v', hv, hg'⟩ := this
          rw [hg'] at hs'; cases hs'
          rcases filterVal_cases hv with ⟨df, df', rfl, e, hd⟩ | ⟨_, hnm⟩
          · cases e
            exact noDupAlong_filterFields rest sub df sub' hd (h.2 df hg)
          · exact absurd rfl (hnm sub')

/-- `fmutils.Filter` of `src` keeps its kinds in agreement with `dst`. -/
theorem agree_filterFields : ∀ (p : Path) (mask : Mask) (dst fs fs' : Fields),
    filterFields mask fs = some fs' → Agree p dst fs → Agree p dst fs'
  | [], _, _, _, _, _, _ => trivial
  | k :: rest, mask, dst, fs, fs', hp, h => by
    simp only [Agree] at h ⊢
    cases hf : mask.find k with
    | none => rw [get_filterFields_none mask k hf fs fs' hp]; trivial
    | some sub =>
      have := get_filterFields_some mask k sub hf fs fs' hp
      cases hg : fs.get k with
      | none => rw [hg] at this; rw [this]; trivial
      | some v =>
        rw [hg] at this h
        by_cases he : sub.isEmpty
        · simp only [he, if_true] at this
          rw [this]; exact h
        · simp only [he, Bool.false_eq_true, if_false] at this
          obtain ⟨v', hv, hg'⟩ := this
          rw [hg']
          rcases filterVal_cases hv with ⟨sf, sf', rfl, rfl, hd⟩ | ⟨hnv, hnm⟩
          · simp only at h ⊢
            intro df hdf
            exact agree_filterFields rest sub df sf sf' hd (h df hdf)
          · have hv0 : ∀ df, dst.get k ≠ some (.msg df) := by
              cases v with
              | msg x => exact absurd rfl (hnv x)
              | _ => simpa using h
            cases v' with
            | msg x => exact absurd rfl (hnm x)
            | _ => simpa using hv0

/-- After filtering `src` by a mask that does not reach `p`, `proto.Merge` will leave `p` alone. -/
theorem mergeReady_filterFields : ∀ (p : Path) (mask : Mask) (dst fs fs' : Fields),
    misses p mask = true → filterFields mask fs = some fs' → NoDupAlong p fs → Agree p dst fs →
    MergeReady p dst fs'
  | [], _, _, _, _, h, _, _, _ => by simp [misses] at h
  | [k], mask, dst, fs, fs', h, hp, hn, _ => by
    rw [misses] at h
    simp only [NoDupAlong] at hn
    cases hf : mask.find k with
    | none => exact ⟨nodup_filterFields mask fs fs' hp hn.1, get_filterFields_none mask k hf fs fs' hp⟩
    | some sub => rw [hf] at h; simp at h
  | k :: k' :: rest, mask, dst, fs, fs', h, hp, hn, ha => by
    rw [misses] at h
    simp only [NoDupAlong] at hn
    simp only [Agree] at ha
    simp only [MergeReady]
    refine ⟨nodup_filterFields mask fs fs' hp hn.1, ?_⟩
    cases hf : mask.find k with
    | none => rw [get_filterFields_none mask k hf fs fs' hp]; trivial
    | some sub =>
      rw [hf] at h
      simp only [Bool.and_eq_true, Bool.not_eq_eq_eq_not, Bool.not_true, List.isEmpty_cons] at h
      obtain ⟨⟨he, _⟩, hm⟩ := h
      have := get_filterFields_some mask k sub hf fs fs' hp
      cases hg : fs.get k with
      | none => rw [hg] at this; rw [this]; trivial
      | some v =>
        rw [hg] at this ha
        simp only [he, Bool.false_eq_true, if_false] at this
        obtain ⟨v', hv, hg'⟩ := this
        rw [hg']
        rcases filterVal_cases hv with ⟨sf, sf', rfl, rfl, hd⟩ | ⟨hnv, hnm⟩
        · simp only at ha ⊢
          cases hdg : dst.get k with
          | none => simp only; exact getPath_filterFields_misses (k' :: rest) sub sf sf' hm hd
          | some w =>
            cases w with
            | msg df =>
              simp only
              exact mergeReady_filterFields (k' :: rest) sub df sf sf' hm hd (hn.2 sf hg) (ha df hdg)
            | sc _ => simp only; exact getPath_filterFields_misses (k' :: rest) sub sf sf' hm hd
            | scs _ => simp only; exact getPath_filterFields_misses (k' :: rest) sub sf sf' hm hd
            | msgs _ => simp only; exact getPath_filterFields_misses (k' :: rest) sub sf sf' hm hd
            | map _ => simp only; exact getPath_filterFields_misses (k' :: rest) sub sf sf' hm hd
        · have hv0 : ∀ df, dst.get k ≠ some (.msg df) := by
            cases v with
            | msg x => exact absurd rfl (hnv x)
            | _ => simpa using ha
          cases v' with
          | msg x => exact absurd rfl (hnm x)
          | _ => simpa using hv0

/-! ## pruneEmpty below a continuing mask entry -/

theorem mem_keys_pruneEmpty (mask : Mask) (src : Fields) (k : Name) : ∀ (dst dst' : Fields),
    pruneEmpty mask src dst = some dst' → k ∈ dst'.keys → k ∈ dst.keys
  | .nil, dst', h, hk => by simp [pruneEmpty] at h; subst h; exact hk
  | .cons a v rest, dst', h, hk => by
    rw [pruneEmpty] at h
    have ih := mem_keys_pruneEmpty mask src k rest
    have keep : ∀ (w : Val) (r : Option Fields), r = pruneEmpty mask src rest → r.map (Fields.cons a w) = some dst' →
        k ∈ (Fields.cons a v rest).keys := by
      intro w r e hr
      cases hr' : pruneEmpty mask src rest with
      | none => rw [e, hr'] at hr; cases hr
      | some r' =>
        rw [e, hr'] at hr
        simp only [Option.map_some, Option.some.injEq] at hr
        subst hr
        simp only [Fields.keys, List.mem_cons] at hk ⊢
        rcases hk with hk | hk
        · exact Or.inl hk
        · exact Or.inr (ih r' hr' hk)
    have drop : pruneEmpty mask src rest = some dst' → k ∈ (Fields.cons a v rest).keys := by
      intro hr; simp only [Fields.keys, List.mem_cons]; exact Or.inr (ih dst' hr hk)
    split at h
    · exact keep _ _ rfl h
    · split at h
      · split at h
        · split at h
          · exact drop h
          · split at h
            · cases h
            · exact keep _ _ rfl h
        · exact drop h
      · split at h
        · split at h
          · cases h
          · exact keep _ _ rfl h
        · exact keep _ _ rfl h

/-- What `pruneEmpty` leaves under a key whose mask entry continues, for unique keys. -/
theorem get_pruneEmpty_sub (mask : Mask) (src : Fields) (k : Name) (sub : Mask)
    (hk : mask.find k = some sub) (he : sub.isEmpty = false) :
    ∀ (dst dst' : Fields), dst.keys.Nodup → pruneEmpty mask src dst = some dst' →
      match dst.get k with
      | none => dst'.get k = none
      | some v =>
        match src.get k with
        | none =>
          (match v with
           | .msg df => ∃ df', pruneFields sub df = some df' ∧ dst'.get k = some (.msg df')
           | _ => dst'.get k = none)
        | some sv =>
          (match v, sv with
           | .msg df, .msg sf => ∃ df', pruneEmpty sub sf df = some df' ∧ dst'.get k = some (.msg df')
           | _, _ => dst'.get k = some v)
  | .nil, dst', _, h => by simp [pruneEmpty] at h; subst h; simp [Fields.get]
  | .cons a v rest, dst', hn, h => by
    have hh : (a :: rest.keys).Nodup := by simpa [Fields.keys] using hn
    have ⟨h1, h2⟩ := List.nodup_cons.mp hh
    rw [pruneEmpty] at h
    by_cases hak : a = k
    · subst hak
      have hrest : ∀ r, pruneEmpty mask src rest = some r → r.get a = none := fun r hr =>
        (Fields.get_eq_none_iff a r).mpr (fun hm => h1 (mem_keys_pruneEmpty mask src a rest r hr hm))
      have keep : ∀ (w : Val) (r : Option Fields), r = pruneEmpty mask src rest → r.map (Fields.cons a w) = some dst' →
          dst'.get a = some w := by
        intro w r e hr
        cases hr' : pruneEmpty mask src rest with
        | none => rw [e, hr'] at hr; cases hr
        | some r' =>
          rw [e, hr'] at hr
          simp only [Option.map_some, Option.some.injEq] at hr
          subst hr; simp [Fields.get]
      rw [hk] at h
      simp only at h
      simp only [Fields.get, if_true]
      cases hs : src.get a with
      | none =>
        rw [hs] at h
        simp only at h ⊢
        cases v with
        | msg df =>
          simp only [he, Bool.false_eq_true, if_false] at h ⊢
          cases hd : pruneFields sub df with
          | none => rw [hd] at h; cases h
          | some df' => rw [hd] at h; exact ⟨df', rfl, keep _ _ rfl h⟩
        | sc _ => exact hrest dst' h
        | scs _ => exact hrest dst' h
        | msgs _ => exact hrest dst' h
        | map _ => exact hrest dst' h
      | some sv =>
        rw [hs] at h
        simp only at h ⊢
        cases v with
        | msg df =>
          cases sv with
          | msg sf =>
            simp only at h ⊢
            cases hd : pruneEmpty sub sf df with
            | none => rw [hd] at h; cases h
            | some df' => rw [hd] at h; exact ⟨df', rfl, keep _ _ rfl h⟩
          | sc _ => exact keep _ _ rfl h
          | scs _ => exact keep _ _ rfl h
          | msgs _ => exact keep _ _ rfl h
          | map _ => exact keep _ _ rfl h
        | sc _ => exact keep _ _ rfl h
        | scs _ => exact keep _ _ rfl h
        | msgs _ => exact keep _ _ rfl h
        | map _ => exact keep _ _ rfl h
    · have ih := fun r hr => get_pruneEmpty_sub mask src k sub hk he rest r h2 hr
      have hget : (Fields.cons a v rest).get k = rest.get k := by simp [Fields.get, hak]
      rw [hget]
      have keep : ∀ (w : Val) (r : Option Fields), r = pruneEmpty mask src rest → r.map (Fields.cons a w) = some dst' →
          ∃ r', pruneEmpty mask src rest = some r' ∧ dst'.get k = r'.get k := by
        intro w r e hr
        cases hr' : pruneEmpty mask src rest with
        | none => rw [e, hr'] at hr; cases hr
        | some r' =>
          rw [e, hr'] at hr
          simp only [Option.map_some, Option.some.injEq] at hr
          subst hr
          exact ⟨r', rfl, by simp [Fields.get, hak]⟩
      have fin : (∃ r', pruneEmpty mask src rest = some r' ∧ dst'.get k = r'.get k) →
          match rest.get k with
          | none => dst'.get k = none
          | some v =>
            match src.get k with
            | none =>
              (match v with
               | .msg df => ∃ df', pruneFields sub df = some df' ∧ dst'.get k = some (.msg df')
               | _ => dst'.get k = none)
            | some sv =>
              (match v, sv with
               | .msg df, .msg sf => ∃ df', pruneEmpty sub sf df = some df' ∧ dst'.get k = some (.msg df')
               | _, _ => dst'.get k = some v) := by
        rintro ⟨r', hr', hg⟩
        have := ih r' hr'
        rw [hg]; exact this
      have drop : pruneEmpty mask src rest = some dst' → ∃ r', pruneEmpty mask src rest = some r' ∧ dst'.get k = r'.get k :=
        fun hr => ⟨dst', hr, rfl⟩
      apply fin
      split at h
      · exact keep _ _ rfl h
      · split at h
        · split at h
          · split at h
            · exact drop h
            · split at h
              · cases h
              · exact keep _ _ rfl h
          · exact drop h
        · split at h
          · split at h
            · cases h
            · exact keep _ _ rfl h
          · exact keep _ _ rfl h

/-- What `pruneEmpty` leaves under a key that the mask names with no continuation, for unique keys. -/
theorem get_pruneEmpty_empty (mask : Mask) (src : Fields) (k : Name) (sub : Mask)
    (hk : mask.find k = some sub) (he : sub.isEmpty = true) :
    ∀ (dst dst' : Fields), dst.keys.Nodup → pruneEmpty mask src dst = some dst' →
      match dst.get k with
      | none => dst'.get k = none
      | some v =>
        match src.get k with
        | none => dst'.get k = none
        | some sv =>
          (match v, sv with
           | .msg df, .msg sf => ∃ df', pruneEmpty sub sf df = some df' ∧ dst'.get k = some (.msg df')
           | _, _ => dst'.get k = some v)
  | .nil, dst', _, h => by simp [pruneEmpty] at h; subst h; simp [Fields.get]
  | .cons a v rest, dst', hn, h => by
    have hh : (a :: rest.keys).Nodup := by simpa [Fields.keys] using hn
    have ⟨h1, h2⟩ := List.nodup_cons.mp hh
    rw [pruneEmpty] at h
    by_cases hak : a = k
    · subst hak
      have hrest : ∀ r, pruneEmpty mask src rest = some r → r.get a = none := fun r hr =>
        (Fields.get_eq_none_iff a r).mpr (fun hm => h1 (mem_keys_pruneEmpty mask src a rest r hr hm))
      have keep : ∀ (w : Val) (r : Option Fields), r = pruneEmpty mask src rest → r.map (Fields.cons a w) = some dst' →
          dst'.get a = some w := by
        intro w r e hr
        cases hr' : pruneEmpty mask src rest with
        | none => rw [e, hr'] at hr; cases hr
        | some r' =>
          rw [e, hr'] at hr
          simp only [Option.map_some, Option.some.injEq] at hr
          subst hr; simp [Fields.get]
      rw [hk] at h
      simp only at h
      simp only [Fields.get, if_true]
      cases hs : src.get a with
      | none =>
        rw [hs] at h
        simp only at h ⊢
        cases v with
        | msg df =>
          simp only [he, if_true] at h
          exact hrest dst' h
        | sc _ => exact hrest dst' h
        | scs _ => exact hrest dst' h
        | msgs _ => exact hrest dst' h
        | map _ => exact hrest dst' h
      | some sv =>
        rw [hs] at h
        simp only at h ⊢
        cases v with
        | msg df =>
          cases sv with
          | msg sf =>
            simp only at h ⊢
            cases hd : pruneEmpty sub sf df with
            | none => rw [hd] at h; cases h
            | some df' => rw [hd] at h; exact ⟨df', rfl, keep _ _ rfl h⟩
          | sc _ => exact keep _ _ rfl h
          | scs _ => exact keep _ _ rfl h
          | msgs _ => exact keep _ _ rfl h
          | map _ => exact keep _ _ rfl h
        | sc _ => exact keep _ _ rfl h
        | scs _ => exact keep _ _ rfl h
        | msgs _ => exact keep _ _ rfl h
        | map _ => exact keep _ _ rfl h
    · have ih := fun r hr => get_pruneEmpty_empty mask src k sub hk he rest r h2 hr
      have hget : (Fields.cons a v rest).get k = rest.get k := by simp [Fields.get, hak]
      rw [hget]
      have keep : ∀ (w : Val) (r : Option Fields), r = pruneEmpty mask src rest → r.map (Fields.cons a w) = some dst' →
          ∃ r', pruneEmpty mask src rest = some r' ∧ dst'.get k = r'.get k := by
        intro w r e hr
        cases hr' : pruneEmpty mask src rest with
        | none => rw [e, hr'] at hr; cases hr
        | some r' =>
          rw [e, hr'] at hr
          simp only [Option.map_some, Option.some.injEq] at hr
          subst hr
          exact ⟨r', rfl, by simp [Fields.get, hak]⟩
      have fin : (∃ r', pruneEmpty mask src rest = some r' ∧ dst'.get k = r'.get k) →
          match rest.get k with
          | none => dst'.get k = none
          | some v =>
            match src.get k with
            | none => dst'.get k = none
            | some sv =>
              (match v, sv with
               | .msg df, .msg sf => ∃ df', pruneEmpty sub sf df = some df' ∧ dst'.get k = some (.msg df')
               | _, _ => dst'.get k = some v) := by
        rintro ⟨r', hr', hg⟩
        have := ih r' hr'
        rw [hg]; exact this
      have drop : pruneEmpty mask src rest = some dst' → ∃ r', pruneEmpty mask src rest = some r' ∧ dst'.get k = r'.get k :=
        fun hr => ⟨dst', hr, rfl⟩
      apply fin
      split at h
      · exact keep _ _ rfl h
      · split at h
        · split at h
          · split at h
            · exact drop h
            · split at h
              · cases h
              · exact keep _ _ rfl h
          · exact drop h
        · split at h
          · split at h
            · cases h
            · exact keep _ _ rfl h
          · exact keep _ _ rfl h

/-- `pruneEmpty` at depth: a path the mask does not reach keeps its value. -/
theorem getPath_pruneEmpty_misses : ∀ (p : Path) (mask : Mask) (src dst dst' : Fields),
    misses p mask = true → NoDupAlong p dst → pruneEmpty mask src dst = some dst' →
    dst'.getPath p = dst.getPath p
  | [], _, _, _, _, h, _, _ => by simp [misses] at h
  | [k], mask, src, dst, dst', h, _, hp => by
    rw [misses] at h
    cases hf : mask.find k with
    | none => simpa [Fields.getPath] using get_pruneEmpty_other mask src k hf dst dst' hp
    | some sub => rw [hf] at h; simp at h
  | k :: k' :: rest, mask, src, dst, dst', h, hn, hp => by
    rw [misses] at h
    simp only [NoDupAlong] at hn
    cases hf : mask.find k with
    | none => simp [Fields.getPath, get_pruneEmpty_other mask src k hf dst dst' hp]
    | some sub =>
      rw [hf] at h
      simp only [Bool.and_eq_true, Bool.not_eq_eq_eq_not, Bool.not_true, List.isEmpty_cons] at h
      obtain ⟨⟨he, _⟩, hm⟩ := h
      have := get_pruneEmpty_sub mask src k sub hf he dst dst' hn.1 hp
      cases hg : dst.get k with
      | none => rw [hg] at this; simp [Fields.getPath, this, hg]
      | some v =>
        rw [hg] at this
        simp only at this
        cases hs : src.get k with
        | none =>
          rw [hs] at this
          simp only at this
          cases v with
          | msg df =>
            simp only at this
            obtain ⟨df', hd, hg'⟩ := this
            simp only [Fields.getPath, hg', hg]
            exact getPath_pruneFields_misses (k' :: rest) sub df df' hm hd
          | sc _ => simp only at this; simp [Fields.getPath, this, hg]
          | scs _ => simp only at this; simp [Fields.getPath, this, hg]
          | msgs _ => simp only at this; simp [Fields.getPath, this, hg]
          | map _ => simp only at this; simp [Fields.getPath, this, hg]
        | some sv =>
          rw [hs] at this
          simp only at this
          cases v with
          | msg df =>
            cases sv with
            | msg sf =>
              simp only at this
              obtain ⟨df', hd, hg'⟩ := this
              simp only [Fields.getPath, hg', hg]
              exact getPath_pruneEmpty_misses (k' :: rest) sub sf df df' hm (hn.2 df hg) hd
            | sc _ => simp only at this; simp [Fields.getPath, this, hg]
            | scs _ => simp only at this; simp [Fields.getPath, this, hg]
            | msgs _ => simp only at this; simp [Fields.getPath, this, hg]
            | map _ => simp only at this; simp [Fields.getPath, this, hg]
          | sc _ => simp only at this; simp [Fields.getPath, this, hg]
          | scs _ => simp only at this; simp [Fields.getPath, this, hg]
          | msgs _ => simp only at this; simp [Fields.getPath, this, hg]
          | map _ => simp only at this; simp [Fields.getPath, this, hg]

/-- `proto.Merge` keeps keys unique on the way down. -/
theorem noDupAlong_mergeFields (S : Schema) : ∀ (p : Path) (ty : Nat) (dst src : Fields),
    NoDupAlong p dst → NoDupAlong p src → NoDispAlong S ty p → MergeReady p dst src →
    NoDupAlong p (mergeFields S ty dst src)
  | [], _, _, _, _, _, _, _ => trivial
  | [k], ty, dst, src, hd, _, _, _ => by
    simp only [NoDupAlong] at hd ⊢
    exact ⟨nodup_mergeFields S ty src dst hd.1, fun _ _ => trivial⟩
  | k :: k' :: rest, ty, dst, src, hd, hs, hnd, hr => by
    simp only [NoDupAlong] at hd hs ⊢
    simp only [NoDispAlong] at hnd
    simp only [MergeReady] at hr
    refine ⟨nodup_mergeFields S ty src dst hd.1, ?_⟩
    intro X hX
    rw [get_mergeFields S ty k hnd.1 src dst hs.1] at hX
    cases hsg : src.get k with
    | none => rw [hsg] at hX; exact hd.2 X hX
    | some v =>
      rw [hsg] at hX hr
      simp only [Option.some.injEq] at hX
      cases v with
      | msg sf =>
        have hr2 := hr.2
        simp only at hr2
        cases hdg : dst.get k with
        | none => rw [hdg] at hX; simp only [mergeVal, Val.msg.injEq] at hX; subst hX; exact hs.2 sf hsg
        | some w =>
          rw [hdg] at hX hr2
          cases w with
          | msg df =>
            simp only [mergeVal, Val.msg.injEq] at hX
            simp only at hr2
            subst hX
            exact noDupAlong_mergeFields S (k' :: rest) (S.child ty k) df sf (hd.2 df hdg) (hs.2 sf hsg) hnd.2 hr2
          | sc _ => simp only [mergeVal, Val.msg.injEq] at hX; subst hX; exact hs.2 sf hsg
          | scs _ => simp only [mergeVal, Val.msg.injEq] at hX; subst hX; exact hs.2 sf hsg
          | msgs _ => simp only [mergeVal, Val.msg.injEq] at hX; subst hX; exact hs.2 sf hsg
          | map _ => simp only [mergeVal, Val.msg.injEq] at hX; subst hX; exact hs.2 sf hsg
      | sc _ => simp [mergeVal] at hX
      | scs _ => simp only [mergeVal] at hX; split at hX <;> cases hX
      | msgs _ => simp only [mergeVal] at hX; split at hX <;> cases hX
      | map _ => simp only [mergeVal] at hX; split at hX <;> cases hX

theorem shape_filterMsg (p : Path) (mask : Mask) (dst src src1 : Fields)
    (h : filterMsg mask src = some src1) (hn : NoDupAlong p src) (ha : Agree p dst src) :
    NoDupAlong p src1 ∧ Agree p dst src1 := by
  unfold filterMsg at h
  by_cases he : mask.isEmpty = true
  · rw [if_pos he] at h; cases h; exact ⟨hn, ha⟩
  · rw [if_neg he] at h
    exact ⟨noDupAlong_filterFields p mask src src1 h hn, agree_filterFields p mask dst src src1 h ha⟩

/-! ## fmutils.Prune of `dst` keeps it in shape (nil update mask: dst is pruned to the writable mask first) -/

theorem pruneVal_cases {sub : Mask} {v v' : Val} (h : pruneVal sub v = some v') :
    (∃ fs fs', v = .msg fs ∧ v' = .msg fs' ∧ pruneFields sub fs = some fs') ∨
    ((∀ df, v ≠ .msg df) ∧ (∀ df, v' ≠ .msg df)) := by
  cases v with
  | msg fs =>
    simp only [pruneVal] at h
    cases hf : pruneFields sub fs with
    | none => rw [hf] at h; cases h
    | some fs' =>
      rw [hf] at h; simp only [Option.map_some, Option.some.injEq] at h
      exact Or.inl ⟨fs, fs', rfl, h.symm, hf⟩
  | sc x => simp only [pruneVal, Option.some.injEq] at h; subst h; exact Or.inr ⟨by simp, by simp⟩
  | scs _ => simp [pruneVal] at h
  | map _ => simp [pruneVal] at h
  | msgs xs =>
    simp only [pruneVal] at h
    cases hf : pruneMsgs sub xs with
    | none => rw [hf] at h; cases h
    | some xs' =>
      rw [hf] at h; simp only [Option.map_some, Option.some.injEq] at h; subst h
      exact Or.inr ⟨by simp, by simp⟩

theorem mem_keys_pruneFields (mask : Mask) (k : Name) : ∀ (fs fs' : Fields),
    pruneFields mask fs = some fs' → k ∈ fs'.keys → k ∈ fs.keys
  | .nil, fs', h, hk => by simp [pruneFields] at h; subst h; exact hk
  | .cons a v rest, fs', h, hk => by
    rw [pruneFields] at h
    have ih := mem_keys_pruneFields mask k rest
    have step : ∀ (w : Val) (r : Option Fields), r = pruneFields mask rest → r.map (Fields.cons a w) = some fs' →
        k ∈ (Fields.cons a v rest).keys := by
      intro w r e hr
      cases hr' : pruneFields mask rest with
      | none => rw [e, hr'] at hr; cases hr
      | some r' =>
        rw [e, hr'] at hr
        simp only [Option.map_some, Option.some.injEq] at hr
        subst hr
        simp only [Fields.keys, List.mem_cons] at hk ⊢
        rcases hk with hk | hk
        · exact Or.inl hk
        · exact Or.inr (ih r' hr' hk)
    cases hf : mask.find a with
    | none => rw [hf] at h; exact step _ _ rfl h
    | some sub =>
      rw [hf] at h
      simp only at h
      by_cases he : sub.isEmpty
      · simp only [he, if_true] at h
        simp only [Fields.keys, List.mem_cons]; exact Or.inr (ih fs' h hk)
      · simp only [he, Bool.false_eq_true, if_false] at h
        cases hv : pruneVal sub v with
        | none => rw [hv] at h; cases h
        | some v' => rw [hv] at h; exact step _ _ rfl h

theorem nodup_pruneFields (mask : Mask) : ∀ (fs fs' : Fields),
    pruneFields mask fs = some fs' → fs.keys.Nodup → fs'.keys.Nodup
  | .nil, fs', h, _ => by simp [pruneFields] at h; subst h; simp [Fields.keys]
  | .cons a v rest, fs', h, hn => by
    have hh : (a :: rest.keys).Nodup := by simpa [Fields.keys] using hn
    have ⟨h1, h2⟩ := List.nodup_cons.mp hh
    rw [pruneFields] at h
    have ih := nodup_pruneFields mask rest
    have step : ∀ (w : Val) (r : Option Fields), r = pruneFields mask rest → r.map (Fields.cons a w) = some fs' →
        fs'.keys.Nodup := by
      intro w r e hr
      cases hr' : pruneFields mask rest with
      | none => rw [e, hr'] at hr; cases hr
      | some r' =>
        rw [e, hr'] at hr
        simp only [Option.map_some, Option.some.injEq] at hr
        subst hr
        simp only [Fields.keys, List.nodup_cons]
        exact ⟨fun hm => h1 (mem_keys_pruneFields mask a rest r' hr' hm), ih r' hr' h2⟩
    cases hf : mask.find a with
    | none => rw [hf] at h; exact step _ _ rfl h
    | some sub =>
      rw [hf] at h
      simp only at h
      by_cases he : sub.isEmpty
      · simp only [he, if_true] at h; exact ih fs' h h2
      · simp only [he, Bool.false_eq_true, if_false] at h
        cases hv : pruneVal sub v with
        | none => rw [hv] at h; cases h
        | some v' => rw [hv] at h; exact step _ _ rfl h

/-- A message found under `k` after pruning comes from a message under `k` before, either untouched
or pruned with the nested mask. -/
theorem get_pruneFields_msg (mask : Mask) (k : Name) (fs fs' : Fields) (h : pruneFields mask fs = some fs')
    (df' : Fields) (hg : fs'.get k = some (.msg df')) :
    ∃ df, fs.get k = some (.msg df) ∧
      (df' = df ∨ ∃ sub, mask.find k = some sub ∧ sub.isEmpty = false ∧ pruneFields sub df = some df') := by
  cases hf : mask.find k with
  | none =>
    rw [get_pruneFields_other mask k hf fs fs' h] at hg
    exact ⟨df', hg, Or.inl rfl⟩
  | some sub =>
    by_cases he : sub.isEmpty = true
    · rw [get_pruneFields_cleared mask k sub hf he fs fs' h] at hg; cases hg
    · have he' : sub.isEmpty = false := by simpa using he
      have := get_pruneFields_sub mask k sub hf he' fs fs' h
      cases hgf : fs.get k with
      | none => rw [hgf] at this; rw [this] at hg; cases hg
      | some v =>
        rw [hgf] at this
        obtain ⟨v', hv, hg'⟩ := this
        rw [hg'] at hg; cases hg
        rcases pruneVal_cases hv with ⟨df, df'', rfl, e, hd⟩ | ⟨_, hnm⟩
        · cases e; exact ⟨df, rfl, Or.inr ⟨sub, rfl, he', hd⟩⟩
        · exact absurd rfl (hnm df')

theorem noDupAlong_pruneFields : ∀ (p : Path) (mask : Mask) (fs fs' : Fields),
    pruneFields mask fs = some fs' → NoDupAlong p fs → NoDupAlong p fs'
  | [], _, _, _, _, _ => trivial
  | k :: rest, mask, fs, fs', hp, h => by
    simp only [NoDupAlong] at h ⊢
    refine ⟨nodup_pruneFields mask fs fs' hp h.1, ?_⟩
    intro df' hg
    obtain ⟨df, hgf, hd⟩ := get_pruneFields_msg mask k fs fs' hp df' hg
    rcases hd with rfl | ⟨sub, _, _, hd⟩
    · exact h.2 _ hgf
    · exact noDupAlong_pruneFields rest sub df df' hd (h.2 df hgf)

/-- Pruning `dst` keeps `src`'s kinds in agreement with it. -/
theorem agree_pruneFields : ∀ (p : Path) (mask : Mask) (dst dst' src : Fields),
    pruneFields mask dst = some dst' → Agree p dst src → Agree p dst' src
  | [], _, _, _, _, _, _ => trivial
  | k :: rest, mask, dst, dst', src, hp, h => by
    simp only [Agree] at h ⊢
    cases hs : src.get k with
    | none => trivial
    | some v =>
      rw [hs] at h
      cases v with
      | msg sf =>
        simp only at h ⊢
        intro df' hg
        obtain ⟨df, hgf, hd⟩ := get_pruneFields_msg mask k dst dst' hp df' hg
        rcases hd with rfl | ⟨sub, _, _, hd⟩
        · exact h _ hgf
        · exact agree_pruneFields rest sub df df' sf hd (h df hgf)
      | sc _ =>
        simp only at h ⊢
        intro df' hg
        obtain ⟨df, hgf, _⟩ := get_pruneFields_msg mask k dst dst' hp df' hg
        exact h df hgf
      | scs _ =>
        simp only at h ⊢
        intro df' hg
        obtain ⟨df, hgf, _⟩ := get_pruneFields_msg mask k dst dst' hp df' hg
        exact h df hgf
      | msgs _ =>
        simp only at h ⊢
        intro df' hg
        obtain ⟨df, hgf, _⟩ := get_pruneFields_msg mask k dst dst' hp df' hg
        exact h df hgf
      | map _ =>
        simp only at h ⊢
        intro df' hg
        obtain ⟨df, hgf, _⟩ := get_pruneFields_msg mask k dst dst' hp df' hg
        exact h df hgf

theorem shape_pruneMsg (p : Path) (mask : Mask) (dst dst1 src : Fields)
    (h : pruneMsg mask dst = some dst1) (hn : NoDupAlong p dst) (ha : Agree p dst src) :
    NoDupAlong p dst1 ∧ Agree p dst1 src := by
  unfold pruneMsg at h
  by_cases he : mask.isEmpty = true
  · rw [if_pos he] at h; cases h; exact ⟨hn, ha⟩
  · rw [if_neg he] at h
    exact ⟨noDupAlong_pruneFields p mask dst dst1 h hn, agree_pruneFields p mask dst dst1 src h ha⟩

theorem misses_nil (p : Path) (hp : p ≠ []) : misses p .nil = true := by
  cases p with
  | nil => exact absurd rfl hp
  | cons k rest => simp [misses, Mask.find]

/-- With a mask that names nothing `pruneEmpty` is the identity. -/
theorem pruneEmpty_nil (src : Fields) : ∀ dst : Fields, pruneEmpty .nil src dst = some dst
  | .nil => by simp [pruneEmpty]
  | .cons a v rest => by
    rw [pruneEmpty]
    simp [Mask.find, pruneEmpty_nil src rest]

theorem mask_eq_nil_of_isEmpty {m : Mask} (h : m.isEmpty = true) : m = .nil := by
  cases m with
  | nil => rfl
  | cons _ _ _ => simp [Mask.isEmpty] at h

theorem mergeVal_none (S : Schema) (c : Nat) (v : Val) : mergeVal S c none v = v := by
  cases v <;> simp [mergeVal]

theorem mergeVal_old_nonmsg (S : Schema) (c : Nat) (old : Option Val) (sf : Fields)
    (h : ∀ df, old ≠ some (.msg df)) : mergeVal S c old (.msg sf) = .msg sf := by
  cases old with
  | none => simp [mergeVal]
  | some w =>
    cases w with
    | msg df => exact absurd rfl (h df)
    | _ => simp [mergeVal]

theorem mergeVal_nonmsg (S : Schema) (c : Nat) (old : Option Val) (v : Val) (h : ∀ sf, v ≠ .msg sf) :
    ∀ df, mergeVal S c old v ≠ .msg df := by
  intro df
  cases v with
  | msg sf => exact absurd rfl (h sf)
  | sc _ => simp [mergeVal]
  | scs _ => simp only [mergeVal]; split <;> simp
  | msgs _ => simp only [mergeVal]; split <;> simp
  | map _ => simp only [mergeVal]; split <;> simp

/-! ## Paths inside the mask -/

theorem find_maskOf' (k : Name) (ps : List Path) (h : tails k ps ≠ []) :
    (Mask.insertAll .nil ps).find k = some (Mask.insertAll .nil (tails k ps)) := by
  rw [Mask.find_insertAll]
  cases ht : tails k ps with
  | nil => exact absurd ht h
  | cons _ _ => simp [Mask.find]

theorem sub_nonempty_of_not_nil {ts : List Path} {u : Path} (hu : u ∈ ts) (hn : ¬ [] ∈ ts) :
    (Mask.insertAll .nil ts).isEmpty = false := by
  cases hh : (Mask.insertAll .nil ts).isEmpty with
  | false => rfl
  | true =>
    have := (Mask.insertAll_nil_isEmpty _).mp hh u hu
    subst this; exact absurd hu hn

/-- `fmutils.Filter` at depth: whatever lies at or below a path of a prefix-free mask is kept as is. -/
theorem getPath_filterFields_covered : ∀ (p : Path) (ps : List Path) (fs fs' : Fields),
    PrefixFree ps → (∃ q ∈ ps, q ≠ [] ∧ q <+: p) →
    filterFields (Mask.insertAll .nil ps) fs = some fs' → fs'.getPath p = fs.getPath p
  | [], _, _, _, _, h, _ => by
    obtain ⟨q, _, hne, hpre⟩ := h
    exact absurd (List.prefix_nil.mp hpre) hne
  | k :: rest, ps, fs, fs', hpf, h, hp => by
    obtain ⟨q, hq, hne, hpre⟩ := h
    cases q with
    | nil => exact absurd rfl hne
    | cons a u =>
      obtain ⟨ha, hu⟩ := List.cons_prefix_cons.mp hpre
      subst ha
      have hmem : u ∈ tails a ps := mem_tails.mpr hq
      have hts : tails a ps ≠ [] := fun e => by rw [e] at hmem; cases hmem
      have hfind := find_maskOf' a ps hts
      have hget := get_filterFields_some _ a _ hfind fs fs' hp
      by_cases hn : [] ∈ tails a ps
      · have he := (Mask.insertAll_nil_isEmpty _).mpr (prefixFree_all_nil hpf hn)
        have hg : fs'.get a = fs.get a := by
          cases hgf : fs.get a with
          | none => rw [hgf] at hget; exact hget
          | some v => rw [hgf] at hget; simpa [he] using hget
        cases rest with
        | nil => simpa [Fields.getPath] using hg
        | cons k' r => simp [Fields.getPath, hg]
      · have hu0 : u ≠ [] := fun e => hn (e ▸ hmem)
        have he := sub_nonempty_of_not_nil hmem hn
        cases rest with
        | nil => exact absurd (List.prefix_nil.mp hu) hu0
        | cons k' r =>
          cases hgf : fs.get a with
          | none => rw [hgf] at hget; simp [Fields.getPath, hget, hgf]
          | some v =>
            rw [hgf] at hget
            simp only [he, Bool.false_eq_true, if_false] at hget
            obtain ⟨v', hv, hg'⟩ := hget
            rcases filterVal_cases hv with ⟨df, df', rfl, rfl, hd⟩ | ⟨hnv, hnm⟩
            · simp only [Fields.getPath, hg', hgf]
              exact getPath_filterFields_covered (k' :: r) (tails a ps) df df' (prefixFree_tails hpf)
                ⟨u, hmem, hu0, hu⟩ hd
            · rw [getPath_through_nonmsg (fun df e => hnm df (by rw [hg'] at e; exact Option.some.inj e)),
                getPath_through_nonmsg (fun df e => hnv df (by rw [hgf] at e; exact Option.some.inj e))]

/-- `pruneEmpty(s, s, mask)` leaves a path named by the (prefix-free) mask alone. -/
theorem getPath_pruneEmpty_self : ∀ (q : Path) (ps : List Path) (s s' : Fields),
    PrefixFree ps → q ∈ ps → q ≠ [] → NoDupAlong q s →
    pruneEmpty (Mask.insertAll .nil ps) s s = some s' → s'.getPath q = s.getPath q
  | [], _, _, _, _, _, h, _, _ => absurd rfl h
  | k :: rest, ps, s, s', hpf, hq, _, hn, hp => by
    simp only [NoDupAlong] at hn
    have hmem : rest ∈ tails k ps := mem_tails.mpr hq
    have hts : tails k ps ≠ [] := fun e => by rw [e] at hmem; cases hmem
    have hfind := find_maskOf' k ps hts
    cases rest with
    | nil =>
      have he := (Mask.insertAll_nil_isEmpty _).mpr (prefixFree_all_nil hpf hmem)
      have := get_pruneEmpty_empty _ s k _ hfind he s s' hn.1 hp
      simp only [Fields.getPath]
      cases hg : s.get k with
      | none => rw [hg] at this; exact this
      | some v =>
        rw [hg] at this
        simp only at this
        cases v with
        | msg df =>
          simp only at this
          obtain ⟨df', hd, hg'⟩ := this
          rw [mask_eq_nil_of_isEmpty he, pruneEmpty_nil] at hd
          cases hd; exact hg'
        | sc _ => exact this
        | scs _ => exact this
        | msgs _ => exact this
        | map _ => exact this
    | cons k' r =>
      have hnn : ¬ [] ∈ tails k ps := by
        intro hm
        have := prefixFree_all_nil hpf hm (k' :: r) hmem
        cases this
      have he := sub_nonempty_of_not_nil hmem hnn
      have := get_pruneEmpty_sub _ s k _ hfind he s s' hn.1 hp
      cases hg : s.get k with
      | none => rw [hg] at this; simp [Fields.getPath, this, hg]
      | some v =>
        rw [hg] at this
        simp only at this
        cases v with
        | msg df =>
          simp only at this
          obtain ⟨df', hd, hg'⟩ := this
          simp only [Fields.getPath, hg', hg]
          exact getPath_pruneEmpty_self (k' :: r) (tails k ps) df df' (prefixFree_tails hpf) hmem (by simp)
            (hn.2 df hg) hd
        | sc _ => simp only at this; simp [Fields.getPath, this, hg]
        | scs _ => simp only at this; simp [Fields.getPath, this, hg]
        | msgs _ => simp only at this; simp [Fields.getPath, this, hg]
        | map _ => simp only at this; simp [Fields.getPath, this, hg]

/-- The message type of the values at path `p` (for `proto.Merge`'s recursion). -/
def childAt (S : Schema) : Nat → Path → Nat
  | ty, [] => ty
  | ty, k :: rest => childAt S (S.child ty k) rest

/-- Filter to the mask, `proto.Merge`, `pruneEmpty` — at a path *named* by the (prefix-free) mask:
absent from the written message means cleared; present means merged into what is stored there
(`mergeVal`: scalars overwrite, messages merge field-wise, lists append, maps replace per key). -/
theorem getPath_core_named (S : Schema) : ∀ (p : Path) (ps : List Path) (ty : Nat)
    (dst src1 src2 d3 : Fields),
    PrefixFree ps → p ∈ ps → p ≠ [] → NoDispAlong S ty p → NoDupAlong p dst → NoDupAlong p src1 →
    filterFields (Mask.insertAll .nil ps) src1 = some src2 →
    pruneEmpty (Mask.insertAll .nil ps) src2 (mergeFields S ty dst src2) = some d3 →
    d3.getPath p = (src1.getPath p).map (mergeVal S (childAt S ty p) (dst.getPath p))
  | [], _, _, _, _, _, _, _, _, h, _, _, _, _, _ => absurd rfl h
  | k :: rest, ps, ty, dst, src1, src2, d3, hpf, hp, _, hdisp, hnd, hns, hf, hpe => by
    simp only [NoDupAlong] at hnd hns
    simp only [NoDispAlong] at hdisp
    have hmem : rest ∈ tails k ps := mem_tails.mpr hp
    have hts : tails k ps ≠ [] := fun e => by rw [e] at hmem; cases hmem
    have hfind := find_maskOf' k ps hts
    have hn2 : src2.keys.Nodup := nodup_filterFields _ src1 src2 hf hns.1
    have hnd2 : (mergeFields S ty dst src2).keys.Nodup := nodup_mergeFields S ty src2 dst hnd.1
    have hgm := get_mergeFields S ty k hdisp.1 src2 dst hn2
    have hgf := get_filterFields_some _ k _ hfind src1 src2 hf
    cases rest with
    | nil =>
      have he := (Mask.insertAll_nil_isEmpty _).mpr (prefixFree_all_nil hpf hmem)
      have hge := get_pruneEmpty_empty _ src2 k _ hfind he _ d3 hnd2 hpe
      simp only [Fields.getPath, childAt]
      cases hs : src1.get k with
      | none =>
        rw [hs] at hgf
        rw [hgf] at hgm hge
        simp only at hgm hge
        cases hd2 : (mergeFields S ty dst src2).get k with
        | none => rw [hd2] at hge; simpa using hge
        | some x => rw [hd2] at hge; simpa using hge
      | some v =>
        rw [hs] at hgf
        simp only [he, if_true] at hgf
        rw [hgf] at hgm hge
        simp only at hgm
        rw [hgm] at hge
        simp only at hge
        simp only [Option.map_some]
        -- whatever the kinds, the merged value stays
        have keepMsg : ∀ df sf, (∃ df', pruneEmpty (Mask.insertAll .nil (tails k ps)) sf df = some df' ∧
            d3.get k = some (.msg df')) → d3.get k = some (.msg df) := by
          rintro df sf ⟨df', hd, hg'⟩
          rw [mask_eq_nil_of_isEmpty he, pruneEmpty_nil] at hd
          cases hd; exact hg'
        generalize hx : mergeVal S (S.child ty k) (dst.get k) v = x at hge ⊢
        cases x with
        | msg df =>
          cases v with
          | msg sf => exact keepMsg df sf hge
          | sc _ => exact hge
          | scs _ => exact hge
          | msgs _ => exact hge
          | map _ => exact hge
        | sc _ => exact hge
        | scs _ => exact hge
        | msgs _ => exact hge
        | map _ => exact hge
    | cons k' r =>
      have hnn : ¬ [] ∈ tails k ps := by
        intro hm
        have := prefixFree_all_nil hpf hm (k' :: r) hmem
        cases this
      have he := sub_nonempty_of_not_nil hmem hnn
      have hps := get_pruneEmpty_sub _ src2 k _ hfind he _ d3 hnd2 hpe
      cases hs : src1.get k with
      | none =>
        rw [hs] at hgf
        rw [hgf] at hgm hps
        simp only at hgm
        have hrhs : src1.getPath (k :: k' :: r) = none := by simp [Fields.getPath, hs]
        rw [hrhs, Option.map_none]
        rw [hgm] at hps
        cases hd : dst.get k with
        | none => rw [hd] at hps; simp [Fields.getPath, hps]
        | some x =>
          rw [hd] at hps
          simp only at hps
          cases x with
          | msg df =>
            simp only at hps
            obtain ⟨df', hpr, hg'⟩ := hps
            simp only [Fields.getPath, hg']
            exact getPath_pruneFields_cleared (k' :: r) (tails k ps) df df' (prefixFree_tails hpf)
              ⟨k' :: r, hmem, by simp, List.prefix_refl _⟩ hpr
          | sc _ => simp only at hps; simp [Fields.getPath, hps]
          | scs _ => simp only at hps; simp [Fields.getPath, hps]
          | msgs _ => simp only at hps; simp [Fields.getPath, hps]
          | map _ => simp only at hps; simp [Fields.getPath, hps]
      | some v =>
        rw [hs] at hgf
        simp only [he, Bool.false_eq_true, if_false] at hgf
        obtain ⟨v', hv, hg2⟩ := hgf
        rw [hg2] at hgm hps
        simp only at hgm
        rw [hgm] at hps
        simp only at hps
        rcases filterVal_cases hv with ⟨sf1, sf2, rfl, rfl, hfs⟩ | ⟨hnv, hnm⟩
        · -- a message in the written message
          have hsrc : src1.getPath (k :: k' :: r) = sf1.getPath (k' :: r) := by simp [Fields.getPath, hs]
          cases hd : dst.get k with
          | some x =>
            cases x with
            | msg df =>
              rw [hd] at hps
              simp only [mergeVal] at hps
              obtain ⟨df', hpr, hg'⟩ := hps
              have ih := getPath_core_named S (k' :: r) (tails k ps) (S.child ty k) df sf1 sf2 df'
                (prefixFree_tails hpf) hmem (by simp) hdisp.2 (hnd.2 df hd) (hns.2 sf1 hs) hfs hpr
              have hdst : dst.getPath (k :: k' :: r) = df.getPath (k' :: r) := by simp [Fields.getPath, hd]
              rw [hsrc, hdst]
              simp only [Fields.getPath, hg', childAt]
              exact ih
            | sc y =>
              rw [hd, mergeVal_old_nonmsg S _ _ sf2 (by simp)] at hps
              simp only at hps
              obtain ⟨df', hpr, hg'⟩ := hps
              have hself := getPath_pruneEmpty_self (k' :: r) (tails k ps) sf2 df' (prefixFree_tails hpf) hmem
                (by simp) (noDupAlong_filterFields (k' :: r) _ sf1 sf2 hfs (hns.2 sf1 hs)) hpr
              have hcov := getPath_filterFields_covered (k' :: r) (tails k ps) sf1 sf2 (prefixFree_tails hpf)
                ⟨k' :: r, hmem, by simp, List.prefix_refl _⟩ hfs
              have hdst : dst.getPath (k :: k' :: r) = none := by simp [Fields.getPath, hd]
              rw [hsrc, hdst]
              simp only [Fields.getPath, hg', hself, hcov]
              cases sf1.getPath (k' :: r) <;> simp [mergeVal_none]
            | scs y =>
              rw [hd, mergeVal_old_nonmsg S _ _ sf2 (by simp)] at hps
              simp only at hps
              obtain ⟨df', hpr, hg'⟩ := hps
              have hself := getPath_pruneEmpty_self (k' :: r) (tails k ps) sf2 df' (prefixFree_tails hpf) hmem
                (by simp) (noDupAlong_filterFields (k' :: r) _ sf1 sf2 hfs (hns.2 sf1 hs)) hpr
              have hcov := getPath_filterFields_covered (k' :: r) (tails k ps) sf1 sf2 (prefixFree_tails hpf)
                ⟨k' :: r, hmem, by simp, List.prefix_refl _⟩ hfs
              have hdst : dst.getPath (k :: k' :: r) = none := by simp [Fields.getPath, hd]
              rw [hsrc, hdst]
              simp only [Fields.getPath, hg', hself, hcov]
              cases sf1.getPath (k' :: r) <;> simp [mergeVal_none]
            | msgs y =>
              rw [hd, mergeVal_old_nonmsg S _ _ sf2 (by simp)] at hps
              simp only at hps
              obtain ⟨df', hpr, hg'⟩ := hps
              have hself := getPath_pruneEmpty_self (k' :: r) (tails k ps) sf2 df' (prefixFree_tails hpf) hmem
                (by simp) (noDupAlong_filterFields (k' :: r) _ sf1 sf2 hfs (hns.2 sf1 hs)) hpr
              have hcov := getPath_filterFields_covered (k' :: r) (tails k ps) sf1 sf2 (prefixFree_tails hpf)
                ⟨k' :: r, hmem, by simp, List.prefix_refl _⟩ hfs
              have hdst : dst.getPath (k :: k' :: r) = none := by simp [Fields.getPath, hd]
              rw [hsrc, hdst]
              simp only [Fields.getPath, hg', hself, hcov]
              cases sf1.getPath (k' :: r) <;> simp [mergeVal_none]
            | map y =>
              rw [hd, mergeVal_old_nonmsg S _ _ sf2 (by simp)] at hps
              simp only at hps
              obtain ⟨df', hpr, hg'⟩ := hps
              have hself := getPath_pruneEmpty_self (k' :: r) (tails k ps) sf2 df' (prefixFree_tails hpf) hmem
                (by simp) (noDupAlong_filterFields (k' :: r) _ sf1 sf2 hfs (hns.2 sf1 hs)) hpr
              have hcov := getPath_filterFields_covered (k' :: r) (tails k ps) sf1 sf2 (prefixFree_tails hpf)
                ⟨k' :: r, hmem, by simp, List.prefix_refl _⟩ hfs
              have hdst : dst.getPath (k :: k' :: r) = none := by simp [Fields.getPath, hd]
              rw [hsrc, hdst]
              simp only [Fields.getPath, hg', hself, hcov]
              cases sf1.getPath (k' :: r) <;> simp [mergeVal_none]
          | none =>
            rw [hd, mergeVal_old_nonmsg S _ _ sf2 (by simp)] at hps
            simp only at hps
            obtain ⟨df', hpr, hg'⟩ := hps
            have hself := getPath_pruneEmpty_self (k' :: r) (tails k ps) sf2 df' (prefixFree_tails hpf) hmem
              (by simp) (noDupAlong_filterFields (k' :: r) _ sf1 sf2 hfs (hns.2 sf1 hs)) hpr
            have hcov := getPath_filterFields_covered (k' :: r) (tails k ps) sf1 sf2 (prefixFree_tails hpf)
              ⟨k' :: r, hmem, by simp, List.prefix_refl _⟩ hfs
            have hdst : dst.getPath (k :: k' :: r) = none := by simp [Fields.getPath, hd]
            rw [hsrc, hdst]
            simp only [Fields.getPath, hg', hself, hcov]
            cases sf1.getPath (k' :: r) <;> simp [mergeVal_none]
        · -- a non-message in the written message: nothing below it
          have hsrc : src1.getPath (k :: k' :: r) = none :=
            getPath_through_nonmsg (fun df e => hnv df (by rw [hs] at e; exact Option.some.inj e))
          rw [hsrc, Option.map_none]
          have hx := mergeVal_nonmsg S (S.child ty k) (dst.get k) v' hnm
          generalize mergeVal S (S.child ty k) (dst.get k) v' = x at hps hx
          apply getPath_through_nonmsg
          intro df e
          cases x with
          | msg xf => exact hx xf rfl
          | sc _ =>
            cases v' <;> simp only at hps <;> (rw [hps] at e; cases e)
          | scs _ =>
            cases v' <;> simp only at hps <;> (rw [hps] at e; cases e)
          | msgs _ =>
            cases v' <;> simp only at hps <;> (rw [hps] at e; cases e)
          | map _ =>
            cases v' <;> simp only at hps <;> (rw [hps] at e; cases e)

/-! ## Below a named path -/

/-- `proto.Merge` at a path that the source holds: the source's value merged into what is stored. -/
theorem getPath_mergeFields_present (S : Schema) : ∀ (t : Path) (ty : Nat) (dst src : Fields) (v : Val),
    src.getPath t = some v → NoDupAlong t src → NoDispAlong S ty t →
    (mergeFields S ty dst src).getPath t = some (mergeVal S (childAt S ty t) (dst.getPath t) v)
  | [], _, _, _, _, h, _, _ => by simp [Fields.getPath] at h
  | [k], ty, dst, src, v, h, hn, hd => by
    simp only [NoDupAlong] at hn
    simp only [NoDispAlong] at hd
    simp only [Fields.getPath] at h ⊢
    rw [get_mergeFields S ty k hd.1 src dst hn.1, h]
    simp [childAt]
  | k :: k' :: r, ty, dst, src, v, h, hn, hd => by
    simp only [NoDupAlong] at hn
    simp only [NoDispAlong] at hd
    rw [Fields.getPath] at h
    cases hs : src.get k with
    | none => rw [hs] at h; cases h
    | some w =>
      rw [hs] at h
      cases w with
      | msg sf =>
        simp only at h
        have hg := get_mergeFields S ty k hd.1 src dst hn.1
        rw [hs] at hg
        simp only at hg
        cases hdg : dst.get k with
        | some x =>
          cases x with
          | msg df =>
            rw [hdg] at hg
            simp only [mergeVal] at hg
            have ih := getPath_mergeFields_present S (k' :: r) (S.child ty k) df sf v h (hn.2 sf hs) hd.2
            simp only [Fields.getPath, hg, hdg, childAt]
            exact ih
          | sc _ =>
            rw [hdg, mergeVal_old_nonmsg S _ _ sf (by simp)] at hg
            simp [Fields.getPath, hg, hdg, h, mergeVal_none]
          | scs _ =>
            rw [hdg, mergeVal_old_nonmsg S _ _ sf (by simp)] at hg
            simp [Fields.getPath, hg, hdg, h, mergeVal_none]
          | msgs _ =>
            rw [hdg, mergeVal_old_nonmsg S _ _ sf (by simp)] at hg
            simp [Fields.getPath, hg, hdg, h, mergeVal_none]
          | map _ =>
            rw [hdg, mergeVal_old_nonmsg S _ _ sf (by simp)] at hg
            simp [Fields.getPath, hg, hdg, h, mergeVal_none]
        | none =>
          rw [hdg, mergeVal_old_nonmsg S _ _ sf (by simp)] at hg
          simp [Fields.getPath, hg, hdg, h, mergeVal_none]
      | sc _ => simp at h
      | scs _ => simp at h
      | msgs _ => simp at h
      | map _ => simp at h

theorem getPath_append : ∀ (q t : Path) (fs : Fields), q ≠ [] → t ≠ [] →
    fs.getPath (q ++ t) = (match fs.getPath q with | some (.msg X) => X.getPath t | _ => none)
  | [], _, _, h, _ => absurd rfl h
  | [k], t, fs, _, ht => by
    cases t with
    | nil => exact absurd rfl ht
    | cons a u =>
      simp only [List.cons_append, List.nil_append, Fields.getPath]
      cases fs.get k with
      | none => rfl
      | some v => cases v <;> rfl
  | k :: k' :: r, t, fs, _, ht => by
    have ih := fun X => getPath_append (k' :: r) t X (by simp) ht
    simp only [List.cons_append, Fields.getPath]
    cases hg : fs.get k with
    | none => rfl
    | some v =>
      cases v with
      | msg X => simpa using ih X
      | _ => rfl

theorem noDupAlong_append : ∀ (q t : Path) (fs : Fields), NoDupAlong (q ++ t) fs →
    NoDupAlong q fs ∧ (q ≠ [] → ∀ X, fs.getPath q = some (.msg X) → NoDupAlong t X)
  | [], _, _, _ => ⟨trivial, fun h => absurd rfl h⟩
  | [k], t, fs, h => by
    simp only [List.cons_append, List.nil_append, NoDupAlong] at h ⊢
    exact ⟨⟨h.1, fun _ _ => trivial⟩, fun _ X hX => h.2 X (by simpa [Fields.getPath] using hX)⟩
  | k :: k' :: r, t, fs, h => by
    simp only [List.cons_append, NoDupAlong] at h ⊢
    refine ⟨⟨h.1, fun sub hs => (noDupAlong_append (k' :: r) t sub (h.2 sub hs)).1⟩, fun _ X hX => ?_⟩
    rw [Fields.getPath] at hX
    cases hg : fs.get k with
    | none => rw [hg] at hX; cases hX
    | some v =>
      rw [hg] at hX
      cases v with
      | msg sub => exact (noDupAlong_append (k' :: r) t sub (h.2 sub hg)).2 (by simp) X hX
      | sc _ => simp at hX
      | scs _ => simp at hX
      | msgs _ => simp at hX
      | map _ => simp at hX

theorem childAt_append (S : Schema) : ∀ (q t : Path) (ty : Nat),
    childAt S ty (q ++ t) = childAt S (childAt S ty q) t
  | [], _, _ => rfl
  | k :: r, t, ty => by simp [childAt, childAt_append S r t]

theorem noDispAlong_append (S : Schema) : ∀ (q t : Path) (ty : Nat), NoDispAlong S ty (q ++ t) →
    NoDispAlong S ty q ∧ NoDispAlong S (childAt S ty q) t
  | [], _, _, h => ⟨trivial, h⟩
  | k :: r, t, ty, h => by
    simp only [List.cons_append, NoDispAlong] at h ⊢
    have := noDispAlong_append S r t (S.child ty k) h.2
    exact ⟨⟨h.1, this.1⟩, this.2⟩

/-- `proto.Merge` creates nothing at a path that neither side holds. -/
theorem getPath_mergeFields_absent (S : Schema) : ∀ (t : Path) (ty : Nat) (dst src : Fields),
    dst.getPath t = none → src.getPath t = none → NoDupAlong t src → NoDispAlong S ty t →
    (mergeFields S ty dst src).getPath t = none
  | [], _, _, _, _, _, _, _ => by simp [Fields.getPath]
  | [k], ty, dst, src, hd, hs, hn, hdisp => by
    simp only [NoDupAlong] at hn
    simp only [NoDispAlong] at hdisp
    simp only [Fields.getPath] at hd hs ⊢
    rw [get_mergeFields S ty k hdisp.1 src dst hn.1, hs]
    exact hd
  | k :: k' :: r, ty, dst, src, hd, hs, hn, hdisp => by
    simp only [NoDupAlong] at hn
    simp only [NoDispAlong] at hdisp
    have hg := get_mergeFields S ty k hdisp.1 src dst hn.1
    cases hsg : src.get k with
    | none =>
      rw [hsg] at hg
      rw [Fields.getPath, hg]
      rw [Fields.getPath] at hd
      exact hd
    | some w =>
      rw [hsg] at hg
      simp only at hg
      cases w with
      | msg sf =>
        have hs' : sf.getPath (k' :: r) = none := by simpa [Fields.getPath, hsg] using hs
        cases hdg : dst.get k with
        | some x =>
          cases x with
          | msg df =>
            have hd' : df.getPath (k' :: r) = none := by simpa [Fields.getPath, hdg] using hd
            rw [hdg] at hg
            simp only [mergeVal] at hg
            simp only [Fields.getPath, hg]
            exact getPath_mergeFields_absent S (k' :: r) (S.child ty k) df sf hd' hs' (hn.2 sf hsg) hdisp.2
          | sc _ => rw [hdg, mergeVal_old_nonmsg S _ _ sf (by simp)] at hg; simp [Fields.getPath, hg, hs']
          | scs _ => rw [hdg, mergeVal_old_nonmsg S _ _ sf (by simp)] at hg; simp [Fields.getPath, hg, hs']
          | msgs _ => rw [hdg, mergeVal_old_nonmsg S _ _ sf (by simp)] at hg; simp [Fields.getPath, hg, hs']
          | map _ => rw [hdg, mergeVal_old_nonmsg S _ _ sf (by simp)] at hg; simp [Fields.getPath, hg, hs']
        | none => rw [hdg, mergeVal_old_nonmsg S _ _ sf (by simp)] at hg; simp [Fields.getPath, hg, hs']
      | sc x =>
        exact getPath_through_nonmsg (fun df e => mergeVal_nonmsg S _ (dst.get k) (.sc x) (by simp) df (by rw [hg] at e; exact Option.some.inj e))
      | scs x =>
        exact getPath_through_nonmsg (fun df e => mergeVal_nonmsg S _ (dst.get k) (.scs x) (by simp) df (by rw [hg] at e; exact Option.some.inj e))
      | msgs x =>
        exact getPath_through_nonmsg (fun df e => mergeVal_nonmsg S _ (dst.get k) (.msgs x) (by simp) df (by rw [hg] at e; exact Option.some.inj e))
      | map x =>
        exact getPath_through_nonmsg (fun df e => mergeVal_nonmsg S _ (dst.get k) (.map x) (by simp) df (by rw [hg] at e; exact Option.some.inj e))

theorem getPath_nil : ∀ p : Path, Fields.nil.getPath p = none
  | [] => rfl
  | [_] => rfl
  | _ :: _ :: _ => rfl

end ScVerif.C05
