import ScVerif.C05.Opts
/-
Model of `resource.GetAndUpdate` (`pkg/resource/atomic.go`) as `Value.set` and `Collection.Update` use
it, with writes of OTHER callers committed while the write holds no lock:

    Validate(value)                            -- before GetAndUpdate: a rejected write reaches nothing
    RLock; old := get(); RUnlock
    new := change(old, Clone(old))             -- no lock held: expected-check, InterceptBefore,
                                               --   Merge, InterceptAfter; others may commit here
    Lock; again := get()
    if !proto.Equal(old, again) → Aborted      -- nothing saved
    save(new)

The writes of others that land in the window are whole writes (each takes the write lock for its own
re-check and save), so from the point of view of this write they are a LIST of writes applied to the
stored message between its read and its re-check.  `proto.Equal` is a parameter `eq`.

Also: the resource options that are not masks (`WithClock`, `WithEquivalence`/`WithNoDuplicates`/
`WithMessageEquivalence`, `WithRNG`, `WithIDInterceptor`) as `ROpt.other`: `computeConfig` stores them
in other fields of `config`; neither `Value.set`'s nor `Collection.Update`'s save callback reads them
(the clock only stamps the change time), so the stored message does not depend on them.
-/
namespace ScVerif.C05

/-- Sort key insertion (stable: an entry stays in front of later entries with the same key). -/
def Fields.insertSorted (k : Name) (v : Val) : Fields → Fields
  | .nil => .cons k v .nil
  | .cons k' v' rest =>
    if k' < k then .cons k' v' (Fields.insertSorted k v rest) else .cons k v (.cons k' v' rest)

def insertEntry (e : String × String) : List (String × String) → List (String × String)
  | [] => [e]
  | e' :: rest => if e'.1 < e.1 then e' :: insertEntry e rest else e :: e' :: rest

def sortEntries : List (String × String) → List (String × String)
  | [] => []
  | e :: rest => insertEntry e (sortEntries rest)

mutual
  /-- Normal form of a message value: fields sorted by name, map entries by key, recursively (the
  order of the populated fields of a protobuf message is not part of its value). -/
  def Val.norm : Val → Val
    | .msg fs => .msg (Fields.norm fs)
    | .msgs xs => .msgs (Msgs.norm xs)
    | .map es => .map (sortEntries es)
    | v => v
  def Fields.norm : Fields → Fields
    | .nil => .nil
    | .cons k v rest => Fields.insertSorted k (Val.norm v) (Fields.norm rest)
  def Msgs.norm : Msgs → Msgs
    | .nil => .nil
    | .cons m rest => .cons (Fields.norm m) (Msgs.norm rest)
end

/-- `proto.Equal` on message trees: equality of normal forms. -/
def protoEqual (a b : Fields) : Bool := decide (Fields.norm a = Fields.norm b)

theorem protoEqual_refl (a : Fields) : protoEqual a a = true := by simp [protoEqual]

/-- A write by somebody else: its updater (from its own options) and the message it writes. -/
structure Rival where
  u : Updater
  src : Fields
deriving Repr, Inhabited

/-- One whole write by somebody else applied to the stored message: stored if accepted, else nothing. -/
def Rival.commit (S : Schema) (ty : Nat) (stored : Fields) (r : Rival) : Fields :=
  match valueSet S ty r.u stored r.src with
  | .ok st _ => st
  | _ => stored

/-- The stored message after the writes of others, in the order they commit. -/
def commitAll (S : Schema) (ty : Nat) (stored : Fields) (rivals : List Rival) : Fields :=
  rivals.foldl (Rival.commit S ty) stored

inductive RaceOut where
  | err (c : Code)                     -- rejected by Validate
  | aborted                            -- "concurrent update detected"
  | panic
  | ok (stored : Fields) (src : Fields) -- saved: the new stored message and the written message as left
deriving DecidableEq, Repr, Inhabited

/-- Outcome of the write and the stored message after it. -/
structure RaceResult where
  out : RaceOut
  stored : Fields
deriving DecidableEq, Repr, Inhabited

/-- `Value.set` / `Collection.Update` with the writes `rivals` of others committed between its read
and its re-check (in `change`: expected-check, interceptors, or between the statements). -/
def raceSet (eq : Fields → Fields → Bool) (S : Schema) (ty : Nat) (u : Updater)
    (stored src : Fields) (rivals : List Rival) : RaceResult :=
  match validate S ty u with
  | .ok =>
    -- change(old, Clone(old)) on the message read first; the others commit meanwhile
    let cur := commitAll S ty stored rivals
    match merge S ty u stored src with
    | none => ⟨.panic, cur⟩
    | some r =>
      if eq stored cur then ⟨.ok r.dst r.src, r.dst⟩   -- save(new)
      else ⟨.aborted, cur⟩
  | c => ⟨.err c, stored⟩                              -- before GetAndUpdate: nobody has run yet

/-- The window has two halves: `pre` are the writes of others committed before `writer.Merge` runs
(after the read, in the expected-check, in `InterceptBefore`), `post` the ones after it (in
`InterceptAfter`, before the lock is taken again).  A panic inside `Merge` unwinds the call: the
places of the second half are never reached, so only `pre` has been committed. -/
def raceSetPhased (eq : Fields → Fields → Bool) (S : Schema) (ty : Nat) (u : Updater)
    (stored src : Fields) (pre post : List Rival) : RaceResult :=
  match merge S ty u stored src with
  | none => raceSet eq S ty u stored src pre
  | some _ => raceSet eq S ty u stored src (pre ++ post)

/-- Unless `Merge` panics the halves do not matter: it is `raceSet` on all rivals in window order. -/
theorem raceSetPhased_eq (eq : Fields → Fields → Bool) (S : Schema) (ty : Nat) (u : Updater)
    (stored src : Fields) (pre post : List Rival) (h : merge S ty u stored src ≠ none) :
    raceSetPhased eq S ty u stored src pre post = raceSet eq S ty u stored src (pre ++ post) := by
  unfold raceSetPhased
  cases hm : merge S ty u stored src with
  | none => exact absurd hm h
  | some r => rfl

/-- A rejected write never opens the window, whatever the halves hold. -/
theorem raceSetPhased_rejected (eq : Fields → Fields → Bool) (S : Schema) (ty : Nat) (u : Updater)
    (stored src : Fields) (pre post : List Rival) (h : validate S ty u ≠ .ok) :
    (raceSetPhased eq S ty u stored src pre post).stored = stored := by
  unfold raceSetPhased
  have hr : ∀ rs, (raceSet eq S ty u stored src rs).stored = stored := by
    intro rs
    unfold raceSet
    cases hv : validate S ty u with
    | ok => exact absurd hv h
    | invalidArgument => rfl
    | internal => rfl
  cases merge S ty u stored src <;> exact hr _

end ScVerif.C05
