import ScVerif.C05.Props
import ScVerif.C05.OptSpec
/-
Helper lemmas that lift the single-write theorems of `Props.lean` to writes given by option lists.
-/
namespace ScVerif.C05

/-- The updater of a write with options: its three masks. -/
theorem writeWith_updater (resW : Option (List Path)) (opts : List WOpt) :
    ((computeWriteConfig opts).fieldUpdater resW).update = specUpdate opts ∧
    ((computeWriteConfig opts).fieldUpdater resW).reset = specReset opts := by
  unfold WriteRequest.fieldUpdater
  rw [fieldUpdater_eq]
  exact ⟨cwc_update opts, cwc_reset opts⟩

/-- One write whose masks avoid the field `k` keeps it. -/
theorem merge_avoids (S : Schema) (ty : Nat) (u : Updater) (dst src : Fields) (r : Merged) (k : Name)
    (ha : Avoids k u) (hd : NotDisplaced S ty k) (h : merge S ty u dst src = some r) :
    r.dst.get k = dst.get k := by
  obtain ⟨hmask, hreset⟩ := ha
  cases hupd : u.update with
  | some M =>
    rw [hupd] at hmask
    obtain ⟨hMc, hMn, hMk⟩ := hmask
    cases M with
    | nil => rw [C05_empty_mask S ty u dst src r hupd h]
    | cons m ms => exact (C05_frame_toplevel S ty u dst src r m ms k hupd hMc hMn hMk hreset hd h).1
  | none =>
    rw [hupd] at hmask
    obtain ⟨W, hW, hWc, hWn, hWk⟩ := hmask
    cases W with
    | cons w ws => exact C05_frame_toplevel_nil_mask S ty u dst src r w ws k hupd hW hWc hWn hWk hreset hd h
    | nil =>
      unfold merge at h
      simp only [hW, if_true, hupd, reduceCtorEq, if_false] at h
      cases hd' : resetDst u dst with
      | none => rw [hd'] at h; cases h
      | some d' =>
        rw [hd'] at h; simp at h; rw [← h]
        unfold resetDst at hd'
        cases hr : u.reset with
        | none => rw [hr] at hd'; simp at hd'; rw [hd']
        | some R =>
          rw [hr] at hd'
          obtain ⟨hRc, hRk⟩ := hreset R hr
          exact get_pruneMsg_other _ k (find_nestedMask_noHead hRc hRk) dst d' hd'

end ScVerif.C05
