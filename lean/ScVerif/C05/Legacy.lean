import ScVerif.C05.Update
/-
The definitions of `FieldUpdater.Validate / Merge / pruneEmpty` as they were in /repo before the
fixes 4d3ae38, 37d17a7, 40c1599 and 70b9b73 — kept only so that the defects those commits repaired stay
visible as kernel-checked witnesses (`…_legacy_…` theorems in Props.lean).  Nothing ties these to the
current code.
-/
namespace ScVerif.C05.Legacy
open ScVerif.C05

/-- read-only test by comparing `len(Intersect(writable, update).Paths)` with `len(update.Paths)` -/
def validate (S : Schema) (ty : Nat) (u : Updater) : Code :=
  match u.update with
  | some M =>
    if !isValid S ty M then .invalidArgument
    else
      match u.writable with
      | some W =>
        if (intersect W M).length != M.length then .invalidArgument else validateReset S ty u
      | none => validateReset S ty u
  | none => validateReset S ty u

/-- a field the mask names and src lacks is cleared, whatever the nested mask says -/
def pruneEmpty (mask : Mask) (src : Fields) : Fields → Fields
  | .nil => .nil
  | .cons k v rest =>
    match mask.find k with
    | none => .cons k v (pruneEmpty mask src rest)
    | some sub =>
      match src.get k with
      | none => pruneEmpty mask src rest
      | some sv =>
        match v, sv with
        | .msg df, .msg sf => .cons k (.msg (pruneEmpty sub sf df)) (pruneEmpty mask src rest)
        | _, _ => .cons k v (pruneEmpty mask src rest)

/-- nested masks from the raw paths; early return when nothing is writable -/
def merge (S : Schema) (ty : Nat) (u : Updater) (dst src : Fields) : Out Merged :=
  if u.writable = some [] then some ⟨dst, src⟩
  else
    let wmask : Mask := match u.writable with
      | some W => Mask.fromPaths W
      | none => .nil
    match filterMsg wmask src with
    | none => none
    | some src1 =>
      let dst1? : Option (Out Fields) :=
        match u.update with
        | none => some (if u.writable.isNone then some .nil else pruneMsg wmask dst)
        | some [] => none
        | some _ => some (some dst)
      match dst1? with
      | none => some ⟨dst, src1⟩
      | some none => none
      | some (some dst1) =>
        let nmask := Mask.fromPaths (u.update.getD [])
        match filterMsg nmask src1 with
        | none => none
        | some src2 =>
          let dst2 := mergeFields S ty dst1 src2
          let dst3 := pruneEmpty nmask src2 dst2
          match u.reset with
          | none => some ⟨dst3, src2⟩
          | some R => (pruneMsg (Mask.fromPaths R) dst3).map (⟨·, src2⟩)

end ScVerif.C05.Legacy
