import ScVerif.C05.RaceLemmas
/-!
# C05 — writes that race with the commits of other writers, and resource options that are not masks

`raceSet` (Race.lean) is `Value.set` / `Collection.Update` through `resource.GetAndUpdate` with a LIST
of whole writes of other callers committed between the write's first read and its re-check.  "What
it was before" in the property is, for a write that succeeds, the message stored immediately before
its commit: `commitAll S ty stored rivals`.

All theorems quantify over every schema, updater (i.e. every option list), stored and written
message and EVERY list of rival writes (each with its own updater and message; accepted, rejected
or panicking).
-/
namespace ScVerif.C05

/-- **C05_race_commit_base** (any equality test `eq` in the place of `proto.Equal`).  A write that
succeeds although others committed in its window was re-checked: the message it read is `eq` to the
message stored immediately before its commit; what it stores and returns is the one-write function
`valueSet` applied to the message it read, and that is the stored message afterwards. -/
theorem C05_race_commit_base (eq : Fields → Fields → Bool) (S : Schema) (ty : Nat) (u : Updater)
    (stored src : Fields) (rivals : List Rival) (st src' : Fields)
    (h : (raceSet eq S ty u stored src rivals).out = .ok st src') :
    eq stored (commitAll S ty stored rivals) = true ∧
    valueSet S ty u stored src = .ok st src' ∧
    (raceSet eq S ty u stored src rivals).stored = st := by
  obtain ⟨hv, hm, he, hs⟩ := raceSet_ok eq S ty u stored src rivals st src' h
  refine ⟨he, ?_, hs⟩
  unfold valueSet
  simp [hv, hm]

/-- **C05_race_success_is_write_on_current.**  When the equality test only relates identical
messages, a successful write IS the one-write function applied to the message stored immediately
before its commit — so every one-write theorem of `Props.lean` (rejects, empty mask, reset, frame at
any depth, named paths) holds with "before" = what the last rival left. -/
theorem C05_race_success_is_write_on_current (eq : Fields → Fields → Bool)
    (heq : ∀ a b, eq a b = true → a = b) (S : Schema) (ty : Nat) (u : Updater)
    (stored src : Fields) (rivals : List Rival) (st src' : Fields)
    (h : (raceSet eq S ty u stored src rivals).out = .ok st src') :
    valueSet S ty u (commitAll S ty stored rivals) src = .ok st src' := by
  obtain ⟨he, hv, _⟩ := C05_race_commit_base eq S ty u stored src rivals st src' h
  rw [← heq _ _ he]; exact hv

/-- **C05_race_frame** (the frame condition under ANY interleaved commits, with `proto.Equal` =
equality up to the order of populated fields).  If a write whose masks avoid the field `k` succeeds,
then `k` holds afterwards the protobuf value it held in the message stored IMMEDIATELY BEFORE the
commit — what the last of the rival writes left, not what the write read first.  (A retry that
merges into the message based on the first read breaks exactly this.) -/
theorem C05_race_frame (S : Schema) (ty : Nat) (u : Updater) (stored src : Fields)
    (rivals : List Rival) (st src' : Fields) (k : Name)
    (ha : Avoids k u) (hd : NotDisplaced S ty k)
    (h : (raceSet protoEqual S ty u stored src rivals).out = .ok st src') :
    (st.get k).map Val.norm = ((commitAll S ty stored rivals).get k).map Val.norm ∧
    ((raceSet protoEqual S ty u stored src rivals).stored.get k).map Val.norm
      = ((commitAll S ty stored rivals).get k).map Val.norm := by
  obtain ⟨_, hm, he, hs⟩ := raceSet_ok protoEqual S ty u stored src rivals st src' h
  have hk : st.get k = stored.get k := merge_avoids S ty u stored src ⟨st, src'⟩ k ha hd hm
  have := protoEqual_get _ _ he k
  rw [hs, hk]
  exact ⟨this, this⟩

/-- **C05_race_lost** (a write that lost the race changes nothing).  If the rival commits left a
message that is not `proto.Equal` to the one the write read, the write — accepted by Validate, merge
not panicking — answers Aborted and the stored message is exactly what the last rival left. -/
theorem C05_race_lost (eq : Fields → Fields → Bool) (S : Schema) (ty : Nat) (u : Updater)
    (stored src : Fields) (rivals : List Rival) (r : Merged)
    (hv : validate S ty u = .ok) (hm : merge S ty u stored src = some r)
    (hne : eq stored (commitAll S ty stored rivals) = false) :
    raceSet eq S ty u stored src rivals = ⟨.aborted, commitAll S ty stored rivals⟩ := by
  unfold raceSet
  simp [hv, hm, hne]

/-- **C05_race_rejected_first.**  A write that Validate rejects never reaches the window: nobody's
callback runs, nothing is stored (the rejects clause, whatever the rivals would have done). -/
theorem C05_race_rejected_first (eq : Fields → Fields → Bool) (S : Schema) (ty : Nat) (u : Updater)
    (stored src : Fields) (rivals : List Rival) (hv : validate S ty u ≠ .ok) :
    raceSet eq S ty u stored src rivals = ⟨.err (validate S ty u), stored⟩ := by
  unfold raceSet
  cases hc : validate S ty u <;> simp_all

/-- **C05_race_alone.**  Without rival commits `raceSet` is the one-write function: same outcome,
and the stored message afterwards is the one it reports (`proto.Equal` is reflexive). -/
theorem C05_race_alone (S : Schema) (ty : Nat) (u : Updater) (stored src : Fields) :
    raceSet protoEqual S ty u stored src [] =
      match valueSet S ty u stored src with
      | .ok st s => ⟨.ok st s, st⟩
      | .err c => ⟨.err c, stored⟩
      | .panic => ⟨.panic, stored⟩ := by
  unfold raceSet valueSet commitAll
  cases hv : validate S ty u <;> simp only [List.foldl_nil, protoEqual_refl, if_true]
  cases merge S ty u stored src <;> rfl

/-- **C05_resource_options_other.**  For every list of resource construction options, the writable
fields the resource ends up with — hence, by `runSeq`/`raceSet` being functions of them, every
outcome and every stored message — are those of the list with the options that are not masks
(`WithClock`, `WithEquivalence`/`WithNoDuplicates`, `WithRNG`, `WithIDInterceptor`) removed: no such
option, in any position, decides what a write stores. -/
theorem C05_resource_options_other (S : Schema) (ty : Nat) (opts : List ROpt) :
    resourceWritable S ty opts = resourceWritable S ty (opts.filter (fun o => !o.isOther)) := by
  unfold resourceWritable
  exact resourceWritable_foldl_other S ty opts _

/-- **C05_race_window_halves.**  The window of `GetAndUpdate` has two halves around `writer.Merge`
(`raceSetPhased`: rivals committed before it — after the read, in the expected-check, in
`InterceptBefore` — and after it — in `InterceptAfter`, before the lock is taken again).  For ALL
rival lists: unless `Merge` panics the halves do not matter and every theorem about `raceSet` holds
for the rivals in window order; when `Merge` panics in an accepted write, the call ends there and
exactly the first half has been committed, by the others alone. -/
theorem C05_race_window_halves (eq : Fields → Fields → Bool) (S : Schema) (ty : Nat) (u : Updater)
    (stored src : Fields) (pre post : List Rival) :
    (merge S ty u stored src ≠ none →
      raceSetPhased eq S ty u stored src pre post = raceSet eq S ty u stored src (pre ++ post)) ∧
    (validate S ty u = .ok → merge S ty u stored src = none →
      raceSetPhased eq S ty u stored src pre post = ⟨.panic, commitAll S ty stored pre⟩) := by
  refine ⟨raceSetPhased_eq eq S ty u stored src pre post, ?_⟩
  intro hv hm
  unfold raceSetPhased raceSet
  simp only [hm, hv]

/-! ## Non-vacuity -/

/-- the outer write `WithUpdatePaths("g")` of `{g=9}` -/
def rOuter : Updater := ⟨none, some [["g"]], none⟩
/-- a rival `WithUpdatePaths("f.c")` of `{f={c=5}}` -/
def rRival : Rival := ⟨⟨none, some [["f", "c"]], none⟩, .cons "f" (.msg (.cons "c" (.sc "i5") .nil)) .nil⟩
/-- a rival that stores what is stored: nil mask, the stored message -/
def rSame : Rival := ⟨⟨none, none, none⟩, wStored⟩

/-- `C05_race_lost` applies: the rival changes `f.c` (outside the outer mask `{g}`); the outer write
is aborted and `f.c=5`, `g=7` stay. -/
example : raceSet protoEqual wSchema 0 rOuter wStored (.cons "g" (.sc "i9") .nil) [rRival] =
    ⟨.aborted, .cons "f" (.msg (.cons "c" (.sc "i5") (.cons "d" (.sc "i2") .nil))) (.cons "g" (.sc "i7") .nil)⟩ := by
  decide

/-- `C05_race_frame` / `C05_race_commit_base` apply with a NON-EMPTY rival list: a rival that stores
an equal message lets the write through; `f` is avoided by the outer masks and not displaceable. -/
example : (raceSet protoEqual wSchema 0 rOuter wStored (.cons "g" (.sc "i9") .nil) [rSame]).out =
      .ok (.cons "f" (.msg (.cons "c" (.sc "i1") (.cons "d" (.sc "i2") .nil))) (.cons "g" (.sc "i9") .nil))
        (.cons "g" (.sc "i9") .nil) ∧
    Avoids "f" rOuter ∧ NotDisplaced wSchema 0 "f" := by
  refine ⟨by decide, ⟨?_, fun R h => by cases h⟩, ?_⟩
  · show Clean [["g"]] ∧ NonNil [["g"]] ∧ NoHead "f" [["g"]]
    decide
  · intro n; unfold Schema.sibs; cases h : wSchema.field 0 n with
    | none => simp
    | some fd =>
      have : fd.oneof = 0 := by
        have hm := List.mem_of_find?_eq_some h
        simp [Schema.fields, wSchema] at hm
        rcases hm with rfl | rfl <;> rfl
      simp [this]

/-- The panic case of `C05_race_window_halves` is reachable: a writable path that continues below a
map field (`m.x`, server configuration nobody validates) passes `Validate` and makes `Merge` panic on
a written message that holds the map; a rival placed after `Merge` is then never committed. -/
example :
    let S : Schema := [[⟨"f", .message 1, 0⟩, ⟨"g", .scalar, 0⟩, ⟨"m", .map, 0⟩], [⟨"c", .scalar, 0⟩, ⟨"d", .scalar, 0⟩]]
    let u : Updater := ⟨some [["m", "x"]], none, none⟩
    let src : Fields := .cons "m" (.map [("a", "b")]) .nil
    let rv : Rival := ⟨⟨none, none, none⟩, .cons "g" (.sc "i9") .nil⟩
    validate S 0 u = .ok ∧ merge S 0 u wStored src = none ∧
    raceSetPhased protoEqual S 0 u wStored src [] [rv] = ⟨.panic, wStored⟩ ∧
    (raceSetPhased protoEqual S 0 u wStored src [rv] []).stored.get "g" = some (.sc "i9") := by
  decide

/-- `proto.Equal` relates messages that differ in field order only, and structural equality
satisfies the hypothesis of `C05_race_success_is_write_on_current`. -/
example : protoEqual (.cons "g" (.sc "i7") (.cons "f" (.msg .nil) .nil)) (.cons "f" (.msg .nil) (.cons "g" (.sc "i7") .nil)) = true ∧
    (∀ a b : Fields, (decide (a = b)) = true → a = b) := ⟨by decide, fun _ _ h => of_decide_eq_true h⟩

/-- `C05_resource_options_other`: a clock before and an equivalence after `WithWritablePaths("g")`. -/
example : resourceWritable wSchema 0 [.other "clock", .writablePaths [["g"]], .other "equivalence"] = some (some [["g"]]) := by
  decide

end ScVerif.C05
