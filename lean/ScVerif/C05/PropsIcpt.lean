import ScVerif.C05.OptFrame
import ScVerif.C05.Icpt
/-
C05 through the write interceptors (`resource.InterceptBefore` / `InterceptAfter`), the way the
trait servers combine them with the request's `update_mask` (model: `Icpt.lean`, `valueSetI`).

The interceptors are caller code: every theorem quantifies over ALL functions.  A before-interceptor
edits the written message BEFORE the masks are applied, so no clause of the property depends on it;
an after-interceptor edits the merged message AFTER them, so the frame holds for exactly the fields
it leaves alone (`KeepsField`), and an empty mask changes nothing only if it is quiet on an unchanged
message (`QuietWhenUnchanged`) — `C05_intercept_after_unrestricted_fails` shows that neither
hypothesis can be dropped (the `delta` adder registered as an after-interceptor: seeded change C05-16).
-/
namespace ScVerif.C05
open ScVerif.C06 (GoodPath)

/-- The after-interceptor (if any) leaves field `k` of the merged message as it finds it. -/
def KeepsField (k : Name) (after : Option Icpt) : Prop :=
  ∀ g, after = some g → ∀ old m, (g old m).get k = m.get k

/-- The after-interceptor (if any) leaves the value at path `p` of the merged message as it finds it. -/
def KeepsPath (p : Path) (after : Option Icpt) : Prop :=
  ∀ g, after = some g → ∀ old m, (g old m).getPath p = m.getPath p

/-- The after-interceptor (if any) does nothing when the merged message is the stored one. -/
def QuietWhenUnchanged (after : Option Icpt) : Prop :=
  ∀ g, after = some g → ∀ m, g m m = m

/-- **C05_intercept_frame.**  For ALL before-interceptors (whatever they write into the written
message: a delta, a relative adjustment, anything) and every after-interceptor that leaves the field
`k` alone: a successful write whose masks avoid the top-level field `k` leaves `k` exactly as stored.
No hypothesis on the stored message, the written message or what the before-interceptor makes of it. -/
theorem C05_intercept_frame (S : Schema) (ty : Nat) (u : Updater) (before after : Option Icpt)
    (stored src st s : Fields) (k : Name)
    (ha : Avoids k u) (hd : NotDisplaced S ty k) (hk : KeepsField k after)
    (h : valueSetI S ty u before after stored src = .ok st s) :
    st.get k = stored.get k := by
  obtain ⟨_, r, hm, hst, _⟩ := valueSetI_ok S ty u before after stored src st s h
  have hfr := merge_avoids S ty u stored _ r k ha hd hm
  subst hst
  cases after with
  | none => exact hfr
  | some g => simp only [Icpt.run]; rw [hk g rfl]; exact hfr

/-- **C05_intercept_frame_depth.**  The same at ANY depth, under the tree hypotheses of `C05_frame`
stated for the message the before-interceptor hands to `Merge` (unique keys along `p`, kind
agreement with the stored message). -/
theorem C05_intercept_frame_depth (S : Schema) (ty : Nat) (u : Updater) (before after : Option Icpt)
    (stored src st s : Fields) (m : Path) (ms : List Path) (p : Path)
    (hM : u.update = some (m :: ms)) (hMc : Clean (m :: ms)) (hMn : NonNil (m :: ms))
    (hp : p ≠ []) (hpM : Unrelated p (m :: ms))
    (hR : ∀ R, u.reset = some R → Clean R ∧ Unrelated p R)
    (hdisp : NoDispAlong S ty p)
    (hnd : NoDupAlong p stored) (hns : NoDupAlong p (Icpt.run before stored src))
    (hag : Agree p stored (Icpt.run before stored src))
    (hk : KeepsPath p after)
    (h : valueSetI S ty u before after stored src = .ok st s) :
    st.getPath p = stored.getPath p := by
  obtain ⟨_, r, hm, hst, _⟩ := valueSetI_ok S ty u before after stored src st s h
  have hfr := C05_frame S ty u stored _ r m ms p hM hMc hMn hp hpM hR hdisp hnd hns hag hm
  subst hst
  cases after with
  | none => exact hfr
  | some g => simp only [Icpt.run]; rw [hk g rfl]; exact hfr

/-- **C05_intercept_empty_mask.**  An empty non-nil update mask changes nothing, for ALL
before-interceptors and every after-interceptor that is quiet on an unchanged message. -/
theorem C05_intercept_empty_mask (S : Schema) (ty : Nat) (u : Updater) (before after : Option Icpt)
    (stored src st s : Fields)
    (hM : u.update = some []) (hq : QuietWhenUnchanged after)
    (h : valueSetI S ty u before after stored src = .ok st s) :
    st = stored := by
  obtain ⟨_, r, hm, hst, _⟩ := valueSetI_ok S ty u before after stored src st s h
  have he := C05_empty_mask S ty u stored _ r hM hm
  subst hst
  rw [he]
  cases after with
  | none => rfl
  | some g => exact hq g rfl stored

/-- **C05_intercept_rejects.**  A mask that names an unknown path or a path outside the writable
fields is rejected with InvalidArgument before any interceptor runs: for ALL interceptors, stored
and written messages the outcome is the error (and `valueSetI` stores nothing on an error). -/
theorem C05_intercept_rejects (S : Schema) (ty : Nat) (u : Updater) (M : List Path)
    (hM : u.update = some M)
    (hbad : (∃ p ∈ M, ¬ GoodPath S ty p) ∨ (∃ W, u.writable = some W ∧ ∃ p ∈ M, ¬ InsideWritable W p))
    (before after : Option Icpt) (stored src : Fields) :
    valueSetI S ty u before after stored src = .err .invalidArgument := by
  have hv := (C05_rejects S ty u M hM hbad).1
  unfold valueSetI
  rw [hv]

/-- **C05_intercept_scalar_in.**  Inside the masks the result holds what the BEFORE-INTERCEPTOR MADE
of the written message (the delta already added), not what the caller sent: under the hypotheses of
`C05_scalar_in` for the edited message, and an after-interceptor that leaves `p` alone. -/
theorem C05_intercept_scalar_in (S : Schema) (ty : Nat) (u : Updater) (before after : Option Icpt)
    (stored src st s : Fields) (m : Path) (ms : List Path) (p : Path)
    (hM : u.update = some (m :: ms)) (hMc : Clean (m :: ms)) (hMn : NonNil (m :: ms))
    (hp : p ∈ m :: ms) (hout : ∀ q ∈ m :: ms, strictPrefix q p = false)
    (hW : ∀ W, u.writable = some W → Clean W ∧ NonNil W ∧ ∃ w ∈ W, w <+: p)
    (hR : ∀ R, u.reset = some R → Clean R ∧ Unrelated p R)
    (hdisp : NoDispAlong S ty p) (hnd : NoDupAlong p stored)
    (hns : NoDupAlong p (Icpt.run before stored src))
    (hsc : ∀ v, (Icpt.run before stored src).getPath p = some v → ∃ t, v = .sc t)
    (hk : KeepsPath p after)
    (h : valueSetI S ty u before after stored src = .ok st s) :
    st.getPath p = (Icpt.run before stored src).getPath p := by
  obtain ⟨_, r, hm, hst, _⟩ := valueSetI_ok S ty u before after stored src st s h
  have hin := C05_scalar_in S ty u stored _ r m ms p hM hMc hMn hp hout hW hR hdisp hnd hns hsc hm
  subst hst
  cases after with
  | none => exact hin
  | some g => simp only [Icpt.run]; rw [hk g rfl]; exact hin

/-- The one line of the addition table the witness below needs (7 + 7 = 14; the kernel does not
evaluate decimal parsing of strings, the driver's `intAdd` does the same on every pair). -/
def add7 (a b : Option Val) : Option Val :=
  if a = some (.sc "i7") ∧ b = some (.sc "i7") then some (.sc "i14") else a

/-- **C05_intercept_after_unrestricted_fails.**  The hypotheses on the after-interceptor cannot be
dropped: the `delta` adder (`new.g += old.g`) registered as an AFTER-interceptor, with an empty
non-nil update mask, is accepted and doubles the stored `g` (7 → 14) — it is neither quiet on an
unchanged message nor does it keep `g`; registered as a BEFORE-interceptor the same function, mask
and messages change nothing. -/
theorem C05_intercept_after_unrestricted_fails :
    ∃ (g : Icpt) (u : Updater) (src : Fields),
      u.update = some [] ∧ ¬ QuietWhenUnchanged (some g) ∧ ¬ KeepsField "g" (some g) ∧
      (∃ st s, valueSetI wSchema 0 u none (some g) wStored src = .ok st s ∧
        st.get "g" = some (.sc "i14") ∧ wStored.get "g" = some (.sc "i7")) ∧
      (∃ s, valueSetI wSchema 0 u (some g) none wStored src = .ok wStored s) := by
  have hrun : deltaIcptWith add7 ["g"] wStored wStored
      = .cons "f" (.msg (.cons "c" (.sc "i1") (.cons "d" (.sc "i2") .nil))) (.cons "g" (.sc "i14") .nil) := by
    decide
  refine ⟨deltaIcptWith add7 ["g"], ⟨none, some [], none⟩, .cons "g" (.sc "i3") .nil, rfl, ?_, ?_, ?_, ?_⟩
  · intro hq
    have := hq _ rfl wStored
    rw [hrun] at this
    revert this; decide
  · intro hk
    have := hk _ rfl wStored wStored
    rw [hrun] at this
    revert this; decide
  · refine ⟨deltaIcptWith add7 ["g"] wStored wStored, .cons "g" (.sc "i3") .nil, by decide, ?_, by decide⟩
    rw [hrun]; decide
  · exact ⟨.cons "g" (.sc "i3") .nil, by decide⟩

/-! ## Repaired finding: an Update RPC that did not hand the request's mask to the store

`lightpb.MemoryDevice.UpdateBrightness` called `s.brightness.Set(request.Brightness)` (preset path) and
`s.brightness.Set(request.Brightness, WithResetPaths(…), InterceptBefore(delta + cap))` (plain path:
no preset, no tween) — the request's `update_mask` was not among the options (`lightpb.ModelServer`
passes it).  The store's code was right; the statement failed at the RPC (signature
`C05/trait/lightpb.MemoryDevice/UpdateBrightness/update-mask-ignored`, round 7).  Since d3fb08f both
calls pass `resource.WithUpdateMask(request.UpdateMask)`: the RPC is `rpcUpdateBrightness` below, for
which the clauses of the property hold for ALL requests (`C05_trait_rpc_*`).  `rpcMaskDropped` is the
variant that is NOT the code any more; the `_fails` / `_partial` pair stays as the witness that the
option is what makes the difference. -/

/-- The RPC as it was coded before d3fb08f (NOT the code): the request's mask is dropped. -/
def rpcMaskDropped (S : Schema) (ty : Nat) (resW R : Option (List Path)) (_reqMask : Option (List Path))
    (before : Option Icpt) (stored src : Fields) : SetOut :=
  valueSetI S ty (fieldUpdater resW none false none R) before none stored src

/-- One `Set` call of the RPC as coded since d3fb08f (and as the property states it): the write runs
with the request's mask next to the server's writable fields, reset paths and before-interceptor. -/
def rpcAsStated (S : Schema) (ty : Nat) (resW R : Option (List Path)) (reqMask : Option (List Path))
    (before : Option Icpt) (stored src : Fields) : SetOut :=
  valueSetI S ty (fieldUpdater resW none false reqMask R) before none stored src

/-- **C05_trait_mask_dropped_fails.**  With an empty non-nil `update_mask` the RPC as coded is
accepted and changes the stored message (`g`: 7 → 9) where the write with the request's mask changes
nothing; and a mask naming an unknown path is accepted where the write with the mask is rejected. -/
theorem C05_trait_mask_dropped_fails :
    ∃ (src st : Fields),
      rpcMaskDropped wSchema 0 (some [["g"]]) none (some []) none wStored src = .ok st src ∧
      st.get "g" = some (.sc "i9") ∧ wStored.get "g" = some (.sc "i7") ∧
      rpcAsStated wSchema 0 (some [["g"]]) none (some []) none wStored src = .ok wStored src ∧
      rpcMaskDropped wSchema 0 (some [["g"]]) none (some [["nope"]]) none wStored src = .ok st src ∧
      rpcAsStated wSchema 0 (some [["g"]]) none (some [["nope"]]) none wStored src = .err .invalidArgument :=
  ⟨.cons "g" (.sc "i9") .nil,
   .cons "f" (.msg (.cons "c" (.sc "i1") (.cons "d" (.sc "i2") .nil))) (.cons "g" (.sc "i9") .nil),
   by decide, by decide, by decide, by decide, by decide, by decide⟩

/-- **C05_trait_mask_dropped_partial.**  For a request WITHOUT `update_mask` (nil) the RPC as coded
is the write the property describes, for all interceptors, masks of the server and messages: every
theorem of this file and of `Props.lean` applies to it. -/
theorem C05_trait_mask_dropped_partial (S : Schema) (ty : Nat) (resW R reqMask : Option (List Path))
    (before : Option Icpt) (stored src : Fields) (h : reqMask = none) :
    rpcMaskDropped S ty resW R reqMask before stored src = rpcAsStated S ty resW R reqMask before stored src := by
  subst h; rfl

/-- The hypothesis of the partial theorem is the ordinary request (no mask): there the RPC merges the
writable part of the written message — `g` is replaced, the read-only `f` stays. -/
example : ∃ s, rpcMaskDropped wSchema 0 (some [["g"]]) none none none wStored (.cons "g" (.sc "i9") .nil)
    = .ok (.cons "f" (.msg (.cons "c" (.sc "i1") (.cons "d" (.sc "i2") .nil))) (.cons "g" (.sc "i9") .nil)) s :=
  ⟨.cons "g" (.sc "i9") .nil, by decide⟩

/-- `lightpb.MemoryDevice.UpdateBrightness` since d3fb08f, the two paths that write the caller's
message: a request with a preset writes it with the request's mask and nothing else (no reset paths,
no interceptor); a request without preset and without tween writes it with the request's mask, the
reset paths `R` of the server (`target_level_percent`, `brightness_tween`) and the before-interceptor
`capDelta` (delta added, level capped).  (The tween path writes with explicit update paths of its own
and starts a timer: not modelled here.) -/
def rpcUpdateBrightness (S : Schema) (ty : Nat) (resW R reqMask : Option (List Path)) (preset : Bool)
    (capDelta : Icpt) (stored src : Fields) : SetOut :=
  if preset then rpcAsStated S ty resW none reqMask none stored src
  else rpcAsStated S ty resW R reqMask (some capDelta) stored src

/-- **C05_trait_rpc_rejects.**  The repaired RPC rejects a request whose `update_mask` names an
unknown path or a path outside the server's writable fields with InvalidArgument, on both paths, for
ALL stored and written messages, reset paths and interceptors (before d3fb08f it accepted them:
`C05_trait_mask_dropped_fails`). -/
theorem C05_trait_rpc_rejects (S : Schema) (ty : Nat) (resW R : Option (List Path)) (M : List Path)
    (hbad : (∃ p ∈ M, ¬ GoodPath S ty p) ∨
      (∃ W, resW = some W ∧ ∃ p ∈ M, ¬ InsideWritable (union W []) p))
    (preset : Bool) (capDelta : Icpt) (stored src : Fields) :
    rpcUpdateBrightness S ty resW R (some M) preset capDelta stored src = .err .invalidArgument := by
  have key : ∀ R' before, rpcAsStated S ty resW R' (some M) before stored src = .err .invalidArgument := by
    intro R' before
    unfold rpcAsStated
    refine C05_intercept_rejects S ty _ M (rpcAsStated_updater resW R' (some M)).1 ?_ before none stored src
    rcases hbad with h | ⟨W, hW, p, hp, hout⟩
    · exact Or.inl h
    · refine Or.inr ⟨union W [], ?_, p, hp, hout⟩
      rw [(rpcAsStated_updater resW R' (some M)).2.2, hW]; rfl
  unfold rpcUpdateBrightness
  cases preset <;> simp only [Bool.false_eq_true, if_false, if_true] <;> exact key _ _

/-- **C05_trait_rpc_empty_mask.**  A request with an empty non-nil `update_mask` changes nothing on
either path — the server's own reset paths included, whatever the delta / cap interceptor makes of
the written message (before d3fb08f it changed `level_percent`). -/
theorem C05_trait_rpc_empty_mask (S : Schema) (ty : Nat) (resW R : Option (List Path))
    (preset : Bool) (capDelta : Icpt) (stored src st s : Fields)
    (h : rpcUpdateBrightness S ty resW R (some []) preset capDelta stored src = .ok st s) :
    st = stored := by
  unfold rpcUpdateBrightness rpcAsStated at h
  cases preset <;> simp only [Bool.false_eq_true, if_false, if_true] at h
  · exact C05_intercept_empty_mask S ty _ _ none stored src st s (rpcAsStated_updater resW R (some [])).1
      (by intro g hg; cases hg) h
  · exact C05_intercept_empty_mask S ty _ _ none stored src st s (rpcAsStated_updater resW none (some [])).1
      (by intro g hg; cases hg) h

/-- **C05_trait_rpc_frame.**  A top-level field `k` that the request's mask (the server's writable
fields for a request without mask) and the server's reset paths have no path through is, after a
successful call on either path, exactly as stored: for ALL interceptors `capDelta`, stored and
written messages. -/
theorem C05_trait_rpc_frame (S : Schema) (ty : Nat) (resW R reqMask : Option (List Path))
    (preset : Bool) (capDelta : Icpt) (stored src st s : Fields) (k : Name)
    (ha : Avoids k (fieldUpdater resW none false reqMask R)) (hd : NotDisplaced S ty k)
    (h : rpcUpdateBrightness S ty resW R reqMask preset capDelta stored src = .ok st s) :
    st.get k = stored.get k := by
  have hk : KeepsField k none := by intro g hg; cases hg
  unfold rpcUpdateBrightness rpcAsStated at h
  cases preset <;> simp only [Bool.false_eq_true, if_false, if_true] at h
  · exact C05_intercept_frame S ty _ _ none stored src st s k ha hd hk h
  · have ha' : Avoids k (fieldUpdater resW none false reqMask none) := by
      obtain ⟨hm, _⟩ := ha
      refine ⟨?_, by intro R' hR'; rw [fieldUpdater_eq] at hR'; cases hR'⟩
      rw [fieldUpdater_eq] at hm ⊢
      exact hm
    exact C05_intercept_frame S ty _ _ none stored src st s k ha' hd hk h

/-- **C05_trait_rpc_scalar_in.**  Inside the request's mask a `Set` call of the repaired RPC stores
what its before-interceptor (none on the preset path, delta + cap on the plain path: ANY function)
made of the written message: for a scalar path `p` named by the request's mask, inside the server's
writable fields and unrelated to its reset paths, under the tree hypotheses of `C05_scalar_in`. -/
theorem C05_trait_rpc_scalar_in (S : Schema) (ty : Nat) (resW R : Option (List Path)) (before : Option Icpt)
    (stored src st s : Fields) (m : Path) (ms : List Path) (p : Path)
    (hMc : Clean (m :: ms)) (hMn : NonNil (m :: ms))
    (hp : p ∈ m :: ms) (hout : ∀ q ∈ m :: ms, strictPrefix q p = false)
    (hW : ∀ W, resW = some W → Clean (union W []) ∧ NonNil (union W []) ∧ ∃ w ∈ union W [], w <+: p)
    (hR : ∀ R', R = some R' → Clean R' ∧ Unrelated p R')
    (hdisp : NoDispAlong S ty p) (hnd : NoDupAlong p stored)
    (hns : NoDupAlong p (Icpt.run before stored src))
    (hsc : ∀ v, (Icpt.run before stored src).getPath p = some v → ∃ t, v = .sc t)
    (h : rpcAsStated S ty resW R (some (m :: ms)) before stored src = .ok st s) :
    st.getPath p = (Icpt.run before stored src).getPath p := by
  unfold rpcAsStated at h
  obtain ⟨hu, hr, hw⟩ := rpcAsStated_updater resW R (some (m :: ms))
  refine C05_intercept_scalar_in S ty _ before none stored src st s m ms p hu hMc hMn hp hout ?_ ?_
    hdisp hnd hns hsc (by intro g hg; cases hg) h
  · intro W hW'
    rw [hw] at hW'
    cases resW with
    | none => cases hW'
    | some W0 =>
      simp only [Option.map_some, Option.some.injEq] at hW'
      subst hW'
      exact hW W0 rfl
  · intro R' hR'
    rw [hr] at hR'
    exact hR R' hR'

/-- The repaired RPC on the witness of `C05_trait_mask_dropped_fails`: the empty mask changes
nothing, the unknown path is rejected, and the ordinary request still replaces `g`. -/
example : ∀ preset, ∃ s,
    rpcUpdateBrightness wSchema 0 (some [["g"]]) none (some []) preset (fun _ m => m) wStored (.cons "g" (.sc "i9") .nil)
      = .ok wStored s ∧
    rpcUpdateBrightness wSchema 0 (some [["g"]]) none (some [["nope"]]) preset (fun _ m => m) wStored (.cons "g" (.sc "i9") .nil)
      = .err .invalidArgument ∧
    (rpcUpdateBrightness wSchema 0 (some [["g"]]) none (some [["g"]]) preset (fun _ m => m) wStored (.cons "g" (.sc "i9") .nil)
      = .ok (.cons "f" (.msg (.cons "c" (.sc "i1") (.cons "d" (.sc "i2") .nil))) (.cons "g" (.sc "i9") .nil)) s) := by
  intro preset; cases preset <;> exact ⟨.cons "g" (.sc "i9") .nil, by decide, by decide, by decide⟩

/-! ## A server rule that widens the request's mask: lightpb.Model's presets

`lightpb.ModelServer.UpdateBrightness` hands `WithUpdateMask(request.UpdateMask)` to
`lightpb.Model.UpdateBrightness`, which — when the request selects a configured preset
(`setLevelFromPreset`: the written message gets the preset's level and configured title) — appends
`WithMoreUpdatePaths("level_percent")` to the caller's options before `Value.Set`. -/

/-- The option list of the write. -/
def presetOpts (reqMask : Option (List Path)) (known : Bool) (level : Name) : List WOpt :=
  if known then [(WCtor.withUpdateMask reqMask).opt, (WCtor.withMoreUpdatePaths [[level]]).opt]
  else [(WCtor.withUpdateMask reqMask).opt]

/-- `lightpb.ModelServer.UpdateBrightness`: `edit` is what `setLevelFromPreset` makes of the written
message (any function). -/
def rpcModelBrightness (S : Schema) (ty : Nat) (resW reqMask : Option (List Path)) (known : Bool)
    (level : Name) (edit : Fields → Fields) (stored src : Fields) : SetOut :=
  writeWith S ty resW (presetOpts reqMask known level) stored (if known then edit src else src)

/-- **C05_trait_preset_mask.**  The masks the write runs with: the request's mask as given when no
configured preset is selected; with one, `level_percent` is appended to a non-nil mask (an EMPTY
non-nil mask becomes `{level_percent}`: the rule applies to it too) and a nil mask — the whole
message — stays nil; there is never a reset mask. -/
theorem C05_trait_preset_mask (resW reqMask : Option (List Path)) (known : Bool) (level : Name) :
    ((computeWriteConfig (presetOpts reqMask known level)).fieldUpdater resW).update
        = (if known then reqMask.map (· ++ [[level]]) else reqMask) ∧
    ((computeWriteConfig (presetOpts reqMask known level)).fieldUpdater resW).reset = none := by
  rw [(writeWith_updater resW _).1, (writeWith_updater resW _).2]
  cases known <;> cases reqMask <;> simp [presetOpts, specUpdate, specUpdateRev, specReset, specResetRev, WCtor.opt, maskOfPaths]

/-- **C05_trait_preset_frame.**  Whether or not a preset is selected, and whatever the preset rule
writes into the message: a top-level field `k` other than `level_percent` that the request's non-nil
mask has no path through is exactly as stored after a successful call. -/
theorem C05_trait_preset_frame (S : Schema) (ty : Nat) (resW : Option (List Path)) (M : List Path)
    (known : Bool) (level : Name) (edit : Fields → Fields) (stored src st s : Fields) (k : Name)
    (hMc : Clean M) (hMn : NonNil M) (hMk : NoHead k M) (hl : level ≠ k) (hlc : level ≠ "")
    (hd : NotDisplaced S ty k)
    (h : rpcModelBrightness S ty resW (some M) known level edit stored src = .ok st s) :
    st.get k = stored.get k := by
  unfold rpcModelBrightness writeWith at h
  obtain ⟨hu, hr⟩ := C05_trait_preset_mask resW (some M) known level
  have ha : Avoids k ((computeWriteConfig (presetOpts (some M) known level)).fieldUpdater resW) := by
    refine ⟨?_, by intro R hR; rw [hr] at hR; cases hR⟩
    rw [hu]
    cases known
    · exact ⟨hMc, hMn, hMk⟩
    · refine ⟨?_, ?_, noHead_append_single hMk hl⟩
      · intro p hp
        rcases List.mem_append.mp hp with h1 | h1
        · exact hMc p h1
        · simp at h1; subst h1; simpa using hlc.symm
      · intro p hp
        rcases List.mem_append.mp hp with h1 | h1
        · exact hMn p h1
        · simp at h1; subst h1; simp
  rw [← valueSetI_none] at h
  exact C05_intercept_frame S ty _ none none stored _ st s k ha hd (by intro g hg; cases hg) h

/-- The rule on the witness schema (`g` plays `level_percent`): an empty non-nil mask with a selected
preset writes `g` (what `edit` made of it) and nothing else; without a preset it changes nothing. -/
example : ∃ s s',
    rpcModelBrightness wSchema 0 none (some []) true "g" (fun m => m.put "g" (.sc "i40")) wStored .nil
      = .ok (.cons "f" (.msg (.cons "c" (.sc "i1") (.cons "d" (.sc "i2") .nil))) (.cons "g" (.sc "i40") .nil)) s ∧
    rpcModelBrightness wSchema 0 none (some []) false "g" (fun m => m.put "g" (.sc "i40")) wStored .nil
      = .ok wStored s' :=
  ⟨.cons "g" (.sc "i40") .nil, .nil, by decide, by decide⟩

/-! ## Non-vacuity -/

/-- The hypotheses of `C05_intercept_frame` are satisfiable with a before- AND an after-interceptor
that really edit (delta on `g`, whatever the arithmetic), update mask `{g}`, field `f` avoided. -/
example (add : Option Val → Option Val → Option Val) :
    Avoids "f" ⟨none, some [["g"]], none⟩ ∧ NotDisplaced wSchema 0 "f" ∧
    KeepsField "f" (some (deltaIcptWith add ["g"])) := by
  refine ⟨⟨⟨by decide, by decide, by decide⟩, by intro R h; cases h⟩, ?_, ?_⟩
  · intro n; unfold Schema.sibs; cases h : wSchema.field 0 n with
    | none => simp
    | some fd =>
      have : fd.oneof = 0 := by
        have hm := List.mem_of_find?_eq_some h
        simp [Schema.fields, wSchema] at hm
        rcases hm with rfl | rfl <;> rfl
      simp [this]
  · intro g hg old m
    cases hg
    exact deltaIcptWith_get_other add "f" ["g"] old m (by decide)

/-- ... and the conclusion is visible on a delta write: `g` becomes 7 + 7, `f` stays. -/
example : ∃ s, valueSetI wSchema 0 ⟨none, some [["g"]], none⟩ (some (deltaIcptWith add7 ["g"])) none
    wStored (.cons "g" (.sc "i7") .nil) =
      .ok (.cons "f" (.msg (.cons "c" (.sc "i1") (.cons "d" (.sc "i2") .nil))) (.cons "g" (.sc "i14") .nil)) s :=
  ⟨.cons "g" (.sc "i14") .nil, by decide⟩

/-- An after-interceptor that sets a derived field (emergencypb's change time, fanspeedpb's
DeriveValues) keeps every other field and is quiet on an unchanged message when it compares first. -/
example : KeepsField "f" (some (fun old m => if old.get "f" = m.get "f" then m else m.put "g" (.sc "i0"))) ∧
    QuietWhenUnchanged (some (fun old m => if old.get "f" = m.get "f" then m else m.put "g" (.sc "i0"))) := by
  constructor
  · intro g hg old m
    cases hg
    by_cases h : old.get "f" = m.get "f"
    · simp [h]
    · simp only [h, if_false]; exact Fields.get_put_other _ (by decide) m
  · intro g hg m
    cases hg
    simp

end ScVerif.C05
