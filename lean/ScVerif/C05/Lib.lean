import ScVerif.C05.Msg
/-
Models of the third-party functions the masks package is built on (each has its own K1 tie):

* `github.com/mennanov/fmutils` v0.1.1: `NestedMask.Filter`, `NestedMask.Prune` — *partial*: they
  call `.Message()` on every element of a populated list field and on the value of a populated
  message-kind field (a map field has kind `MessageKind`) whenever the nested mask continues below
  that field; on a repeated scalar or a map that call panics.  `none` models the panic.
* `google.golang.org/protobuf/proto.Merge`.
* `fieldmaskpb`: `IsValid`, `normalizePaths`, `Union`, `Intersect`.
-/
namespace ScVerif.C05

/-- Outcome of a library call that may panic: `none` is the panic. -/
abbrev Out := Option

/-! ## fmutils -/

mutual
  /-- Body of `NestedMask.Filter` for a non-empty mask. -/
  def filterFields (mask : Mask) : Fields → Out Fields
    | .nil => some .nil
    | .cons k v rest =>
      match mask.find k with
      | none => filterFields mask rest                       -- rft.Clear(fd)
      | some sub =>
        if sub.isEmpty then (filterFields mask rest).map (.cons k v)
        else
          match filterVal sub v with
          | none => none
          | some v' => (filterFields mask rest).map (.cons k v')
  /-- The `fd.IsList()` / `fd.Kind() == MessageKind` cases, for a non-empty sub-mask. -/
  def filterVal (sub : Mask) : Val → Out Val
    | .sc s => some (.sc s)                                  -- neither branch: kept as is
    | .msg fs => (filterFields sub fs).map .msg
    | .scs _ => none                                         -- list.Get(i).Message() panics
    | .msgs xs => (filterMsgs sub xs).map .msgs
    | .map _ => none                                         -- rft.Get(fd).Message() panics
  def filterMsgs (sub : Mask) : Msgs → Out Msgs
    | .nil => some .nil
    | .cons m rest =>
      match filterFields sub m with
      | none => none
      | some m' => (filterMsgs sub rest).map (.cons m')
end

/-- `NestedMask.Filter(msg)`: an empty mask keeps everything. -/
def filterMsg (mask : Mask) (fs : Fields) : Out Fields :=
  if mask.isEmpty then some fs else filterFields mask fs

mutual
  /-- Body of `NestedMask.Prune` for a non-empty mask. -/
  def pruneFields (mask : Mask) : Fields → Out Fields
    | .nil => some .nil
    | .cons k v rest =>
      match mask.find k with
      | none => (pruneFields mask rest).map (.cons k v)
      | some sub =>
        if sub.isEmpty then pruneFields mask rest            -- rft.Clear(fd)
        else
          match pruneVal sub v with
          | none => none
          | some v' => (pruneFields mask rest).map (.cons k v')
  def pruneVal (sub : Mask) : Val → Out Val
    | .sc s => some (.sc s)
    | .msg fs => (pruneFields sub fs).map .msg
    | .scs _ => none
    | .msgs xs => (pruneMsgs sub xs).map .msgs
    | .map _ => none
  def pruneMsgs (sub : Mask) : Msgs → Out Msgs
    | .nil => some .nil
    | .cons m rest =>
      match pruneFields sub m with
      | none => none
      | some m' => (pruneMsgs sub rest).map (.cons m')
end

/-- `NestedMask.Prune(msg)`: an empty mask clears nothing. -/
def pruneMsg (mask : Mask) (fs : Fields) : Out Fields :=
  if mask.isEmpty then some fs else pruneFields mask fs

/-! ## proto.Merge -/

/-- Map merge: every source entry replaces (or adds) the entry with its key. -/
def mapPut : List (String × String) → String → String → List (String × String)
  | [], k, v => [(k, v)]
  | (k', v') :: rest, k, v => if k' = k then (k, v) :: rest else (k', v') :: mapPut rest k v

def mapMerge (dst : List (String × String)) : List (String × String) → List (String × String)
  | [] => dst
  | (k, v) :: rest => mapMerge (mapPut dst k v) rest

mutual
  /-- `proto.Merge(dst, src)` on messages of type `ty`: scalars overwrite, lists append, maps
  replace per key, singular messages merge recursively (created when absent), and setting a oneof
  member clears the other members. -/
  def mergeFields (S : Schema) (ty : Nat) (dst : Fields) : Fields → Fields
    | .nil => dst
    | .cons k v rest =>
      mergeFields S ty (dst.set (S.sibs ty k) k (mergeVal S (S.child ty k) (dst.get k) v)) rest
  /-- The new value of one field: `old` is what dst holds, the argument what src holds. -/
  def mergeVal (S : Schema) (cty : Nat) (old : Option Val) : Val → Val
    | .sc s => .sc s
    | .msg sf =>
      match old with
      | some (.msg df) => .msg (mergeFields S cty df sf)
      | _ => .msg sf
    | .scs xs =>
      match old with
      | some (.scs ys) => .scs (ys ++ xs)
      | _ => .scs xs
    | .msgs xs =>
      match old with
      | some (.msgs ys) => .msgs (ys.append xs)
      | _ => .msgs xs
    | .map es =>
      match old with
      | some (.map ds) => .map (mapMerge ds es)
      | _ => .map es
end

/-! ## fieldmaskpb -/

/-- One step of the closure in `numValidPaths`: `md` is `some ty` while inside a message. -/
def validStep (S : Schema) : Option Nat → Path → Bool
  | _, [] => true
  | none, _ :: _ => false                                     -- "not within a message"
  | some ty, seg :: rest =>
    match S.field ty seg with
    | none => false                                           -- unknown field
    | some fd =>
      match fd.kind with
      | .message t => validStep S (some t) rest
      | _ => validStep S none rest                            -- scalars; lists and maps only last

/-- A path is valid iff it is non-empty and every segment resolves (`rangeFields` always yields at
least one segment: the empty path yields the segment ""). -/
def validPath (S : Schema) (ty : Nat) (p : Path) : Bool :=
  match p with
  | [] => false
  | _ => validStep S (some ty) p

/-- `(*FieldMask).IsValid(m)` for a non-nil mask. -/
def isValid (S : Schema) (ty : Nat) (ps : List Path) : Bool := ps.all (validPath S ty)

/-- `lessPath`: segment-wise lexicographic, a proper prefix first.  (Go compares bytes with `.`
smallest; the harness only uses segment bytes greater than `.`, where this is the same order.) -/
def lessPath : Path → Path → Bool
  | [], [] => false
  | [], _ :: _ => true
  | _ :: _, [] => false
  | a :: as, b :: bs => if a = b then lessPath as bs else decide (a < b)

/-- `hasPathPrefix(path, prefix)`. -/
def hasPrefix : Path → Path → Bool
  | _, [] => true
  | [], _ :: _ => false
  | a :: as, b :: bs => a = b && hasPrefix as bs

def insertSorted (p : Path) : List Path → List Path
  | [] => [p]
  | q :: rest => if lessPath q p then q :: insertSorted p rest else p :: q :: rest

def sortPaths : List Path → List Path
  | [] => []
  | p :: rest => insertSorted p (sortPaths rest)

/-- The elision loop of `normalizePaths` over sorted input; `last` is `out[len(out)-1]`. -/
def elide : Option Path → List Path → List Path
  | _, [] => []
  | none, p :: rest => p :: elide (some p) rest
  | some l, p :: rest => if hasPrefix p l then elide (some l) rest else p :: elide (some p) rest

/-- `normalizePaths`. -/
def normalize (ps : List Path) : List Path := elide none (sortPaths ps)

/-- `fieldmaskpb.Union` of two masks (nil masks contribute no paths). -/
def union (a b : List Path) : List Path := normalize (a ++ b)

/-- The two-pointer loop inside `Intersect` (fuel = `len(ss1) + len(ss2)` bounds the iterations). -/
def intersectLoop : Nat → List Path → List Path → List Path
  | 0, _, _ => []
  | _, [], _ => []
  | _, _, [] => []
  | n + 1, s1 :: r1, s2 :: r2 =>
    if hasPrefix s1 s2 then s1 :: intersectLoop n r1 (s2 :: r2)
    else if hasPrefix s2 s1 then s2 :: intersectLoop n (s1 :: r1) r2
    else if lessPath s1 s2 then intersectLoop n r1 (s2 :: r2)
    else if lessPath s2 s1 then intersectLoop n (s1 :: r1) r2
    else []   -- unreachable: neither less nor prefix means equal, which is a prefix

def intersect1 (out inp : List Path) : List Path :=
  let ss1 := normalize inp
  let ss2 := normalize out
  intersectLoop (ss1.length + ss2.length) ss1 ss2

/-- `fieldmaskpb.Intersect(mx, my)`. -/
def intersect (mx my : List Path) : List Path :=
  normalize (intersect1 (intersect1 (union mx my) mx) my)

/-! ## pkg/masks/paths.go -/

/-- `strings.HasPrefix(p, q + ".")` on segments: `q` is a proper prefix of `p`. -/
def strictPrefix (q p : Path) : Bool := hasPrefix p q && decide (q.length < p.length)

/-- `withoutNestedPaths`: drop every path that lies inside another path of the list. -/
def minimal (ps : List Path) : List Path := ps.filter (fun p => !ps.any (fun q => strictPrefix q p))

/-- `nestedMask(paths)`. -/
def nestedMask (ps : List Path) : Mask := Mask.fromPaths (minimal ps)

end ScVerif.C05
