import ScVerif.C05.Lib
/-
Lemmas about `NestedMaskFromPaths`: what the nested mask built from a list of paths holds under a
key, stated with the *tails* of the paths that start with that key.  This is the bridge between
fmutils' recursive-map view of a mask and the path-set view used by the specifications.
-/
namespace ScVerif.C05

/-- No path has an empty segment (so `NestedMaskFromPaths` drops nothing). -/
def Clean (ps : List Path) : Prop := ∀ p ∈ ps, "" ∉ p

/-- No path is a proper prefix of another one ("normalised" in fmutils' words, duplicates allowed). -/
def PrefixFree (ps : List Path) : Prop := ∀ p ∈ ps, ∀ q ∈ ps, p <+: q → p = q

instance (ps : List Path) : Decidable (Clean ps) := by unfold Clean; infer_instance
instance (ps : List Path) : Decidable (PrefixFree ps) := by unfold PrefixFree; infer_instance

theorem mem_tails {k : Name} {t : Path} : ∀ {ps : List Path}, t ∈ tails k ps ↔ (k :: t) ∈ ps
  | [] => by simp [tails]
  | [] :: ps => by simp [tails, mem_tails (ps := ps)]
  | (a :: u) :: ps => by
    by_cases h : a = k
    · subst h; simp [tails, mem_tails (ps := ps)]
    · simp only [tails, h, if_false, mem_tails (ps := ps), List.mem_cons, List.cons.injEq]
      constructor
      · intro hm; exact Or.inr hm
      · rintro (⟨hk, _⟩ | hm)
        · exact absurd hk.symm h
        · exact hm

theorem clean_tails {k : Name} {ps : List Path} (h : Clean ps) : Clean (tails k ps) := by
  intro t ht hmem
  exact h (k :: t) (mem_tails.mp ht) (List.mem_cons_of_mem _ hmem)

theorem prefixFree_tails {k : Name} {ps : List Path} (h : PrefixFree ps) : PrefixFree (tails k ps) := by
  intro t ht u hu hpre
  have := h (k :: t) (mem_tails.mp ht) (k :: u) (mem_tails.mp hu) (by
    obtain ⟨r, hr⟩ := hpre
    exact ⟨r, by simp [← hr]⟩)
  exact (List.cons.inj this).2

/-- In a prefix-free set, if some path ends at `k` then every path through `k` ends there. -/
theorem prefixFree_all_nil {k : Name} {ps : List Path} (h : PrefixFree ps)
    (hn : [] ∈ tails k ps) : ∀ t ∈ tails k ps, t = [] := by
  intro t ht
  have := prefixFree_tails (k := k) h [] hn t ht (List.nil_prefix)
  exact this.symm

namespace Mask

theorem clean_eq {p : Path} (h : "" ∉ p) : clean p = p := by
  unfold clean
  apply List.filter_eq_self.mpr
  intro a ha
  simp only [ne_eq, decide_not, Bool.not_eq_eq_eq_not, Bool.not_true, decide_eq_false_iff_not]
  intro hE; subst hE; exact h ha

theorem insert_nil_path (m : Mask) : m.insert [] = m := by
  cases m <;> rfl

theorem nil_insert (t : Path) : Mask.nil.insert t = chain t := by
  cases t <;> rfl

theorem find_insert_same (k : Name) (t : Path) :
    ∀ m : Mask, (m.insert (k :: t)).find k = some (((m.find k).getD .nil).insert t)
  | .nil => by simp [insert, find, nil_insert]
  | .cons k' sub rest => by
    by_cases h : k' = k
    · subst h; simp [insert, find]
    · simp [insert, find, h, find_insert_same k t rest]

theorem find_insert_other {k k' : Name} (t : Path) (hne : k ≠ k') :
    ∀ m : Mask, (m.insert (k :: t)).find k' = m.find k'
  | .nil => by simp [insert, find, hne]
  | .cons a sub rest => by
    by_cases h : a = k
    · subst h; simp [insert, find, hne]
    · by_cases h' : a = k'
      · subst h'; simp [insert, find, h]
      · simp [insert, find, h, h', find_insert_other t hne rest]

/-- Inserting a list of (already clean) paths. -/
def insertAll (m : Mask) (ps : List Path) : Mask := ps.foldl Mask.insert m

theorem fromPaths_eq {ps : List Path} (h : Clean ps) : fromPaths ps = insertAll .nil ps := by
  unfold fromPaths insertAll
  suffices ∀ m, List.foldl (fun m p => m.insert (clean p)) m ps = List.foldl Mask.insert m ps from this _
  induction ps with
  | nil => intro m; rfl
  | cons p ps ih =>
    intro m
    simp only [List.foldl_cons]
    rw [clean_eq (h p (List.mem_cons_self ..))]
    exact ih (fun q hq => h q (List.mem_cons_of_mem _ hq)) _

/-- What the mask built from `ps` holds under `k`: nothing if no path starts with `k`, otherwise
exactly the mask built from the tails (on top of what was there before). -/
theorem find_insertAll (k : Name) : ∀ (ps : List Path) (m : Mask),
    (insertAll m ps).find k =
      if (tails k ps).isEmpty then m.find k
      else some (insertAll ((m.find k).getD .nil) (tails k ps))
  | [], m => by simp [insertAll, tails]
  | [] :: ps, m => by
    have := find_insertAll k ps m
    simpa [insertAll, tails, insert_nil_path] using this
  | (a :: t) :: ps, m => by
    have ih := find_insertAll k ps (m.insert (a :: t))
    by_cases h : a = k
    · subst h
      simp only [insertAll, List.foldl_cons, tails, if_true] at ih ⊢
      rw [ih, find_insert_same]
      cases ht : tails a ps <;> simp
    · simp only [insertAll, List.foldl_cons, tails, h, if_false] at ih ⊢
      rw [ih, find_insert_other t h]

theorem find_fromPaths {k : Name} {ps : List Path} (h : Clean ps) :
    (fromPaths ps).find k =
      if (tails k ps).isEmpty then none else some (insertAll .nil (tails k ps)) := by
  rw [fromPaths_eq h, find_insertAll]
  simp [find]

theorem insert_cons_not_empty (k : Name) (t : Path) : ∀ m : Mask, (m.insert (k :: t)).isEmpty = false
  | .nil => rfl
  | .cons k' sub rest => by
    by_cases h : k' = k <;> simp [insert, h, isEmpty]

theorem insert_not_empty {m : Mask} (p : Path) (h : m.isEmpty = false) : (m.insert p).isEmpty = false := by
  cases p with
  | nil => rw [insert_nil_path]; exact h
  | cons k t => exact insert_cons_not_empty k t m

theorem insertAll_not_empty : ∀ (ps : List Path) {m : Mask}, m.isEmpty = false → (insertAll m ps).isEmpty = false
  | [], _, h => h
  | p :: ps, _, h => insertAll_not_empty ps (insert_not_empty p h)

/-- The mask built from clean paths is empty iff every path is the empty path. -/
theorem insertAll_nil_isEmpty : ∀ (ps : List Path),
    (insertAll .nil ps).isEmpty = true ↔ ∀ p ∈ ps, p = []
  | [] => by simp [insertAll, isEmpty]
  | [] :: ps => by
    have := insertAll_nil_isEmpty ps
    simpa [insertAll, insert_nil_path] using this
  | (a :: t) :: ps => by
    have h1 : (insertAll .nil ((a :: t) :: ps)).isEmpty = false := by
      simp only [insertAll, List.foldl_cons]
      exact insertAll_not_empty ps (insert_cons_not_empty a t .nil)
    simp [h1]

end Mask
end ScVerif.C05

/-! ## `withoutNestedPaths` (`minimal`) -/
namespace ScVerif.C05

/-- Every path has at least one segment (true of every path that comes from a string). -/
def NonNil (ps : List Path) : Prop := ∀ p ∈ ps, p ≠ []
instance (ps : List Path) : Decidable (NonNil ps) := by unfold NonNil; infer_instance

theorem hasPrefix_iff : ∀ (p q : Path), hasPrefix p q = true ↔ q <+: p
  | _, [] => by simp [hasPrefix]
  | [], b :: bs => by simp [hasPrefix]
  | a :: as, b :: bs => by
    simp only [hasPrefix, Bool.and_eq_true, decide_eq_true_eq, List.cons_prefix_cons, hasPrefix_iff as bs]
    constructor
    · rintro ⟨h1, h2⟩; exact ⟨h1.symm, h2⟩
    · rintro ⟨h1, h2⟩; exact ⟨h1.symm, h2⟩

theorem strictPrefix_iff (q p : Path) : strictPrefix q p = true ↔ q <+: p ∧ q.length < p.length := by
  simp [strictPrefix, hasPrefix_iff]

theorem strictPrefix_cons (a k : Name) (u t : Path) :
    strictPrefix (a :: u) (k :: t) = (decide (a = k) && strictPrefix u t) := by
  by_cases h : a = k
  · subst h
    rw [Bool.eq_iff_iff]
    simp [strictPrefix_iff, List.cons_prefix_cons]
  · rw [Bool.eq_iff_iff]
    simp [strictPrefix_iff, List.cons_prefix_cons, h]

theorem strictPrefix_nil_right (q : Path) : strictPrefix q [] = false := by
  cases h : strictPrefix q [] with
  | false => rfl
  | true => have := (strictPrefix_iff q []).mp h; simp at this

theorem mem_minimal {p : Path} {ps : List Path} :
    p ∈ minimal ps ↔ p ∈ ps ∧ ∀ q ∈ ps, strictPrefix q p = false := by
  simp [minimal, List.mem_filter]

theorem minimal_subset {p : Path} {ps : List Path} (h : p ∈ minimal ps) : p ∈ ps := (mem_minimal.mp h).1

theorem prefixFree_minimal (ps : List Path) : PrefixFree (minimal ps) := by
  intro p hp q hq hpre
  by_cases hlen : p.length < q.length
  · have := (mem_minimal.mp hq).2 p (minimal_subset hp)
    rw [(strictPrefix_iff p q).mpr ⟨hpre, hlen⟩] at this
    cases this
  · exact List.IsPrefix.eq_of_length_le hpre (by omega)

theorem clean_minimal {ps : List Path} (h : Clean ps) : Clean (minimal ps) :=
  fun p hp => h p (minimal_subset hp)

theorem nonNil_minimal {ps : List Path} (h : NonNil ps) : NonNil (minimal ps) :=
  fun p hp => h p (minimal_subset hp)

/-- Every path of the list lies at or below an outermost one. -/
theorem exists_minimal_prefix (ps : List Path) : ∀ (n : Nat) (p : Path), p.length ≤ n → p ∈ ps →
    ∃ q ∈ minimal ps, q <+: p
  | 0, p, hn, hp => by
    refine ⟨p, mem_minimal.mpr ⟨hp, fun q _ => ?_⟩, List.prefix_refl _⟩
    cases h : strictPrefix q p with
    | false => rfl
    | true => have := ((strictPrefix_iff q p).mp h).2; omega
  | n + 1, p, hn, hp => by
    by_cases hmin : ∀ q ∈ ps, strictPrefix q p = false
    · exact ⟨p, mem_minimal.mpr ⟨hp, hmin⟩, List.prefix_refl _⟩
    · have : ∃ q ∈ ps, strictPrefix q p = true := by
        apply Classical.byContradiction
        intro hne
        apply hmin
        intro q hq
        cases h : strictPrefix q p with
        | false => rfl
        | true => exact absurd ⟨q, hq, h⟩ hne
      obtain ⟨q, hq, hs⟩ := this
      obtain ⟨hpre, hlen⟩ := (strictPrefix_iff q p).mp hs
      obtain ⟨q', hq', hpre'⟩ := exists_minimal_prefix ps n q (by omega) hq
      exact ⟨q', hq', List.IsPrefix.trans hpre' hpre⟩

theorem minimal_eq_nil_iff (ps : List Path) : minimal ps = [] ↔ ps = [] := by
  constructor
  · intro h
    cases ps with
    | nil => rfl
    | cons p rest =>
      obtain ⟨q, hq, _⟩ := exists_minimal_prefix (p :: rest) p.length p (Nat.le_refl _) (List.mem_cons_self ..)
      rw [h] at hq; cases hq
  · intro h; subst h; rfl

theorem nil_mem_minimal_iff (ps : List Path) : [] ∈ minimal ps ↔ [] ∈ ps := by
  constructor
  · exact minimal_subset
  · intro h; exact mem_minimal.mpr ⟨h, fun q _ => strictPrefix_nil_right q⟩

theorem tails_filter (k : Name) (P : Path → Bool) (Q : Path → Bool) (hPQ : ∀ t, P (k :: t) = Q t) :
    ∀ ps : List Path, tails k (ps.filter P) = (tails k ps).filter Q
  | [] => rfl
  | [] :: ps => by
    by_cases h : P [] <;> simp [List.filter_cons, h, tails, tails_filter k P Q hPQ ps]
  | (a :: t) :: ps => by
    by_cases ha : a = k
    · subst ha
      by_cases h : P (a :: t)
      · have hq : Q t = true := by rw [← hPQ]; exact h
        simp [List.filter_cons, h, hq, tails, tails_filter a P Q hPQ ps]
      · have hq : Q t = false := by rw [← hPQ]; simpa using h
        simp [List.filter_cons, h, hq, tails, tails_filter a P Q hPQ ps]
    · by_cases h : P (a :: t) <;> simp [List.filter_cons, h, tails, ha, tails_filter k P Q hPQ ps]

theorem any_strictPrefix_tails (k : Name) (t : Path) : ∀ (ps : List Path), NonNil ps →
    ps.any (fun q => strictPrefix q (k :: t)) = (tails k ps).any (fun u => strictPrefix u t)
  | [], _ => rfl
  | [] :: ps, h => absurd rfl (h [] (List.mem_cons_self ..))
  | (a :: u) :: ps, h => by
    have ih := any_strictPrefix_tails k t ps (fun p hp => h p (List.mem_cons_of_mem _ hp))
    by_cases ha : a = k
    · subst ha; simp [tails, strictPrefix_cons, ih]
    · simp [tails, strictPrefix_cons, ha, ih]

/-- Dropping nested paths commutes with taking the continuations below a field. -/
theorem tails_minimal (k : Name) (ps : List Path) (h : NonNil ps) :
    tails k (minimal ps) = minimal (tails k ps) := by
  unfold minimal
  apply tails_filter
  intro t
  rw [any_strictPrefix_tails k t ps h]

end ScVerif.C05
