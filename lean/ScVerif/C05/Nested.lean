import ScVerif.C05.Lemmas
/-
Lemmas at depth: what the passes of `Merge` do to the value at an arbitrary path (through singular
messages), in terms of whether the nested mask *reaches* the path.
-/
namespace ScVerif.C05

/-- The mask does not reach `p`: walking down `p`, some segment is not a key of the mask while the
mask still continues (a mask entry with no continuation names everything below it). -/
def misses : Path → Mask → Bool
  | [], _ => false
  | k :: rest, m =>
    match m.find k with
    | none => true
    | some sub => !sub.isEmpty && !rest.isEmpty && misses rest sub

/-- `p` is unrelated to every path of the list: none is a prefix of `p`, `p` is a prefix of none. -/
def Unrelated (p : Path) (ps : List Path) : Prop := ∀ q ∈ ps, ¬ q <+: p ∧ ¬ p <+: q
instance (p : Path) (ps : List Path) : Decidable (Unrelated p ps) := by unfold Unrelated; infer_instance

theorem unrelated_tails {k : Name} {rest : Path} {ps : List Path} (h : Unrelated (k :: rest) ps) :
    Unrelated rest (tails k ps) := by
  intro t ht
  have := h (k :: t) (mem_tails.mp ht)
  exact ⟨fun hp => this.1 (List.cons_prefix_cons.mpr ⟨rfl, hp⟩),
         fun hp => this.2 (List.cons_prefix_cons.mpr ⟨rfl, hp⟩)⟩

/-- A path unrelated to every path of a mask is missed by the nested mask built from them. -/
theorem misses_maskOf : ∀ (p : Path) (ps : List Path), p ≠ [] → Unrelated p ps →
    misses p (Mask.insertAll .nil ps) = true
  | [], _, h, _ => absurd rfl h
  | k :: rest, ps, _, hu => by
    rw [misses, Mask.find_insertAll]
    cases hts : tails k ps with
    | nil => simp [Mask.find]
    | cons t ts =>
      simp only [List.isEmpty_cons, Bool.false_eq_true, if_false, Mask.find, Option.getD_none]
      rw [← hts]
      have hut := unrelated_tails hu
      have hnn : ¬ [] ∈ tails k ps := fun hm => (hut [] hm).1 List.nil_prefix
      have hrest : rest ≠ [] := by
        intro e; subst e
        exact (hut t (by rw [hts]; exact List.mem_cons_self ..)).2 List.nil_prefix
      have hsub : (Mask.insertAll .nil (tails k ps)).isEmpty = false := by
        cases hh : (Mask.insertAll .nil (tails k ps)).isEmpty with
        | false => rfl
        | true =>
          have := (Mask.insertAll_nil_isEmpty _).mp hh t (by rw [hts]; exact List.mem_cons_self ..)
          subst this
          exact absurd (by rw [hts]; exact List.mem_cons_self ..) hnn
      have hre : rest.isEmpty = false := by cases rest with | nil => exact absurd rfl hrest | cons _ _ => rfl
      simp [hsub, hre, misses_maskOf rest (tails k ps) hrest hut]

theorem unrelated_minimal {p : Path} {ps : List Path} (h : Unrelated p ps) : Unrelated p (minimal ps) :=
  fun q hq => h q (minimal_subset hq)

theorem misses_nestedMask {p : Path} {ps : List Path} (hc : Clean ps) (hp : p ≠ []) (h : Unrelated p ps) :
    misses p (nestedMask ps) = true := by
  unfold nestedMask
  rw [Mask.fromPaths_eq (clean_minimal hc)]
  exact misses_maskOf p _ hp (unrelated_minimal h)

/-! ## get-equations below a continuing mask entry -/

theorem get_pruneFields_sub (mask : Mask) (k : Name) (sub : Mask) (hk : mask.find k = some sub)
    (he : sub.isEmpty = false) :
    ∀ (fs fs' : Fields), pruneFields mask fs = some fs' →
      match fs.get k with
      | none => fs'.get k = none
      | some v => ∃ v', pruneVal sub v = some v' ∧ fs'.get k = some v'
  | .nil, fs', h => by
    simp [pruneFields] at h; subst h; simp [Fields.get]
  | .cons a v rest, fs', h => by
    rw [pruneFields] at h
    by_cases hak : a = k
    · subst hak
      rw [hk] at h
      simp only [he, Bool.false_eq_true, if_false] at h
      cases hv : pruneVal sub v with
      | none => rw [hv] at h; cases h
      | some v' =>
        rw [hv] at h
        simp only at h
        cases hr : pruneFields mask rest with
        | none => rw [hr] at h; cases h
        | some r =>
          rw [hr] at h
          simp only [Option.map_some, Option.some.injEq] at h
          subst h
          simp [Fields.get, hv]
    · have ih := fun r hr => get_pruneFields_sub mask k sub hk he rest r hr
      have hget : (Fields.cons a v rest).get k = rest.get k := by simp [Fields.get, hak]
      rw [hget]
      cases hf : mask.find a with
      | none =>
        rw [hf] at h
        simp only at h
        cases hr : pruneFields mask rest with
        | none => rw [hr] at h; cases h
        | some r =>
          rw [hr] at h
          simp only [Option.map_some, Option.some.injEq] at h
          subst h
          have := ih r hr
          simpa [Fields.get, hak] using this
      | some sub' =>
        rw [hf] at h
        simp only at h
        by_cases he' : sub'.isEmpty
        · simp only [he', if_true] at h
          exact ih fs' h
        · simp only [he', Bool.false_eq_true, if_false] at h
          cases hv : pruneVal sub' v with
          | none => rw [hv] at h; cases h
          | some v' =>
            rw [hv] at h
            simp only at h
            cases hr : pruneFields mask rest with
            | none => rw [hr] at h; cases h
            | some r =>
              rw [hr] at h
              simp only [Option.map_some, Option.some.injEq] at h
              subst h
              have := ih r hr
              simpa [Fields.get, hak] using this

/-- `fmutils.Prune` at depth: a path the mask does not reach keeps its value. -/
theorem getPath_pruneFields_misses : ∀ (p : Path) (mask : Mask) (fs fs' : Fields),
    misses p mask = true → pruneFields mask fs = some fs' → fs'.getPath p = fs.getPath p
  | [], _, _, _, h, _ => by simp [misses] at h
  | [k], mask, fs, fs', h, hp => by
    rw [misses] at h
    cases hf : mask.find k with
    | none => simpa [Fields.getPath] using get_pruneFields_other mask k hf fs fs' hp
    | some sub => rw [hf] at h; simp at h
  | k :: k' :: rest, mask, fs, fs', h, hp => by
    rw [misses] at h
    cases hf : mask.find k with
    | none => simp [Fields.getPath, get_pruneFields_other mask k hf fs fs' hp]
    | some sub =>
      rw [hf] at h
      simp only [Bool.and_eq_true, Bool.not_eq_eq_eq_not, Bool.not_true, List.isEmpty_cons] at h
      obtain ⟨⟨he, _⟩, hm⟩ := h
      have := get_pruneFields_sub mask k sub hf he fs fs' hp
      simp only [Fields.getPath]
      cases hg : fs.get k with
      | none => rw [hg] at this; simp [this]
      | some v =>
        rw [hg] at this
        obtain ⟨v', hv, hg'⟩ := this
        rw [hg']
        cases v with
        | msg df =>
          simp only [pruneVal] at hv
          cases hd : pruneFields sub df with
          | none => rw [hd] at hv; cases hv
          | some df' =>
            rw [hd] at hv
            simp only [Option.map_some, Option.some.injEq] at hv
            subst hv
            exact getPath_pruneFields_misses (k' :: rest) sub df df' hm hd
        | sc _ => simp only [pruneVal, Option.some.injEq] at hv; subst hv; rfl
        | scs _ => simp [pruneVal] at hv
        | map _ => simp [pruneVal] at hv
        | msgs xs =>
          simp only [pruneVal] at hv
          cases hd : pruneMsgs sub xs with
          | none => rw [hd] at hv; cases hv
          | some xs' => rw [hd] at hv; simp only [Option.map_some, Option.some.injEq] at hv; subst hv; rfl

theorem getPath_pruneMsg_misses (p : Path) (mask : Mask) (fs fs' : Fields)
    (h : misses p mask = true) (hp : pruneMsg mask fs = some fs') : fs'.getPath p = fs.getPath p := by
  unfold pruneMsg at hp
  by_cases he : mask.isEmpty
  · simp [he] at hp; subst hp; rfl
  · simp only [he, Bool.false_eq_true, if_false] at hp
    exact getPath_pruneFields_misses p mask fs fs' h hp

/-- `fmutils.Prune` at depth: whatever lies at or below a path of a prefix-free clean mask is gone. -/
theorem getPath_pruneFields_cleared : ∀ (p : Path) (ps : List Path) (fs fs' : Fields),
    PrefixFree ps → (∃ q ∈ ps, q ≠ [] ∧ q <+: p) →
    pruneFields (Mask.insertAll .nil ps) fs = some fs' → fs'.getPath p = none
  | [], _, _, _, _, h, _ => by
    obtain ⟨q, _, hne, hpre⟩ := h
    exact absurd (List.prefix_nil.mp hpre) hne
  | k :: rest, ps, fs, fs', hpf, h, hp => by
    obtain ⟨q, hq, hne, hpre⟩ := h
    cases q with
    | nil => exact absurd rfl hne
    | cons a u =>
      obtain ⟨ha, hu⟩ := List.cons_prefix_cons.mp hpre
      subst ha
      have hmem : u ∈ tails a ps := mem_tails.mpr hq
      have hfind : (Mask.insertAll .nil ps).find a = some (Mask.insertAll .nil (tails a ps)) := by
        rw [Mask.find_insertAll]
        cases ht : tails a ps with
        | nil => rw [ht] at hmem; cases hmem
        | cons _ _ => simp [Mask.find]
      by_cases hn : [] ∈ tails a ps
      · -- some path ends at `a`: the field is cleared
        have hall := prefixFree_all_nil hpf hn
        have he := (Mask.insertAll_nil_isEmpty _).mpr hall
        have hg := get_pruneFields_cleared _ a _ hfind he fs fs' hp
        cases rest with
        | nil => simpa [Fields.getPath] using hg
        | cons k' r => simp [Fields.getPath, hg]
      · have hu0 : u ≠ [] := fun e => hn (e ▸ hmem)
        have he : (Mask.insertAll .nil (tails a ps)).isEmpty = false := by
          cases hh : (Mask.insertAll .nil (tails a ps)).isEmpty with
          | false => rfl
          | true => exact absurd ((Mask.insertAll_nil_isEmpty _).mp hh u hmem) hu0
        cases rest with
        | nil => exact absurd (List.prefix_nil.mp hu) hu0
        | cons k' r =>
          have := get_pruneFields_sub _ a _ hfind he fs fs' hp
          simp only [Fields.getPath]
          cases hg : fs.get a with
          | none => rw [hg] at this; simp [this]
          | some v =>
            rw [hg] at this
            obtain ⟨v', hv, hg'⟩ := this
            rw [hg']
            cases v with
            | msg df =>
              simp only [pruneVal] at hv
              cases hd : pruneFields (Mask.insertAll .nil (tails a ps)) df with
              | none => rw [hd] at hv; cases hv
              | some df' =>
                rw [hd] at hv
                simp only [Option.map_some, Option.some.injEq] at hv
                subst hv
                exact getPath_pruneFields_cleared (k' :: r) (tails a ps) df df' (prefixFree_tails hpf)
                  ⟨u, hmem, hu0, hu⟩ hd
            | sc _ => simp only [pruneVal, Option.some.injEq] at hv; subst hv; rfl
            | scs _ => simp [pruneVal] at hv
            | map _ => simp [pruneVal] at hv
            | msgs xs =>
              simp only [pruneVal] at hv
              cases hd : pruneMsgs (Mask.insertAll .nil (tails a ps)) xs with
              | none => rw [hd] at hv; cases hv
              | some xs' => rw [hd] at hv; simp only [Option.map_some, Option.some.injEq] at hv; subst hv; rfl

/-- `nestedMask(R).Prune(dst)`: every path of `R` (and everything below) is gone. -/
theorem getPath_reset_cleared {R : List Path} (hc : Clean R) (hn : NonNil R) {p r : Path} (hr : r ∈ R)
    (hpre : r <+: p) (fs fs' : Fields) (h : pruneMsg (nestedMask R) fs = some fs') :
    fs'.getPath p = none := by
  have hne : R ≠ [] := fun e => by subst e; cases hr
  unfold pruneMsg at h
  rw [nestedMask_not_empty hc hn hne] at h
  simp only [Bool.false_eq_true, if_false] at h
  unfold nestedMask at h
  rw [Mask.fromPaths_eq (clean_minimal hc)] at h
  obtain ⟨q, hq, hqr⟩ := exists_minimal_prefix R r.length r (Nat.le_refl _) hr
  exact getPath_pruneFields_cleared p (minimal R) fs fs' (prefixFree_minimal R)
    ⟨q, hq, nonNil_minimal hn q hq, List.IsPrefix.trans hqr hpre⟩ h

/-- `p` is inside the writable fields `W`: a writable path, or a path below one. -/
def InsideWritable (W : List Path) (p : Path) : Prop := ∃ w ∈ W, w <+: p

theorem isWritablePath_iff (W : List Path) (p : Path) : isWritablePath W p = true ↔ InsideWritable W p := by
  simp [isWritablePath, InsideWritable, hasPrefix_iff]

end ScVerif.C05
