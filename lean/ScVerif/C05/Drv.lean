import ScVerif.Base.Line
import ScVerif.C05.Codec
import ScVerif.C05.Opts
import ScVerif.C05.Race
import ScVerif.C05.Icpt
import ScVerif.C06.Get
/-!
Driver handler shared by driverC05 and driverC06 (stateful: the state is the schema sent by the
harness in a `schema` line, taken from the real descriptors through protoreflect).

  schema <schema>                                   -> ok
  nested <mask>                                     -> fmutils.NestedMaskFromPaths, canonical
  filter|prune <mask> <msg>                         -> msg | panic        (fmutils.Filter / Prune)
  pmerge <ty> <dst> <src>                           -> msg                (proto.Merge)
  isvalid <ty> <mask>                               -> true|false
  normalize <mask> ; union|intersect <mask> <mask>  -> paths
  validate <ty> <W> <M> <R>                         -> OK|InvalidArgument|Internal
  merge <ty> <W> <M> <R> <dst> <src>                -> <dst'> <src'> | panic
  set <ty> <resW> <moreW> <all:0|1> <M> <R> <stored> <src>
                                                    -> err:<code> | panic | <stored'> <src'>
  iset <ty> <resW> <M> <stored> <src> <bkeys> <akeys>
                                                    -> err:<code> | panic | <stored'>   (delta interceptors on the
                                                       integer fields named, `_` = none: InterceptBefore / InterceptAfter)
  iset <ty> <resW> <M> <R> <stored> <src> <bkeys> <akeys>
                                                    -> the same with the reset mask <R> of the server's own
  wseq <ty> <ropts> <stored> <steps>                -> <outcome> { " | " <outcome> } | config-panic
       ropts := '_' | ropt {';' ropt}     ropt := 'F'<mask> | 'P'<mask>      (WithWritableFields / WithWritablePaths)
       steps := step {'|' step}           step := wopts '@' ['+'] <src>      ('+': Collection.Add of a new item)
       wopts := '_' | wopt {';' wopt}     wopt := 'U'<mask> | 'u'<mask> | 'R'<mask> | 'w'<mask> | 'A'
                                                  | 'P'<paths> | 'p'<paths> | 'r'<paths> | 'v'<paths>
                (WithUpdateMask, WithMoreUpdateMask, WithResetMask, WithMoreWritableFields, WithAllFieldsWritable;
                 WithUpdatePaths, WithMoreUpdatePaths, WithResetPaths, WithMoreWritablePaths: the constructor
                 the harness really called, mapped by `WCtor.opt`)
       outcome as for `set`; a panic ends the sequence
       ropt 'X'<name>: a resource option that is not a mask (clock, equivalence, rng, id interceptor)
  race <ty> <ropts> <stored> <step> <steps>|_       -> <outcome> => <stored-after>   (a rival step prefixed '>' is
                                                       issued after Merge: not reached when Merge panics)
       the write <step> with the writes <steps> of others committed between its read and its re-check
       (GetAndUpdate); outcome := err:<code> | aborted | panic | <stored'> <src'>
  rvalidate <ty> <mask>                             -> true|false          (ResponseFilter.Validate)
  rfilter <mask> <msg>                              -> msg | panic         (ResponseFilter.Filter/FilterClone)
  project <mask> <msg>                              -> msg                 (C06 specification)
-/
namespace ScVerif.C05
open Codec

def showOut (o : Out Fields) : String :=
  match o with
  | some fs => showMsg fs
  | none => "panic"

def pathsOf (m : Option (List Path)) : List Path := m.getD []

def parseList {α} (f : String → Option α) (s : String) : Option (List α) :=
  if s = "_" then some [] else (s.splitOn ";").mapM f

def parseWCtor (s : String) : Option WCtor :=
  if s = "A" then some .withAllFieldsWritable
  else
    let rest := (s.drop 1).toString
    match s.front, parseMask rest with
    | 'U', some m => some (.withUpdateMask m)
    | 'P', some (some ps) => some (.withUpdatePaths ps)
    | 'u', some m => some (.withMoreUpdateMask m)
    | 'p', some (some ps) => some (.withMoreUpdatePaths ps)
    | 'R', some m => some (.withResetMask m)
    | 'r', some (some ps) => some (.withResetPaths ps)
    | 'w', some m => some (.withMoreWritableFields m)
    | 'v', some (some ps) => some (.withMoreWritablePaths ps)
    | _, _ => none

/-- One write option as the harness names it: the constructor used, then what it returns. -/
def parseWOpt (s : String) : Option WOpt := (parseWCtor s).map WCtor.opt

def parseROpt (s : String) : Option ROpt :=
  let rest := (s.drop 1).toString
  match s.front, parseMask rest with
  | 'F', some m => some (.writableFields m)
  | 'P', some (some ps) => some (.writablePaths ps)
  | 'X', _ => if rest.isEmpty then none else some (.other rest)
  | _, _ => none

def parseStep (s : String) : Option Step :=
  match s.splitOn "@" with
  | [o, m] =>
    let fresh := m.startsWith "+"
    let m := if fresh then (m.drop 1).toString else m
    match parseList parseWOpt o, parseMessage m with
    | some opts, some src => some ⟨opts, src, fresh⟩
    | _, _ => none
  | _ => none

/-- The fields a delta interceptor adds on: `_` = no interceptor, else names separated by commas. -/
def parseKeys (s : String) : Option (Option (List Name)) :=
  if s = "_" then some none
  else
    let ks := s.splitOn ","
    if ks.all (fun k => !k.isEmpty && k.all (fun c => c.isAlphanum || c = '_')) then some (some ks) else none

def showSetOut : SetOut → String
  | .err c => "err:" ++ c.show
  | .panic => "panic"
  | .ok st src => showMsg st ++ " " ++ showMsg src

def showRaceOut : RaceOut → String
  | .err c => "err:" ++ c.show
  | .aborted => "aborted"
  | .panic => "panic"
  | .ok st src => showMsg st ++ " " ++ showMsg src

/-- A rival step; the prefix `>` marks a write issued AFTER `Merge` (InterceptAfter, before the lock). -/
def parseRivalStep (s : String) : Option (Bool × Step) :=
  if s.startsWith ">" then (parseStep (s.drop 1).toString).map (fun st => (true, st))
  else (parseStep s).map (fun st => (false, st))

def Step.rival (resW : Option (List Path)) (s : Step) : Rival :=
  ⟨(computeWriteConfig s.opts).fieldUpdater resW, s.src⟩

def handleS (S : Schema) (toks : List String) : Schema × String :=
  let bad := (S, "!bad-op")
  match toks with
  | ["schema", s] =>
    match parseSchema s with
    | some S' => (S', "ok")
    | none => bad
  | ["nested", m] =>
    match parseMask m with
    | some m => (S, showNested (Mask.fromPaths (pathsOf m)))
    | none => bad
  | ["filter", m, x] =>
    match parseMask m, parseMessage x with
    | some m, some fs => (S, showOut (filterMsg (Mask.fromPaths (pathsOf m)) fs))
    | _, _ => bad
  | ["prune", m, x] =>
    match parseMask m, parseMessage x with
    | some m, some fs => (S, showOut (pruneMsg (Mask.fromPaths (pathsOf m)) fs))
    | _, _ => bad
  | ["pmerge", ty, d, s] =>
    match ty.toNat?, parseMessage d, parseMessage s with
    | some ty, some d, some s => (S, showMsg (mergeFields S ty d s))
    | _, _, _ => bad
  | ["isvalid", ty, m] =>
    match ty.toNat?, parseMask m with
    | some ty, some m => (S, Line.showBool (isValid S ty (pathsOf m)))
    | _, _ => bad
  | ["normalize", a] =>
    match parseMask a with
    | some a => (S, showPaths (normalize (pathsOf a)))
    | none => bad
  | ["union", a, b] =>
    match parseMask a, parseMask b with
    | some a, some b => (S, showPaths (union (pathsOf a) (pathsOf b)))
    | _, _ => bad
  | ["intersect", a, b] =>
    match parseMask a, parseMask b with
    | some a, some b => (S, showPaths (intersect (pathsOf a) (pathsOf b)))
    | _, _ => bad
  | ["validate", ty, w, m, r] =>
    match ty.toNat?, parseMask w, parseMask m, parseMask r with
    | some ty, some w, some m, some r => (S, (validate S ty ⟨w, m, r⟩).show)
    | _, _, _, _ => bad
  | ["merge", ty, w, m, r, d, s] =>
    match ty.toNat?, parseMask w, parseMask m, parseMask r, parseMessage d, parseMessage s with
    | some ty, some w, some m, some r, some d, some s =>
      match merge S ty ⟨w, m, r⟩ d s with
      | some out => (S, showMsg out.dst ++ " " ++ showMsg out.src)
      | none => (S, "panic")
    | _, _, _, _, _, _ => bad
  | ["set", ty, rw, mw, all, m, r, d, s] =>
    match ty.toNat?, parseMask rw, parseMask mw, Line.parseBool? all, parseMask m, parseMask r,
        parseMessage d, parseMessage s with
    | some ty, some rw, some mw, some all, some m, some r, some d, some s =>
      let u := fieldUpdater rw (moreWritable mw) all m r
      (S, showSetOut (valueSet S ty u d s))
    | _, _, _, _, _, _, _, _ => bad
  | ["iset", ty, rw, m, d, s, bi, ai] =>
    -- one Value.Set / Collection.Update with delta interceptors (integer fields) before / after the merge
    match ty.toNat?, parseMask rw, parseMask m, parseMessage d, parseMessage s, parseKeys bi, parseKeys ai with
    | some ty, some rw, some m, some d, some s, some bi, some ai =>
      let u := fieldUpdater rw none false m none
      match valueSetI S ty u (bi.map deltaIcpt) (ai.map deltaIcpt) d s with
      | .ok st _ => (S, showMsg st)
      | o => (S, showSetOut o)
    | _, _, _, _, _, _, _ => bad
  | ["iset", ty, rw, m, r, d, s, bi, ai] =>
    -- the same with a reset mask of the server's own (lightpb MemoryDevice: WithResetPaths next to the request's mask)
    match ty.toNat?, parseMask rw, parseMask m, parseMask r, parseMessage d, parseMessage s, parseKeys bi, parseKeys ai with
    | some ty, some rw, some m, some r, some d, some s, some bi, some ai =>
      let u := fieldUpdater rw none false m r
      match valueSetI S ty u (bi.map deltaIcpt) (ai.map deltaIcpt) d s with
      | .ok st _ => (S, showMsg st)
      | o => (S, showSetOut o)
    | _, _, _, _, _, _, _, _ => bad
  | ["wseq", ty, ro, d, steps] =>
    match ty.toNat?, parseList parseROpt ro, parseMessage d, (steps.splitOn "|").mapM parseStep with
    | some ty, some ro, some d, some steps =>
      match resourceWritable S ty ro with
      | none => (S, "config-panic")
      | some resW => (S, " | ".intercalate ((runSeq S ty resW d steps).map showSetOut))
    | _, _, _, _ => bad
  | ["race", ty, ro, d, outer, rivals] =>
    match ty.toNat?, parseList parseROpt ro, parseMessage d, parseStep outer,
        (if rivals = "_" then some [] else (rivals.splitOn "|").mapM parseRivalStep) with
    | some ty, some ro, some d, some outer, some rivals =>
      match resourceWritable S ty ro with
      | none => (S, "config-panic")
      | some resW =>
        let pre := (rivals.filter (fun r => !r.1)).map (fun r => Step.rival resW r.2)
        let post := (rivals.filter (fun r => r.1)).map (fun r => Step.rival resW r.2)
        let r := raceSetPhased protoEqual S ty (outer.rival resW).u d outer.src pre post
        (S, showRaceOut r.out ++ " => " ++ showMsg r.stored)
    | _, _, _, _, _ => bad
  | ["rvalidate", ty, m] =>
    match ty.toNat?, parseMask m with
    | some ty, some m => (S, Line.showBool (C06.validate S ty m))
    | _, _ => bad
  | ["rfilter", m, x] =>
    match parseMask m, parseMessage x with
    | some m, some fs => (S, showOut (C06.filterClone m fs))
    | _, _ => bad
  | ["project", m, x] =>
    match parseMask m, parseMessage x with
    | some m, some fs => (S, showMsg (C06.projectMask m fs))
    | _, _ => bad
  | _ => bad

end ScVerif.C05
