import ScVerif.Base.Line
import ScVerif.C05.Codec
import ScVerif.C06.Get
/-!
Driver handler shared by driverC05 and driverC06 (stateful: the state is the schema sent by the
harness in a `schema` line, taken from the real descriptors through protoreflect).

  schema <schema>                                   -> ok
  nested <mask>                                     -> fmutils.NestedMaskFromPaths, canonical
  filter|prune <mask> <msg>                         -> msg | panic        (fmutils.Filter / Prune)
  pmerge <ty> <dst> <src>                           -> msg                (proto.Merge)
  isvalid <ty> <mask>                               -> true|false
  normalize <mask> ; union|intersect <mask> <mask>  -> paths
  validate <ty> <W> <M> <R>                         -> OK|InvalidArgument|Internal
  merge <ty> <W> <M> <R> <dst> <src>                -> <dst'> <src'> | panic
  set <ty> <resW> <moreW> <all:0|1> <M> <R> <stored> <src>
                                                    -> err:<code> | panic | <stored'> <src'>
  rvalidate <ty> <mask>                             -> true|false          (ResponseFilter.Validate)
  rfilter <mask> <msg>                              -> msg | panic         (ResponseFilter.Filter/FilterClone)
  project <mask> <msg>                              -> msg                 (C06 specification)
-/
namespace ScVerif.C05
open Codec

def showOut (o : Out Fields) : String :=
  match o with
  | some fs => showMsg fs
  | none => "panic"

def pathsOf (m : Option (List Path)) : List Path := m.getD []

def handleS (S : Schema) (toks : List String) : Schema × String :=
  let bad := (S, "!bad-op")
  match toks with
  | ["schema", s] =>
    match parseSchema s with
    | some S' => (S', "ok")
    | none => bad
  | ["nested", m] =>
    match parseMask m with
    | some m => (S, showNested (Mask.fromPaths (pathsOf m)))
    | none => bad
  | ["filter", m, x] =>
    match parseMask m, parseMessage x with
    | some m, some fs => (S, showOut (filterMsg (Mask.fromPaths (pathsOf m)) fs))
    | _, _ => bad
  | ["prune", m, x] =>
    match parseMask m, parseMessage x with
    | some m, some fs => (S, showOut (pruneMsg (Mask.fromPaths (pathsOf m)) fs))
    | _, _ => bad
  | ["pmerge", ty, d, s] =>
    match ty.toNat?, parseMessage d, parseMessage s with
    | some ty, some d, some s => (S, showMsg (mergeFields S ty d s))
    | _, _, _ => bad
  | ["isvalid", ty, m] =>
    match ty.toNat?, parseMask m with
    | some ty, some m => (S, Line.showBool (isValid S ty (pathsOf m)))
    | _, _ => bad
  | ["normalize", a] =>
    match parseMask a with
    | some a => (S, showPaths (normalize (pathsOf a)))
    | none => bad
  | ["union", a, b] =>
    match parseMask a, parseMask b with
    | some a, some b => (S, showPaths (union (pathsOf a) (pathsOf b)))
    | _, _ => bad
  | ["intersect", a, b] =>
    match parseMask a, parseMask b with
    | some a, some b => (S, showPaths (intersect (pathsOf a) (pathsOf b)))
    | _, _ => bad
  | ["validate", ty, w, m, r] =>
    match ty.toNat?, parseMask w, parseMask m, parseMask r with
    | some ty, some w, some m, some r => (S, (validate S ty ⟨w, m, r⟩).show)
    | _, _, _, _ => bad
  | ["merge", ty, w, m, r, d, s] =>
    match ty.toNat?, parseMask w, parseMask m, parseMask r, parseMessage d, parseMessage s with
    | some ty, some w, some m, some r, some d, some s =>
      match merge S ty ⟨w, m, r⟩ d s with
      | some out => (S, showMsg out.dst ++ " " ++ showMsg out.src)
      | none => (S, "panic")
    | _, _, _, _, _, _ => bad
  | ["set", ty, rw, mw, all, m, r, d, s] =>
    match ty.toNat?, parseMask rw, parseMask mw, Line.parseBool? all, parseMask m, parseMask r,
        parseMessage d, parseMessage s with
    | some ty, some rw, some mw, some all, some m, some r, some d, some s =>
      let u := fieldUpdater rw (moreWritable mw) all m r
      match valueSet S ty u d s with
      | .err c => (S, "err:" ++ c.show)
      | .panic => (S, "panic")
      | .ok st src => (S, showMsg st ++ " " ++ showMsg src)
    | _, _, _, _, _, _, _, _ => bad
  | ["rvalidate", ty, m] =>
    match ty.toNat?, parseMask m with
    | some ty, some m => (S, Line.showBool (C06.validate S ty m))
    | _, _ => bad
  | ["rfilter", m, x] =>
    match parseMask m, parseMessage x with
    | some m, some fs => (S, showOut (C06.filterClone m fs))
    | _, _ => bad
  | ["project", m, x] =>
    match parseMask m, parseMessage x with
    | some m, some fs => (S, showMsg (C06.projectMask m fs))
    | _, _ => bad
  | _ => bad

end ScVerif.C05
