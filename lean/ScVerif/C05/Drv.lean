import ScVerif.Base.Line
/-! Driver handler for C05 (stub: replaced by the property's owner). -/
namespace ScVerif.C05

def handle (_toks : List String) : String := "!bad-op"

end ScVerif.C05
