import ScVerif.C05.Update
/-
Model of the option plumbing of `pkg/resource/opt.go` that decides which masks a write runs with:

* resource construction: `WithWritableFields(mask)`, `WithWritablePaths(m, paths...)` (`computeConfig`),
* per write: `WithUpdateMask/Paths`, `WithMoreUpdateMask/Paths`, `WithResetMask/Paths`,
  `WithMoreWritableFields/Paths`, `WithAllFieldsWritable` applied in order by `ComputeWriteConfig`,
* `WriteRequest.fieldUpdater(resourceWritable)`,
* and sequences of writes on ONE `Value` / one item of a `Collection`: every write builds its own
  `FieldUpdater` from its own options and the resource's writable fields; nothing else is carried
  from one write to the next but the stored message.

A mask is `Option (List Path)`, `none` being Go's nil `*FieldMask`.
-/
namespace ScVerif.C05

/-- The mask-related fields of `resource.WriteRequest`. -/
structure WriteRequest where
  update : Option (List Path)
  reset : Option (List Path)
  nilWritable : Bool
  moreWritable : Option (List Path)
deriving DecidableEq, Repr, Inhabited

/-- `&WriteRequest{}`. -/
def WriteRequest.empty : WriteRequest := ⟨none, none, false, none⟩

/-- The mask-related `resource.WriteOption`s.  The `…Paths(ps...)` variants are the `…Mask` variants
with `some ps` (`&FieldMask{Paths: ps}`, non-nil even without paths). -/
inductive WOpt where
  | updateMask (m : Option (List Path))       -- WithUpdateMask / WithUpdatePaths
  | moreUpdateMask (m : Option (List Path))   -- WithMoreUpdateMask / WithMoreUpdatePaths
  | resetMask (m : Option (List Path))        -- WithResetMask / WithResetPaths
  | moreWritable (m : Option (List Path))     -- WithMoreWritableFields / WithMoreWritablePaths
  | allWritable                               -- WithAllFieldsWritable
deriving DecidableEq, Repr, Inhabited

/-- `opt.apply(request)`. -/
def WOpt.apply (r : WriteRequest) : WOpt → WriteRequest
  | .updateMask m => { r with update := m }
  | .moreUpdateMask m =>
    match r.update with
    | none => r                                -- a nil update mask means all fields are writable anyway
    | some M => { r with update := some (M ++ m.getD []) }   -- paths kept as given (5cc1d68), not `Union`
  | .resetMask m => { r with reset := m }
  | .moreWritable m => { r with moreWritable := some (union (r.moreWritable.getD []) (m.getD [])) }
  | .allWritable => { r with nilWritable := true }

/-- `WithMoreUpdateMask` as it was before 5cc1d68 (`fieldmaskpb.Union`, which normalises): kept only
for the `C05_more_update_legacy_fails` witness; nothing ties it to the current code. -/
def WOpt.applyLegacy (r : WriteRequest) : WOpt → WriteRequest
  | .moreUpdateMask m =>
    match r.update with
    | none => r
    | some M => { r with update := some (union M (m.getD [])) }
  | o => WOpt.apply r o

/-- The mask-related option CONSTRUCTORS of `pkg/resource/opt.go`, as a caller writes them. -/
inductive WCtor where
  | withUpdateMask (m : Option (List Path))
  | withUpdatePaths (ps : List Path)
  | withMoreUpdateMask (m : Option (List Path))
  | withMoreUpdatePaths (ps : List Path)
  | withResetMask (m : Option (List Path))
  | withResetPaths (ps : List Path)
  | withMoreWritableFields (m : Option (List Path))
  | withMoreWritablePaths (ps : List Path)
  | withAllFieldsWritable
deriving DecidableEq, Repr, Inhabited

/-- `&fieldmaskpb.FieldMask{Paths: paths}`: a non-nil mask (also without paths) that holds the
variadic paths exactly as given — same order, duplicates, paths inside other paths and paths that do
not exist in the message all kept; no `Normalize`, no validation at this point. -/
def maskOfPaths (ps : List Path) : Option (List Path) := some ps

/-- What each constructor returns: every `With…Paths(paths...)` is its `With…Mask` sibling applied to
`&FieldMask{Paths: paths}`. -/
def WCtor.opt : WCtor → WOpt
  | .withUpdateMask m => .updateMask m
  | .withUpdatePaths ps => .updateMask (maskOfPaths ps)
  | .withMoreUpdateMask m => .moreUpdateMask m
  | .withMoreUpdatePaths ps => .moreUpdateMask (maskOfPaths ps)
  | .withResetMask m => .resetMask m
  | .withResetPaths ps => .resetMask (maskOfPaths ps)
  | .withMoreWritableFields m => .moreWritable m
  | .withMoreWritablePaths ps => .moreWritable (maskOfPaths ps)
  | .withAllFieldsWritable => .allWritable

/-- The mask handed to an update-mask constructor (`some none`: a nil mask); `none` for the others. -/
def WCtor.updateGiven : WCtor → Option (Option (List Path))
  | .withUpdateMask m => some m
  | .withUpdatePaths ps => some (some ps)
  | _ => none

/-- The paths handed to a more-update constructor (none for a nil mask and for the others). -/
def WCtor.moreUpdateGiven : WCtor → List Path
  | .withMoreUpdateMask m => m.getD []
  | .withMoreUpdatePaths ps => ps
  | _ => []

/-- The mask handed to a reset-mask constructor; `none` for the others. -/
def WCtor.resetGiven : WCtor → Option (Option (List Path))
  | .withResetMask m => some m
  | .withResetPaths ps => some (some ps)
  | _ => none

/-- `ComputeWriteConfig(opts...)`. -/
def computeWriteConfig (opts : List WOpt) : WriteRequest := opts.foldl WOpt.apply .empty

/-- `WriteRequest.fieldUpdater(writableFields)`. -/
def WriteRequest.fieldUpdater (r : WriteRequest) (resW : Option (List Path)) : Updater :=
  ScVerif.C05.fieldUpdater resW r.moreWritable r.nilWritable r.update r.reset

/-- The writable-field options of resource construction. -/
inductive ROpt where
  | writableFields (m : Option (List Path))   -- WithWritableFields(mask)
  | writablePaths (ps : List Path)            -- WithWritablePaths(m, paths...) = fieldmaskpb.New or panic
  /-- WithClock / WithEquivalence / WithMessageEquivalence / WithNoDuplicates / WithRNG /
  WithIDInterceptor: each assigns ANOTHER field of `config` (clock, equivalence, rng, idInterceptor) -/
  | other (name : String)
deriving DecidableEq, Repr, Inhabited

/-- One construction option applied to `config.writableFields`; `none` is the panic of
`WithWritablePaths` on a path that is not valid for the message type. -/
def ROpt.apply (S : Schema) (ty : Nat) (w : Out (Option (List Path))) : ROpt → Out (Option (List Path))
  | .writableFields m => w.map (fun _ => m)
  | .writablePaths ps => if isValid S ty ps then w.map (fun _ => some ps) else none
  | .other _ => w

/-- `computeConfig(opts...).writableFields`: every option assigns the field, the last one wins. -/
def resourceWritable (S : Schema) (ty : Nat) (opts : List ROpt) : Out (Option (List Path)) :=
  opts.foldl (ROpt.apply S ty) (some none)

/-- One write of a sequence: its options, the written message, and whether it is a
`Collection.Add` of a NEW item (which starts from an empty message and is not the tracked item). -/
structure Step where
  opts : List WOpt
  src : Fields
  fresh : Bool
deriving Repr, Inhabited

/-- One `Value.Set` / `Collection.Update` / `Collection.Add` with the given options. -/
def writeWith (S : Schema) (ty : Nat) (resW : Option (List Path)) (opts : List WOpt)
    (stored src : Fields) : SetOut :=
  valueSet S ty ((computeWriteConfig opts).fieldUpdater resW) stored src

def Step.run (S : Schema) (ty : Nat) (resW : Option (List Path)) (stored : Fields) (s : Step) : SetOut :=
  writeWith S ty resW s.opts (if s.fresh then .nil else stored) s.src

/-- The stored message (of the tracked item) after a step with the given outcome. -/
def Step.next (s : Step) (stored : Fields) : SetOut → Fields
  | .ok st _ => if s.fresh then stored else st
  | _ => stored

/-- A sequence of writes on one resource: the outcomes, in order (a panic ends the sequence). -/
def runSeq (S : Schema) (ty : Nat) (resW : Option (List Path)) : Fields → List Step → List SetOut
  | _, [] => []
  | stored, s :: rest =>
    let o := s.run S ty resW stored
    match o with
    | .panic => [o]
    | _ => o :: runSeq S ty resW (s.next stored o) rest

/-- The stored message after a sequence of writes (a panic ends the sequence). -/
def finalStored (S : Schema) (ty : Nat) (resW : Option (List Path)) : Fields → List Step → Fields
  | stored, [] => stored
  | stored, s :: rest =>
    match s.run S ty resW stored with
    | .panic => stored
    | o => finalStored S ty resW (s.next stored o) rest

end ScVerif.C05
