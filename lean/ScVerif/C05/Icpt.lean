import ScVerif.C05.Opts
import ScVerif.C05.Lemmas
/-
Model of the two interceptors of a write, `resource.InterceptBefore` / `resource.InterceptAfter`
(`pkg/resource/opt.go`, `WriteRequest.changeFn`), as the trait servers use them together with the
request's `update_mask` (countpb/speakerpb/fanspeedpb/modepb: a `delta` / `relative` flag adds the
stored value to the written one in `InterceptBefore`; emergencypb/fanspeedpb: derived fields are set
in `InterceptAfter`):

```
writer.Validate(value)                       -- Value.set / Collection.Update, before anything else
... GetAndUpdate(...):
  interceptBefore(old, value)                -- edits the WRITTEN message, sees the stored one
  writer.Merge(dst, value)                   -- dst: a clone of the stored message
  interceptAfter(old, dst)                   -- edits the MERGED message: nothing filters it afterwards
```

Go's interceptors edit their second argument in place; the model's return the edited message.  The
theorems quantify over ALL functions; the driver knows one closed family (`deltaIcpt`: add the stored
integer to the written one on named top-level fields), shared with the harness.
-/
namespace ScVerif.C05

/-- `resource.UpdateInterceptor` (`func(old, new proto.Message)`), returning the edited `new`. -/
abbrev Icpt := Fields → Fields → Fields

/-- `if wr.interceptX != nil { wr.interceptX(old, m) }`. -/
def Icpt.run : Option Icpt → Fields → Fields → Fields
  | none, _, m => m
  | some f, old, m => f old m

/-- `Value.set` / `Collection.Update` with interceptors (no expectations, no rivals): validate the
request, let `before` edit the written message, merge it into a clone of the stored one, let `after`
edit the merged message, save. -/
def valueSetI (S : Schema) (ty : Nat) (u : Updater) (before after : Option Icpt)
    (stored src : Fields) : SetOut :=
  match validate S ty u with
  | .ok =>
    match merge S ty u stored (Icpt.run before stored src) with
    | none => .panic
    | some r => .ok (Icpt.run after stored r.dst) r.src
  | c => .err c

/-- Without interceptors this is `valueSet`. -/
theorem valueSetI_none (S : Schema) (ty : Nat) (u : Updater) (stored src : Fields) :
    valueSetI S ty u none none stored src = valueSet S ty u stored src := by
  unfold valueSetI valueSet
  cases validate S ty u <;> simp only [Icpt.run]
  cases merge S ty u stored src <;> rfl

/-- A write with a before-interceptor only is the plain write of the edited message. -/
theorem valueSetI_before (S : Schema) (ty : Nat) (u : Updater) (before : Option Icpt)
    (stored src : Fields) :
    valueSetI S ty u before none stored src = valueSet S ty u stored (Icpt.run before stored src) := by
  unfold valueSetI valueSet
  cases validate S ty u <;> simp only [Icpt.run]
  cases merge S ty u stored (Icpt.run before stored src) <;> rfl

/-- What a successful intercepted write stores, in terms of `merge`. -/
theorem valueSetI_ok (S : Schema) (ty : Nat) (u : Updater) (before after : Option Icpt)
    (stored src st s : Fields) (h : valueSetI S ty u before after stored src = .ok st s) :
    validate S ty u = .ok ∧
      ∃ r, merge S ty u stored (Icpt.run before stored src) = some r ∧
        st = Icpt.run after stored r.dst ∧ s = r.src := by
  unfold valueSetI at h
  cases hv : validate S ty u <;> rw [hv] at h <;> simp only at h
  · cases hm : merge S ty u stored (Icpt.run before stored src) with
    | none => rw [hm] at h; cases h
    | some r =>
      rw [hm] at h
      simp only [SetOut.ok.injEq] at h
      exact ⟨rfl, r, rfl, h.1.symm, h.2.symm⟩
  all_goals cases h

/-- The masks of a `Set` call of a trait server: the request's mask, the server's reset paths, the
resource's writable fields (normalised by `WithWritablePaths`). -/
theorem rpcAsStated_updater (resW R reqMask : Option (List Path)) :
    (fieldUpdater resW none false reqMask R).update = reqMask ∧
    (fieldUpdater resW none false reqMask R).reset = R ∧
    (fieldUpdater resW none false reqMask R).writable = resW.map (fun w => union w []) := by
  rw [fieldUpdater_eq]; cases resW <;> simp

/-- A mask without a path through `k` still has none after `WithMoreUpdatePaths(l)` with another
top-level field `l`. -/
theorem noHead_append_single {k l : Name} {M : List Path} (h : NoHead k M) (hl : l ≠ k) :
    NoHead k (M ++ [[l]]) := by
  unfold NoHead at *
  apply List.eq_nil_iff_forall_not_mem.mpr
  intro t ht
  have hm := mem_tails.mp ht
  rcases List.mem_append.mp hm with h1 | h1
  · have : t ∈ tails k M := mem_tails.mpr h1
    rw [h] at this; cases this
  · simp at h1; exact hl h1.1.symm

/-! ## The driver's interceptor family -/

/-- An integer token (`i<decimal>`; an unpopulated field is 0). -/
def tokInt : Option Val → Int
  | some (.sc s) => if s.startsWith "i" then ((s.drop 1).toString.toInt?).getD 0 else 0
  | _ => 0

/-- Integer addition on scalar tokens of a proto3 message (`none`: not populated = 0).  No
wrap-around: the harness keeps the sums far inside int32. -/
def intAdd (a b : Option Val) : Option Val :=
  let s := tokInt a + tokInt b
  if s = 0 then none else some (.sc ("i" ++ toString s))

/-- `new.k += old.k` on a scalar field, for an addition `add` on (possibly unpopulated) tokens. -/
def addFieldWith (add : Option Val → Option Val → Option Val) (old new : Fields) (k : Name) : Fields :=
  match add (new.get k) (old.get k) with
  | none => new.erase k
  | some v => new.put k v

/-- The `delta` interceptor of the count device (and of every "relative update" of scalar fields):
`for k in keys { new.k += old.k }`, the arithmetic on tokens being a parameter. -/
def deltaIcptWith (add : Option Val → Option Val → Option Val) (keys : List Name) : Icpt :=
  fun old new => keys.foldl (addFieldWith add old) new

/-- The driver's family: integer fields. -/
def deltaIcpt (keys : List Name) : Icpt := deltaIcptWith intAdd keys

/-- A delta interceptor touches the named fields only. -/
theorem deltaIcptWith_get_other (add : Option Val → Option Val → Option Val) (k : Name) :
    ∀ (keys : List Name) (old new : Fields), k ∉ keys → (deltaIcptWith add keys old new).get k = new.get k := by
  intro keys
  induction keys with
  | nil => intro old new _; rfl
  | cons a rest ih =>
    intro old new hk
    have hne : k ≠ a := fun e => hk (e ▸ List.mem_cons_self)
    have hrest : k ∉ rest := fun e => hk (List.mem_cons_of_mem _ e)
    show (deltaIcptWith add rest old (addFieldWith add old new a)).get k = new.get k
    rw [ih old _ hrest]
    unfold addFieldWith
    split
    · exact Fields.get_erase_other hne new
    · exact Fields.get_put_other _ hne new

end ScVerif.C05
