import ScVerif.C05.Lemmas
import ScVerif.C06.Lemmas
/-!
# C05 — writes respect update, writable-field and reset masks

Model: `ScVerif/C05/Update.lean` (`FieldUpdater.Validate`, `FieldUpdater.Merge`, `pruneEmpty`,
`WriteRequest.fieldUpdater`, `Value.set`) over the library models of `ScVerif/C05/Lib.lean`.
`merge … = none` is a panic inside fmutils; a mask is `Option (List Path)`, `none` being Go's nil.

The unchanged code violates several clauses of the property (see known_findings/C05.json); for each
the full-strength statement is in the doc comment, a `_fails` theorem gives the witness on the
model (the same input fails on the real code, replayed by the check) and a `_partial` theorem states
what does hold, for all inputs, with its extra hypothesis explicit.
-/
namespace ScVerif.C05
open ScVerif.C06 (GoodPath validPath_iff)

/-- Field `k` of a message of type `ty` can not be displaced by assigning another field: it is not
a member of any oneof that has another member. -/
def NotDisplaced (S : Schema) (ty : Nat) (k : Name) : Prop := ∀ n, k ∉ S.sibs ty n

/-- **C05_empty_mask** (full strength).  An empty non-nil update mask changes nothing in the stored
message, whatever the other masks and messages are. -/
theorem C05_empty_mask (S : Schema) (ty : Nat) (u : Updater) (dst src : Fields) (r : Merged)
    (hM : u.update = some []) (h : merge S ty u dst src = some r) : r.dst = dst := by
  unfold merge at h
  by_cases hW : u.writable = some []
  · simp [hW] at h; rw [← h]
  · simp only [hW, if_false, hM] at h
    split at h
    · cases h
    · simp at h; rw [← h]

/-- **C05_rejects_unknown** (full strength for the unknown-path clause).  An update mask with a
path that is not well-formed for the message type — unknown segment, empty path, continuation
through a scalar, map or repeated field — is rejected with `InvalidArgument`, whatever the
writable and reset masks are.  (`Value.set` / `Collection.Update` return before touching the
store: `valueSet` yields `.err`.) -/
theorem C05_rejects_unknown (S : Schema) (ty : Nat) (u : Updater) (M : List Path)
    (hM : u.update = some M) (h : ∃ p ∈ M, ¬ GoodPath S ty p) :
    validate S ty u = .invalidArgument ∧
      ∀ stored src, valueSet S ty u stored src = .err .invalidArgument := by
  have hv : isValid S ty M = false := by
    obtain ⟨p, hp, hbad⟩ := h
    cases hh : isValid S ty M with
    | false => rfl
    | true =>
      have := (List.all_eq_true.mp hh) p hp
      exact absurd ((validPath_iff S ty p).mp this) hbad
  have : validate S ty u = .invalidArgument := by simp [validate, hM, hv]
  exact ⟨this, fun stored src => by simp [valueSet, this]⟩

/-- A schema for the witnesses: type 0 = {f : message 1, g : scalar}, type 1 = {c, d : scalar}. -/
def wSchema : Schema :=
  [[⟨"f", .message 1, 0⟩, ⟨"g", .scalar, 0⟩], [⟨"c", .scalar, 0⟩, ⟨"d", .scalar, 0⟩]]

/-- stored `{f={c=1,d=2}, g=7}` -/
def wStored : Fields :=
  .cons "f" (.msg (.cons "c" (.sc "i1") (.cons "d" (.sc "i2") .nil))) (.cons "g" (.sc "i7") .nil)

/--
Full-strength statement (false): an update path outside the writable fields ⇒ `InvalidArgument`.

**Witness (C05_rejects_fails).**  Writable `{f.c, f.d}`, update mask `{f, g}`: `g` is related to no
writable path, yet `Validate` accepts (the intersection `{f.c, f.d}` has as many paths as the update
mask), and the write then clears the stored `g`. -/
theorem C05_rejects_fails :
    ∃ (u : Updater) (src : Fields),
      u.writable = some [["f", "c"], ["f", "d"]] ∧ u.update = some [["f"], ["g"]] ∧
      validate wSchema 0 u = .ok ∧
      (merge wSchema 0 u wStored src).map (·.dst.get "g") = some none :=
  ⟨⟨some [["f", "c"], ["f", "d"]], some [["f"], ["g"]], none⟩, .cons "g" (.sc "i9") .nil,
   rfl, rfl, by decide, by decide⟩

/--
Full-strength statement (false on this tree):
  `validate = ok → merge = some r → ∀ leaf path p ∉ ⟦M⟧∩⟦W⟧, p ∉ ⟦R⟧ → r.dst.getPath p = dst.getPath p`.

**Witness (C05_frame_fails_nested).**  Update mask `{f.c}`, everything writable, written message
without `f`: the whole of `f` is cleared, so `f.d` — outside the mask — is lost. -/
theorem C05_frame_fails_nested :
    ∃ (u : Updater) (src : Fields) (r : Merged),
      u = ⟨none, some [["f", "c"]], none⟩ ∧ validate wSchema 0 u = .ok ∧
      merge wSchema 0 u wStored src = some r ∧
      wStored.getPath ["f", "d"] = some (.sc "i2") ∧ r.dst.getPath ["f", "d"] = none :=
  ⟨_, .cons "g" (.sc "i9") .nil, ⟨.cons "g" (.sc "i7") .nil, .nil⟩, rfl, by decide, by decide, by decide, by decide⟩

/-- **Witness (C05_frame_fails_wider).**  Update mask `{f}`, writable `{f.c}`, written message
without `f`: accepted, and the whole of `f` is cleared including `f.d`, which is not writable. -/
theorem C05_frame_fails_wider :
    ∃ (u : Updater) (src : Fields) (r : Merged),
      u = ⟨some [["f", "c"]], some [["f"]], none⟩ ∧ validate wSchema 0 u = .ok ∧
      merge wSchema 0 u wStored src = some r ∧
      wStored.getPath ["f", "d"] = some (.sc "i2") ∧ r.dst.getPath ["f", "d"] = none :=
  ⟨_, .cons "g" (.sc "i9") .nil, ⟨.cons "g" (.sc "i7") .nil, .nil⟩, rfl, by decide, by decide, by decide, by decide⟩

/-- **C05_frame_partial.**  For every schema, message type, stored and written message, writable,
reset and non-empty update mask (paths without empty segments): a field `k` that is the first
segment of no update path and of no reset path, and that no oneof assignment can displace, is in
the result exactly what it was — together with everything below it.  (The hypothesis is on first
segments: it is what the frame clause says for every path whose top-level field the masks do not
mention, in particular for all flat masks; the two witnesses above are about paths *below* a
mentioned field.) -/
theorem C05_frame_partial (S : Schema) (ty : Nat) (u : Updater) (dst src : Fields) (r : Merged)
    (m : Path) (ms : List Path) (k : Name)
    (hM : u.update = some (m :: ms)) (hMc : Clean (m :: ms)) (hm : m ≠ [])
    (hk : NoHead k (m :: ms))
    (hR : ∀ R, u.reset = some R → Clean R ∧ NoHead k R)
    (hd : NotDisplaced S ty k)
    (h : merge S ty u dst src = some r) :
    r.dst.get k = dst.get k ∧ ∀ p, r.dst.getPath (k :: p) = dst.getPath (k :: p) := by
  suffices hget : r.dst.get k = dst.get k by
    refine ⟨hget, fun p => ?_⟩
    cases p with
    | nil => simpa [Fields.getPath] using hget
    | cons k' rest => simp [Fields.getPath, hget]
  unfold merge at h
  by_cases hW : u.writable = some []
  · simp [hW] at h; rw [← h]
  · simp only [hW, if_false, hM] at h
    split at h
    · cases h
    next src1 _ =>
      simp only [Option.getD_some] at h
      have hne := fromPaths_not_empty hMc hm
      have hfind := find_fromPaths_noHead hMc hk
      split at h
      · cases h
      next src2 hf2 =>
        have hsrc2 : src2.get k = none := by
          unfold filterMsg at hf2
          simp only [hne, Bool.false_eq_true, if_false] at hf2
          exact get_filterFields_none _ k hfind src1 src2 hf2
        have h3 : (pruneEmpty (Mask.fromPaths (m :: ms)) src2 (mergeFields S ty dst src2)).get k = dst.get k := by
          rw [get_pruneEmpty_other _ _ k hfind, get_mergeFields_other S ty k hd src2 dst hsrc2]
        split at h
        · simp only [Option.some.injEq] at h
          rw [← h]; exact h3
        next R hr =>
          obtain ⟨hRc, hRk⟩ := hR R hr
          cases hp : pruneMsg (Mask.fromPaths R) (pruneEmpty (Mask.fromPaths (m :: ms)) src2 (mergeFields S ty dst src2)) with
          | none => rw [hp] at h; cases h
          | some d4 =>
            rw [hp] at h
            simp only [Option.map_some, Option.some.injEq] at h
            rw [← h]
            simp only
            rw [get_pruneMsg_other _ k (find_fromPaths_noHead hRc hRk) _ _ hp]
            exact h3

/-- **C05_frame_partial_nil_mask.**  The same frame statement for a nil update mask ("all writable
fields"): a field that is the first segment of no writable path and of no reset path, and that no
oneof assignment can displace, is in the result exactly what it was. -/
theorem C05_frame_partial_nil_mask (S : Schema) (ty : Nat) (u : Updater) (dst src : Fields) (r : Merged)
    (w : Path) (ws : List Path) (k : Name)
    (hM : u.update = none) (hW : u.writable = some (w :: ws)) (hWc : Clean (w :: ws)) (hw : w ≠ [])
    (hk : NoHead k (w :: ws))
    (hR : ∀ R, u.reset = some R → Clean R ∧ NoHead k R)
    (hd : NotDisplaced S ty k)
    (h : merge S ty u dst src = some r) :
    r.dst.get k = dst.get k := by
  have hne := fromPaths_not_empty hWc hw
  have hfind := find_fromPaths_noHead hWc hk
  unfold merge at h
  simp only [hW, hM] at h
  rw [if_neg (by simp)] at h
  simp only [Option.isNone_some, Bool.false_eq_true, if_false] at h
  split at h
  · cases h
  next src1 hf1 =>
    have hsrc1 : src1.get k = none := by
      unfold filterMsg at hf1
      simp only [hne, Bool.false_eq_true, if_false] at hf1
      exact get_filterFields_none _ k hfind src src1 hf1
    cases hd1 : pruneMsg (Mask.fromPaths (w :: ws)) dst with
    | none => rw [hd1] at h; simp at h
    | some dst1 =>
      rw [hd1] at h
      have hdst1 : dst1.get k = dst.get k := get_pruneMsg_other _ k hfind dst dst1 hd1
      simp only [Option.getD_none] at h
      have hnil : Mask.fromPaths [] = Mask.nil := rfl
      rw [hnil] at h
      have hfm : filterMsg Mask.nil src1 = some src1 := by simp [filterMsg, Mask.isEmpty]
      rw [hfm] at h
      simp only at h
      have h3 : (pruneEmpty Mask.nil src1 (mergeFields S ty dst1 src1)).get k = dst.get k := by
        rw [get_pruneEmpty_other _ _ k rfl, get_mergeFields_other S ty k hd src1 dst1 hsrc1, hdst1]
      split at h
      · simp only [Option.some.injEq] at h
        rw [← h]; exact h3
      next R hr =>
        obtain ⟨hRc, hRk⟩ := hR R hr
        cases hp : pruneMsg (Mask.fromPaths R) (pruneEmpty Mask.nil src1 (mergeFields S ty dst1 src1)) with
        | none => rw [hp] at h; cases h
        | some d4 =>
          rw [hp] at h
          simp only [Option.map_some, Option.some.injEq] at h
          rw [← h]
          simp only
          rw [get_pruneMsg_other _ k (find_fromPaths_noHead hRc hRk) _ _ hp]
          exact h3
/--
Full-strength statement (false): a scalar path inside update∩writable ends up equal to the written
message's value.

**Witness (C05_scalar_in_fails).**  Update mask `{f, f.c}` (valid; as a path set equal to `{f}`):
`f.d` is inside the mask and written as 6, but keeps its stored value 2 — the nested mask built by
fmutils keeps only the child `c` under `f`. -/
theorem C05_scalar_in_fails :
    ∃ (u : Updater) (src : Fields) (r : Merged),
      u = ⟨none, some [["f"], ["f", "c"]], none⟩ ∧ validate wSchema 0 u = .ok ∧
      src.getPath ["f", "d"] = some (.sc "i6") ∧
      merge wSchema 0 u wStored src = some r ∧ r.dst.getPath ["f", "d"] = some (.sc "i2") :=
  ⟨_, .cons "f" (.msg (.cons "c" (.sc "i5") (.cons "d" (.sc "i6") .nil))) .nil,
   ⟨.cons "f" (.msg (.cons "c" (.sc "i5") (.cons "d" (.sc "i2") .nil))) (.cons "g" (.sc "i7") .nil),
    .cons "f" (.msg (.cons "c" (.sc "i5") .nil)) .nil⟩,
   rfl, by decide, by decide, by decide, by decide⟩

/--
Full-strength statement (false): every reset-mask path is absent from the result.

**Witness (C05_reset_fails_nothing_writable).**  With a non-nil empty writable mask `Merge`
returns before the reset mask is applied. -/
theorem C05_reset_fails_nothing_writable :
    ∃ (u : Updater) (r : Merged),
      u = ⟨some [], none, some [["g"]]⟩ ∧ validate wSchema 0 u = .ok ∧
      merge wSchema 0 u wStored .nil = some r ∧ r.dst.get "g" = some (.sc "i7") :=
  ⟨_, ⟨wStored, .nil⟩, rfl, by decide, by decide, by decide⟩

/-- **C05_reset_partial.**  Whenever something is writable and the update mask is not the empty
mask (the two early returns of `Merge`): a field named by a reset path, below which no reset path
continues, is absent from the result — for every schema, message pair and combination of the other
masks.  (`C05_reset_fails_nothing_writable` is the witness for the excluded early return.) -/
theorem C05_reset_partial (S : Schema) (ty : Nat) (u : Updater) (dst src : Fields) (r : Merged)
    (R : List Path) (k : Name)
    (hW : u.writable ≠ some []) (hM : u.update ≠ some [])
    (hR : u.reset = some R) (hRc : Clean R) (hk : [k] ∈ R) (hall : ∀ t ∈ tails k R, t = [])
    (h : merge S ty u dst src = some r) : r.dst.get k = none := by
  have hne : tails k R ≠ [] := by
    intro e; have := mem_tails.mpr hk; rw [e] at this; exact absurd this (List.not_mem_nil)
  have hfind : (Mask.fromPaths R).find k = some (Mask.insertAll .nil (tails k R)) := by
    rw [Mask.find_fromPaths hRc]
    cases ht : tails k R with
    | nil => exact absurd ht hne
    | cons _ _ => rfl
  have hsub : (Mask.insertAll .nil (tails k R)).isEmpty = true := (Mask.insertAll_nil_isEmpty _).mpr hall
  have hmask : (Mask.fromPaths R).isEmpty = false := by
    cases hm : Mask.fromPaths R with
    | nil => rw [hm] at hfind; simp [Mask.find] at hfind
    | cons _ _ _ => rfl
  have key : ∀ d d', pruneMsg (Mask.fromPaths R) d = some d' → d'.get k = none := by
    intro d d' hp
    unfold pruneMsg at hp
    simp only [hmask, Bool.false_eq_true, if_false] at hp
    exact get_pruneFields_cleared _ k _ hfind hsub d d' hp
  unfold merge at h
  simp only [hW, if_false, hR] at h
  split at h
  · cases h
  · split at h
    · cases hu : u.update with
      | none => simp [hu] at *
      | some M =>
        cases M with
        | nil => exact absurd hu hM
        | cons _ _ => simp [hu] at *
    · cases h
    · split at h
      · cases h
      · cases hp : pruneMsg (Mask.fromPaths R) _ with
        | none => rw [hp] at h; cases h
        | some d4 =>
          rw [hp] at h
          simp only [Option.map_some, Option.some.injEq] at h
          rw [← h]
          exact key _ _ hp
/-! ## Non-vacuity -/

/-- The hypotheses of `C05_reset_partial` and `C05_frame_partial_nil_mask` are satisfiable. -/
example : Clean [["g"]] ∧ [["g"]].contains ["g"] = true ∧ (∀ t ∈ tails "g" [["g"]], t = []) ∧
    (merge wSchema 0 ⟨none, none, some [["g"]]⟩ wStored .nil).isSome = true := by decide
example : Clean [["f", "c"]] ∧ NoHead "g" [["f", "c"]] ∧
    (merge wSchema 0 ⟨some [["f", "c"]], none, none⟩ wStored .nil).isSome = true := by decide


/-- The hypotheses of `C05_frame_partial` hold for the nested update mask `{f.c}` and field `g`
of the witness schema (and the write succeeds). -/
example : Clean [["f", "c"]] ∧ NoHead "g" [["f", "c"]] ∧
    (merge wSchema 0 ⟨none, some [["f", "c"]], none⟩ wStored .nil).isSome = true := by decide

example : NotDisplaced wSchema 0 "g" := by
  intro n; unfold Schema.sibs; cases h : wSchema.field 0 n with
  | none => simp
  | some fd =>
    have : fd.oneof = 0 := by
      have hm := List.mem_of_find?_eq_some h
      simp [Schema.fields, wSchema] at hm
      rcases hm with rfl | rfl <;> rfl
    simp [this]

/-- `C05_rejects_unknown` applies: `g.x` continues through a scalar, `nope` is unknown. -/
example : ¬ GoodPath wSchema 0 ["g", "x"] ∧ ¬ GoodPath wSchema 0 ["nope"] := by
  constructor <;> (intro h; have := (validPath_iff wSchema 0 _).mpr h; revert this; decide)

end ScVerif.C05
