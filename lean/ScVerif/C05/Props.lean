import ScVerif.C05.Frame
import ScVerif.C05.Legacy
import ScVerif.C06.Lemmas
/-!
# C05 — writes respect update, writable-field and reset masks

Model: `ScVerif/C05/Update.lean` (`FieldUpdater.Validate`, `FieldUpdater.Merge`, `pruneEmpty`,
`WriteRequest.fieldUpdater`, `Value.set`) over the library models of `ScVerif/C05/Lib.lean`, following
/repo after the fixes 4d3ae38 (per-path writable test), 37d17a7 (`pruneEmpty` prunes inside a message
the written message lacks), 40c1599 (`nestedMask`: nested paths dropped) and 70b9b73 (reset applied
when nothing is writable).  `merge … = none` is a panic inside fmutils; a mask is
`Option (List Path)`, `none` being Go's nil.  The defects those commits repaired are kept as
`…_legacy_…` witnesses over the old definitions (`ScVerif/C05/Legacy.lean`).
-/
namespace ScVerif.C05
open ScVerif.C06 (GoodPath validPath_iff NoEmptyName goodPath_segments goodPath_ne_nil)

/-- Field `k` of a message of type `ty` can not be displaced by assigning another field: it is not
a member of any oneof that has another member. -/
def NotDisplaced (S : Schema) (ty : Nat) (k : Name) : Prop := ∀ n, k ∉ S.sibs ty n

/-- **C05_empty_mask** (full strength).  An empty non-nil update mask changes nothing in the stored
message, whatever the other masks (reset mask included) and messages are. -/
theorem C05_empty_mask (S : Schema) (ty : Nat) (u : Updater) (dst src : Fields) (r : Merged)
    (hM : u.update = some []) (h : merge S ty u dst src = some r) : r.dst = dst := by
  unfold merge at h
  by_cases hW : u.writable = some []
  · simp [hW, hM] at h; rw [← h]
  · simp only [hW, if_false, hM] at h
    split at h
    · cases h
    · simp at h; rw [← h]

/-- **C05_rejects** (full strength).  An update mask with a path that is not well-formed for the
message type (unknown segment, empty path, continuation through a scalar, map or repeated field),
or — when writable fields are configured — with a path that is neither a writable path nor below
one (a strict parent of writable paths names fields outside them and counts), is rejected with
`InvalidArgument`; `Value.set` / `Collection.Update` then return before touching the store. -/
theorem C05_rejects (S : Schema) (ty : Nat) (u : Updater) (M : List Path)
    (hM : u.update = some M)
    (h : (∃ p ∈ M, ¬ GoodPath S ty p) ∨ (∃ W, u.writable = some W ∧ ∃ p ∈ M, ¬ InsideWritable W p)) :
    validate S ty u = .invalidArgument ∧
      ∀ stored src, valueSet S ty u stored src = .err .invalidArgument := by
  have : validate S ty u = .invalidArgument := by
    by_cases hv : isValid S ty M = true
    · rcases h with ⟨p, hp, hbad⟩ | ⟨W, hW, p, hp, hout⟩
      · exact absurd ((validPath_iff S ty p).mp (List.all_eq_true.mp hv p hp)) hbad
      · have : M.all (isWritablePath W) = false := by
          cases hh : M.all (isWritablePath W) with
          | false => rfl
          | true => exact absurd ((isWritablePath_iff W p).mp (List.all_eq_true.mp hh p hp)) hout
        simp [validate, hM, hv, hW, this]
    · simp [validate, hM, hv]
  exact ⟨this, fun stored src => by simp [valueSet, this]⟩

/-- **C05_accepts.**  Conversely `Validate` accepts exactly the well-formed update masks inside the
writable fields with a well-formed reset mask — duplicates and overlapping paths included (they were
rejected as "read-only" before 4d3ae38). -/
theorem C05_accepts (S : Schema) (ty : Nat) (u : Updater) :
    validate S ty u = .ok ↔
      (∀ M, u.update = some M → (∀ p ∈ M, GoodPath S ty p) ∧
          ∀ W, u.writable = some W → ∀ p ∈ M, InsideWritable W p) ∧
      (∀ R, u.reset = some R → ∀ p ∈ R, GoodPath S ty p) := by
  have hreset : validateReset S ty u = .ok ↔ ∀ R, u.reset = some R → ∀ p ∈ R, GoodPath S ty p := by
    unfold validateReset
    cases hr : u.reset with
    | none => simp
    | some R =>
      by_cases hv : isValid S ty R = true
      · simp only [hv, if_true, Option.some.injEq, forall_eq', true_iff]
        intro p hp; exact (validPath_iff S ty p).mp (List.all_eq_true.mp hv p hp)
      · simp only [hv, Bool.false_eq_true, if_false, Option.some.injEq, forall_eq', reduceCtorEq, false_iff]
        intro hall
        exact hv (List.all_eq_true.mpr (fun p hp => (validPath_iff S ty p).mpr (hall p hp)))
  unfold validate
  cases hm : u.update with
  | none => simp [hreset]
  | some M =>
    by_cases hv : isValid S ty M = true
    · have hgood : ∀ p ∈ M, GoodPath S ty p := fun p hp =>
        (validPath_iff S ty p).mp (List.all_eq_true.mp hv p hp)
      cases hw : u.writable with
      | none => simp [hv, hreset]; exact fun _ => hgood
      | some W =>
        by_cases hin : M.all (isWritablePath W) = true
        · have hins : ∀ p ∈ M, InsideWritable W p := fun p hp =>
            (isWritablePath_iff W p).mp (List.all_eq_true.mp hin p hp)
          simp [hv, hin, hreset]; exact fun _ => ⟨hgood, hins⟩
        · simp only [hv, hin, Bool.not_true, Bool.false_eq_true, if_false, Bool.not_false, if_true,
            reduceCtorEq, Option.some.injEq, forall_eq', false_iff]
          rintro ⟨⟨_, hins⟩, _⟩
          exact hin (List.all_eq_true.mpr (fun p hp => (isWritablePath_iff W p).mpr (hins p hp)))
    · simp only [hv, Bool.not_false, if_true, reduceCtorEq, Option.some.injEq, forall_eq', false_iff]
      rintro ⟨⟨hgood, _⟩, _⟩
      exact hv (List.all_eq_true.mpr (fun p hp => (validPath_iff S ty p).mpr (hgood p hp)))

/-- **C05_nothing_writable** (a read-only resource: writable mask NON-NIL WITHOUT PATHS — not to be
confused with a nil writable mask, which means everything is writable).  For every schema, messages,
update and reset mask, with `W = some []`:
* every update mask that has at least one path is rejected with `InvalidArgument` (its paths, valid or
  not, lie outside the empty set of writable fields);
* an accepted write copies NOTHING from the written message, which is left as it was;
* with an empty non-nil update mask, or without reset mask, the stored message is exactly what it
  was; otherwise (nil update mask and a reset mask) it is the stored message with the reset mask
  applied — so every path unrelated to the reset paths holds what it held, at any depth, with no
  hypothesis on the trees. -/
theorem C05_nothing_writable (S : Schema) (ty : Nat) (u : Updater) (dst src : Fields)
    (hW : u.writable = some []) :
    (∀ M, u.update = some M → M ≠ [] →
      validate S ty u = .invalidArgument ∧ ∀ stored src', valueSet S ty u stored src' = .err .invalidArgument) ∧
    (∀ r, merge S ty u dst src = some r →
      r.src = src ∧
      ((u.update = some [] ∨ u.reset = none) → r.dst = dst) ∧
      (u.update ≠ some [] → resetDst u dst = some r.dst) ∧
      ∀ p, p ≠ [] → (∀ R, u.reset = some R → Clean R ∧ Unrelated p R) →
        r.dst.getPath p = dst.getPath p) := by
  constructor
  · intro M hM hne
    cases M with
    | nil => exact absurd rfl hne
    | cons m ms =>
      refine C05_rejects S ty u (m :: ms) hM (Or.inr ⟨[], hW, m, List.mem_cons_self .., ?_⟩)
      rintro ⟨w, hw, _⟩; cases hw
  · intro r h
    unfold merge at h
    simp only [hW, if_true] at h
    by_cases hM : u.update = some []
    · simp only [hM, if_true, Option.some.injEq] at h
      subst h
      exact ⟨rfl, fun _ => rfl, fun hc => absurd hM hc, fun _ _ _ => rfl⟩
    · simp only [hM, if_false] at h
      cases hd : resetDst u dst with
      | none => rw [hd] at h; cases h
      | some d' =>
        rw [hd] at h
        simp only [Option.map_some, Option.some.injEq] at h
        subst h
        refine ⟨rfl, ?_, fun _ => rfl, ?_⟩
        · rintro (hc | hr)
          · exact absurd hc hM
          · unfold resetDst at hd; rw [hr] at hd; simp at hd; exact hd.symm
        · intro p hp hR
          unfold resetDst at hd
          cases hr : u.reset with
          | none => rw [hr] at hd; simp at hd; rw [hd]
          | some R =>
            rw [hr] at hd
            obtain ⟨hRc, hRu⟩ := hR R hr
            exact getPath_pruneMsg_misses p _ dst d' (misses_nestedMask hRc hp hRu) hd

/-- **C05_reset** (full strength).  After a write whose update mask is not the empty mask (which, by
`C05_empty_mask`, changes nothing), every path of the reset mask — and everything below it — is absent
from the result: at any depth, for parent+child and duplicate reset paths, and also when nothing is
writable.  (Reset paths non-empty without empty segments, as every validated mask is.) -/
theorem C05_reset (S : Schema) (ty : Nat) (u : Updater) (dst src : Fields) (r : Merged)
    (R : List Path) (hM : u.update ≠ some [])
    (hR : u.reset = some R) (hRc : Clean R) (hRn : NonNil R)
    (h : merge S ty u dst src = some r) :
    ∀ q ∈ R, ∀ p, q <+: p → r.dst.getPath p = none := by
  intro q hq p hpre
  have key : ∀ d d', resetDst u d = some d' → d'.getPath p = none := by
    intro d d' hd
    unfold resetDst at hd
    rw [hR] at hd
    exact getPath_reset_cleared hRc hRn hq hpre d d' hd
  unfold merge at h
  by_cases hW : u.writable = some []
  · simp only [hW, if_true, hM, if_false] at h
    cases hd : resetDst u dst with
    | none => rw [hd] at h; cases h
    | some d' => rw [hd] at h; simp at h; rw [← h]; exact key _ _ hd
  · simp only [hW, if_false] at h
    split at h
    · cases h
    · split at h
      · cases hu : u.update with
        | none => simp [hu] at *
        | some M =>
          cases M with
          | nil => exact absurd hu hM
          | cons _ _ => simp [hu] at *
      · cases h
      · split at h
        · cases h
        · split at h
          · cases h
          next d3 _ =>
            cases hd : resetDst u d3 with
            | none => rw [hd] at h; cases h
            | some d' => rw [hd] at h; simp at h; rw [← h]; exact key _ _ hd

/-- **C05_frame** (full strength for a non-nil update mask, at any depth).  For every schema, message
type, writable mask, reset mask, non-empty update mask `M` (paths non-empty, no empty segments), stored
message `dst` and written message `src`: every path `p` — through singular messages, at any depth —
that is unrelated to every update path and to every reset path (none is a prefix of `p`, `p` is a
prefix of none; for a leaf path this is `p ∉ ⟦M⟧`, `p ∉ ⟦R⟧`, and since `Validate` only accepts update
paths inside `W`, `⟦M⟧∩⟦W⟧ = ⟦M⟧`) holds after the write exactly what it held before.
Hypotheses that remain, all about the *representation* and satisfied by every message the harness
serialises from a real protobuf message: keys are unique in the messages along `p` (`NoDupAlong`),
along `p` the written message never has a non-message where the stored one has a message (`Agree`:
both follow one schema), and no oneof assignment can displace a field of `p` (`NoDispAlong`; clearing
the other members of a oneof is inherent in assigning one). -/
theorem C05_frame (S : Schema) (ty : Nat) (u : Updater) (dst src : Fields) (r : Merged)
    (m : Path) (ms : List Path) (p : Path)
    (hM : u.update = some (m :: ms)) (hMc : Clean (m :: ms)) (hMn : NonNil (m :: ms))
    (hp : p ≠ []) (hpM : Unrelated p (m :: ms))
    (hR : ∀ R, u.reset = some R → Clean R ∧ Unrelated p R)
    (hdisp : NoDispAlong S ty p)
    (hnd : NoDupAlong p dst) (hns : NoDupAlong p src) (hag : Agree p dst src)
    (h : merge S ty u dst src = some r) :
    r.dst.getPath p = dst.getPath p := by
  have hreset : ∀ d d', resetDst u d = some d' → d'.getPath p = d.getPath p := by
    intro d d' hd'
    unfold resetDst at hd'
    cases hr : u.reset with
    | none => rw [hr] at hd'; simp at hd'; rw [hd']
    | some R =>
      rw [hr] at hd'
      obtain ⟨hRc, hRu⟩ := hR R hr
      exact getPath_pruneMsg_misses p _ d d' (misses_nestedMask hRc hp hRu) hd'
  unfold merge at h
  by_cases hW : u.writable = some []
  · simp only [hW, if_true, hM, reduceCtorEq, if_false] at h
    cases hd' : resetDst u dst with
    | none => rw [hd'] at h; cases h
    | some d' => rw [hd'] at h; simp at h; rw [← h]; exact hreset _ _ hd'
  · simp only [hW, if_false, hM] at h
    split at h
    · cases h
    next src1 hf1 =>
      -- the writable filter keeps the written message in shape
      have hs1 := shape_filterMsg p _ dst src src1 hf1 hns hag
      simp only [Option.getD_some] at h
      have hne := nestedMask_not_empty hMc hMn (by simp)
      have hmiss := misses_nestedMask hMc hp hpM
      split at h
      · cases h
      next src2 hf2 =>
        unfold filterMsg at hf2
        simp only [hne, Bool.false_eq_true, if_false] at hf2
        have hready := mergeReady_filterFields p _ dst src1 src2 hmiss hf2 hs1.1 hs1.2
        have hs2 := noDupAlong_filterFields p _ src1 src2 hf2 hs1.1
        have h2 := getPath_mergeFields S p ty dst src2 hready hdisp
        have hn2 := noDupAlong_mergeFields S p ty dst src2 hnd hs2 hdisp hready
        split at h
        · cases h
        next d3 hd3 =>
          have h3 := getPath_pruneEmpty_misses p _ src2 _ d3 hmiss hn2 hd3
          cases hd' : resetDst u d3 with
          | none => rw [hd'] at h; cases h
          | some d' => rw [hd'] at h; simp at h; rw [← h, hreset _ _ hd', h3, h2]

/-- **C05_frame_nil_mask** (full strength for a nil update mask, at any depth).  With a nil update
mask ("all writable fields") and writable fields `W` (non-empty, paths non-empty without empty
segments; with `W` nil everything is writable and nothing is framed): every path `p`, at any depth,
that is unrelated to every writable path and every reset path holds after the write exactly what it
held before.  Same tree hypotheses as `C05_frame`. -/
theorem C05_frame_nil_mask (S : Schema) (ty : Nat) (u : Updater) (dst src : Fields) (r : Merged)
    (w : Path) (ws : List Path) (p : Path)
    (hM : u.update = none) (hW : u.writable = some (w :: ws)) (hWc : Clean (w :: ws)) (hWn : NonNil (w :: ws))
    (hp : p ≠ []) (hpW : Unrelated p (w :: ws))
    (hR : ∀ R, u.reset = some R → Clean R ∧ Unrelated p R)
    (hdisp : NoDispAlong S ty p)
    (hnd : NoDupAlong p dst) (hns : NoDupAlong p src) (hag : Agree p dst src)
    (h : merge S ty u dst src = some r) :
    r.dst.getPath p = dst.getPath p := by
  have hreset : ∀ d d', resetDst u d = some d' → d'.getPath p = d.getPath p := by
    intro d d' hd'
    unfold resetDst at hd'
    cases hr : u.reset with
    | none => rw [hr] at hd'; simp at hd'; rw [hd']
    | some R =>
      rw [hr] at hd'
      obtain ⟨hRc, hRu⟩ := hR R hr
      exact getPath_pruneMsg_misses p _ d d' (misses_nestedMask hRc hp hRu) hd'
  have hne := nestedMask_not_empty hWc hWn (by simp)
  have hmiss := misses_nestedMask hWc hp hpW
  unfold merge at h
  simp only [hW, hM] at h
  rw [if_neg (by simp)] at h
  simp only [Option.isNone_some, Bool.false_eq_true, if_false] at h
  split at h
  · cases h
  next src1 hf1 =>
    cases hd1 : pruneMsg (nestedMask (w :: ws)) dst with
    | none => rw [hd1] at h; simp at h
    | some dst1 =>
      rw [hd1] at h
      have hg1 : dst1.getPath p = dst.getPath p := getPath_pruneMsg_misses p _ dst dst1 hmiss hd1
      have hsh := shape_pruneMsg p _ dst dst1 src hd1 hnd hag
      unfold filterMsg at hf1
      simp only [hne, Bool.false_eq_true, if_false] at hf1
      have hready := mergeReady_filterFields p _ dst1 src src1 hmiss hf1 hns hsh.2
      have hs1 := noDupAlong_filterFields p _ src src1 hf1 hns
      simp only [Option.getD_none] at h
      have hnil : nestedMask [] = Mask.nil := rfl
      rw [hnil] at h
      have hfm : filterMsg Mask.nil src1 = some src1 := by simp [filterMsg, Mask.isEmpty]
      rw [hfm] at h
      simp only at h
      have h2 := getPath_mergeFields S p ty dst1 src1 hready hdisp
      have hn2 := noDupAlong_mergeFields S p ty dst1 src1 hsh.1 hs1 hdisp hready
      split at h
      · cases h
      next d3 hd3 =>
        have h3 := getPath_pruneEmpty_misses p _ src1 _ d3 (misses_nil p hp) hn2 hd3
        cases hd' : resetDst u d3 with
        | none => rw [hd'] at h; cases h
        | some d' => rw [hd'] at h; simp at h; rw [← h, hreset _ _ hd', h3, h2, hg1]

/-- **C05_named_path** (non-nil update mask, any depth).  Let `p` be an *outermost* path of the update
mask (`p ∈ M` and no path of `M` is a proper prefix of `p` — `{f, f.c}` names `f`), inside the writable
fields (`W` nil, or some writable path is a prefix of `p`: what `Validate` enforces) and unrelated to
every reset path.  Then after the write

  `result.getPath p = (src.getPath p).map (mergeVal (dst.getPath p))`

i.e. **absent from the written message ⇒ cleared** (whether the leaf or any of its parent messages
is what is absent; stored parents are kept and only `p` is removed from them), **present ⇒ merged into
what is stored at `p`** with `proto.Merge`'s rules (`mergeVal`): a scalar overwrites, a singular
message is merged field-wise (created if absent), a repeated field is *appended* to the stored list, a
map replaces per key.  Hypotheses about the trees: unique keys along `p` in both messages
(`NoDupAlong`) and no oneof displacement along `p` (`NoDispAlong`); no kind-agreement hypothesis is
needed here. -/
theorem C05_named_path (S : Schema) (ty : Nat) (u : Updater) (dst src : Fields) (r : Merged)
    (m : Path) (ms : List Path) (p : Path)
    (hM : u.update = some (m :: ms)) (hMc : Clean (m :: ms)) (hMn : NonNil (m :: ms))
    (hp : p ∈ m :: ms) (hout : ∀ q ∈ m :: ms, strictPrefix q p = false)
    (hW : ∀ W, u.writable = some W → Clean W ∧ NonNil W ∧ ∃ w ∈ W, w <+: p)
    (hR : ∀ R, u.reset = some R → Clean R ∧ Unrelated p R)
    (hdisp : NoDispAlong S ty p) (hnd : NoDupAlong p dst) (hns : NoDupAlong p src)
    (h : merge S ty u dst src = some r) :
    r.dst.getPath p = (src.getPath p).map (mergeVal S (childAt S ty p) (dst.getPath p)) := by
  have hp0 : p ≠ [] := hMn p hp
  have hpmin : p ∈ minimal (m :: ms) := mem_minimal.mpr ⟨hp, hout⟩
  have hreset : ∀ d d', resetDst u d = some d' → d'.getPath p = d.getPath p := by
    intro d d' hd'
    unfold resetDst at hd'
    cases hr : u.reset with
    | none => rw [hr] at hd'; simp at hd'; rw [hd']
    | some R =>
      rw [hr] at hd'
      obtain ⟨hRc, hRu⟩ := hR R hr
      exact getPath_pruneMsg_misses p _ d d' (misses_nestedMask hRc hp0 hRu) hd'
  -- the writable filter keeps everything at and below p
  have hwf : ∀ src1, filterMsg (match u.writable with | some W => nestedMask W | none => Mask.nil) src = some src1 →
      src1.getPath p = src.getPath p ∧ NoDupAlong p src1 := by
    intro src1 hf1
    cases hw : u.writable with
    | none =>
      rw [hw] at hf1
      simp [filterMsg, Mask.isEmpty] at hf1
      subst hf1; exact ⟨rfl, hns⟩
    | some W =>
      rw [hw] at hf1
      obtain ⟨hWc, hWn, w, hwm, hwp⟩ := hW W hw
      have hWne : W ≠ [] := fun e => by subst e; cases hwm
      unfold filterMsg at hf1
      rw [nestedMask_not_empty hWc hWn hWne] at hf1
      simp only [Bool.false_eq_true, if_false] at hf1
      refine ⟨?_, noDupAlong_filterFields p _ src src1 hf1 hns⟩
      unfold nestedMask at hf1
      rw [Mask.fromPaths_eq (clean_minimal hWc)] at hf1
      obtain ⟨q, hq, hqw⟩ := exists_minimal_prefix W w.length w (Nat.le_refl _) hwm
      exact getPath_filterFields_covered p (minimal W) src src1 (prefixFree_minimal W)
        ⟨q, hq, nonNil_minimal hWn q hq, List.IsPrefix.trans hqw hwp⟩ hf1
  have hWne : u.writable ≠ some [] := by
    intro e
    obtain ⟨_, _, w, hwm, _⟩ := hW [] e
    cases hwm
  unfold merge at h
  simp only [hWne, if_false, hM] at h
  split at h
  · cases h
  next src1 hf1 =>
    obtain ⟨hs1, hn1⟩ := hwf src1 hf1
    simp only [Option.getD_some] at h
    have hne := nestedMask_not_empty hMc hMn (by simp)
    split at h
    · cases h
    next src2 hf2 =>
      unfold filterMsg at hf2
      simp only [hne, Bool.false_eq_true, if_false] at hf2
      split at h
      · cases h
      next d3 hd3 =>
        unfold nestedMask at hf2 hd3
        rw [Mask.fromPaths_eq (clean_minimal hMc)] at hf2 hd3
        have hcore := getPath_core_named S p (minimal (m :: ms)) ty dst src1 src2 d3 (prefixFree_minimal _)
          hpmin hp0 hdisp hnd hn1 hf2 hd3
        cases hd' : resetDst u d3 with
        | none => rw [hd'] at h; cases h
        | some d' => rw [hd'] at h; simp at h; rw [← h, hreset _ _ hd', hcore, hs1]

/-- **C05_scalar_in** (named scalar paths, non-nil update mask).  Under the hypotheses of
`C05_named_path`, if the written message holds a scalar at `p` or nothing at all (no message, list
or map there), the result holds at `p` exactly what the written message holds: its scalar, or
nothing — *absent there means cleared*, whichever of `p`'s parents exist in the written message. -/
theorem C05_scalar_in (S : Schema) (ty : Nat) (u : Updater) (dst src : Fields) (r : Merged)
    (m : Path) (ms : List Path) (p : Path)
    (hM : u.update = some (m :: ms)) (hMc : Clean (m :: ms)) (hMn : NonNil (m :: ms))
    (hp : p ∈ m :: ms) (hout : ∀ q ∈ m :: ms, strictPrefix q p = false)
    (hW : ∀ W, u.writable = some W → Clean W ∧ NonNil W ∧ ∃ w ∈ W, w <+: p)
    (hR : ∀ R, u.reset = some R → Clean R ∧ Unrelated p R)
    (hdisp : NoDispAlong S ty p) (hnd : NoDupAlong p dst) (hns : NoDupAlong p src)
    (hsc : ∀ v, src.getPath p = some v → ∃ s, v = .sc s)
    (h : merge S ty u dst src = some r) :
    r.dst.getPath p = src.getPath p := by
  rw [C05_named_path S ty u dst src r m ms p hM hMc hMn hp hout hW hR hdisp hnd hns h]
  cases hs : src.getPath p with
  | none => rfl
  | some v =>
    obtain ⟨s, rfl⟩ := hsc v hs
    simp [mergeVal]

/-- **C05_message_list** (message / repeated / map fields named by the update mask).  Under the
hypotheses of `C05_named_path` the FieldMask update semantics the code implements is:
absent from the written message ⇒ cleared; a singular message is merged field-wise into the stored
one (replacing a stored non-message, created when nothing is stored); a repeated field is appended to
the stored list; a map replaces per key and keeps the other stored keys. -/
theorem C05_message_list (S : Schema) (ty : Nat) (u : Updater) (dst src : Fields) (r : Merged)
    (m : Path) (ms : List Path) (p : Path)
    (hM : u.update = some (m :: ms)) (hMc : Clean (m :: ms)) (hMn : NonNil (m :: ms))
    (hp : p ∈ m :: ms) (hout : ∀ q ∈ m :: ms, strictPrefix q p = false)
    (hW : ∀ W, u.writable = some W → Clean W ∧ NonNil W ∧ ∃ w ∈ W, w <+: p)
    (hR : ∀ R, u.reset = some R → Clean R ∧ Unrelated p R)
    (hdisp : NoDispAlong S ty p) (hnd : NoDupAlong p dst) (hns : NoDupAlong p src)
    (h : merge S ty u dst src = some r) :
    (src.getPath p = none → r.dst.getPath p = none) ∧
    (∀ sf, src.getPath p = some (.msg sf) →
      (∀ df, dst.getPath p = some (.msg df) →
        r.dst.getPath p = some (.msg (mergeFields S (childAt S ty p) df sf))) ∧
      ((∀ df, dst.getPath p ≠ some (.msg df)) → r.dst.getPath p = some (.msg sf))) ∧
    (∀ xs, src.getPath p = some (.scs xs) →
      (∀ ys, dst.getPath p = some (.scs ys) → r.dst.getPath p = some (.scs (ys ++ xs))) ∧
      ((∀ ys, dst.getPath p ≠ some (.scs ys)) → r.dst.getPath p = some (.scs xs))) ∧
    (∀ xs, src.getPath p = some (.msgs xs) →
      (∀ ys, dst.getPath p = some (.msgs ys) → r.dst.getPath p = some (.msgs (ys.append xs))) ∧
      ((∀ ys, dst.getPath p ≠ some (.msgs ys)) → r.dst.getPath p = some (.msgs xs))) ∧
    (∀ es, src.getPath p = some (.map es) →
      (∀ ds, dst.getPath p = some (.map ds) → r.dst.getPath p = some (.map (mapMerge ds es))) ∧
      ((∀ ds, dst.getPath p ≠ some (.map ds)) → r.dst.getPath p = some (.map es))) := by
  have key := C05_named_path S ty u dst src r m ms p hM hMc hMn hp hout hW hR hdisp hnd hns h
  refine ⟨fun hs => by rw [key, hs]; rfl, ?_, ?_, ?_, ?_⟩
  · intro sf hs
    rw [key, hs]
    refine ⟨fun df hd => by rw [hd]; simp [mergeVal], fun hd => ?_⟩
    simp only [Option.map_some]
    rw [mergeVal_old_nonmsg S _ _ sf hd]
  · intro xs hs
    rw [key, hs]
    refine ⟨fun ys hd => by rw [hd]; simp [mergeVal], fun hd => ?_⟩
    simp only [Option.map_some, mergeVal]
  · intro xs hs
    rw [key, hs]
    refine ⟨fun ys hd => by rw [hd]; simp [mergeVal], fun hd => ?_⟩
    simp only [Option.map_some, mergeVal]
  · intro es hs
    rw [key, hs]
    refine ⟨fun ds hd => by rw [hd]; simp [mergeVal], fun hd => ?_⟩
    simp only [Option.map_some, mergeVal]

/-- **C05_inside_written** (below a named path, non-nil update mask).  Let `q` be an outermost update
path as in `C05_named_path` and `p = q ++ t` a path strictly below it.  Whatever the written message
holds at `p` is, after the write, merged into what was stored at `p` (`mergeVal`): in particular a
scalar written at `p` is the result's value at `p`.  (What the written message does *not* hold below a
named message is kept from the stored message when the written message has the named message `q`
— FieldMask "merge into the existing sub-message" — and is cleared together with `q` when it has
not: that is `C05_named_path` at `q`.) -/
theorem C05_inside_written (S : Schema) (ty : Nat) (u : Updater) (dst src : Fields) (r : Merged)
    (m : Path) (ms : List Path) (q t : Path) (v : Val)
    (hM : u.update = some (m :: ms)) (hMc : Clean (m :: ms)) (hMn : NonNil (m :: ms))
    (hq : q ∈ m :: ms) (hout : ∀ q' ∈ m :: ms, strictPrefix q' q = false)
    (hW : ∀ W, u.writable = some W → Clean W ∧ NonNil W ∧ ∃ w ∈ W, w <+: q)
    (hR : ∀ R, u.reset = some R → Clean R ∧ Unrelated q R)
    (ht : t ≠ [])
    (hdisp : NoDispAlong S ty (q ++ t)) (hnd : NoDupAlong (q ++ t) dst) (hns : NoDupAlong (q ++ t) src)
    (hsv : src.getPath (q ++ t) = some v)
    (h : merge S ty u dst src = some r) :
    r.dst.getPath (q ++ t) = some (mergeVal S (childAt S ty (q ++ t)) (dst.getPath (q ++ t)) v) := by
  have hq0 : q ≠ [] := hMn q hq
  obtain ⟨hdq, hdt⟩ := noDispAlong_append S q t ty hdisp
  obtain ⟨hndq, _⟩ := noDupAlong_append q t dst hnd
  obtain ⟨hnsq, hnst⟩ := noDupAlong_append q t src hns
  have key := C05_named_path S ty u dst src r m ms q hM hMc hMn hq hout hW hR hdq hndq hnsq h
  rw [getPath_append q t src hq0 ht] at hsv
  rw [getPath_append q t r.dst hq0 ht, getPath_append q t dst hq0 ht, childAt_append]
  cases hsq : src.getPath q with
  | none => rw [hsq] at hsv; cases hsv
  | some w =>
    rw [hsq] at hsv key
    cases w with
    | msg sf =>
      simp only at hsv
      simp only [Option.map_some] at key
      cases hdq' : dst.getPath q with
      | some x =>
        cases x with
        | msg df =>
          rw [hdq'] at key
          simp only [mergeVal] at key
          rw [key]
          simp only
          exact getPath_mergeFields_present S t (childAt S ty q) df sf v hsv (hnst hq0 sf hsq) hdt
        | sc _ =>
          rw [hdq', mergeVal_old_nonmsg S _ _ sf (by simp)] at key
          rw [key]; simp [hsv, mergeVal_none]
        | scs _ =>
          rw [hdq', mergeVal_old_nonmsg S _ _ sf (by simp)] at key
          rw [key]; simp [hsv, mergeVal_none]
        | msgs _ =>
          rw [hdq', mergeVal_old_nonmsg S _ _ sf (by simp)] at key
          rw [key]; simp [hsv, mergeVal_none]
        | map _ =>
          rw [hdq', mergeVal_old_nonmsg S _ _ sf (by simp)] at key
          rw [key]; simp [hsv, mergeVal_none]
      | none =>
        rw [hdq', mergeVal_old_nonmsg S _ _ sf (by simp)] at key
        rw [key]; simp [hsv, mergeVal_none]
    | sc _ => simp at hsv
    | scs _ => simp at hsv
    | msgs _ => simp at hsv
    | map _ => simp at hsv

/-- **C05_inside_nil_mask** (nil update mask: "all writable fields", any depth).  With a nil update
mask every path `p` at or below a writable path (any path when `W` is nil) and unrelated to every
reset path holds after the write exactly what the written message holds there — scalar, message,
list or map alike, *absent there means cleared*: the stored writable part is pruned first, so
nothing is merged or appended.  Tree hypotheses: unique keys along `p` in the written message, no
oneof displacement along `p`. -/
theorem C05_inside_nil_mask (S : Schema) (ty : Nat) (u : Updater) (dst src : Fields) (r : Merged) (p : Path)
    (hM : u.update = none) (hp : p ≠ [])
    (hW : ∀ W, u.writable = some W → Clean W ∧ NonNil W ∧ ∃ w ∈ W, w <+: p)
    (hR : ∀ R, u.reset = some R → Clean R ∧ Unrelated p R)
    (hdisp : NoDispAlong S ty p) (hns : NoDupAlong p src)
    (h : merge S ty u dst src = some r) :
    r.dst.getPath p = src.getPath p := by
  have hreset : ∀ d d', resetDst u d = some d' → d'.getPath p = d.getPath p := by
    intro d d' hd'
    unfold resetDst at hd'
    cases hr : u.reset with
    | none => rw [hr] at hd'; simp at hd'; rw [hd']
    | some R =>
      rw [hr] at hd'
      obtain ⟨hRc, hRu⟩ := hR R hr
      exact getPath_pruneMsg_misses p _ d d' (misses_nestedMask hRc hp hRu) hd'
  -- after dst has been reset / pruned and src filtered, merging gives src's value at p
  have core : ∀ dst1 src1 d3, dst1.getPath p = none → src1.getPath p = src.getPath p → NoDupAlong p src1 →
      pruneEmpty Mask.nil src1 (mergeFields S ty dst1 src1) = some d3 → d3.getPath p = src.getPath p := by
    intro dst1 src1 d3 hd1 hs1 hn1 hd3
    rw [pruneEmpty_nil] at hd3
    cases hd3
    cases hsp : src.getPath p with
    | none =>
      rw [hsp] at hs1
      exact getPath_mergeFields_absent S p ty dst1 src1 hd1 hs1 hn1 hdisp
    | some v =>
      rw [hsp] at hs1
      rw [getPath_mergeFields_present S p ty dst1 src1 v hs1 hn1 hdisp, hd1, mergeVal_none]
  have hnil : nestedMask [] = Mask.nil := rfl
  have hfm : ∀ x, filterMsg Mask.nil x = some x := fun x => by simp [filterMsg, Mask.isEmpty]
  unfold merge at h
  cases hw : u.writable with
  | none =>
    simp only [hw, hM, reduceCtorEq, if_false, Option.isNone_none, if_true, Option.getD_none, hnil, hfm] at h
    split at h
    · cases h
    next d3 hd3 =>
      have := core .nil src d3 (getPath_nil p) rfl hns hd3
      cases hd' : resetDst u d3 with
      | none => rw [hd'] at h; cases h
      | some d' => rw [hd'] at h; simp at h; rw [← h, hreset _ _ hd', this]
  | some W =>
    obtain ⟨hWc, hWn, w, hwm, hwp⟩ := hW W hw
    have hWne : W ≠ [] := fun e => by subst e; cases hwm
    simp only [hw, hM] at h
    rw [if_neg (by simpa using hWne)] at h
    simp only [Option.isNone_some, Bool.false_eq_true, if_false, Option.getD_none, hnil] at h
    split at h
    · cases h
    next src1 hf1 =>
      cases hd1 : pruneMsg (nestedMask W) dst with
      | none => rw [hd1] at h; simp at h
      | some dst1 =>
        rw [hd1] at h
        simp only [hfm] at h
        have hg1 : dst1.getPath p = none := getPath_reset_cleared hWc hWn hwm hwp dst dst1 hd1
        unfold filterMsg at hf1
        rw [nestedMask_not_empty hWc hWn hWne] at hf1
        simp only [Bool.false_eq_true, if_false] at hf1
        have hn1 := noDupAlong_filterFields p _ src src1 hf1 hns
        unfold nestedMask at hf1
        rw [Mask.fromPaths_eq (clean_minimal hWc)] at hf1
        obtain ⟨q, hq, hqw⟩ := exists_minimal_prefix W w.length w (Nat.le_refl _) hwm
        have hs1 := getPath_filterFields_covered p (minimal W) src src1 (prefixFree_minimal W)
          ⟨q, hq, nonNil_minimal hWn q hq, List.IsPrefix.trans hqw hwp⟩ hf1
        split at h
        · cases h
        next d3 hd3 =>
          have := core dst1 src1 d3 hg1 hs1 hn1 hd3
          cases hd' : resetDst u d3 with
          | none => rw [hd'] at h; cases h
          | some d' => rw [hd'] at h; simp at h; rw [← h, hreset _ _ hd', this]

/--
The frame clause at depth is `C05_frame` (non-nil update mask) and `C05_frame_nil_mask` (nil update
mask) above, under tree hypotheses (unique keys, kind agreement).  The two statements below need none
of those: they are the instances for every path whose *top-level* field no update / reset (resp.
writable / reset) path starts with.

**C05_frame_toplevel.**  For every schema, message type, stored and written message, writable, reset
and non-empty update mask (paths non-empty, without empty segments): a field `k` that is the first
segment of no update path and of no reset path, and that no oneof assignment can displace, is in
the result exactly what it was — together with everything below it. -/
theorem C05_frame_toplevel (S : Schema) (ty : Nat) (u : Updater) (dst src : Fields) (r : Merged)
    (m : Path) (ms : List Path) (k : Name)
    (hM : u.update = some (m :: ms)) (hMc : Clean (m :: ms)) (hMn : NonNil (m :: ms))
    (hk : NoHead k (m :: ms))
    (hR : ∀ R, u.reset = some R → Clean R ∧ NoHead k R)
    (hd : NotDisplaced S ty k)
    (h : merge S ty u dst src = some r) :
    r.dst.get k = dst.get k ∧ ∀ p, r.dst.getPath (k :: p) = dst.getPath (k :: p) := by
  suffices hget : r.dst.get k = dst.get k by
    refine ⟨hget, fun p => ?_⟩
    cases p with
    | nil => simpa [Fields.getPath] using hget
    | cons k' rest => simp [Fields.getPath, hget]
  have hreset : ∀ d d', resetDst u d = some d' → d'.get k = d.get k := by
    intro d d' hd'
    unfold resetDst at hd'
    cases hr : u.reset with
    | none => rw [hr] at hd'; simp at hd'; rw [hd']
    | some R =>
      rw [hr] at hd'
      obtain ⟨hRc, hRk⟩ := hR R hr
      exact get_pruneMsg_other _ k (find_nestedMask_noHead hRc hRk) d d' hd'
  unfold merge at h
  by_cases hW : u.writable = some []
  · simp only [hW, if_true, hM, reduceCtorEq, if_false] at h
    cases hd' : resetDst u dst with
    | none => rw [hd'] at h; cases h
    | some d' => rw [hd'] at h; simp at h; rw [← h]; exact hreset _ _ hd'
  · simp only [hW, if_false, hM] at h
    split at h
    · cases h
    next src1 _ =>
      simp only [Option.getD_some] at h
      have hne := nestedMask_not_empty hMc hMn (by simp)
      have hfind := find_nestedMask_noHead hMc hk
      split at h
      · cases h
      next src2 hf2 =>
        have hsrc2 : src2.get k = none := by
          unfold filterMsg at hf2
          simp only [hne, Bool.false_eq_true, if_false] at hf2
          exact get_filterFields_none _ k hfind src1 src2 hf2
        split at h
        · cases h
        next d3 hd3 =>
          have h3 : d3.get k = dst.get k := by
            rw [get_pruneEmpty_other _ _ k hfind _ _ hd3, get_mergeFields_other S ty k hd src2 dst hsrc2]
          cases hd' : resetDst u d3 with
          | none => rw [hd'] at h; cases h
          | some d' => rw [hd'] at h; simp at h; rw [← h]; rw [hreset _ _ hd']; exact h3

/-- **C05_frame_toplevel_nil_mask.**  The same for a nil update mask ("all writable fields"): a field
that is the first segment of no writable path and of no reset path, and that no oneof assignment
can displace, is in the result exactly what it was. -/
theorem C05_frame_toplevel_nil_mask (S : Schema) (ty : Nat) (u : Updater) (dst src : Fields) (r : Merged)
    (w : Path) (ws : List Path) (k : Name)
    (hM : u.update = none) (hW : u.writable = some (w :: ws)) (hWc : Clean (w :: ws)) (hWn : NonNil (w :: ws))
    (hk : NoHead k (w :: ws))
    (hR : ∀ R, u.reset = some R → Clean R ∧ NoHead k R)
    (hd : NotDisplaced S ty k)
    (h : merge S ty u dst src = some r) :
    r.dst.get k = dst.get k := by
  have hne := nestedMask_not_empty hWc hWn (by simp)
  have hfind := find_nestedMask_noHead hWc hk
  have hreset : ∀ d d', resetDst u d = some d' → d'.get k = d.get k := by
    intro d d' hd'
    unfold resetDst at hd'
    cases hr : u.reset with
    | none => rw [hr] at hd'; simp at hd'; rw [hd']
    | some R =>
      rw [hr] at hd'
      obtain ⟨hRc, hRk⟩ := hR R hr
      exact get_pruneMsg_other _ k (find_nestedMask_noHead hRc hRk) d d' hd'
  unfold merge at h
  simp only [hW, hM] at h
  rw [if_neg (by simp)] at h
  simp only [Option.isNone_some, Bool.false_eq_true, if_false] at h
  split at h
  · cases h
  next src1 hf1 =>
    have hsrc1 : src1.get k = none := by
      unfold filterMsg at hf1
      simp only [hne, Bool.false_eq_true, if_false] at hf1
      exact get_filterFields_none _ k hfind src src1 hf1
    cases hd1 : pruneMsg (nestedMask (w :: ws)) dst with
    | none => rw [hd1] at h; simp at h
    | some dst1 =>
      rw [hd1] at h
      have hdst1 : dst1.get k = dst.get k := get_pruneMsg_other _ k hfind dst dst1 hd1
      simp only [Option.getD_none] at h
      have hnil : nestedMask [] = Mask.nil := rfl
      rw [hnil] at h
      have hfm : filterMsg Mask.nil src1 = some src1 := by simp [filterMsg, Mask.isEmpty]
      rw [hfm] at h
      simp only at h
      split at h
      · cases h
      next d3 hd3 =>
        have h3 : d3.get k = dst.get k := by
          rw [get_pruneEmpty_other _ _ k rfl _ _ hd3, get_mergeFields_other S ty k hd src1 dst1 hsrc1, hdst1]
        cases hd' : resetDst u d3 with
        | none => rw [hd'] at h; cases h
        | some d' => rw [hd'] at h; simp at h; rw [← h]; rw [hreset _ _ hd']; exact h3

/-! ## Non-vacuity -/

/-- A schema for the examples: type 0 = {f : message 1, g : scalar}, type 1 = {c, d : scalar}. -/
def wSchema : Schema :=
  [[⟨"f", .message 1, 0⟩, ⟨"g", .scalar, 0⟩], [⟨"c", .scalar, 0⟩, ⟨"d", .scalar, 0⟩]]

/-- stored `{f={c=1,d=2}, g=7}` -/
def wStored : Fields :=
  .cons "f" (.msg (.cons "c" (.sc "i1") (.cons "d" (.sc "i2") .nil))) (.cons "g" (.sc "i7") .nil)

/-- `C05_rejects` applies: `g.x` continues through a scalar, `nope` is unknown, `f` is a strict
parent of the writable `f.c`, `g` is unrelated to it. -/
example : ¬ GoodPath wSchema 0 ["g", "x"] ∧ ¬ GoodPath wSchema 0 ["nope"] := by
  constructor <;> (intro h; have := (validPath_iff wSchema 0 _).mpr h; revert this; decide)
example : ¬ InsideWritable [["f", "c"]] ["f"] ∧ ¬ InsideWritable [["f", "c"]] ["g"] := by
  constructor <;> (intro h; have := (isWritablePath_iff _ _).mpr h; revert this; decide)
/-- …and the formerly accepted masks are rejected now, the formerly rejected duplicate accepted. -/
example : validate wSchema 0 ⟨some [["f", "c"]], some [["f"]], none⟩ = .invalidArgument ∧
    validate wSchema 0 ⟨some [["f", "c"], ["f", "d"]], some [["f"], ["g"]], none⟩ = .invalidArgument ∧
    validate wSchema 0 ⟨some [["g"]], some [["g"], ["g"]], none⟩ = .ok := by decide
/-- `C05_nothing_writable` applies: `W = some []` rejects the valid mask `{g}`, a bare write and a
write with an empty mask are accepted and change nothing, a bare write with reset `{g}` only resets
`g` — and a NIL writable mask behaves differently (everything is written). -/
example : validate wSchema 0 ⟨some [], some [["g"]], none⟩ = .invalidArgument ∧
    (merge wSchema 0 ⟨some [], none, none⟩ wStored (.cons "g" (.sc "i9") .nil)).map (·.dst) = some wStored ∧
    (merge wSchema 0 ⟨some [], some [], some [["g"]]⟩ wStored (.cons "g" (.sc "i9") .nil)).map (·.dst) = some wStored ∧
    (merge wSchema 0 ⟨some [], none, some [["g"]]⟩ wStored (.cons "g" (.sc "i9") .nil)).map (·.dst.getPath ["f", "d"])
      = some (wStored.getPath ["f", "d"]) ∧
    (merge wSchema 0 ⟨none, none, none⟩ wStored (.cons "g" (.sc "i9") .nil)).map (·.dst)
      = some (.cons "g" (.sc "i9") .nil) := by decide
/-- `C05_reset` applies with nothing writable, and to parent+child reset paths. -/
example : (merge wSchema 0 ⟨some [], none, some [["g"]]⟩ wStored .nil).map (·.dst.get "g") = some none := by decide
example : Clean [["f"], ["f", "c"]] ∧ NonNil [["f"], ["f", "c"]] ∧
    (merge wSchema 0 ⟨none, none, some [["f"], ["f", "c"]]⟩ wStored wStored).map (·.dst.get "f") = some none := by decide
/-- The hypotheses of the frame theorems hold for nested masks. -/
example : Clean [["f", "c"]] ∧ NonNil [["f", "c"]] ∧ NoHead "g" [["f", "c"]] ∧
    (merge wSchema 0 ⟨none, some [["f", "c"]], none⟩ wStored .nil).isSome = true ∧
    (merge wSchema 0 ⟨some [["f", "c"]], none, none⟩ wStored .nil).isSome = true := by decide
example : NotDisplaced wSchema 0 "g" := by
  intro n; unfold Schema.sibs; cases h : wSchema.field 0 n with
  | none => simp
  | some fd =>
    have : fd.oneof = 0 := by
      have hm := List.mem_of_find?_eq_some h
      simp [Schema.fields, wSchema] at hm
      rcases hm with rfl | rfl <;> rfl
    simp [this]
/-- The hypotheses of `C05_frame` hold for the nested path `f.d` under the update mask `{f.c}`. -/
example : Unrelated ["f", "d"] [["f", "c"]] ∧ Clean [["f", "c"]] ∧ NonNil [["f", "c"]] := by decide
example : NoDupAlong ["f", "d"] wStored ∧ NoDupAlong ["f", "d"] (.cons "g" (.sc "i9") .nil) ∧
    Agree ["f", "d"] wStored (.cons "g" (.sc "i9") .nil) := by
  refine ⟨?_, ?_, ?_⟩
  · simp [NoDupAlong, wStored, Fields.keys, Fields.get]
  · simp [NoDupAlong, Fields.keys, Fields.get]
  · simp [Agree, Fields.get]
/-- The hypotheses of `C05_named_path` / `C05_scalar_in` / `C05_message_list` hold for `f.c` under the
update mask `{f.c, f.c.x}`-free `{f.c}` with writable `{f}`; those of `C05_inside_written` for `f` ++ `c`. -/
example : ["f", "c"] ∈ [["f", "c"], ["g"]] ∧ (∀ q ∈ [["f", "c"], ["g"]], strictPrefix q ["f", "c"] = false) ∧
    (∃ w ∈ [["f"]], w <+: ["f", "c"]) ∧ Clean [["f"]] ∧ NonNil [["f"]] := by decide
example : NoDupAlong ["f", "c"] wStored ∧ NoDispAlong wSchema 0 ["f", "c"] := by
  refine ⟨by simp [NoDupAlong, wStored, Fields.keys, Fields.get], ?_⟩
  simp only [NoDispAlong, and_true]
  refine ⟨fun n => ?_, fun n => ?_⟩ <;>
  · unfold Schema.sibs
    split
    · next fd h =>
        have : fd.oneof = 0 := by
          have hm := List.mem_of_find?_eq_some h
          simp [Schema.fields, Schema.child, Schema.field, wSchema] at hm
          rcases hm with rfl | rfl <;> rfl
        simp [this]
    · simp
/-- The former witnesses now behave: `{f.c}` without `f` in the written message clears only `f.c`. -/
example : (merge wSchema 0 ⟨none, some [["f", "c"]], none⟩ wStored (.cons "g" (.sc "i9") .nil)).map (·.dst)
    = some (.cons "f" (.msg (.cons "d" (.sc "i2") .nil)) (.cons "g" (.sc "i7") .nil)) := by decide

/-! ## The repaired defects, as witnesses over the former definitions (`Legacy.lean`) -/

/-- **C05_rejects_legacy_fails** (before 4d3ae38).  Writable `{f.c, f.d}`, update mask `{f, g}`: `g` is
related to no writable path, yet the count comparison accepted it and the write cleared the stored
`g`.  The current `validate` rejects it (`C05_rejects`). -/
theorem C05_rejects_legacy_fails :
    ∃ (u : Updater) (src : Fields),
      u.writable = some [["f", "c"], ["f", "d"]] ∧ u.update = some [["f"], ["g"]] ∧
      Legacy.validate wSchema 0 u = .ok ∧
      (Legacy.merge wSchema 0 u wStored src).map (·.dst.get "g") = some none ∧
      validate wSchema 0 u = .invalidArgument :=
  ⟨⟨some [["f", "c"], ["f", "d"]], some [["f"], ["g"]], none⟩, .cons "g" (.sc "i9") .nil,
   rfl, rfl, by decide, by decide, by decide⟩

/-- **C05_frame_legacy_fails_nested** (before 37d17a7).  Update mask `{f.c}`, written message without
`f`: all of `f` was cleared, `f.d` included; now only `f.c` is. -/
theorem C05_frame_legacy_fails_nested :
    ∃ (u : Updater) (src : Fields),
      u = ⟨none, some [["f", "c"]], none⟩ ∧ Legacy.validate wSchema 0 u = .ok ∧
      wStored.getPath ["f", "d"] = some (.sc "i2") ∧
      (Legacy.merge wSchema 0 u wStored src).map (·.dst.getPath ["f", "d"]) = some none ∧
      (merge wSchema 0 u wStored src).map (·.dst.getPath ["f", "d"]) = some (some (.sc "i2")) ∧
      (merge wSchema 0 u wStored src).map (·.dst.getPath ["f", "c"]) = some none :=
  ⟨_, .cons "g" (.sc "i9") .nil, rfl, by decide, by decide, by decide, by decide, by decide⟩

/-- **C05_frame_legacy_fails_wider** (before 4d3ae38).  Update mask `{f}` with writable `{f.c}` was
accepted and cleared `f.d`, which is not writable; now it is rejected. -/
theorem C05_frame_legacy_fails_wider :
    ∃ (u : Updater) (src : Fields),
      u = ⟨some [["f", "c"]], some [["f"]], none⟩ ∧ Legacy.validate wSchema 0 u = .ok ∧
      (Legacy.merge wSchema 0 u wStored src).map (·.dst.getPath ["f", "d"]) = some none ∧
      validate wSchema 0 u = .invalidArgument :=
  ⟨_, .cons "g" (.sc "i9") .nil, rfl, by decide, by decide, by decide⟩

/-- **C05_scalar_in_legacy_fails** (before 40c1599).  Update mask `{f, f.c}`: `f.d`, written as 6,
kept its stored value 2; now the mask means `{f}` and `f.d` becomes 6. -/
theorem C05_scalar_in_legacy_fails :
    ∃ (u : Updater) (src : Fields),
      u = ⟨none, some [["f"], ["f", "c"]], none⟩ ∧ Legacy.validate wSchema 0 u = .ok ∧
      src.getPath ["f", "d"] = some (.sc "i6") ∧
      (Legacy.merge wSchema 0 u wStored src).map (·.dst.getPath ["f", "d"]) = some (some (.sc "i2")) ∧
      (merge wSchema 0 u wStored src).map (·.dst.getPath ["f", "d"]) = some (some (.sc "i6")) :=
  ⟨_, .cons "f" (.msg (.cons "c" (.sc "i5") (.cons "d" (.sc "i6") .nil))) .nil,
   rfl, by decide, by decide, by decide, by decide⟩

/-- **C05_reset_legacy_fails_nothing_writable** (before 70b9b73).  With a non-nil empty writable mask
the reset mask was skipped. -/
theorem C05_reset_legacy_fails_nothing_writable :
    ∃ (u : Updater), u = ⟨some [], none, some [["g"]]⟩ ∧
      (Legacy.merge wSchema 0 u wStored .nil).map (·.dst.get "g") = some (some (.sc "i7")) ∧
      (merge wSchema 0 u wStored .nil).map (·.dst.get "g") = some none :=
  ⟨_, rfl, by decide, by decide⟩

end ScVerif.C05
