import ScVerif.C05.Frame
import ScVerif.C05.Legacy
import ScVerif.C06.Lemmas
/-!
# C05 — writes respect update, writable-field and reset masks

Model: `ScVerif/C05/Update.lean` (`FieldUpdater.Validate`, `FieldUpdater.Merge`, `pruneEmpty`,
`WriteRequest.fieldUpdater`, `Value.set`) over the library models of `ScVerif/C05/Lib.lean`, following
/repo after the fixes 4d3ae38 (per-path writable test), 37d17a7 (`pruneEmpty` prunes inside a message
the written message lacks), 40c1599 (`nestedMask`: nested paths dropped) and 70b9b73 (reset applied
when nothing is writable).  `merge … = none` is a panic inside fmutils; a mask is
`Option (List Path)`, `none` being Go's nil.  The defects those commits repaired are kept as
`…_legacy_…` witnesses over the old definitions (`ScVerif/C05/Legacy.lean`).
-/
namespace ScVerif.C05
open ScVerif.C06 (GoodPath validPath_iff NoEmptyName goodPath_segments goodPath_ne_nil)

/-- Field `k` of a message of type `ty` can not be displaced by assigning another field: it is not
a member of any oneof that has another member. -/
def NotDisplaced (S : Schema) (ty : Nat) (k : Name) : Prop := ∀ n, k ∉ S.sibs ty n

/-- **C05_empty_mask** (full strength).  An empty non-nil update mask changes nothing in the stored
message, whatever the other masks (reset mask included) and messages are. -/
theorem C05_empty_mask (S : Schema) (ty : Nat) (u : Updater) (dst src : Fields) (r : Merged)
    (hM : u.update = some []) (h : merge S ty u dst src = some r) : r.dst = dst := by
  unfold merge at h
  by_cases hW : u.writable = some []
  · simp [hW, hM] at h; rw [← h]
  · simp only [hW, if_false, hM] at h
    split at h
    · cases h
    · simp at h; rw [← h]

/-- **C05_rejects** (full strength).  An update mask with a path that is not well-formed for the
message type (unknown segment, empty path, continuation through a scalar, map or repeated field),
or — when writable fields are configured — with a path that is neither a writable path nor below
one (a strict parent of writable paths names fields outside them and counts), is rejected with
`InvalidArgument`; `Value.set` / `Collection.Update` then return before touching the store. -/
theorem C05_rejects (S : Schema) (ty : Nat) (u : Updater) (M : List Path)
    (hM : u.update = some M)
    (h : (∃ p ∈ M, ¬ GoodPath S ty p) ∨ (∃ W, u.writable = some W ∧ ∃ p ∈ M, ¬ InsideWritable W p)) :
    validate S ty u = .invalidArgument ∧
      ∀ stored src, valueSet S ty u stored src = .err .invalidArgument := by
  have : validate S ty u = .invalidArgument := by
    by_cases hv : isValid S ty M = true
    · rcases h with ⟨p, hp, hbad⟩ | ⟨W, hW, p, hp, hout⟩
      · exact absurd ((validPath_iff S ty p).mp (List.all_eq_true.mp hv p hp)) hbad
      · have : M.all (isWritablePath W) = false := by
          cases hh : M.all (isWritablePath W) with
          | false => rfl
          | true => exact absurd ((isWritablePath_iff W p).mp (List.all_eq_true.mp hh p hp)) hout
        simp [validate, hM, hv, hW, this]
    · simp [validate, hM, hv]
  exact ⟨this, fun stored src => by simp [valueSet, this]⟩

/-- **C05_accepts.**  Conversely `Validate` accepts exactly the well-formed update masks inside the
writable fields with a well-formed reset mask — duplicates and overlapping paths included (they were
rejected as "read-only" before 4d3ae38). -/
theorem C05_accepts (S : Schema) (ty : Nat) (u : Updater) :
    validate S ty u = .ok ↔
      (∀ M, u.update = some M → (∀ p ∈ M, GoodPath S ty p) ∧
          ∀ W, u.writable = some W → ∀ p ∈ M, InsideWritable W p) ∧
      (∀ R, u.reset = some R → ∀ p ∈ R, GoodPath S ty p) := by
  have hreset : validateReset S ty u = .ok ↔ ∀ R, u.reset = some R → ∀ p ∈ R, GoodPath S ty p := by
    unfold validateReset
    cases hr : u.reset with
    | none => simp
    | some R =>
      by_cases hv : isValid S ty R = true
      · simp only [hv, if_true, Option.some.injEq, forall_eq', true_iff]
        intro p hp; exact (validPath_iff S ty p).mp (List.all_eq_true.mp hv p hp)
      · simp only [hv, Bool.false_eq_true, if_false, Option.some.injEq, forall_eq', reduceCtorEq, false_iff]
        intro hall
        exact hv (List.all_eq_true.mpr (fun p hp => (validPath_iff S ty p).mpr (hall p hp)))
  unfold validate
  cases hm : u.update with
  | none => simp [hreset]
  | some M =>
    by_cases hv : isValid S ty M = true
    · have hgood : ∀ p ∈ M, GoodPath S ty p := fun p hp =>
        (validPath_iff S ty p).mp (List.all_eq_true.mp hv p hp)
      cases hw : u.writable with
      | none => simp [hv, hreset]; exact fun _ => hgood
      | some W =>
        by_cases hin : M.all (isWritablePath W) = true
        · have hins : ∀ p ∈ M, InsideWritable W p := fun p hp =>
            (isWritablePath_iff W p).mp (List.all_eq_true.mp hin p hp)
          simp [hv, hin, hreset]; exact fun _ => ⟨hgood, hins⟩
        · simp only [hv, hin, Bool.not_true, Bool.false_eq_true, if_false, Bool.not_false, if_true,
            reduceCtorEq, Option.some.injEq, forall_eq', false_iff]
          rintro ⟨⟨_, hins⟩, _⟩
          exact hin (List.all_eq_true.mpr (fun p hp => (isWritablePath_iff W p).mpr (hins p hp)))
    · simp only [hv, Bool.not_false, if_true, reduceCtorEq, Option.some.injEq, forall_eq', false_iff]
      rintro ⟨⟨hgood, _⟩, _⟩
      exact hv (List.all_eq_true.mpr (fun p hp => (validPath_iff S ty p).mpr (hgood p hp)))

/-- **C05_reset** (full strength).  After a write whose update mask is not the empty mask (which, by
`C05_empty_mask`, changes nothing), every path of the reset mask — and everything below it — is absent
from the result: at any depth, for parent+child and duplicate reset paths, and also when nothing is
writable.  (Reset paths non-empty without empty segments, as every validated mask is.) -/
theorem C05_reset (S : Schema) (ty : Nat) (u : Updater) (dst src : Fields) (r : Merged)
    (R : List Path) (hM : u.update ≠ some [])
    (hR : u.reset = some R) (hRc : Clean R) (hRn : NonNil R)
    (h : merge S ty u dst src = some r) :
    ∀ q ∈ R, ∀ p, q <+: p → r.dst.getPath p = none := by
  intro q hq p hpre
  have key : ∀ d d', resetDst u d = some d' → d'.getPath p = none := by
    intro d d' hd
    unfold resetDst at hd
    rw [hR] at hd
    exact getPath_reset_cleared hRc hRn hq hpre d d' hd
  unfold merge at h
  by_cases hW : u.writable = some []
  · simp only [hW, if_true, hM, if_false] at h
    cases hd : resetDst u dst with
    | none => rw [hd] at h; cases h
    | some d' => rw [hd] at h; simp at h; rw [← h]; exact key _ _ hd
  · simp only [hW, if_false] at h
    split at h
    · cases h
    · split at h
      · cases hu : u.update with
        | none => simp [hu] at *
        | some M =>
          cases M with
          | nil => exact absurd hu hM
          | cons _ _ => simp [hu] at *
      · cases h
      · split at h
        · cases h
        · split at h
          · cases h
          next d3 _ =>
            cases hd : resetDst u d3 with
            | none => rw [hd] at h; cases h
            | some d' => rw [hd] at h; simp at h; rw [← h]; exact key _ _ hd

/-- **C05_frame** (full strength for a non-nil update mask, at any depth).  For every schema, message
type, writable mask, reset mask, non-empty update mask `M` (paths non-empty, no empty segments), stored
message `dst` and written message `src`: every path `p` — through singular messages, at any depth —
that is unrelated to every update path and to every reset path (none is a prefix of `p`, `p` is a
prefix of none; for a leaf path this is `p ∉ ⟦M⟧`, `p ∉ ⟦R⟧`, and since `Validate` only accepts update
paths inside `W`, `⟦M⟧∩⟦W⟧ = ⟦M⟧`) holds after the write exactly what it held before.
Hypotheses that remain, all about the *representation* and satisfied by every message the harness
serialises from a real protobuf message: keys are unique in the messages along `p` (`NoDupAlong`),
along `p` the written message never has a non-message where the stored one has a message (`Agree`:
both follow one schema), and no oneof assignment can displace a field of `p` (`NoDispAlong`; clearing
the other members of a oneof is inherent in assigning one). -/
theorem C05_frame (S : Schema) (ty : Nat) (u : Updater) (dst src : Fields) (r : Merged)
    (m : Path) (ms : List Path) (p : Path)
    (hM : u.update = some (m :: ms)) (hMc : Clean (m :: ms)) (hMn : NonNil (m :: ms))
    (hp : p ≠ []) (hpM : Unrelated p (m :: ms))
    (hR : ∀ R, u.reset = some R → Clean R ∧ Unrelated p R)
    (hdisp : NoDispAlong S ty p)
    (hnd : NoDupAlong p dst) (hns : NoDupAlong p src) (hag : Agree p dst src)
    (h : merge S ty u dst src = some r) :
    r.dst.getPath p = dst.getPath p := by
  have hreset : ∀ d d', resetDst u d = some d' → d'.getPath p = d.getPath p := by
    intro d d' hd'
    unfold resetDst at hd'
    cases hr : u.reset with
    | none => rw [hr] at hd'; simp at hd'; rw [hd']
    | some R =>
      rw [hr] at hd'
      obtain ⟨hRc, hRu⟩ := hR R hr
      exact getPath_pruneMsg_misses p _ d d' (misses_nestedMask hRc hp hRu) hd'
  unfold merge at h
  by_cases hW : u.writable = some []
  · simp only [hW, if_true, hM, reduceCtorEq, if_false] at h
    cases hd' : resetDst u dst with
    | none => rw [hd'] at h; cases h
    | some d' => rw [hd'] at h; simp at h; rw [← h]; exact hreset _ _ hd'
  · simp only [hW, if_false, hM] at h
    split at h
    · cases h
    next src1 hf1 =>
      -- the writable filter keeps the written message in shape
      have hs1 := shape_filterMsg p _ dst src src1 hf1 hns hag
      simp only [Option.getD_some] at h
      have hne := nestedMask_not_empty hMc hMn (by simp)
      have hmiss := misses_nestedMask hMc hp hpM
      split at h
      · cases h
      next src2 hf2 =>
        unfold filterMsg at hf2
        simp only [hne, Bool.false_eq_true, if_false] at hf2
        have hready := mergeReady_filterFields p _ dst src1 src2 hmiss hf2 hs1.1 hs1.2
        have hs2 := noDupAlong_filterFields p _ src1 src2 hf2 hs1.1
        have h2 := getPath_mergeFields S p ty dst src2 hready hdisp
        have hn2 := noDupAlong_mergeFields S p ty dst src2 hnd hs2 hdisp hready
        split at h
        · cases h
        next d3 hd3 =>
          have h3 := getPath_pruneEmpty_misses p _ src2 _ d3 hmiss hn2 hd3
          cases hd' : resetDst u d3 with
          | none => rw [hd'] at h; cases h
          | some d' => rw [hd'] at h; simp at h; rw [← h, hreset _ _ hd', h3, h2]

/--
Full-strength statement: `validate = ok → merge = some r → ∀ leaf path p ∉ ⟦M⟧∩⟦W⟧, p ∉ ⟦R⟧ →
r.dst.getPath p = dst.getPath p`.  What is proved for all inputs is its instance for every path whose
*top-level* field no update / reset path starts with (below); for a path under a field that update
paths pass through see `C05_frame` above (non-nil update mask, any depth); for a nil update mask with
nested writable paths the statement at depth rests on the K1/K2 ties and the path-by-path monitor.

**C05_frame_toplevel.**  For every schema, message type, stored and written message, writable, reset
and non-empty update mask (paths non-empty, without empty segments): a field `k` that is the first
segment of no update path and of no reset path, and that no oneof assignment can displace, is in
the result exactly what it was — together with everything below it. -/
theorem C05_frame_toplevel (S : Schema) (ty : Nat) (u : Updater) (dst src : Fields) (r : Merged)
    (m : Path) (ms : List Path) (k : Name)
    (hM : u.update = some (m :: ms)) (hMc : Clean (m :: ms)) (hMn : NonNil (m :: ms))
    (hk : NoHead k (m :: ms))
    (hR : ∀ R, u.reset = some R → Clean R ∧ NoHead k R)
    (hd : NotDisplaced S ty k)
    (h : merge S ty u dst src = some r) :
    r.dst.get k = dst.get k ∧ ∀ p, r.dst.getPath (k :: p) = dst.getPath (k :: p) := by
  suffices hget : r.dst.get k = dst.get k by
    refine ⟨hget, fun p => ?_⟩
    cases p with
    | nil => simpa [Fields.getPath] using hget
    | cons k' rest => simp [Fields.getPath, hget]
  have hreset : ∀ d d', resetDst u d = some d' → d'.get k = d.get k := by
    intro d d' hd'
    unfold resetDst at hd'
    cases hr : u.reset with
    | none => rw [hr] at hd'; simp at hd'; rw [hd']
    | some R =>
      rw [hr] at hd'
      obtain ⟨hRc, hRk⟩ := hR R hr
      exact get_pruneMsg_other _ k (find_nestedMask_noHead hRc hRk) d d' hd'
  unfold merge at h
  by_cases hW : u.writable = some []
  · simp only [hW, if_true, hM, reduceCtorEq, if_false] at h
    cases hd' : resetDst u dst with
    | none => rw [hd'] at h; cases h
    | some d' => rw [hd'] at h; simp at h; rw [← h]; exact hreset _ _ hd'
  · simp only [hW, if_false, hM] at h
    split at h
    · cases h
    next src1 _ =>
      simp only [Option.getD_some] at h
      have hne := nestedMask_not_empty hMc hMn (by simp)
      have hfind := find_nestedMask_noHead hMc hk
      split at h
      · cases h
      next src2 hf2 =>
        have hsrc2 : src2.get k = none := by
          unfold filterMsg at hf2
          simp only [hne, Bool.false_eq_true, if_false] at hf2
          exact get_filterFields_none _ k hfind src1 src2 hf2
        split at h
        · cases h
        next d3 hd3 =>
          have h3 : d3.get k = dst.get k := by
            rw [get_pruneEmpty_other _ _ k hfind _ _ hd3, get_mergeFields_other S ty k hd src2 dst hsrc2]
          cases hd' : resetDst u d3 with
          | none => rw [hd'] at h; cases h
          | some d' => rw [hd'] at h; simp at h; rw [← h]; rw [hreset _ _ hd']; exact h3

/-- **C05_frame_toplevel_nil_mask.**  The same for a nil update mask ("all writable fields"): a field
that is the first segment of no writable path and of no reset path, and that no oneof assignment
can displace, is in the result exactly what it was. -/
theorem C05_frame_toplevel_nil_mask (S : Schema) (ty : Nat) (u : Updater) (dst src : Fields) (r : Merged)
    (w : Path) (ws : List Path) (k : Name)
    (hM : u.update = none) (hW : u.writable = some (w :: ws)) (hWc : Clean (w :: ws)) (hWn : NonNil (w :: ws))
    (hk : NoHead k (w :: ws))
    (hR : ∀ R, u.reset = some R → Clean R ∧ NoHead k R)
    (hd : NotDisplaced S ty k)
    (h : merge S ty u dst src = some r) :
    r.dst.get k = dst.get k := by
  have hne := nestedMask_not_empty hWc hWn (by simp)
  have hfind := find_nestedMask_noHead hWc hk
  have hreset : ∀ d d', resetDst u d = some d' → d'.get k = d.get k := by
    intro d d' hd'
    unfold resetDst at hd'
    cases hr : u.reset with
    | none => rw [hr] at hd'; simp at hd'; rw [hd']
    | some R =>
      rw [hr] at hd'
      obtain ⟨hRc, hRk⟩ := hR R hr
      exact get_pruneMsg_other _ k (find_nestedMask_noHead hRc hRk) d d' hd'
  unfold merge at h
  simp only [hW, hM] at h
  rw [if_neg (by simp)] at h
  simp only [Option.isNone_some, Bool.false_eq_true, if_false] at h
  split at h
  · cases h
  next src1 hf1 =>
    have hsrc1 : src1.get k = none := by
      unfold filterMsg at hf1
      simp only [hne, Bool.false_eq_true, if_false] at hf1
      exact get_filterFields_none _ k hfind src src1 hf1
    cases hd1 : pruneMsg (nestedMask (w :: ws)) dst with
    | none => rw [hd1] at h; simp at h
    | some dst1 =>
      rw [hd1] at h
      have hdst1 : dst1.get k = dst.get k := get_pruneMsg_other _ k hfind dst dst1 hd1
      simp only [Option.getD_none] at h
      have hnil : nestedMask [] = Mask.nil := rfl
      rw [hnil] at h
      have hfm : filterMsg Mask.nil src1 = some src1 := by simp [filterMsg, Mask.isEmpty]
      rw [hfm] at h
      simp only at h
      split at h
      · cases h
      next d3 hd3 =>
        have h3 : d3.get k = dst.get k := by
          rw [get_pruneEmpty_other _ _ k rfl _ _ hd3, get_mergeFields_other S ty k hd src1 dst1 hsrc1, hdst1]
        cases hd' : resetDst u d3 with
        | none => rw [hd'] at h; cases h
        | some d' => rw [hd'] at h; simp at h; rw [← h]; rw [hreset _ _ hd']; exact h3

/-! ## Non-vacuity -/

/-- A schema for the examples: type 0 = {f : message 1, g : scalar}, type 1 = {c, d : scalar}. -/
def wSchema : Schema :=
  [[⟨"f", .message 1, 0⟩, ⟨"g", .scalar, 0⟩], [⟨"c", .scalar, 0⟩, ⟨"d", .scalar, 0⟩]]

/-- stored `{f={c=1,d=2}, g=7}` -/
def wStored : Fields :=
  .cons "f" (.msg (.cons "c" (.sc "i1") (.cons "d" (.sc "i2") .nil))) (.cons "g" (.sc "i7") .nil)

/-- `C05_rejects` applies: `g.x` continues through a scalar, `nope` is unknown, `f` is a strict
parent of the writable `f.c`, `g` is unrelated to it. -/
example : ¬ GoodPath wSchema 0 ["g", "x"] ∧ ¬ GoodPath wSchema 0 ["nope"] := by
  constructor <;> (intro h; have := (validPath_iff wSchema 0 _).mpr h; revert this; decide)
example : ¬ InsideWritable [["f", "c"]] ["f"] ∧ ¬ InsideWritable [["f", "c"]] ["g"] := by
  constructor <;> (intro h; have := (isWritablePath_iff _ _).mpr h; revert this; decide)
/-- …and the formerly accepted masks are rejected now, the formerly rejected duplicate accepted. -/
example : validate wSchema 0 ⟨some [["f", "c"]], some [["f"]], none⟩ = .invalidArgument ∧
    validate wSchema 0 ⟨some [["f", "c"], ["f", "d"]], some [["f"], ["g"]], none⟩ = .invalidArgument ∧
    validate wSchema 0 ⟨some [["g"]], some [["g"], ["g"]], none⟩ = .ok := by decide
/-- `C05_reset` applies with nothing writable, and to parent+child reset paths. -/
example : (merge wSchema 0 ⟨some [], none, some [["g"]]⟩ wStored .nil).map (·.dst.get "g") = some none := by decide
example : Clean [["f"], ["f", "c"]] ∧ NonNil [["f"], ["f", "c"]] ∧
    (merge wSchema 0 ⟨none, none, some [["f"], ["f", "c"]]⟩ wStored wStored).map (·.dst.get "f") = some none := by decide
/-- The hypotheses of the frame theorems hold for nested masks. -/
example : Clean [["f", "c"]] ∧ NonNil [["f", "c"]] ∧ NoHead "g" [["f", "c"]] ∧
    (merge wSchema 0 ⟨none, some [["f", "c"]], none⟩ wStored .nil).isSome = true ∧
    (merge wSchema 0 ⟨some [["f", "c"]], none, none⟩ wStored .nil).isSome = true := by decide
example : NotDisplaced wSchema 0 "g" := by
  intro n; unfold Schema.sibs; cases h : wSchema.field 0 n with
  | none => simp
  | some fd =>
    have : fd.oneof = 0 := by
      have hm := List.mem_of_find?_eq_some h
      simp [Schema.fields, wSchema] at hm
      rcases hm with rfl | rfl <;> rfl
    simp [this]
/-- The hypotheses of `C05_frame` hold for the nested path `f.d` under the update mask `{f.c}`. -/
example : Unrelated ["f", "d"] [["f", "c"]] ∧ Clean [["f", "c"]] ∧ NonNil [["f", "c"]] := by decide
example : NoDupAlong ["f", "d"] wStored ∧ NoDupAlong ["f", "d"] (.cons "g" (.sc "i9") .nil) ∧
    Agree ["f", "d"] wStored (.cons "g" (.sc "i9") .nil) := by
  refine ⟨?_, ?_, ?_⟩
  · simp [NoDupAlong, wStored, Fields.keys, Fields.get]
  · simp [NoDupAlong, Fields.keys, Fields.get]
  · simp [Agree, Fields.get]
/-- The former witnesses now behave: `{f.c}` without `f` in the written message clears only `f.c`. -/
example : (merge wSchema 0 ⟨none, some [["f", "c"]], none⟩ wStored (.cons "g" (.sc "i9") .nil)).map (·.dst)
    = some (.cons "f" (.msg (.cons "d" (.sc "i2") .nil)) (.cons "g" (.sc "i7") .nil)) := by decide

/-! ## The repaired defects, as witnesses over the former definitions (`Legacy.lean`) -/

/-- **C05_rejects_legacy_fails** (before 4d3ae38).  Writable `{f.c, f.d}`, update mask `{f, g}`: `g` is
related to no writable path, yet the count comparison accepted it and the write cleared the stored
`g`.  The current `validate` rejects it (`C05_rejects`). -/
theorem C05_rejects_legacy_fails :
    ∃ (u : Updater) (src : Fields),
      u.writable = some [["f", "c"], ["f", "d"]] ∧ u.update = some [["f"], ["g"]] ∧
      Legacy.validate wSchema 0 u = .ok ∧
      (Legacy.merge wSchema 0 u wStored src).map (·.dst.get "g") = some none ∧
      validate wSchema 0 u = .invalidArgument :=
  ⟨⟨some [["f", "c"], ["f", "d"]], some [["f"], ["g"]], none⟩, .cons "g" (.sc "i9") .nil,
   rfl, rfl, by decide, by decide, by decide⟩

/-- **C05_frame_legacy_fails_nested** (before 37d17a7).  Update mask `{f.c}`, written message without
`f`: all of `f` was cleared, `f.d` included; now only `f.c` is. -/
theorem C05_frame_legacy_fails_nested :
    ∃ (u : Updater) (src : Fields),
      u = ⟨none, some [["f", "c"]], none⟩ ∧ Legacy.validate wSchema 0 u = .ok ∧
      wStored.getPath ["f", "d"] = some (.sc "i2") ∧
      (Legacy.merge wSchema 0 u wStored src).map (·.dst.getPath ["f", "d"]) = some none ∧
      (merge wSchema 0 u wStored src).map (·.dst.getPath ["f", "d"]) = some (some (.sc "i2")) ∧
      (merge wSchema 0 u wStored src).map (·.dst.getPath ["f", "c"]) = some none :=
  ⟨_, .cons "g" (.sc "i9") .nil, rfl, by decide, by decide, by decide, by decide, by decide⟩

/-- **C05_frame_legacy_fails_wider** (before 4d3ae38).  Update mask `{f}` with writable `{f.c}` was
accepted and cleared `f.d`, which is not writable; now it is rejected. -/
theorem C05_frame_legacy_fails_wider :
    ∃ (u : Updater) (src : Fields),
      u = ⟨some [["f", "c"]], some [["f"]], none⟩ ∧ Legacy.validate wSchema 0 u = .ok ∧
      (Legacy.merge wSchema 0 u wStored src).map (·.dst.getPath ["f", "d"]) = some none ∧
      validate wSchema 0 u = .invalidArgument :=
  ⟨_, .cons "g" (.sc "i9") .nil, rfl, by decide, by decide, by decide⟩

/-- **C05_scalar_in_legacy_fails** (before 40c1599).  Update mask `{f, f.c}`: `f.d`, written as 6,
kept its stored value 2; now the mask means `{f}` and `f.d` becomes 6. -/
theorem C05_scalar_in_legacy_fails :
    ∃ (u : Updater) (src : Fields),
      u = ⟨none, some [["f"], ["f", "c"]], none⟩ ∧ Legacy.validate wSchema 0 u = .ok ∧
      src.getPath ["f", "d"] = some (.sc "i6") ∧
      (Legacy.merge wSchema 0 u wStored src).map (·.dst.getPath ["f", "d"]) = some (some (.sc "i2")) ∧
      (merge wSchema 0 u wStored src).map (·.dst.getPath ["f", "d"]) = some (some (.sc "i6")) :=
  ⟨_, .cons "f" (.msg (.cons "c" (.sc "i5") (.cons "d" (.sc "i6") .nil))) .nil,
   rfl, by decide, by decide, by decide, by decide⟩

/-- **C05_reset_legacy_fails_nothing_writable** (before 70b9b73).  With a non-nil empty writable mask
the reset mask was skipped. -/
theorem C05_reset_legacy_fails_nothing_writable :
    ∃ (u : Updater), u = ⟨some [], none, some [["g"]]⟩ ∧
      (Legacy.merge wSchema 0 u wStored .nil).map (·.dst.get "g") = some (some (.sc "i7")) ∧
      (merge wSchema 0 u wStored .nil).map (·.dst.get "g") = some none :=
  ⟨_, rfl, by decide, by decide⟩

end ScVerif.C05
