import ScVerif.C05.Lib
/-
Model of `pkg/masks/update.go` (`FieldUpdater.Validate`, `FieldUpdater.Merge`, `pruneEmpty`,
`fullMask`) and of the option plumbing in `pkg/resource/opt.go` (`WriteRequest.fieldUpdater`) and
`Value.set` as far as masks are concerned.  A mask is `Option (List Path)`: `none` is Go's nil
`*FieldMask`.
-/
namespace ScVerif.C05

structure Updater where
  writable : Option (List Path)
  update : Option (List Path)
  reset : Option (List Path)
deriving Repr, Inhabited

/-- gRPC status codes returned by `Validate`. -/
inductive Code where
  | ok | invalidArgument | internal
deriving DecidableEq, Repr, Inhabited

def Code.show : Code → String
  | .ok => "OK"
  | .invalidArgument => "InvalidArgument"
  | .internal => "Internal"

/-- The reset-mask clause of `Validate`. -/
def validateReset (S : Schema) (ty : Nat) (u : Updater) : Code :=
  match u.reset with
  | some R => if isValid S ty R then .ok else .internal
  | none => .ok

/-- `isWritablePath(path, writable)`: the path is a writable path or lies inside one. -/
def isWritablePath (W : List Path) (p : Path) : Bool := W.any (fun w => hasPrefix p w)

/-- `FieldUpdater.Validate(m)`. -/
def validate (S : Schema) (ty : Nat) (u : Updater) : Code :=
  match u.update with
  | some M =>
    if !isValid S ty M then .invalidArgument
    else
      match u.writable with
      | some W =>
        if !M.all (isWritablePath W) then .invalidArgument else validateReset S ty u
      | none => validateReset S ty u
  | none => validateReset S ty u

/-- `pruneEmpty(dst, src, mask)`: a populated field of dst that the mask names and src lacks is
cleared — unless it is a singular message that the mask only names through deeper paths, then just
those are pruned from it (`fieldMask.Prune`, which may panic: `none`); singular message fields
present on both sides are visited with the nested mask. -/
def pruneEmpty (mask : Mask) (src : Fields) : Fields → Out Fields
  | .nil => some .nil
  | .cons k v rest =>
    match mask.find k with
    | none => (pruneEmpty mask src rest).map (.cons k v)
    | some sub =>
      match src.get k with
      | none =>
        match v with
        | .msg df =>
          if sub.isEmpty then pruneEmpty mask src rest            -- dstPr.Clear(d)
          else
            match pruneFields sub df with                         -- fieldMask.Prune(dst.f)
            | none => none
            | some df' => (pruneEmpty mask src rest).map (.cons k (.msg df'))
        | _ => pruneEmpty mask src rest                           -- dstPr.Clear(d)
      | some sv =>
        match v, sv with
        | .msg df, .msg sf =>
          match pruneEmpty sub sf df with
          | none => none
          | some df' => (pruneEmpty mask src rest).map (.cons k (.msg df'))
        | _, _ => (pruneEmpty mask src rest).map (.cons k v)

/-- Result of `Merge`: the new dst and the (mutated in place) src. -/
structure Merged where
  dst : Fields
  src : Fields
deriving DecidableEq, Repr, Inhabited

/-- `FieldUpdater.reset(dst)`. -/
def resetDst (u : Updater) (dst : Fields) : Out Fields :=
  match u.reset with
  | none => some dst
  | some R => pruneMsg (nestedMask R) dst

/-- `FieldUpdater.Merge(dst, src)`; `none` is a panic inside fmutils. -/
def merge (S : Schema) (ty : Nat) (u : Updater) (dst src : Fields) : Out Merged :=
  if u.writable = some [] then
    -- nothing is writable: only the reset mask applies (an empty update mask still means no changes)
    if u.update = some [] then some ⟨dst, src⟩ else (resetDst u dst).map (⟨·, src⟩)
  else
    let wmask : Mask := match u.writable with
      | some W => nestedMask W
      | none => .nil
    -- writableMask.Filter(src)
    match filterMsg wmask src with
    | none => none
    | some src1 =>
      -- mask == nil: make dst look like src;  empty non-nil mask: no changes
      let dst1? : Option (Out Fields) :=
        match u.update with
        | none => some (if u.writable.isNone then some .nil else pruneMsg wmask dst)
        | some [] => none
        | some _ => some (some dst)
      match dst1? with
      | none => some ⟨dst, src1⟩                               -- early return
      | some none => none
      | some (some dst1) =>
        let umask := nestedMask (u.update.getD [])
        match filterMsg umask src1 with
        | none => none
        | some src2 =>
          let dst2 := mergeFields S ty dst1 src2
          match pruneEmpty umask src2 dst2 with
          | none => none
          | some dst3 => (resetDst u dst3).map (⟨·, src2⟩)

/-! ## resource plumbing -/

/-- The `masks.FieldUpdaterOption`s that `WriteRequest.fieldUpdater` uses. -/
inductive FUOpt where
  | withUpdateMask (m : Option (List Path))       -- masks.WithUpdateMask
  | withResetMask (m : Option (List Path))        -- masks.WithResetMask
  | withWritableFields (m : Option (List Path))   -- masks.WithWritableFields
deriving DecidableEq, Repr, Inhabited

/-- `opt(updater)`.  `WithUpdateMask` and `WithWritableFields` return `emptyFieldUpdaterOption` for a
NIL mask only (`== nil`, not `len(paths) == 0`): a non-nil mask without paths is stored as it is —
for the writable fields it means "nothing is writable", for the update mask "no changes". -/
def FUOpt.apply (u : Updater) : FUOpt → Updater
  | .withUpdateMask none => u
  | .withUpdateMask (some M) => { u with update := some M }
  | .withResetMask m => { u with reset := m }
  | .withWritableFields none => u
  | .withWritableFields (some W) => { u with writable := some W }

/-- `masks.NewFieldUpdater(opts...)` (the default option only sets the field name of error texts). -/
def newFieldUpdater (opts : List FUOpt) : Updater := opts.foldl FUOpt.apply ⟨none, none, none⟩

/-- `WriteRequest.fieldUpdater(writableFields)`: update and reset mask of the request, and — unless
`WithAllFieldsWritable` or the resource has no writable fields — `masks.WithWritableFields` of the
resource writable fields ∪ per-call extra writable fields (already normalised by
`WithMoreWritableFields`). -/
def fieldUpdater (resWritable more : Option (List Path)) (allWritable : Bool)
    (update reset : Option (List Path)) : Updater :=
  let opts : List FUOpt := [.withUpdateMask update, .withResetMask reset]
  let opts : List FUOpt :=
    if !allWritable then
      match resWritable with
      | some w => opts ++ [.withWritableFields (some (union w (more.getD [])))]
      | none => opts
    else opts
  newFieldUpdater opts

/-- The updater `WriteRequest.fieldUpdater` builds, field by field. -/
theorem fieldUpdater_eq (resWritable more : Option (List Path)) (allWritable : Bool)
    (update reset : Option (List Path)) :
    fieldUpdater resWritable more allWritable update reset =
      { writable := if allWritable then none
          else match resWritable with
            | some w => some (union w (more.getD []))
            | none => none,
        update := update, reset := reset } := by
  cases allWritable <;> cases resWritable <;> cases update <;>
    simp [fieldUpdater, newFieldUpdater, FUOpt.apply]

/-- `WithMoreWritableFields(m)` on a fresh request: `Union(nil, m)`. -/
def moreWritable (m : Option (List Path)) : Option (List Path) := m.map normalize

inductive SetOut where
  | err (c : Code)
  | panic
  | ok (stored : Fields) (src : Fields)
deriving DecidableEq, Repr, Inhabited

/-- `Value.set` (no interceptors, no expectations): validate, then merge into a clone of the stored
value (an empty message when nothing is stored) and save. -/
def valueSet (S : Schema) (ty : Nat) (u : Updater) (stored src : Fields) : SetOut :=
  match validate S ty u with
  | .ok =>
    match merge S ty u stored src with
    | none => .panic
    | some r => .ok r.dst r.src
  | c => .err c

end ScVerif.C05
