import ScVerif.C05.Update
/-
Text codec of the C05/C06 drivers (I/O glue, nothing is proved about it):

  msg    := '{' [ field { ',' field } ] '}'
  field  := name '=' val
  val    := tok | msg | '[' tok {',' tok} ']' | '<' msg {',' msg} '>' | '(' tok ':' tok {',' …} ')'
  mask   := '~' (nil) | '-' (no paths) | '/' path { '/' path }      path segments separated by '.'
  schema := type { ';' type }     type := '-' | fd { ',' fd }     fd := name ':' kind ':' oneof
            kind := 's' | 'm'<ty> | 'S' | 'M'<ty> | 'p'

Printing sorts fields by name and map entries by key so that it is a canonical form.
-/
namespace ScVerif.C05.Codec
open ScVerif.C05

def isTokChar (c : Char) : Bool :=
  c.isAlphanum || c = '_' || c = '+' || c = '-' || c = '.' || c = '*'

def takeTok (cs : List Char) : String × List Char :=
  let t := cs.takeWhile isTokChar
  (String.ofList t, cs.drop t.length)

mutual
  partial def parseMsg : List Char → Option (Fields × List Char)
    | '{' :: '}' :: cs => some (.nil, cs)
    | '{' :: cs => parseFields cs
    | _ => none
  partial def parseFields (cs : List Char) : Option (Fields × List Char) :=
    let (name, cs) := takeTok cs
    if name.isEmpty then none else
    match cs with
    | '=' :: cs =>
      match parseVal cs with
      | some (v, ',' :: cs) => (parseFields cs).map (fun (fs, r) => (.cons name v fs, r))
      | some (v, '}' :: cs) => some (.cons name v .nil, cs)
      | _ => none
    | _ => none
  partial def parseVal : List Char → Option (Val × List Char)
    | '{' :: cs => (parseMsg ('{' :: cs)).map (fun (fs, r) => (.msg fs, r))
    | '[' :: cs => (parseToks cs).map (fun (xs, r) => (.scs xs, r))
    | '<' :: cs => (parseMsgs cs).map (fun (xs, r) => (.msgs xs, r))
    | '(' :: cs => (parseEntries cs).map (fun (es, r) => (.map es, r))
    | cs =>
      let (t, cs) := takeTok cs
      if t.isEmpty then none else some (.sc t, cs)
  partial def parseToks (cs : List Char) : Option (List String × List Char) :=
    let (t, cs) := takeTok cs
    if t.isEmpty then none else
    match cs with
    | ',' :: cs => (parseToks cs).map (fun (xs, r) => (t :: xs, r))
    | ']' :: cs => some ([t], cs)
    | _ => none
  partial def parseMsgs (cs : List Char) : Option (Msgs × List Char) :=
    match parseMsg cs with
    | some (m, ',' :: cs) => (parseMsgs cs).map (fun (xs, r) => (.cons m xs, r))
    | some (m, '>' :: cs) => some (.cons m .nil, cs)
    | _ => none
  partial def parseEntries (cs : List Char) : Option (List (String × String) × List Char) :=
    let (k, cs) := takeTok cs
    if k.isEmpty then none else
    match cs with
    | ':' :: cs =>
      let (v, cs) := takeTok cs
      if v.isEmpty then none else
      match cs with
      | ',' :: cs => (parseEntries cs).map (fun (es, r) => ((k, v) :: es, r))
      | ')' :: cs => some ([(k, v)], cs)
      | _ => none
    | _ => none
end

def parseMessage (s : String) : Option Fields :=
  match parseMsg s.toList with
  | some (fs, []) => some fs
  | _ => none

def insertBy {α} (lt : α → α → Bool) (x : α) : List α → List α
  | [] => [x]
  | y :: rest => if lt y x then y :: insertBy lt x rest else x :: y :: rest

def sortBy {α} (lt : α → α → Bool) : List α → List α
  | [] => []
  | x :: rest => insertBy lt x (sortBy lt rest)

mutual
  partial def showMsg (fs : Fields) : String :=
    let items := sortBy (fun a b => decide (a.1 < b.1)) (fieldList fs)
    "{" ++ ",".intercalate (items.map (fun (k, v) => k ++ "=" ++ showVal v)) ++ "}"
  partial def fieldList : Fields → List (String × Val)
    | .nil => []
    | .cons k v rest => (k, v) :: fieldList rest
  partial def showVal : Val → String
    | .sc s => s
    | .msg fs => showMsg fs
    | .scs xs => "[" ++ ",".intercalate xs ++ "]"
    | .msgs xs => "<" ++ ",".intercalate (xs.toList.map showMsg) ++ ">"
    | .map es =>
      let es := sortBy (fun a b => decide (a.1 < b.1)) es
      "(" ++ ",".intercalate (es.map (fun (k, v) => k ++ ":" ++ v)) ++ ")"
end

/-- Path segments: every byte must be greater than `.` (see `lessPath`), i.e. letters, digits, `_`. -/
def segOk (s : String) : Bool := s.toList.all (fun c => c.isAlphanum || c = '_')

def parsePath (s : String) : Option Path :=
  let segs := s.splitOn "."
  if segs.all segOk then some segs else none

def parseMask (s : String) : Option (Option (List Path)) :=
  if s = "~" then some none
  else if s = "-" then some (some [])
  else if s.startsWith "/" then
    ((s.splitOn "/").drop 1).mapM parsePath |>.map some
  else none

def showPath (p : Path) : String := ".".intercalate p

def showPaths (ps : List Path) : String :=
  if ps.isEmpty then "-" else String.join (ps.map (fun p => "/" ++ showPath p))

partial def maskList : Mask → List (String × Mask)
  | .nil => []
  | .cons k sub rest => (k, sub) :: maskList rest

partial def showNested (m : Mask) : String :=
  let items := sortBy (fun a b => decide (a.1 < b.1)) (maskList m)
  "{" ++ ",".intercalate (items.map (fun (k, sub) => k ++ showNested sub)) ++ "}"

def parseKind (s : String) : Option Kind :=
  if s = "s" then some .scalar
  else if s = "S" then some .repScalar
  else if s = "p" then some .map
  else if s.startsWith "m" then (s.drop 1).toString.toNat?.map .message
  else if s.startsWith "M" then (s.drop 1).toString.toNat?.map .repMessage
  else none

def parseFieldDesc (s : String) : Option FieldDesc :=
  match s.splitOn ":" with
  | [n, k, o] => do
    let kind ← parseKind k
    let oneof ← o.toNat?
    if n.isEmpty then none else some ⟨n, kind, oneof⟩
  | _ => none

def parseType (s : String) : Option (List FieldDesc) :=
  if s = "-" then some [] else (s.splitOn ",").mapM parseFieldDesc

def parseSchema (s : String) : Option Schema := (s.splitOn ";").mapM parseType

end ScVerif.C05.Codec
