import ScVerif.C03.Inv3
/-!
# C03 — the change type agrees with the old value, on every schedule

`tagOK e`: the change is an ADD exactly when it carries no old value.  Established at the commit (`Collection.Update`
announces an ADD only when nothing was stored — also when the item it set out to create was created meanwhile — and
`Delete` a REMOVE carrying the removed body), kept by the listener copy, the deliveries, the merge stage (a merged change
takes type and old value from the FIRST pending change), the consumer's receive steps and the forwarder (`include`
turns a change into an ADD without old value or a REMOVE with one).  No hypothesis on the schedule.
-/
set_option linter.unusedSectionVars false
set_option linter.unusedVariables false
namespace ScVerif.C03
open ScVerif.C02 (setAt setAt_same setAt_other)

variable {M : Type} [DecidableEq M]

def tagOK (e : Event M) : Prop := e.isAdd = e.old.isNone

structure Tag (c : Cfg M) : Prop where
  pubs : ∀ p, p ∈ c.pubs → tagOK p.ev
  pending : ∀ s e, e ∈ (c.subs s).pending → tagOK e
  evs : ∀ s e, e ∈ (c.subs s).evs → tagOK e

theorem mergeInto_tag (P : List (Event M)) (e : Event M) (hP : ∀ a, a ∈ P → tagOK a) (he : tagOK e) :
    ∀ x, x ∈ mergeInto P e → tagOK x := by
  induction P with
  | nil => intro x hx; simp only [mergeInto, List.mem_singleton] at hx; rw [hx]; exact he
  | cons a P ih =>
    intro x hx
    simp only [mergeInto] at hx
    split at hx
    · split at hx
      · exact hP x (List.mem_cons_of_mem _ hx)
      · rcases List.mem_append.mp hx with h1 | h1
        · exact hP x (List.mem_cons_of_mem _ h1)
        · simp only [List.mem_singleton] at h1
          rw [h1]
          exact hP a List.mem_cons_self
    · rcases List.mem_cons.mp hx with h1 | h1
      · rw [h1]; exact hP a List.mem_cons_self
      · exact ih (fun a' ha' => hP a' (List.mem_cons_of_mem _ ha')) x h1

theorem fwdEv_tag {incl : Option (Nat → M → Bool)} {mask : M → M} {e e' : Event M} (he : tagOK e)
    (h : fwdEv incl mask e = some e') : tagOK e' := by
  unfold fwdEv at h
  cases incl with
  | none =>
    simp only [Option.some.injEq] at h
    subst h
    unfold tagOK at he ⊢
    simp only [he]
    cases e.old <;> rfl
  | some f =>
    simp only [] at h
    cases hni : inclOpt (some f) e.id e.new <;> cases hoi : inclOpt (some f) e.id e.old <;>
      simp only [hni, hoi, if_true, if_false, Bool.false_eq_true, Bool.true_eq_false, reduceCtorEq,
        Option.some.injEq] at h
    · subst h
      unfold tagOK
      cases ho : e.old with
      | none => simp [inclOpt, ho] at hoi
      | some x => rfl
    · subst h; rfl
    · subst h
      unfold tagOK at he ⊢
      simp only [he]
      cases e.old <;> rfl

theorem stepCommit_pubs (c : Cfg M) (t : Nat) : ∀ p, p ∈ (stepCommit c t).pubs → p ∈ c.pubs ∨ tagOK p.ev := by
  intro p hp
  unfold stepCommit at hp
  simp only [Cfg.popOp] at hp
  repeat' split at hp
  all_goals first
    | exact Or.inl hp
    | (rcases List.mem_append.mp hp with h1 | h1
       · exact Or.inl h1
       · simp only [List.mem_singleton] at h1
         right; rw [h1]; simp [tagOK])

theorem stepSnap_pubs (c : Cfg M) (k : Nat) : ∀ q, q ∈ (stepSnap c k).pubs → ∃ p, p ∈ c.pubs ∧ q.ev = p.ev := by
  intro q hq
  unfold stepSnap at hq
  simp only [Cfg.finishPub] at hq
  split at hq
  · exact ⟨q, hq, rfl⟩
  · next p post hd =>
    have hsplit := pubs_split hd
    split at hq
    · exact ⟨q, hq, rfl⟩
    · split at hq
      · refine ⟨q, ?_, rfl⟩
        rw [hsplit]
        rcases List.mem_append.mp hq with h1 | h1
        · exact List.mem_append_left _ h1
        · exact List.mem_append_right _ (List.mem_cons_of_mem _ h1)
      · rcases List.mem_append.mp hq with h1 | h1
        · exact ⟨q, by rw [hsplit]; exact List.mem_append_left _ h1, rfl⟩
        · rcases List.mem_cons.mp h1 with h2 | h2
          · exact ⟨p, by rw [hsplit]; exact List.mem_append_right _ List.mem_cons_self, by rw [h2]⟩
          · exact ⟨q, by rw [hsplit]; exact List.mem_append_right _ (List.mem_cons_of_mem _ h2), rfl⟩

theorem stepDeliver_pubs (c : Cfg M) (k : Nat) : ∀ q, q ∈ (stepDeliver c k).pubs → ∃ p, p ∈ c.pubs ∧ q.ev = p.ev := by
  intro q hq
  unfold stepDeliver at hq
  simp only [Cfg.finishPub] at hq
  split at hq
  · exact ⟨q, hq, rfl⟩
  · next p post hd =>
    have hsplit := pubs_split hd
    have keep : q ∈ c.pubs.take k ++ post → ∃ p, p ∈ c.pubs ∧ q.ev = p.ev := by
      intro h
      refine ⟨q, ?_, rfl⟩
      rw [hsplit]
      rcases List.mem_append.mp h with h1 | h1
      · exact List.mem_append_left _ h1
      · exact List.mem_append_right _ (List.mem_cons_of_mem _ h1)
    split at hq
    · exact ⟨q, hq, rfl⟩
    · exact ⟨q, hq, rfl⟩
    · split at hq
      · exact ⟨q, hq, rfl⟩
      · split at hq
        · exact keep hq
        · rcases List.mem_append.mp hq with h1 | h1
          · exact ⟨q, by rw [hsplit]; exact List.mem_append_left _ h1, rfl⟩
          · rcases List.mem_cons.mp h1 with h2 | h2
            · exact ⟨p, by rw [hsplit]; exact List.mem_append_right _ List.mem_cons_self, by rw [h2]⟩
            · exact ⟨q, by rw [hsplit]; exact List.mem_append_right _ (List.mem_cons_of_mem _ h2), rfl⟩

/-- what a delivery does to one subscriber's stage: nothing, or it accepts the event of a publication in flight -/
theorem stepDeliver_stage (c : Cfg M) (k s : Nat) :
    ((stepDeliver c k).subs s).evs = (c.subs s).evs ∧
    (((stepDeliver c k).subs s).pending = (c.subs s).pending ∨
      ∃ p, p ∈ c.pubs ∧ (((stepDeliver c k).subs s).pending = mergeInto (c.subs s).pending p.ev ∨
        ((stepDeliver c k).subs s).pending = [p.ev])) := by
  unfold stepDeliver
  simp only [Cfg.finishPub]
  split
  · exact ⟨rfl, Or.inl rfl⟩
  · next p post hd =>
    have hp : p ∈ c.pubs := by rw [pubs_split hd]; exact List.mem_append_right _ List.mem_cons_self
    have acc : ∀ s0 : Nat, ((if (c.subs s0).cancelled = true then c.subs else setAt c.subs s0 ((c.subs s0).accept p.ev)) s).evs
          = (c.subs s).evs ∧
        (((if (c.subs s0).cancelled = true then c.subs else setAt c.subs s0 ((c.subs s0).accept p.ev)) s).pending
          = (c.subs s).pending ∨
        ∃ p', p' ∈ c.pubs ∧ (((if (c.subs s0).cancelled = true then c.subs else setAt c.subs s0 ((c.subs s0).accept p.ev)) s).pending
            = mergeInto (c.subs s).pending p'.ev ∨
          ((if (c.subs s0).cancelled = true then c.subs else setAt c.subs s0 ((c.subs s0).accept p.ev)) s).pending = [p'.ev])) := by
      intro s0
      split
      · exact ⟨rfl, Or.inl rfl⟩
      · by_cases hss : s = s0
        · subst hss
          rw [setAt_same]
          refine ⟨rfl, Or.inr ⟨p, hp, ?_⟩⟩
          simp only [Sub.accept]
          split
          · exact Or.inl rfl
          · exact Or.inr rfl
        · rw [setAt_other _ _ hss]
          exact ⟨rfl, Or.inl rfl⟩
    split
    · exact ⟨rfl, Or.inl rfl⟩
    · exact ⟨rfl, Or.inl rfl⟩
    · next s0 rem hst =>
      split
      · exact ⟨rfl, Or.inl rfl⟩
      · split
        · exact acc s0
        · exact acc s0

theorem Tag.init (s₀ : Nat → Option M) (progs : Nat → List (WOp M)) (opts : Nat → SubOpts M) :
    Tag (initCfg s₀ progs opts) := by
  refine ⟨?_, ?_, ?_⟩ <;> intros <;> simp_all [initCfg]

theorem Tag.next {c : Cfg M} (h : Tag c) (a : Act) : Tag (ScVerif.C03.step c a) := by
  cases a with
  | commit t =>
    have e : ScVerif.C03.step c (.commit t) = stepCommit c t := rfl
    rw [e]
    refine ⟨?_, ?_, ?_⟩
    · intro p hp
      rcases stepCommit_pubs c t p hp with h1 | h1
      · exact h.pubs p h1
      · exact h1
    · intro s x hx; rw [stepCommit_subs] at hx; exact h.pending s x hx
    · intro s x hx; rw [stepCommit_subs] at hx; exact h.evs s x hx
  | snap k =>
    have e : ScVerif.C03.step c (.snap k) = stepSnap c k := rfl
    rw [e]
    refine ⟨?_, ?_, ?_⟩
    · intro q hq
      obtain ⟨p, hp, hqp⟩ := stepSnap_pubs c k q hq
      unfold tagOK; rw [hqp]; exact h.pubs p hp
    · intro s x hx; rw [stepSnap_subs] at hx; exact h.pending s x hx
    · intro s x hx; rw [stepSnap_subs] at hx; exact h.evs s x hx
  | deliver k =>
    have e : ScVerif.C03.step c (.deliver k) = stepDeliver c k := rfl
    rw [e]
    refine ⟨?_, ?_, ?_⟩
    · intro q hq
      obtain ⟨p, hp, hqp⟩ := stepDeliver_pubs c k q hq
      unfold tagOK; rw [hqp]; exact h.pubs p hp
    · intro s x hx
      rcases (stepDeliver_stage c k s).2 with h1 | ⟨p, hp, h1 | h1⟩
      · rw [h1] at hx; exact h.pending s x hx
      · rw [h1] at hx; exact mergeInto_tag _ _ (h.pending s) (h.pubs p hp) x hx
      · rw [h1] at hx; simp only [List.mem_singleton] at hx; rw [hx]; exact h.pubs p hp
    · intro s x hx; rw [(stepDeliver_stage c k s).1] at hx; exact h.evs s x hx
  | sub s =>
    have e : ScVerif.C03.step c (.sub s) = stepSub c s := rfl
    rw [e]
    have hsame : stepSub c s = c ∨ (((stepSub c s).subs s).evs = [] ∧ ((stepSub c s).subs s).pending = [] ∧
        (stepSub c s).pubs = c.pubs) := by
      unfold stepSub
      simp only []
      split
      · left; rfl
      · right; simp [setAt_same]
    have hpubs : (stepSub c s).pubs = c.pubs := by
      unfold stepSub
      simp only []
      split <;> rfl
    refine ⟨?_, ?_, ?_⟩
    · intro p hp; rw [hpubs] at hp; exact h.pubs p hp
    · intro s' x hx
      by_cases hss : s' = s
      · subst hss
        rcases hsame with h1 | h1
        · rw [h1] at hx; exact h.pending s' x hx
        · rw [h1.2.1] at hx; cases hx
      · rw [stepSub_other c s s' hss] at hx; exact h.pending s' x hx
    · intro s' x hx
      by_cases hss : s' = s
      · subst hss
        rcases hsame with h1 | h1
        · rw [h1] at hx; exact h.evs s' x hx
        · rw [h1.1] at hx; cases hx
      · rw [stepSub_other c s s' hss] at hx; exact h.evs s' x hx
  | cancel s =>
    have e : ScVerif.C03.step c (.cancel s) = stepCancel c s := rfl
    rw [e]
    have hsame : (stepCancel c s).pubs = c.pubs ∧ ((stepCancel c s).subs s).evs = (c.subs s).evs ∧
        ((stepCancel c s).subs s).pending = (c.subs s).pending := by
      unfold stepCancel
      simp only []
      split
      · simp [setAt_same]
      · exact ⟨rfl, rfl, rfl⟩
    refine ⟨?_, ?_, ?_⟩
    · intro p hp; rw [hsame.1] at hp; exact h.pubs p hp
    · intro s' x hx
      by_cases hss : s' = s
      · subst hss; rw [hsame.2.2] at hx; exact h.pending s' x hx
      · rw [stepCancel_other c s s' hss] at hx; exact h.pending s' x hx
    · intro s' x hx
      by_cases hss : s' = s
      · subst hss; rw [hsame.2.1] at hx; exact h.evs s' x hx
      · rw [stepCancel_other c s s' hss] at hx; exact h.evs s' x hx
  | recv s =>
    have e : ScVerif.C03.step c (.recv s) = stepRecv c s := rfl
    rw [e]
    have hsame : stepRecv c s = c ∨ ∃ e rest, (c.subs s).pending = e :: rest ∧
        ((stepRecv c s).subs s).evs = (c.subs s).evs ++ [e] ∧ ((stepRecv c s).subs s).pending = rest ∧
        (stepRecv c s).pubs = c.pubs := by
      unfold stepRecv
      simp only []
      split
      · left; rfl
      · next e rest hp => right; exact ⟨e, rest, hp, by simp [setAt_same], by simp [setAt_same], rfl⟩
    have hpubs : (stepRecv c s).pubs = c.pubs := by
      rcases hsame with h1 | ⟨_, _, _, _, _, h1⟩
      · rw [h1]
      · exact h1
    refine ⟨?_, ?_, ?_⟩
    · intro p hp; rw [hpubs] at hp; exact h.pubs p hp
    · intro s' x hx
      by_cases hss : s' = s
      · subst hss
        rcases hsame with h1 | ⟨e, rest, hp, _, h2, _⟩
        · rw [h1] at hx; exact h.pending s' x hx
        · rw [h2] at hx; exact h.pending s' x (by rw [hp]; exact List.mem_cons_of_mem _ hx)
      · rw [stepRecv_other c s s' hss] at hx; exact h.pending s' x hx
    · intro s' x hx
      by_cases hss : s' = s
      · subst hss
        rcases hsame with h1 | ⟨e, rest, hp, h2, _, _⟩
        · rw [h1] at hx; exact h.evs s' x hx
        · rw [h2] at hx
          rcases List.mem_append.mp hx with h3 | h3
          · exact h.evs s' x h3
          · simp only [List.mem_singleton] at h3
            rw [h3]; exact h.pending s' e (by rw [hp]; exact List.mem_cons_self)
      · rw [stepRecv_other c s s' hss] at hx; exact h.evs s' x hx

/-- every schedule keeps the tags right -/
theorem Tag.runAll {c : Cfg M} (h : Tag c) (sched : List Act) : Tag (run c sched) := by
  induction sched generalizing c with
  | nil => exact h
  | cons a rest ih => exact ih (h.next a)

end ScVerif.C03
