import ScVerif.C03.Inv
/-!
# C03 — invariant preservation: deliver (with the merge stage and dead listeners), subscribe, cancel, recv
-/
set_option linter.unusedSectionVars false
set_option linter.unusedVariables false
namespace ScVerif.C03
open ScVerif.C02 (setAt setAt_same setAt_other)

variable {M : Type} [DecidableEq M]

theorem count_cons_ne {s s' : Nat} (rem : List Nat) (h : s' ≠ s) : (s :: rem).count s' = rem.count s' := by
  rw [List.count_cons]
  have : (s == s') = false := by simpa using (Ne.symm h)
  simp [this]

/-- what both outcomes of a delivery step (publication finished / more listeners to serve) have in common -/
theorem deliver_core {ord : Bool} {c : Cfg M} (h : Inv ord c) {k : Nat} {p : Pub M} {post : List (Pub M)}
    {s : Nat} {rem : List Nat} (hsplit : c.pubs = c.pubs.take k ++ p :: post) (hstage : p.stage = some (s :: rem))
    (hpre : ord = true → (c.subs s).live = true →
      ∀ a, a ∈ List.flatMap (copies s) (c.pubs.take k) → a.id ≠ p.ev.id)
    (hen : (c.subs s).cancelled = false → (c.subs s).lossy = false → (c.subs s).pending = [])
    (subs' : Nat → Sub M)
    (hsubs : subs' = if (c.subs s).cancelled then c.subs else setAt c.subs s ((c.subs s).accept p.ev))
    (tl : List (Pub M)) (htl : ∀ s'', tl.flatMap (copies s'') = List.replicate (rem.count s'') p.ev)
    (htlrem : ∀ q, q ∈ tl → ∀ r, q.stage = some r → r = rem) :
    (ord = true → ∀ s', (subs' s').live = true →
      ((subs' s').pending ++ List.flatMap (copies s') (c.pubs.take k ++ (tl ++ post))).foldl applyEv (subs' s').rawView
        = c.store) ∧
    (ord = true → ∀ s', (subs' s').live = true → (subs' s').lossy = true →
      chainOK (subs' s').rawView ((subs' s').pending ++ List.flatMap (copies s') (c.pubs.take k ++ (tl ++ post)))) ∧
    (ord = true → ∀ s', (subs' s').live = true →
      linkOK (subs' s').lossy (subs' s').rawView
        ((subs' s').pending ++ List.flatMap (copies s') (c.pubs.take k ++ (tl ++ post)))) ∧
    (ord = true → ∀ s', (subs' s').live = true →
      (subs' s').obsView = seedView (subs' s').incl (subs' s').mask (subs' s').rawView) ∧
    (∀ s', (subs' s').live = (c.subs s').live ∧ (subs' s').registered = (c.subs s').registered ∧
           (subs' s').cancelled = (c.subs s').cancelled) ∧
    (∀ q, q ∈ c.pubs.take k ++ (tl ++ post) → ∀ r, q.stage = some r → ∀ s', (subs' s').registered = false →
      r.count s' = 0) ∧
    (∀ s', (ids (subs' s').pending).Nodup) ∧
    (∀ s', (subs' s').live = true → ∀ k', (subs' s').subAt ≤ k' → k' < c.nextSeq →
      k' ∈ (subs' s').got ∨ k' ∈ (List.flatMap (copies s') (c.pubs.take k ++ (tl ++ post))).map (·.seq)) := by
  have hpmem : p ∈ c.pubs := by rw [hsplit]; simp
  have hother : ∀ s', s' ≠ s → subs' s' = c.subs s' := by
    intro s' hne
    rw [hsubs]
    split
    · rfl
    · exact setAt_other _ _ hne
  have hself : (c.subs s).cancelled = false → subs' s = (c.subs s).accept p.ev := by
    intro hnc
    rw [hsubs, hnc]; simp
  have hselfc : (c.subs s).cancelled = true → subs' s = c.subs s := by
    intro hc
    rw [hsubs, hc]; simp
  have hflags : ∀ s', (subs' s').live = (c.subs s').live ∧ (subs' s').registered = (c.subs s').registered ∧
      (subs' s').cancelled = (c.subs s').cancelled := by
    intro s'
    by_cases hss : s' = s
    · subst hss
      by_cases hc : (c.subs s').cancelled = true
      · rw [hselfc hc]; exact ⟨rfl, rfl, rfl⟩
      · have hc' : (c.subs s').cancelled = false := by simpa using hc
        rw [hself hc']; simp [Sub.accept, Sub.live]
    · rw [hother s' hss]; exact ⟨rfl, rfl, rfl⟩
  -- the owed events of a subscriber other than the target do not change
  have hinfl_other : ∀ s', s' ≠ s →
      List.flatMap (copies s') (c.pubs.take k ++ (tl ++ post)) = inflight c s' := by
    intro s' hne
    unfold inflight
    conv => rhs; rw [hsplit]
    simp only [List.flatMap_append, List.flatMap_cons, htl, copies_staged hstage, count_cons_ne rem hne]
  -- the owed events of the target lose the delivered copy
  have hinfl_self : inflight c s = List.flatMap (copies s) (c.pubs.take k) ++
      (p.ev :: (List.replicate (rem.count s) p.ev ++ List.flatMap (copies s) post)) := by
    unfold inflight
    conv => lhs; rw [hsplit]
    simp only [List.flatMap_append, List.flatMap_cons, copies_staged hstage, List.count_cons_self,
      List.replicate_succ, List.cons_append]
  have hinfl_self' : List.flatMap (copies s) (c.pubs.take k ++ (tl ++ post)) =
      List.flatMap (copies s) (c.pubs.take k) ++ (List.replicate (rem.count s) p.ev ++ List.flatMap (copies s) post) := by
    simp only [List.flatMap_append, htl]
  refine ⟨?_, ?_, ?_, ?_, hflags, ?_, ?_, ?_⟩
  · -- view
    intro hord s' hs'
    have hl : (c.subs s').live = true := by rw [← (hflags s').1]; exact hs'
    by_cases hss : s' = s
    · subst hss
      have hnc : (c.subs s').cancelled = false := (live_registered hl).2
      have e1 : subs' s' = (c.subs s').accept p.ev := hself hnc
      have hmove := hpre hord hl
      have hv := h.view hord s' hl
      rw [hinfl_self] at hv
      rw [e1, hinfl_self']
      have hcan : (c.subs s').lossy = true → cancels (c.subs s').pending p.ev = true →
          (c.subs s').rawView p.ev.id = none := by
        intro hlossy hcc
        have hch := h.chain hord s' hl hlossy
        exact cancels_safe _ _ _ ((chainOK_append _ _ _).mp hch).1 hcc
      have key : ((c.subs s').accept p.ev).pending.foldl applyEv ((c.subs s').accept p.ev).rawView
          = applyEv ((c.subs s').pending.foldl applyEv (c.subs s').rawView) p.ev := by
        have hrv : ((c.subs s').accept p.ev).rawView = (c.subs s').rawView := rfl
        rw [hrv]
        simp only [Sub.accept]
        cases hlossy : (c.subs s').lossy
        · simp [hen hnc hlossy]
        · simp only [if_true]
          rw [foldl_mergeInto _ _ (h.uniq s') _ (hcan hlossy)]
          simp [List.foldl_append]
      generalize List.flatMap (copies s') (c.pubs.take k) = A at hv hmove ⊢
      generalize List.replicate (rem.count s') p.ev ++ List.flatMap (copies s') post = R at hv ⊢
      rw [List.foldl_append, foldl_move A R p.ev hmove, List.foldl_cons] at hv
      rw [List.foldl_append, key]
      exact hv
    · rw [hother s' hss, hinfl_other s' hss]
      exact h.view hord s' hl
  · -- chain (lossy subscribers)
    intro hord s' hs' hlossy'
    have hl : (c.subs s').live = true := by rw [← (hflags s').1]; exact hs'
    by_cases hss : s' = s
    · subst hss
      have hnc : (c.subs s').cancelled = false := (live_registered hl).2
      have e1 : subs' s' = (c.subs s').accept p.ev := hself hnc
      have hlossy : (c.subs s').lossy = true := by rw [e1] at hlossy'; exact hlossy'
      have hmove := hpre hord hl
      have hch := h.chain hord s' hl hlossy
      rw [hinfl_self] at hch
      rw [e1, hinfl_self']
      have hrv : ((c.subs s').accept p.ev).rawView = (c.subs s').rawView := rfl
      have hpend : ((c.subs s').accept p.ev).pending = mergeInto (c.subs s').pending p.ev := by
        simp [Sub.accept, hlossy]
      rw [hrv, hpend]
      generalize List.flatMap (copies s') (c.pubs.take k) = A at hch hmove ⊢
      generalize List.replicate (rem.count s') p.ev ++ List.flatMap (copies s') post = R at hch ⊢
      rw [chainOK_append] at hch
      have h2 := chainOK_move A R p.ev hmove _ hch.2
      simp only [chainOK] at h2
      have hPe : chainOK (c.subs s').rawView ((c.subs s').pending ++ [p.ev]) := by
        rw [chainOK_append]
        refine ⟨hch.1, ?_⟩
        simp only [chainOK, and_true]
        exact h2.1
      rw [chainOK_append]
      refine ⟨chainOK_mergeInto _ _ (h.uniq s') _ hPe, ?_⟩
      have hcan : cancels (c.subs s').pending p.ev = true → (c.subs s').rawView p.ev.id = none :=
        cancels_safe _ _ _ hch.1
      rw [foldl_mergeInto _ _ (h.uniq s') _ hcan]
      simp only [List.foldl_append, List.foldl_cons, List.foldl_nil]
      exact h2.2
    · rw [hother s' hss] at hlossy' ⊢
      rw [hinfl_other s' hss]
      exact h.chain hord s' hl hlossy'
  · -- link
    intro hord s' hs'
    have hl : (c.subs s').live = true := by rw [← (hflags s').1]; exact hs'
    by_cases hss : s' = s
    · subst hss
      have hnc : (c.subs s').cancelled = false := (live_registered hl).2
      have e1 : subs' s' = (c.subs s').accept p.ev := hself hnc
      have hmove := hpre hord hl
      have hlk := h.link hord s' hl
      rw [hinfl_self] at hlk
      rw [e1, hinfl_self']
      have hrv : ((c.subs s').accept p.ev).rawView = (c.subs s').rawView := rfl
      have hlo : ((c.subs s').accept p.ev).lossy = (c.subs s').lossy := rfl
      rw [hrv, hlo]
      cases hlossy : (c.subs s').lossy
      · have hpend : ((c.subs s').accept p.ev).pending = [p.ev] := by simp [Sub.accept, hlossy]
        rw [hpend]
        rw [hlossy, hen hnc hlossy] at hlk
        generalize List.flatMap (copies s') (c.pubs.take k) = A at hlk hmove ⊢
        generalize List.replicate (rem.count s') p.ev ++ List.flatMap (copies s') post = R at hlk ⊢
        simp only [List.nil_append] at hlk
        exact linkOK_move false A R p.ev hmove _ hlk
      · have hpend : ((c.subs s').accept p.ev).pending = mergeInto (c.subs s').pending p.ev := by
          simp [Sub.accept, hlossy]
        rw [hpend]
        rw [hlossy] at hlk
        have hch := h.chain hord s' hl hlossy
        generalize List.flatMap (copies s') (c.pubs.take k) = A at hlk hmove ⊢
        generalize List.replicate (rem.count s') p.ev ++ List.flatMap (copies s') post = R at hlk ⊢
        rw [linkOK_append] at hlk
        have h2 := linkOK_move true A R p.ev hmove _ hlk.2
        simp only [linkOK] at h2
        have hPe : linkOK true (c.subs s').rawView ((c.subs s').pending ++ [p.ev]) := by
          rw [linkOK_append]
          refine ⟨hlk.1, ?_⟩
          simp only [linkOK, and_true]
          exact h2.1
        rw [linkOK_append]
        refine ⟨linkOK_mergeInto _ _ (h.uniq s') _ hPe, ?_⟩
        have hcan : cancels (c.subs s').pending p.ev = true → (c.subs s').rawView p.ev.id = none :=
          cancels_safe _ _ _ ((chainOK_append _ _ _).mp hch).1
        rw [foldl_mergeInto _ _ (h.uniq s') _ hcan]
        simp only [List.foldl_append, List.foldl_cons, List.foldl_nil]
        exact h2.2
    · rw [hother s' hss, hinfl_other s' hss]
      exact h.link hord s' hl
  · -- observed view
    intro hord s' hs'
    have hl : (c.subs s').live = true := by rw [← (hflags s').1]; exact hs'
    by_cases hss : s' = s
    · subst hss
      rw [hself (live_registered hl).2]
      exact h.obs hord s' hl
    · rw [hother s' hss]
      exact h.obs hord s' hl
  · -- listener copies never name an unregistered subscriber
    intro q hq r hr s' hs'
    have hreg : (c.subs s').registered = false := by rw [← (hflags s').2.1]; exact hs'
    rw [List.mem_append, List.mem_append] at hq
    rcases hq with hq | hq | hq
    · exact h.rem q (by rw [hsplit]; exact List.mem_append_left _ hq) r hr s' hreg
    · have := htlrem q hq r hr
      subst this
      have := h.rem p hpmem (s :: r) hstage s' hreg
      rw [List.count_cons] at this
      omega
    · exact h.rem q (by rw [hsplit]; exact List.mem_append_right _ (List.mem_cons_of_mem _ hq)) r hr s' hreg
  · -- pending ids stay distinct
    intro s'
    by_cases hss : s' = s
    · subst hss
      by_cases hc : (c.subs s').cancelled = true
      · rw [hselfc hc]; exact h.uniq s'
      · have hc' : (c.subs s').cancelled = false := by simpa using hc
        rw [hself hc']
        simp only [Sub.accept]
        split
        · exact nodup_mergeInto _ _ (h.uniq s')
        · simp [ids]
    · rw [hother s' hss]; exact h.uniq s'
  · -- no miss
    intro s' hs' k' hk1 hk2
    have hl : (c.subs s').live = true := by rw [← (hflags s').1]; exact hs'
    by_cases hss : s' = s
    · subst hss
      have hnc : (c.subs s').cancelled = false := (live_registered hl).2
      rw [hself hnc] at hk1 ⊢
      have hk1' : (c.subs s').subAt ≤ k' := hk1
      rcases h.nomiss s' hl k' hk1' hk2 with h1 | h1
      · left; simp [Sub.accept, h1]
      · rw [hinfl_self] at h1
        rw [hinfl_self']
        simp only [List.map_append, List.map_cons, List.mem_append, List.mem_cons] at h1 ⊢
        rcases h1 with h1 | h1 | h1 | h1
        · exact Or.inr (Or.inl h1)
        · left; simp [Sub.accept, h1]
        · exact Or.inr (Or.inr (Or.inl h1))
        · exact Or.inr (Or.inr (Or.inr h1))
    · rw [hother s' hss] at hk1 ⊢
      rw [hinfl_other s' hss]
      exact h.nomiss s' hl k' hk1 hk2

theorem Inv.stepDeliver {ord : Bool} {c : Cfg M} (h : Inv ord c) (k : Nat)
    (hok : ord = true → okStep c (.deliver k) = true) : Inv ord (stepDeliver c k) := by
  unfold ScVerif.C03.stepDeliver
  split
  · exact h
  · next p post hdrop =>
    have hsplit := pubs_split hdrop
    split
    · exact h
    · exact h
    · next s rem hstage =>
      simp only []
      split
      · exact h
      · next hen =>
        -- what `okStep` says, in usable form
        have hokk : ord = true → (c.subs s).live = true →
            ∀ a, a ∈ List.flatMap (copies s) (c.pubs.take k) → a.id ≠ p.ev.id := by
          intro hord hl a ha
          have := hok hord
          simp only [okStep, hdrop, hstage, hl, Bool.not_true, Bool.false_or] at this
          rw [List.mem_flatMap] at ha
          obtain ⟨q, hq, haq⟩ := ha
          have h1 := List.all_eq_true.mp this q hq
          have h2 := List.all_eq_true.mp h1 a haq
          simpa using h2
        have hen' : (c.subs s).cancelled = false → (c.subs s).lossy = false → (c.subs s).pending = [] := by
          intro h1 h2
          cases hp : (c.subs s).pending with
          | nil => rfl
          | cons a l => simp [h1, h2, hp] at hen
        generalize hsd : (if (c.subs s).cancelled = true then c.subs
          else setAt c.subs s ((c.subs s).accept p.ev)) = subs''
        split
        · next hemp =>
          -- the publication is over (and `collect` runs if a dead listener was met)
          have hremnil : rem = [] := List.isEmpty_iff.mp hemp
          obtain ⟨hv, hch, hlk, hob, hfl, hrm, hun, hnm⟩ := deliver_core h hsplit hstage
            hokk hen' subs'' hsd.symm []
            (by intro s''; simp [hremnil]) (by intro q hq; simp at hq)
          simp only [List.nil_append] at hv hch hlk hrm hnm
          refine ⟨?_, ?_, ?_, ?_, ?_, ?_, ?_, ?_, ?_⟩
          · intro hord s' hs'
            exact hv hord s' hs'
          · intro hord s' hs' hl'
            exact hch hord s' hs' hl'
          · intro hord s' hs'
            exact hlk hord s' hs'
          · intro hord s' hs'
            exact hob hord s' hs'
          · intro s' hs'
            have hs2 : (subs'' s').live = true := hs'
            have hl : (c.subs s').live = true := by rw [← (hfl s').1]; exact hs2
            show (if (p.gc || (c.subs s).cancelled) = true then
              List.filter (fun x => !(subs'' x).cancelled) c.listeners else c.listeners).count s' = 1
            split
            · rw [List.count_filter]
              · exact h.lisLive s' hl
              · simp [(live_registered hs2).2]
            · exact h.lisLive s' hl
          · intro s' hs'
            have hs2 : (subs'' s').registered = false := hs'
            have hr : (c.subs s').registered = false := by rw [← (hfl s').2.1]; exact hs2
            show (if (p.gc || (c.subs s).cancelled) = true then
              List.filter (fun x => !(subs'' x).cancelled) c.listeners else c.listeners).count s' = 0
            split
            · have := h.lisUnreg s' hr
              rw [List.count_eq_zero] at this ⊢
              intro hm
              exact this (List.mem_filter.mp hm).1
            · exact h.lisUnreg s' hr
          · intro q hq r hr s' hs'
            exact hrm q hq r hr s' hs'
          · exact hun
          · intro s' hs' k' hk1 hk2
            exact hnm s' hs' k' hk1 hk2
        · next hne =>
          obtain ⟨hv, hch, hlk, hob, hfl, hrm, hun, hnm⟩ := deliver_core h hsplit hstage
            hokk hen' subs'' hsd.symm
            [{ ({ p with gc := p.gc || (c.subs s).cancelled } : Pub M) with stage := some rem }]
            (by
              intro s''
              simp only [List.flatMap_cons, List.flatMap_nil, List.append_nil]
              rw [copies_staged (rem := rem) rfl])
            (by
              intro q hq r hr
              simp at hq
              subst hq
              simp at hr
              exact hr.symm)
          simp only [List.singleton_append] at hv hch hlk hrm hnm
          refine ⟨?_, ?_, ?_, ?_, ?_, ?_, ?_, ?_, ?_⟩
          · intro hord s' hs'
            exact hv hord s' hs'
          · intro hord s' hs' hl'
            exact hch hord s' hs' hl'
          · intro hord s' hs'
            exact hlk hord s' hs'
          · intro hord s' hs'
            exact hob hord s' hs'
          · intro s' hs'
            have hs2 : (subs'' s').live = true := hs'
            have hl : (c.subs s').live = true := by rw [← (hfl s').1]; exact hs2
            exact h.lisLive s' hl
          · intro s' hs'
            have hs2 : (subs'' s').registered = false := hs'
            have hr : (c.subs s').registered = false := by rw [← (hfl s').2.1]; exact hs2
            exact h.lisUnreg s' hr
          · intro q hq r hr s' hs'
            exact hrm q hq r hr s' hs'
          · exact hun
          · intro s' hs' k' hk1 hk2
            exact hnm s' hs' k' hk1 hk2

/-! ### subscribe -/

theorem Inv.stepSub {ord : Bool} {c : Cfg M} (h : Inv ord c) (s : Nat)
    (hok : ord = true → okStep c (.sub s) = true) : Inv ord (stepSub c s) := by
  unfold ScVerif.C03.stepSub
  simp only []
  split
  · exact h
  · next hcond =>
    have hunreg : (c.subs s).registered = false := by
      cases hr : (c.subs s).registered
      · rfl
      · simp [hr] at hcond
    have hother : ∀ s', s' ≠ s → ∀ sb, setAt c.subs s sb s' = c.subs s' := fun s' hne sb => setAt_other _ _ hne
    refine ⟨?_, ?_, ?_, ?_, ?_, ?_, ?_, ?_, ?_⟩
    · intro hord s' hs'
      by_cases hss : s' = s
      · subst hss
        have hokk := hok hord
        simp only [okStep] at hokk
        rw [List.all_eq_true] at hokk
        show ((setAt c.subs s' _ s').pending ++ List.flatMap (copies s') c.pubs).foldl applyEv
          (setAt c.subs s' _ s').rawView = c.store
        simp only [setAt_same, Sub.rawView, List.foldl_nil, List.nil_append]
        apply foldl_applyEv_stable
        intro e he
        rw [List.mem_flatMap] at he
        obtain ⟨p, hp, hep⟩ := he
        cases hst : p.stage with
        | none =>
          rw [copies_none hst] at hep
          simp at hep
          subst hep
          have := hokk p hp
          simp [hst] at this
          exact this.2
        | some rem =>
          rw [copies_staged hst, h.rem p hp rem hst s' hunreg] at hep
          simp at hep
      · have hs'' : (c.subs s').live = true := by
          have : (setAt c.subs s _ s').live = true := hs'
          rwa [hother s' hss] at this
        show ((setAt c.subs s _ s').pending ++ List.flatMap (copies s') c.pubs).foldl applyEv
          (setAt c.subs s _ s').rawView = c.store
        rw [hother s' hss]
        exact h.view hord s' hs''
    · intro hord s' hs' hlossy
      by_cases hss : s' = s
      · subst hss
        have hokk := hok hord
        simp only [okStep] at hokk
        rw [List.all_eq_true] at hokk
        have hl : (c.subs s').lossy = true := by
          have : (setAt c.subs s' { c.subs s' with registered := true, base := c.store, evs := [], pending := [], got := [], subAt := c.nextSeq } s').lossy = true := hlossy
          simpa using this
        have hnil : List.flatMap (copies s') c.pubs = [] := by
          rw [List.flatMap_eq_nil_iff]
          intro p hp
          have := hokk p hp
          cases hst : p.stage with
          | none => simp [hst, hl] at this
          | some rem => rw [copies_staged hst, h.rem p hp rem hst s' hunreg]; rfl
        show chainOK (setAt c.subs s' _ s').rawView ((setAt c.subs s' _ s').pending ++ List.flatMap (copies s') c.pubs)
        simp [setAt_same, hnil, chainOK]
      · have hs'' : (c.subs s').live = true := by
          have : (setAt c.subs s _ s').live = true := hs'
          rwa [hother s' hss] at this
        have hl'' : (c.subs s').lossy = true := by
          have : (setAt c.subs s _ s').lossy = true := hlossy
          rwa [hother s' hss] at this
        show chainOK (setAt c.subs s _ s').rawView ((setAt c.subs s _ s').pending ++ List.flatMap (copies s') c.pubs)
        rw [hother s' hss]
        exact h.chain hord s' hs'' hl''
    · intro hord s' hs'
      by_cases hss : s' = s
      · subst hss
        have hokk := hok hord
        simp only [okStep] at hokk
        rw [List.all_eq_true] at hokk
        show linkOK (setAt c.subs s' _ s').lossy (setAt c.subs s' _ s').rawView
          ((setAt c.subs s' _ s').pending ++ List.flatMap (copies s') c.pubs)
        simp only [setAt_same, Sub.rawView, List.foldl_nil, List.nil_append]
        have hst : linkOK false c.store (List.flatMap (copies s') c.pubs) := by
          apply linkOK_stable
          intro e he
          rw [List.mem_flatMap] at he
          obtain ⟨p, hp, hep⟩ := he
          cases hst : p.stage with
          | none =>
            rw [copies_none hst] at hep
            simp at hep
            subst hep
            have := hokk p hp
            simp [hst] at this
            exact this.2
          | some rem =>
            rw [copies_staged hst, h.rem p hp rem hst s' hunreg] at hep
            simp at hep
        cases hl : (c.subs s').lossy
        · exact hst
        · have hnil : List.flatMap (copies s') c.pubs = [] := by
            rw [List.flatMap_eq_nil_iff]
            intro p hp
            have := hokk p hp
            cases hst : p.stage with
            | none => simp [hst, hl] at this
            | some rem => rw [copies_staged hst, h.rem p hp rem hst s' hunreg]; rfl
          rw [hnil]
          trivial
      · have hs'' : (c.subs s').live = true := by
          have : (setAt c.subs s _ s').live = true := hs'
          rwa [hother s' hss] at this
        show linkOK (setAt c.subs s _ s').lossy (setAt c.subs s _ s').rawView
          ((setAt c.subs s _ s').pending ++ List.flatMap (copies s') c.pubs)
        rw [hother s' hss]
        exact h.link hord s' hs''
    · intro hord s' hs'
      show (setAt c.subs s _ s').obsView = seedView (setAt c.subs s _ s').incl (setAt c.subs s _ s').mask
        (setAt c.subs s _ s').rawView
      by_cases hss : s' = s
      · subst hss
        simp only [setAt_same]
        rfl
      · have hs'' : (c.subs s').live = true := by
          have : (setAt c.subs s _ s').live = true := hs'
          rwa [hother s' hss] at this
        rw [hother s' hss]
        exact h.obs hord s' hs''
    · intro s' hs'
      show (c.listeners ++ [s]).count s' = 1
      by_cases hss : s' = s
      · subst hss
        simp [List.count_append, h.lisUnreg s' hunreg]
      · have hs'' : (c.subs s').live = true := by
          have : (setAt c.subs s _ s').live = true := hs'
          rwa [hother s' hss] at this
        have : (s == s') = false := by simpa using (Ne.symm hss)
        simp [List.count_append, List.count_cons, this, h.lisLive s' hs'']
    · intro s' hs'
      show (c.listeners ++ [s]).count s' = 0
      by_cases hss : s' = s
      · subst hss
        have : (setAt c.subs s' { c.subs s' with registered := true, base := c.store, evs := [], pending := [], got := [], subAt := c.nextSeq } s').registered = false := hs'
        simp at this
      · have hs'' : (c.subs s').registered = false := by
          have : (setAt c.subs s _ s').registered = false := hs'
          rwa [hother s' hss] at this
        have : (s == s') = false := by simpa using (Ne.symm hss)
        simp [List.count_append, List.count_cons, this, h.lisUnreg s' hs'']
    · intro p hp rem hrem s' hs'
      by_cases hss : s' = s
      · subst hss
        have : (setAt c.subs s' { c.subs s' with registered := true, base := c.store, evs := [], pending := [], got := [], subAt := c.nextSeq } s').registered = false := hs'
        simp at this
      · have hs'' : (c.subs s').registered = false := by
          have : (setAt c.subs s _ s').registered = false := hs'
          rwa [hother s' hss] at this
        exact h.rem p hp rem hrem s' hs''
    · intro s'
      show (ids (setAt c.subs s _ s').pending).Nodup
      by_cases hss : s' = s
      · subst hss; simp [ids]
      · rw [hother s' hss]; exact h.uniq s'
    · intro s' hs' k hk1 hk2
      by_cases hss : s' = s
      · subst hss
        have hk1' : (setAt c.subs s' { c.subs s' with registered := true, base := c.store, evs := [], pending := [], got := [], subAt := c.nextSeq } s').subAt ≤ k := hk1
        simp at hk1'
        have hk2' : k < c.nextSeq := hk2
        omega
      · have hs'' : (c.subs s').live = true := by
          have : (setAt c.subs s _ s').live = true := hs'
          rwa [hother s' hss] at this
        have hk1' : (setAt c.subs s _ s').subAt ≤ k := hk1
        rw [hother s' hss] at hk1'
        show k ∈ (setAt c.subs s _ s').got ∨ _
        rw [hother s' hss]
        exact h.nomiss s' hs'' k hk1' hk2

/-! ### cancel, recv -/

theorem Inv.stepCancel {ord : Bool} {c : Cfg M} (h : Inv ord c) (s : Nat) : Inv ord (stepCancel c s) := by
  unfold ScVerif.C03.stepCancel
  simp only []
  split
  · have hother : ∀ s', s' ≠ s → ∀ sb, setAt c.subs s sb s' = c.subs s' := fun s' hne sb => setAt_other _ _ hne
    have hnl : ∀ s', (setAt c.subs s { c.subs s with cancelled := true } s').live = true → s' ≠ s := by
      intro s' hs' hss
      subst hss
      simp [Sub.live] at hs'
    refine ⟨?_, ?_, ?_, ?_, ?_, ?_, ?_, ?_, ?_⟩
    · intro hord s' hs'
      have hne := hnl s' hs'
      have hs'' : (c.subs s').live = true := by
        have : (setAt c.subs s _ s').live = true := hs'
        rwa [hother s' hne] at this
      show ((setAt c.subs s _ s').pending ++ inflight c s').foldl applyEv (setAt c.subs s _ s').rawView = c.store
      rw [hother s' hne]
      exact h.view hord s' hs''
    · intro hord s' hs' hlossy
      have hne := hnl s' hs'
      have hs'' : (c.subs s').live = true := by
        have : (setAt c.subs s _ s').live = true := hs'
        rwa [hother s' hne] at this
      have hl'' : (c.subs s').lossy = true := by
        have : (setAt c.subs s _ s').lossy = true := hlossy
        rwa [hother s' hne] at this
      show chainOK (setAt c.subs s _ s').rawView ((setAt c.subs s _ s').pending ++ inflight c s')
      rw [hother s' hne]
      exact h.chain hord s' hs'' hl''
    · intro hord s' hs'
      have hne := hnl s' hs'
      have hs'' : (c.subs s').live = true := by
        have : (setAt c.subs s _ s').live = true := hs'
        rwa [hother s' hne] at this
      show linkOK (setAt c.subs s _ s').lossy (setAt c.subs s _ s').rawView
        ((setAt c.subs s _ s').pending ++ inflight c s')
      rw [hother s' hne]
      exact h.link hord s' hs''
    · intro hord s' hs'
      have hne := hnl s' hs'
      have hs'' : (c.subs s').live = true := by
        have : (setAt c.subs s _ s').live = true := hs'
        rwa [hother s' hne] at this
      show (setAt c.subs s _ s').obsView = seedView (setAt c.subs s _ s').incl (setAt c.subs s _ s').mask
        (setAt c.subs s _ s').rawView
      rw [hother s' hne]
      exact h.obs hord s' hs''
    · intro s' hs'
      have hne := hnl s' hs'
      have hs'' : (c.subs s').live = true := by
        have : (setAt c.subs s _ s').live = true := hs'
        rwa [hother s' hne] at this
      exact h.lisLive s' hs''
    · intro s' hs'
      have hs'' : (c.subs s').registered = false := by
        have : (setAt c.subs s { c.subs s with cancelled := true } s').registered = false := hs'
        by_cases hss : s' = s
        · subst hss; simpa using this
        · rwa [hother s' hss] at this
      exact h.lisUnreg s' hs''
    · intro p hp rem hrem s' hs'
      have hs'' : (c.subs s').registered = false := by
        have : (setAt c.subs s { c.subs s with cancelled := true } s').registered = false := hs'
        by_cases hss : s' = s
        · subst hss; simpa using this
        · rwa [hother s' hss] at this
      exact h.rem p hp rem hrem s' hs''
    · intro s'
      show (ids (setAt c.subs s { c.subs s with cancelled := true } s').pending).Nodup
      by_cases hss : s' = s
      · subst hss; simpa using h.uniq s'
      · rw [hother s' hss]; exact h.uniq s'
    · intro s' hs' k hk1 hk2
      have hne := hnl s' hs'
      have hs'' : (c.subs s').live = true := by
        have : (setAt c.subs s _ s').live = true := hs'
        rwa [hother s' hne] at this
      have hk1' : (setAt c.subs s _ s').subAt ≤ k := hk1
      rw [hother s' hne] at hk1'
      show k ∈ (setAt c.subs s _ s').got ∨ _
      rw [hother s' hne]
      exact h.nomiss s' hs'' k hk1' hk2
  · exact h

theorem Inv.stepRecv {ord : Bool} {c : Cfg M} (h : Inv ord c) (s : Nat) : Inv ord (stepRecv c s) := by
  unfold ScVerif.C03.stepRecv
  simp only []
  split
  · exact h
  · next e rest hp =>
    have hother : ∀ s', s' ≠ s → ∀ sb, setAt c.subs s sb s' = c.subs s' := fun s' hne sb => setAt_other _ _ hne
    have hlive : ∀ s', (setAt c.subs s { c.subs s with evs := (c.subs s).evs ++ [e], pending := rest } s').live
        = (c.subs s').live := by
      intro s'
      by_cases hss : s' = s
      · subst hss; simp [Sub.live]
      · rw [hother s' hss]
    refine ⟨?_, ?_, ?_, ?_, ?_, ?_, ?_, ?_, ?_⟩
    · intro hord s' hs'
      have hs'' : (c.subs s').live = true := by rw [← hlive s']; exact hs'
      show ((setAt c.subs s _ s').pending ++ inflight c s').foldl applyEv (setAt c.subs s _ s').rawView = c.store
      by_cases hss : s' = s
      · subst hss
        have hv := h.view hord s' hs''
        rw [hp] at hv
        simp only [setAt_same, Sub.rawView, List.foldl_append, List.foldl_cons, List.foldl_nil,
          List.cons_append] at hv ⊢
        exact hv
      · rw [hother s' hss]
        exact h.view hord s' hs''
    · intro hord s' hs' hlossy
      have hs'' : (c.subs s').live = true := by rw [← hlive s']; exact hs'
      show chainOK (setAt c.subs s _ s').rawView ((setAt c.subs s _ s').pending ++ inflight c s')
      by_cases hss : s' = s
      · subst hss
        have hl'' : (c.subs s').lossy = true := by
          have : (setAt c.subs s' { c.subs s' with evs := (c.subs s').evs ++ [e], pending := rest } s').lossy = true := hlossy
          simpa using this
        have hc := h.chain hord s' hs'' hl''
        rw [hp] at hc
        simp only [List.cons_append, chainOK] at hc
        simp only [setAt_same, Sub.rawView, List.foldl_append, List.foldl_cons, List.foldl_nil]
        exact hc.2
      · have hl'' : (c.subs s').lossy = true := by
          have : (setAt c.subs s _ s').lossy = true := hlossy
          rwa [hother s' hss] at this
        rw [hother s' hss]
        exact h.chain hord s' hs'' hl''
    · intro hord s' hs'
      have hs'' : (c.subs s').live = true := by rw [← hlive s']; exact hs'
      show linkOK (setAt c.subs s _ s').lossy (setAt c.subs s _ s').rawView
        ((setAt c.subs s _ s').pending ++ inflight c s')
      by_cases hss : s' = s
      · subst hss
        have hc := h.link hord s' hs''
        rw [hp] at hc
        simp only [List.cons_append, linkOK] at hc
        simp only [setAt_same, Sub.rawView, List.foldl_append, List.foldl_cons, List.foldl_nil]
        exact hc.2
      · rw [hother s' hss]
        exact h.link hord s' hs''
    · intro hord s' hs'
      have hs'' : (c.subs s').live = true := by rw [← hlive s']; exact hs'
      show (setAt c.subs s _ s').obsView = seedView (setAt c.subs s _ s').incl (setAt c.subs s _ s').mask
        (setAt c.subs s _ s').rawView
      by_cases hss : s' = s
      · subst hss
        have hc := h.link hord s' hs''
        rw [hp] at hc
        simp only [List.cons_append, linkOK] at hc
        simp only [setAt_same]
        apply obsView_snoc (c.subs s') e rest (h.obs hord s' hs'')
        rcases hc.1 with h1 | h1
        · exact Or.inl h1
        · exact Or.inr h1.2
      · rw [hother s' hss]
        exact h.obs hord s' hs''
    · intro s' hs'
      exact h.lisLive s' (by rw [← hlive s']; exact hs')
    · intro s' hs'
      have : (c.subs s').registered = false := by
        have h1 : (setAt c.subs s { c.subs s with evs := (c.subs s).evs ++ [e], pending := rest } s').registered = false := hs'
        by_cases hss : s' = s
        · subst hss; simpa using h1
        · rwa [hother s' hss] at h1
      exact h.lisUnreg s' this
    · intro p hpm rem hrem s' hs'
      have : (c.subs s').registered = false := by
        have h1 : (setAt c.subs s { c.subs s with evs := (c.subs s).evs ++ [e], pending := rest } s').registered = false := hs'
        by_cases hss : s' = s
        · subst hss; simpa using h1
        · rwa [hother s' hss] at h1
      exact h.rem p hpm rem hrem s' this
    · intro s'
      show (ids (setAt c.subs s { c.subs s with evs := (c.subs s).evs ++ [e], pending := rest } s').pending).Nodup
      by_cases hss : s' = s
      · subst hss
        have := h.uniq s'
        rw [hp] at this
        simp only [ids, List.map_cons, List.nodup_cons] at this
        simpa [ids] using this.2
      · rw [hother s' hss]; exact h.uniq s'
    · intro s' hs' k hk1 hk2
      have hs'' : (c.subs s').live = true := by rw [← hlive s']; exact hs'
      show k ∈ (setAt c.subs s _ s').got ∨ _
      by_cases hss : s' = s
      · subst hss
        have hk1' : (c.subs s').subAt ≤ k := by
          have : (setAt c.subs s' { c.subs s' with evs := (c.subs s').evs ++ [e], pending := rest } s').subAt ≤ k := hk1
          simpa using this
        rcases h.nomiss s' hs'' k hk1' hk2 with hn | hn
        · left; simpa using hn
        · right; exact hn
      · have hk1' : (setAt c.subs s _ s').subAt ≤ k := hk1
        rw [hother s' hss] at hk1' ⊢
        exact h.nomiss s' hs'' k hk1' hk2

theorem Inv.step {ord : Bool} {c : Cfg M} (h : Inv ord c) (a : Act) (hok : ord = true → okStep c a = true) :
    Inv ord (step c a) := by
  cases a with
  | commit t => exact h.stepCommit t
  | snap k => exact h.stepSnap k
  | deliver k => exact h.stepDeliver k hok
  | sub s => exact h.stepSub s hok
  | cancel s => exact h.stepCancel s
  | recv s => exact h.stepRecv s

/-- every schedule keeps the unconditional part of the invariant -/
theorem Inv.runAll {c : Cfg M} (h : Inv false c) (sched : List Act) : Inv false (run c sched) := by
  induction sched generalizing c with
  | nil => exact h
  | cons a rest ih => exact ih (h.step a (by intro hh; cases hh))

theorem Inv.run {c : Cfg M} (h : Inv true c) (sched : List Act) (hord : ordered c sched = true) :
    Inv true (run c sched) := by
  induction sched generalizing c with
  | nil => exact h
  | cons a rest ih =>
    simp only [ordered, Bool.and_eq_true] at hord
    exact ih (h.step a (fun _ => hord.1)) hord.2

end ScVerif.C03
