import ScVerif.C03.Inv4
/-!
# C03 — property theorems about change types and the lossy stage, for ALL schedules

* `C03_change_type_matches_old_value`: on every schedule, every change anywhere between a commit and a consumer — in
  flight, waiting in a subscriber's stage (after any number of merges), received, or forwarded through `include` and the
  read mask — is an ADD exactly when it carries no old value.  Together with `C03_add_only_when_absent` (the old value
  is the value the subscriber holds) this is what makes cancelling ADD+REMOVE in the merge stage sound: an ADD is never
  announced for an item a subscriber already has.
* `C03_value_stage_last_arrival_wins`: the lossy stage of a `Value` (`minibus.DropExcess`) fed ANY non-empty sequence of
  changes while the consumer is away holds exactly one change, carrying the value that ARRIVED last — whatever any change
  time says (an `Event` has no time to look at; write times that run backwards, stand still or are zero are exercised by
  the ties).
Only property theorems and non-vacuity examples live in this file.
-/
namespace ScVerif.C03
open ScVerif.C02 (setAt)

variable {M : Type} [DecidableEq M]

/-- **The change type agrees with the old value — ALL schedules, no hypothesis.** -/
theorem C03_change_type_matches_old_value (s₀ : Nat → Option M) (progs : Nat → List (WOp M)) (opts : Nat → SubOpts M)
    (sched : List Act) :
    let c : Cfg M := run (initCfg s₀ progs opts) sched
    (∀ p, p ∈ c.pubs → p.ev.isAdd = p.ev.old.isNone) ∧
    (∀ s e, e ∈ (c.subs s).pending ++ (c.subs s).evs ++ (c.subs s).obs → e.isAdd = e.old.isNone) := by
  intro c
  have h := (Tag.init s₀ progs opts).runAll sched
  refine ⟨h.pubs, ?_⟩
  intro s e he
  rcases List.mem_append.mp he with h1 | h1
  · rcases List.mem_append.mp h1 with h2 | h2
    · exact h.pending s e h2
    · exact h.evs s e h2
  · simp only [Sub.obs, List.mem_filterMap] at h1
    obtain ⟨a, ha, hf⟩ := h1
    exact fwdEv_tag (h.evs s a ha) hf

omit [DecidableEq M] in
/-- **The lossy stage of a Value keeps the change that arrived last.**  For every non-empty sequence `a :: L` of changes of
one id without removals handed to an empty stage one after the other (the consumer does not receive meanwhile): exactly
one change is pending and it carries the new value of the LAST change of the sequence. -/
theorem C03_value_stage_last_arrival_wins (a : Event M) (L : List (Event M))
    (hid : ∀ e, e ∈ L → e.id = a.id) (hnew : ∀ e, e ∈ a :: L → e.new.isSome = true) :
    ∃ e', L.foldl mergeInto [a] = [e'] ∧ e'.id = a.id ∧ e'.new = ((a :: L).getLast (by simp)).new := by
  induction L generalizing a with
  | nil => exact ⟨a, rfl, rfl, rfl⟩
  | cons b L ih =>
    have hb : b.id = a.id := hid b List.mem_cons_self
    have hbn : b.new.isNone = false := by
      have := hnew b (List.mem_cons_of_mem _ List.mem_cons_self)
      cases hn : b.new with
      | none => simp [hn] at this
      | some x => rfl
    have hstep : mergeInto [a] b = [{ b with isAdd := a.isAdd, old := a.old }] := by
      simp [mergeInto, hb, hbn]
    obtain ⟨e', h1, h2, h3⟩ := ih { b with isAdd := a.isAdd, old := a.old }
      (fun e he => by show e.id = b.id; rw [hb]; exact hid e (List.mem_cons_of_mem _ he))
      (fun e he => by
        rcases List.mem_cons.mp he with h | h
        · rw [h]; exact hnew b (List.mem_cons_of_mem _ List.mem_cons_self)
        · exact hnew e (List.mem_cons_of_mem _ (List.mem_cons_of_mem _ h)))
    refine ⟨e', ?_, ?_, ?_⟩
    · rw [List.foldl_cons, hstep]; exact h1
    · rw [h2]; exact hb
    · rw [h3]
      cases L with
      | nil => rfl
      | cons c L' => simp [List.getLast_cons]

/-! ### Non-vacuity -/

/-- a create-or-update that finds the item created meanwhile is an UPDATE carrying the stored value; merged with a
following REMOVE it stays a REMOVE (carrying the first old value), it is not cancelled -/
example :
    let progs : Nat → List (WOp Int) := fun t =>
      if t = 0 then [.upd 0 (fun _ => some 0), .upd 1 (fun _ => some 4),
                     .upd 0 (fun cur => if cur.getD 0 = 0 then some 7 else none), .del 0 (fun _ => true)] else []
    let sched : List Act :=
      [.sub 0, .commit 0, .snap 0, .deliver 0, .recv 0, .commit 0, .snap 0, .deliver 0,
       .commit 0, .snap 0, .deliver 0, .commit 0, .deliver 0]
    let c := run (initCfg (fun _ => none) progs (fun _ => ⟨false, true, id, none⟩)) sched
    ordered (initCfg (fun _ => none) progs (fun _ => ⟨false, true, id, none⟩)) sched = true ∧
    (c.subs 0).evs.map (fun e => (e.id, e.isAdd, e.new)) = [(0, true, some 0)] ∧
    (c.subs 0).pending.map (fun e => (e.id, e.isAdd, e.old, e.new)) = [(1, true, none, some 4), (0, false, some 0, none)] ∧
    c.store 0 = none := by
  decide

/-- three changes of a Value arriving while the consumer is away: one pending change, the last arrival's value -/
example :
    ([(⟨0, some 2, some 3, false, 1⟩ : Event Int), ⟨0, some 3, some 1, false, 2⟩].foldl mergeInto
      [⟨0, some 1, some 2, false, 0⟩]).map (fun e => (e.id, e.old, e.new)) = [(0, some 1, some 1)] := by
  decide

/-- the publications other than the `k`-th one -/
def others (c : Cfg M) (k : Nat) : List (Pub M) := c.pubs.take k ++ c.pubs.drop (k + 1)

omit [DecidableEq M] in
/-- **A Send keeps the listeners it copied — any configuration, any other publication.**  A delivery step of the
`k`-th publication, INCLUDING the `Bus.collect` it runs when it ends after having met a dead listener, leaves every
other publication in flight exactly as it was (same event, same listener copy still to be served), and `collect`
only ever removes listeners.  (`Bus.Send` walking `b.listeners` in place instead of its copy breaks exactly this: a
parked Send skips a live listener when a concurrent Send compacts the list.) -/
theorem C03_send_copy_survives_collect (c : Cfg M) (k : Nat) (q : Pub M) (hq : q ∈ others c k) :
    q ∈ (stepDeliver c k).pubs ∧
    (∀ s, s ∈ (stepDeliver c k).listeners → s ∈ c.listeners) := by
  unfold others at hq
  unfold stepDeliver
  cases hd : c.pubs.drop k with
  | nil =>
    simp only
    refine ⟨?_, fun s h => h⟩
    have : c.pubs.take k ++ c.pubs.drop k = c.pubs := List.take_append_drop k c.pubs
    rw [hd, List.append_nil] at this
    rw [← this]
    rcases List.mem_append.mp hq with h | h
    · exact h
    · have h2 : c.pubs.drop (k + 1) = [] := by
        have : c.pubs.drop (k + 1) = (c.pubs.drop k).drop 1 := by simp [List.drop_drop]
        rw [this, hd]; rfl
      rw [h2] at h; cases h
  | cons p post =>
    have hpost : c.pubs.drop (k + 1) = post := by
      have : c.pubs.drop (k + 1) = (c.pubs.drop k).drop 1 := by simp [List.drop_drop]
      rw [this, hd]; rfl
    rw [hpost] at hq
    have hmem : q ∈ c.pubs := by
      have : c.pubs.take k ++ c.pubs.drop k = c.pubs := List.take_append_drop k c.pubs
      rw [← this, hd]
      rcases List.mem_append.mp hq with h | h
      · exact List.mem_append_left _ h
      · exact List.mem_append_right _ (List.mem_cons_of_mem _ h)
    have hfilter : ∀ (b : Bool) (subs : Nat → Sub M) s,
        s ∈ (if b then c.listeners.filter (fun s => !(subs s).cancelled) else c.listeners) → s ∈ c.listeners := by
      intro b subs s h
      cases b
      · exact h
      · exact (List.mem_filter.mp h).1
    simp only
    cases hs : p.stage with
    | none => simp only; exact ⟨hmem, fun s h => h⟩
    | some rem =>
      cases rem with
      | nil => simp only; exact ⟨hmem, fun s h => h⟩
      | cons s rem =>
        simp only
        split
        · exact ⟨hmem, fun s h => h⟩
        · split
          · refine ⟨?_, ?_⟩
            · simp only [Cfg.finishPub]; exact hq
            · intro s' h; simp only [Cfg.finishPub] at h; exact hfilter _ _ _ h
          · refine ⟨?_, fun s h => h⟩
            simp only
            rcases List.mem_append.mp hq with h | h
            · exact List.mem_append_left _ h
            · exact List.mem_append_right _ (List.mem_cons_of_mem _ h)

/-- non-vacuity: publication 1 is parked at subscriber 1 (having met the cancelled subscriber 0); publication 0 walks
its whole copy and collects; publication 1 still owes its event to subscribers 1 and 2 and delivers it -/
example :
    let progs : Nat → List (WOp Int) := fun t => if t = 0 then [.upd 0 (fun _ => some 1)] else if t = 1 then [.upd 1 (fun _ => some 2)] else []
    let pre : List Act := [.sub 0, .sub 1, .sub 2, .cancel 0, .commit 0, .commit 1, .snap 0, .snap 1, .deliver 1,
      .deliver 0, .deliver 0, .recv 1, .recv 2]
    let c := run (initCfg (fun _ => none) progs (fun _ => ⟨false, false, id, none⟩)) pre
    let c' := step c (.deliver 0)
    c.listeners = [0, 1, 2] ∧ c'.listeners = [1, 2] ∧
    c'.pubs.map (fun p => (p.owner, p.stage)) = [(1, some [1, 2])] ∧
    ((run c' [.deliver 0, .recv 1, .recv 2, .deliver 0, .recv 2]).subs 2).evs.map (·.seq) = [0, 1] := by
  decide

end ScVerif.C03
