import ScVerif.C03.Inv3
import ScVerif.C03.Props
/-!
# C03 — property theorems: resources with an equivalence (`WithEquivalence`, `WithMessageEquivalence`, `WithNoDuplicates`)

A resource created with an equivalence does not emit a change it judges equivalent:
`Collection.Pull` compares the change's OWN old and new value (after `include` and the read mask), `Value.Pull` compares
the value it SENT last with the new one (`Equiv.lean`: `dedupColl`, `dedupVal`).  The property must survive this: the
view folded from the events that ARE delivered has to be (equivalent to) what Get / List return.

`cmp` is `Comparer.Compare` on possibly absent messages; the theorems quantify over every `cmp` that is reflexive
(Value) / reflexive and transitive (Collection) — the explicit hypotheses; `cmp` need not be symmetric.  A `cmp` that
relates an absent message only to an absent one (`cmp.Equal`, and every comparer the check drives) makes "equivalent
views" imply "the same items"; with `cmp` = equality (`WithNoDuplicates` on exact bodies) the views are EQUAL
(`C03_converges_no_duplicates`).

Only property theorems and non-vacuity examples live in this file.
-/
namespace ScVerif.C03
open ScVerif.C02 (setAt)

variable {M : Type} [DecidableEq M]

omit [DecidableEq M] in
/-- **Collection forwarder with an equivalence — every linked stream.**  For ALL comparers that are reflexive and
transitive, include functions, read masks, start contents and change streams linked to them: folding only the changes
that pass `include`, the mask and the equivalence check (own old value vs new value) over the forwarded seed gives, id by
id, something equivalent to `project mask (filter include (fold changes contents))`. -/
theorem C03_forwarder_equivalence_collection (cmp : Option M → Option M → Bool) (hrefl : ∀ a, cmp a a = true)
    (htrans : ∀ a b c, cmp a b = true → cmp b c = true → cmp a c = true)
    (incl : Option (Nat → M → Bool)) (mask : M → M) (strict : Bool)
    (base : Nat → Option M) (evs : List (Event M)) (h : linkOK strict base evs) (i : Nat) :
    cmp ((dedupColl cmp (evs.filterMap (fwdEv incl mask))).foldl applyEv (seedView incl mask base) i)
      ((((evs.foldl applyEv base) i).filter (fun x => inclOpt incl i (some x))).map mask) = true := by
  have h1 := dedupColl_fold cmp hrefl htrans strict (evs.filterMap (fwdEv incl mask))
    (seedView incl mask base) (seedView incl mask base) (fun j => hrefl _) (fwd_linkOK incl mask strict evs base h) i
  rw [fwd_fold incl mask strict evs base h] at h1
  exact h1

omit [DecidableEq M] in
/-- **Value forwarder with an equivalence — EVERY stream (no linkage, no order needed).**  For all reflexive comparers
and every stream of changes of the single id `j`: folding only the changes not equivalent to the value sent last (`last`
starts as what the view holds for `j`, or as nil for an updates-only subscriber provided nil is never equivalent to a
change's value) leaves the view of `j` equivalent to the fold of ALL changes — in particular to the LAST change's value. -/
theorem C03_forwarder_equivalence_value (cmp : Option M → Option M → Bool) (hrefl : ∀ a, cmp a a = true)
    (j : Nat) (evs : List (Event M)) (hid : ∀ e, e ∈ evs → e.id = j) (last : Option M) (v : Nat → Option M)
    (hlast : v j = last ∨ (last = none ∧ ∀ e, e ∈ evs → cmp none e.new = false)) :
    cmp ((dedupVal cmp last evs).foldl applyEv v j) (evs.foldl applyEv v j) = true :=
  dedupVal_fold cmp hrefl j evs hid last v v hlast (hrefl _)

/-- **Convergence on a Collection with an equivalence, partial** (same runs as `C03_converges_observed`: every `ordered`
schedule, churn, any consumer pace, lossy or backpressured stage, any include function and read mask).  The stream a
live subscriber has RECEIVED is linked to its seed (each change's old value is what the view held, or it is a duplicate);
hence at every moment the view folded from the changes that survive the equivalence check is, id by id, equivalent to
the view folded from all of them; at quiescence, stage drained, to `project mask (filter include store)`. -/
theorem C03_converges_equiv_collection (cmp : Option M → Option M → Bool) (hrefl : ∀ a, cmp a a = true)
    (htrans : ∀ a b c, cmp a b = true → cmp b c = true → cmp a c = true)
    (s₀ : Nat → Option M) (progs : Nat → List (WOp M)) (opts : Nat → SubOpts M)
    (sched : List Act) (hord : ordered (initCfg s₀ progs opts) sched = true) :
    let c : Cfg M := run (initCfg s₀ progs opts) sched
    (∀ s, (c.subs s).live = true →
      linkOK false (c.subs s).base (c.subs s).evs ∧
      ∀ i, cmp ((c.subs s).obsViewEqColl cmp i) ((c.subs s).obsView i) = true) ∧
    (c.quiescent = true → ∀ s, (c.subs s).live = true → (c.subs s).pending = [] →
      ∀ i, cmp ((c.subs s).obsViewEqColl cmp i)
        (((c.store i).filter (fun x => inclOpt (c.subs s).incl i (some x))).map (c.subs s).mask) = true) := by
  intro c
  have hr := Rcv.run (Inv.init true s₀ progs opts) (Rcv.init s₀ progs opts) sched hord
  have hrel : ∀ s, (c.subs s).live = true →
      ∀ i, cmp ((c.subs s).obsViewEqColl cmp i) ((c.subs s).obsView i) = true := by
    intro s hs i
    have hl := hr s hs
    exact dedupColl_fold cmp hrefl htrans false (c.subs s).obs _ _ (fun j => hrefl _)
      (fwd_linkOK (c.subs s).incl (c.subs s).mask false (c.subs s).evs (c.subs s).base hl) i
  refine ⟨fun s hs => ⟨hr s hs, hrel s hs⟩, ?_⟩
  intro hq s hs hp i
  have := hrel s hs i
  rw [(C03_converges_observed s₀ progs opts sched hord).2 hq s hs hp] at this
  exact this

/-- **No duplicates: exact convergence.**  Same runs, `cmp` = equality of bodies (`WithNoDuplicates`): skipping the
changes whose masked old and new value are equal loses nothing — at quiescence, stage drained, the view folded from the
delivered changes IS `project mask (filter include store)`. -/
theorem C03_converges_no_duplicates (s₀ : Nat → Option M) (progs : Nat → List (WOp M)) (opts : Nat → SubOpts M)
    (sched : List Act) (hord : ordered (initCfg s₀ progs opts) sched = true) :
    let c : Cfg M := run (initCfg s₀ progs opts) sched
    c.quiescent = true → ∀ s, (c.subs s).live = true → (c.subs s).pending = [] →
      (c.subs s).obsViewEqColl (fun a b => decide (a = b)) = fun i =>
        ((c.store i).filter (fun x => inclOpt (c.subs s).incl i (some x))).map (c.subs s).mask := by
  intro c hq s hs hp
  funext i
  have := (C03_converges_equiv_collection (M := M) (fun a b => decide (a = b)) (by intro a; simp)
    (by intro a b c h1 h2; simp only [decide_eq_true_eq] at h1 h2 ⊢; rw [h1, h2]) s₀ progs opts sched hord).2 hq s hs hp i
  simpa using this

/-- **Convergence on a Value with an equivalence.**  For ALL schedules (no `ordered` needed for the first part), every
reflexive comparer and every live subscriber that has only received changes of the single id 0 (a `Value`): the view
folded from the changes `Value.Pull` lets through (those not equivalent to the value sent last; an updates-only
subscriber starts with nil, which the comparer must not relate to a value) is equivalent to the view folded from all
received changes; in an `ordered` run at quiescence, stage drained, to the masked stored value — so the LAST value
delivered is equivalent to the final value. -/
theorem C03_converges_equiv_value (cmp : Option M → Option M → Bool) (hrefl : ∀ a, cmp a a = true)
    (s₀ : Nat → Option M) (progs : Nat → List (WOp M)) (opts : Nat → SubOpts M) (sched : List Act) :
    let c : Cfg M := run (initCfg s₀ progs opts) sched
    ∀ s, (∀ e, e ∈ (c.subs s).obs → e.id = 0) →
      ((c.subs s).updatesOnly = true → ∀ e, e ∈ (c.subs s).obs → cmp none e.new = false) →
      cmp ((c.subs s).obsViewEqVal cmp 0) ((c.subs s).obsView 0) = true ∧
      (ordered (initCfg s₀ progs opts) sched = true → c.quiescent = true → (c.subs s).live = true →
        (c.subs s).pending = [] →
        cmp ((c.subs s).obsViewEqVal cmp 0)
          (((c.store 0).filter (fun x => inclOpt (c.subs s).incl 0 (some x))).map (c.subs s).mask) = true) := by
  intro c s hid huo
  have h1 : cmp ((c.subs s).obsViewEqVal cmp 0) ((c.subs s).obsView 0) = true := by
    apply C03_forwarder_equivalence_value cmp hrefl 0 (c.subs s).obs hid
    unfold Sub.valSeed
    cases hu : (c.subs s).updatesOnly with
    | false => left; simp
    | true => right; exact ⟨by simp, huo hu⟩
  refine ⟨h1, ?_⟩
  intro hord hq hs hp
  rw [(C03_converges_observed s₀ progs opts sched hord).2 hq s hs hp] at h1
  exact h1

/-- **An ADD is announced only for an item the subscriber does not hold.**  Same `ordered` runs: for every live LOSSY
subscriber the changes still owed to it (merge stage, then in flight) form a well-formed chain from its view: an ADD only
ever arrives for an id the view lacks at that point — the condition under which `mergeChanges` may cancel a pending ADD
against a following REMOVE.  (`Collection.Update` announces an UPDATE, not an ADD, when the item it set out to create
was created meanwhile.) -/
theorem C03_add_only_when_absent (s₀ : Nat → Option M) (progs : Nat → List (WOp M)) (opts : Nat → SubOpts M)
    (sched : List Act) (hord : ordered (initCfg s₀ progs opts) sched = true) :
    let c : Cfg M := run (initCfg s₀ progs opts) sched
    ∀ s, (c.subs s).live = true → (c.subs s).lossy = true →
      chainOK (c.subs s).rawView ((c.subs s).pending ++ inflight c s) := by
  intro c s hs hl
  exact ((Inv.init true s₀ progs opts).run sched hord).chain rfl s hs hl

/-! ### Non-vacuity: changes are really skipped, deletes and re-creations are not -/

/-- one writer: create 0 ↦ (2,4); write the same body; change only the second field; delete; re-create with the body
the subscriber had; an item leaves the included set and comes back with the same masked body -/
def eqProg : Nat → List (WOp (Int × Int)) := fun t =>
  if t = 0 then [.upd 0 (fun _ => some (2, 4)), .upd 0 (fun _ => some (2, 4)), .upd 0 (fun _ => some (2, 5)),
                 .del 0 (fun _ => true), .upd 0 (fun _ => some (2, 5)),
                 .upd 1 (fun _ => some (4, 1)), .upd 1 (fun _ => some (3, 1)), .upd 1 (fun _ => some (6, 1))] else []

def eqSched : List Act :=
  [.sub 0, .sub 1,
   .commit 0, .snap 0, .deliver 0, .recv 0, .deliver 0, .recv 1, .commit 0, .snap 0, .deliver 0, .recv 0, .deliver 0, .recv 1,
   .commit 0, .snap 0, .deliver 0, .recv 0, .deliver 0, .recv 1, .commit 0, .deliver 0, .recv 0, .deliver 0, .recv 1,
   .commit 0, .snap 0, .deliver 0, .recv 0, .deliver 0, .recv 1, .commit 0, .snap 0, .deliver 0, .recv 0, .deliver 0, .recv 1,
   .commit 0, .snap 0, .deliver 0, .recv 0, .deliver 0, .recv 1, .commit 0, .snap 0, .deliver 0, .recv 0, .deliver 0, .recv 1]

/-- subscriber 0: no mask, no include; subscriber 1: include = first field even, mask keeps the second field -/
def eqOpts : Nat → SubOpts (Int × Int) := fun s =>
  if s = 0 then ⟨false, false, id, none⟩ else ⟨false, false, onlySecond, evenFirst⟩

def eqRun : Cfg (Int × Int) := run (initCfg (fun _ => none) eqProg eqOpts) eqSched

set_option maxRecDepth 8000 in
/-- exact equivalence: the equal rewrite is skipped, the REMOVE and the re-creation with the same body are delivered;
through the mask the change of the hidden field is skipped too; the item that leaves the included set and returns with the
same masked body is REMOVEd and ADDed again.  Both views are exactly the masked included store. -/
example :
    ordered (initCfg (fun _ => none) eqProg eqOpts) eqSched = true ∧ eqRun.quiescent = true ∧
    ((eqRun.subs 0).obsEqColl (fun a b => decide (a = b))).map (fun e => (e.id, e.new)) =
      [(0, some (2, 4)), (0, some (2, 5)), (0, none), (0, some (2, 5)), (1, some (4, 1)), (1, some (3, 1)), (1, some (6, 1))] ∧
    (eqRun.subs 0).obs.length = 8 ∧
    ((eqRun.subs 1).obsEqColl (fun a b => decide (a = b))).map (fun e => (e.id, e.new)) =
      [(0, some (0, 4)), (0, some (0, 5)), (0, none), (0, some (0, 5)), (1, some (0, 1)), (1, none), (1, some (0, 1))] ∧
    (eqRun.subs 1).obsViewEqColl (fun a b => decide (a = b)) 0 = some (0, 5) ∧
    (eqRun.subs 1).obsViewEqColl (fun a b => decide (a = b)) 1 = some (0, 1) ∧
    eqRun.store 0 = some (2, 5) ∧ eqRun.store 1 = some (6, 1) := by
  decide

/-- a Value (single id 0, no deletes) with the equivalence "same first field": of the writes (1,1) (1,2) (2,2) (2,3) (1,3)
only those that change the first field relative to the value sent last are delivered; the last delivered value (1,3) is
the final value here, and in general equivalent to it -/
example :
    let progs : Nat → List (WOp (Int × Int)) := fun t =>
      if t = 0 then [.upd 0 (fun _ => some (1, 2)), .upd 0 (fun _ => some (2, 2)), .upd 0 (fun _ => some (2, 3)),
                     .upd 0 (fun _ => some (1, 3)), .upd 0 (fun _ => some (1, 4))] else []
    let cmp : Option (Int × Int) → Option (Int × Int) → Bool := fun a b =>
      match a, b with | none, none => true | some x, some y => x.1 == y.1 | _, _ => false
    let sched : List Act :=
      [.sub 0, .commit 0, .snap 0, .deliver 0, .recv 0, .commit 0, .snap 0, .deliver 0, .recv 0,
       .commit 0, .snap 0, .deliver 0, .recv 0, .commit 0, .snap 0, .deliver 0, .recv 0, .commit 0, .snap 0, .deliver 0, .recv 0]
    let c := run (initCfg (fun i => if i = 0 then some (1, 1) else none) progs (fun _ => ⟨false, true, id, none⟩)) sched
    ((c.subs 0).obsEqVal cmp).map (·.new) = [some (2, 2), some (1, 3)] ∧ (c.subs 0).obsViewEqVal cmp 0 = some (1, 3) ∧
    c.store 0 = some (1, 4) ∧ (c.subs 0).obs.length = 5 := by
  decide

end ScVerif.C03
