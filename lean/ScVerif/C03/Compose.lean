import ScVerif.C03.Model
/-!
# C03 — an adapter that COMPOSES one message from the stream of a `Collection.Pull`

Follows `/repo/pkg/trait/openclosepb/model.go`, `(*Model).PullPositions`: the goroutine subscribes to the items
(`m.positions.Pull(ctx)` — with its seed events, whatever the caller's own updates-only flag), keeps `all`, the map
of every item it has been told about, and after each change composes ONE message from the whole map (`compose`: ids
sorted, preset derived from the states, the caller's response filter — any function of the map) which it sends unless
it equals the message sent last.

* `emp`: `len(m.positions.List()) == 0` right after subscribing: seeding is over already; a caller that is not
  updates-only is sent the (empty) composed message at once.
* per change: `all[id] = NewValue` (`delete` for a REMOVE); `seenAll` becomes true with the first change that is not a
  seed value; `shouldSend := seenAll || (LastSeedValue && !UpdatesOnly)`; `seenAll` also becomes true with the last
  seed value; then compose, compare with `last`, send.
-/
namespace ScVerif.C03.Compose
open ScVerif.C02 (setAt setAt_same setAt_other)
open ScVerif.C03

/-- a `*resource.CollectionChange` as the adapter reads it -/
structure Chg (M : Type) where
  id : Nat
  /-- `NewValue` (`none`: a REMOVE) -/
  new : Option M
  seed : Bool
  lastSeed : Bool

variable {M P : Type}

def applyChg (v : Nat → Option M) (c : Chg M) : Nat → Option M := setAt v c.id c.new

/-- a change published by a write, as it arrives on the inner stream -/
def ofEvent (e : Event M) : Chg M := ⟨e.id, e.new, false, false⟩

structure St (M P : Type) where
  all : Nat → Option M
  seenAll : Bool
  last : Option P
  /-- the messages sent to the caller, in order -/
  out : List P

/-- `if eq(last, positions) { continue }; last = positions; send <- positions` -/
def emit [DecidableEq P] (st : St M P) (p : P) : St M P :=
  if st.last = some p then st else { st with last := some p, out := st.out ++ [p] }

def init [DecidableEq P] (compose : (Nat → Option M) → P) (uo emp : Bool) : St M P :=
  if emp && !uo then ⟨fun _ => none, true, some (compose (fun _ => none)), [compose (fun _ => none)]⟩
  else ⟨fun _ => none, emp, none, []⟩

def stepAd [DecidableEq P] (compose : (Nat → Option M) → P) (uo : Bool) (st : St M P) (c : Chg M) : St M P :=
  let all' := applyChg st.all c
  let seen1 := st.seenAll || !c.seed
  let should := seen1 || (c.lastSeed && !uo)
  let st' : St M P := { st with all := all', seenAll := seen1 || c.lastSeed }
  if should then emit st' (compose all') else st'

def runFrom [DecidableEq P] (compose : (Nat → Option M) → P) (uo : Bool) (st : St M P) (cs : List (Chg M)) : St M P :=
  cs.foldl (stepAd compose uo) st

/-- the adapter's goroutine over the whole inner stream -/
def runAd [DecidableEq P] (compose : (Nat → Option M) → P) (uo emp : Bool) (cs : List (Chg M)) : St M P :=
  runFrom compose uo (init compose uo emp) cs

/-- the variant that forwards the caller's updates-only flag to the inner `Pull`: the seed events never arrive -/
def runAdNoSeeds [DecidableEq P] (compose : (Nat → Option M) → P) (uo emp : Bool) (cs : List (Chg M)) : St M P :=
  runAd compose uo emp (if uo then cs.filter (fun c => !c.seed) else cs)

/-! ### lemmas -/

theorem emit_all [DecidableEq P] (st : St M P) (p : P) : (emit st p).all = st.all := by
  unfold emit; split <;> rfl

theorem emit_seenAll [DecidableEq P] (st : St M P) (p : P) : (emit st p).seenAll = st.seenAll := by
  unfold emit; split <;> rfl

theorem emit_last [DecidableEq P] (st : St M P) (p : P) : (emit st p).last = some p := by
  unfold emit; split
  · assumption
  · rfl

theorem stepAd_all [DecidableEq P] (compose : (Nat → Option M) → P) (uo : Bool) (st : St M P) (c : Chg M) :
    (stepAd compose uo st c).all = applyChg st.all c := by
  unfold stepAd; simp only; split
  · rw [emit_all]
  · rfl

theorem runFrom_all [DecidableEq P] (compose : (Nat → Option M) → P) (uo : Bool) (cs : List (Chg M)) :
    ∀ st : St M P, (runFrom compose uo st cs).all = cs.foldl applyChg st.all := by
  induction cs with
  | nil => intro st; rfl
  | cons c cs ih => intro st; simp only [runFrom, List.foldl_cons] at ih ⊢; rw [ih, stepAd_all]

theorem init_all [DecidableEq P] (compose : (Nat → Option M) → P) (uo emp : Bool) :
    (init compose uo emp : St M P).all = fun _ => none := by
  unfold init; split <;> rfl

/-- "the message sent last is the composition of everything the adapter has been told" -/
def Tracks [DecidableEq P] (compose : (Nat → Option M) → P) (st : St M P) : Prop :=
  st.seenAll = true ∧ st.last = some (compose st.all)

/-- a change that must be announced: an update, or the last seed value for a caller that wants the current value -/
def trigger (uo : Bool) (c : Chg M) : Bool := !c.seed || (c.lastSeed && !uo)

theorem stepAd_tracks [DecidableEq P] (compose : (Nat → Option M) → P) (uo : Bool) (st : St M P) (c : Chg M)
    (h : Tracks compose st ∨ trigger uo c = true) : Tracks compose (stepAd compose uo st c) := by
  have hshould : ((st.seenAll || !c.seed) || (c.lastSeed && !uo)) = true := by
    rcases h with h | h
    · simp [h.1]
    · unfold trigger at h
      cases hs : st.seenAll <;> cases hc : c.seed <;> cases hl : c.lastSeed <;> cases hu : uo <;> simp_all
  unfold stepAd; simp only [hshould, if_true]
  refine ⟨?_, ?_⟩
  · rw [emit_seenAll]
    cases hs : st.seenAll <;> cases hc : c.seed <;> cases hl : c.lastSeed <;> cases hu : uo <;> simp_all
  · rw [emit_last, emit_all]

theorem runFrom_tracks [DecidableEq P] (compose : (Nat → Option M) → P) (uo : Bool) (cs : List (Chg M)) :
    ∀ st : St M P, (Tracks compose st ∨ cs.any (trigger uo) = true) → Tracks compose (runFrom compose uo st cs) := by
  induction cs with
  | nil => intro st h; rcases h with h | h
           · exact h
           · simp at h
  | cons c cs ih =>
    intro st h
    simp only [runFrom, List.foldl_cons]
    apply ih
    rcases h with h | h
    · exact Or.inl (stepAd_tracks compose uo st c (Or.inl h))
    · simp only [List.any_cons, Bool.or_eq_true] at h
      rcases h with h | h
      · exact Or.inl (stepAd_tracks compose uo st c (Or.inr h))
      · exact Or.inr h

/-- nothing has been sent and nothing is remembered as sent -/
def Silent (st : St M P) : Prop := st.last = none ∧ st.out = []

theorem stepAd_silent [DecidableEq P] (compose : (Nat → Option M) → P) (st : St M P) (c : Chg M)
    (hs : st.seenAll = false) (hq : Silent st) (hc : c.seed = true) :
    Silent (stepAd compose true st c) ∧ ((stepAd compose true st c).seenAll = true → c.lastSeed = true) := by
  unfold stepAd; simp only [hs, hc]
  simp only [Bool.not_true, Bool.or_self, Bool.and_false, Bool.false_or, Bool.false_eq_true, if_false]
  exact ⟨hq, fun h => h⟩

/-- the messages sent never repeat the one before -/
def stutterFree [DecidableEq P] : List P → Bool
  | a :: b :: r => a != b && stutterFree (b :: r)
  | _ => true

theorem stutterFree_append [DecidableEq P] (p : P) :
    ∀ l : List P, stutterFree l = true → l.getLast? ≠ some p → stutterFree (l ++ [p]) = true := by
  intro l
  induction l with
  | nil => intro _ _; rfl
  | cons a l ih =>
    intro h hl
    cases l with
    | nil =>
      simp only [List.getLast?_singleton, ne_eq, Option.some.injEq] at hl
      simp [stutterFree, hl]
    | cons b r =>
      simp only [stutterFree, Bool.and_eq_true] at h
      have hl' : (b :: r).getLast? ≠ some p := by
        simpa [List.getLast?_cons_cons] using hl
      have := ih h.2 hl'
      simp only [List.cons_append, stutterFree, Bool.and_eq_true]
      exact ⟨h.1, by simpa using this⟩

/-- invariant: `last` is the message sent last, and no message repeats its predecessor -/
def OutInv [DecidableEq P] (st : St M P) : Prop :=
  st.out.getLast? = st.last ∧ stutterFree st.out = true

theorem emit_outInv [DecidableEq P] (st : St M P) (p : P) (h : OutInv st) : OutInv (emit st p) := by
  unfold emit; split
  · exact h
  · rename_i hne
    refine ⟨by simp, ?_⟩
    exact stutterFree_append p st.out h.2 (by rw [h.1]; exact hne)

theorem stepAd_outInv [DecidableEq P] (compose : (Nat → Option M) → P) (uo : Bool) (st : St M P) (c : Chg M)
    (h : OutInv st) : OutInv (stepAd compose uo st c) := by
  unfold stepAd; simp only; split
  · exact emit_outInv _ _ h
  · exact h

theorem runFrom_outInv [DecidableEq P] (compose : (Nat → Option M) → P) (uo : Bool) (cs : List (Chg M)) :
    ∀ st : St M P, OutInv st → OutInv (runFrom compose uo st cs) := by
  induction cs with
  | nil => intro st h; exact h
  | cons c cs ih => intro st h; simp only [runFrom, List.foldl_cons]; exact ih _ (stepAd_outInv compose uo st c h)

theorem init_outInv [DecidableEq P] (compose : (Nat → Option M) → P) (uo emp : Bool) :
    OutInv (init compose uo emp : St M P) := by
  unfold init; split
  · exact ⟨by simp, rfl⟩
  · exact ⟨by simp, rfl⟩

end ScVerif.C03.Compose
